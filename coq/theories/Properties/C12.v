(** Property C12: help and usage always render, list every visible item and nothing hidden.
    This file contains only the pinned statements; proofs live in Help/HelpProofs.v, Help/HelpLevel.v.

    Reading guide.  [write_help dw c use_long w] is the help screen of a *built* command (any level),
    [render_help] builds first ([Command::render_help]/[render_long_help]), [help_at] is the DisplayHelp
    error of [bin path.. -h|--help] / [bin help path..]; [None] is a panic (unsigned subtraction, [expect],
    [debug_assert], a [{:width$}] above the u16 limit).  [dw] is the display-width function (arbitrary).
    [cmd_ok dw c]: the arguments are built ([arg_ok]: the number of values is resolved, a positional takes
    a value and has an index) and every rendered left column is at most 65 523 columns wide (observation N:
    core::fmt limits run-time widths to u16; the bound is 65 535 - 12).
    [refs_ok c] (round 3, groups and [requires]): group ids are unique, every group member is an argument,
    every id named by a [requires] rule of an argument or of a group exists -- what debug_asserts.rs checks. *)
From ClapModel Require Import Base.Bytes Base.Machine Parse.Cmd Parse.Build Parse.Valid Parse.Matcher Parse.Errors Parse.Validator Parse.Parser.
From ClapModel Require Import ParseProofs.Spelling.
From ClapModel Require ParseProofs.Dispatch ParseProofs.ChainWide Complete.EngineProofs Complete.EngineLevel.
From ClapModel Require Import Gen.HelpTables Help.UsageModel Help.HelpModel Help.HelpReqs Help.HelpProofs Help.HelpLevel Help.HelpSpecVals Help.HelpDispatch Help.HelpUsage Help.HelpGlobals Help.HelpTemplate Help.HelpHeadings Help.HelpRefsBuild Help.HelpFlagGen Help.HelpUnbuilt Help.HelpChainWide Help.HelpSubcommand Help.HelpUsageExact Help.HelpFlatten Help.HelpFlattenProofs Help.HelpFlattenExamples.
From RecordUpdate Require Import RecordSet.
Import RecordSetNotations.
Open Scope N_scope.

(** no panic, for every command, width, mode and display-width function *)
Theorem C12_padding_safe : forall dw c use_long w, cmd_ok dw c -> refs_ok c = true -> write_help dw c use_long w <> None.
Proof. exact padding_safe. Qed.
Print Assumptions C12_padding_safe.

Theorem C12_render_total : forall dw c use_long w,
  hc_built c = false -> spec_ok c -> widths_ok dw (h_build_self c) -> refs_ok (h_build_self c) = true ->
  render_help dw c use_long w <> None /\ render_usage c <> None.
Proof. exact render_total. Qed.
Print Assumptions C12_render_total.

(** the padding of every row is bounded by a quantity that does not depend on the width *)
Theorem C12_padding_bounded : forall dw c use_long w s sec r,
  cmd_ok dw c -> write_help dw c use_long w = Some s -> In sec (scr_sections s) -> In r (s_rows sec) ->
  r_pad r <= width_bound dw c + 6.
Proof. exact padding_bounded. Qed.
Print Assumptions C12_padding_bounded.

(** every argument that is shown in the rendered mode has a row in its section (ids distinct) *)
Theorem C12_lists_visible_args : forall dw c use_long w s a,
  NoDup (map ha_id (hc_args c)) -> write_help dw c use_long w = Some s ->
  In a (hc_args c) -> should_show_arg use_long a = true ->
  exists sec r, In sec (scr_sections s) /\ s_title sec = arg_section_title a /\ In r (s_rows sec) /\ r_id r = ha_id a.
Proof. exact lists_visible_args. Qed.
Print Assumptions C12_lists_visible_args.

(** every subcommand that is not hidden has a row under Commands (renderings distinct) *)
Theorem C12_lists_visible_subs : forall dw c use_long w s sc,
  NoDup (map sc_str (hc_subs c)) -> write_help dw c use_long w = Some s ->
  In sc (hc_subs c) -> hc_hide sc = false -> hc_name sc <> s_help ->
  exists sec r, In sec (scr_sections s) /\ s_title sec = sub_section_title c /\ In r (s_rows sec) /\ r_id r = hc_name sc.
Proof. exact lists_visible_subs. Qed.
Print Assumptions C12_lists_visible_subs.

(** every row comes from an argument shown in this mode (with only non-hidden possible values) or
    from a subcommand that is not hidden *)
Theorem C12_hides_hidden_rows : forall dw c use_long w s sec r,
  cmd_ok dw c -> write_help dw c use_long w = Some s -> In sec (scr_sections s) -> In r (s_rows sec) ->
  (exists a, In a (hc_args c) /\ should_show_arg use_long a = true /\ r_id r = ha_id a
             /\ forall p, In p (r_pvs r) -> exists pv, In pv (ha_pvs a) /\ pv_hide pv = false /\ pv_name pv = p)
  \/ (exists sc, In sc (hc_subs c) /\ hc_hide sc = false /\ r_id r = hc_name sc /\ r_pvs r = []).
Proof. exact hides_hidden_rows. Qed.
Print Assumptions C12_hides_hidden_rows.

Theorem C12_hidden_not_shown : forall use_long a,
  (ha_hide a = true \/ (use_long = true /\ ha_hide_long a = true) \/ (use_long = false /\ ha_hide_short a = true)) ->
  should_show_arg use_long a = false.
Proof. exact hidden_not_shown. Qed.
Print Assumptions C12_hidden_not_shown.

(** a hidden argument that is optional -- not required, and named by no unconditional [requires] rule of an
    argument nor as / by a required group ([req_srcb] = false; round 3) -- contributes no piece of the usage
    line, in either form ([force_optional] = the second line under [subcommand_negates_reqs]) *)
Theorem C12_usage_hides_hidden : forall c fo items a,
  NoDup (map ha_id (hc_args c)) -> args_ok c -> refs_ok c = true -> usage_arg_items c fo = Some items ->
  In a (hc_args c) -> ha_hide a = true -> req_srcb c (ha_id a) = false -> find_group (pcmd_of c) (ha_id a) = None ->
  ~ In (ha_id a) (map fst items).
Proof. exact usage_hides_hidden. Qed.
Print Assumptions C12_usage_hides_hidden.

(** the help error of a path renders the level the path leads to *)
Theorem C12_help_level : forall dw root path use_long w s,
  help_at dw root path use_long w = Some (Some s) ->
  exists lv, level_walk (h_build_self (root <| hc_bin_name := Some (opt_default (hc_name root) (hc_bin_name root)) |>)) path
             = Some (Some lv)
             /\ write_help dw lv (use_long && hc_long_help_exists lv) w = Some s
             /\ scr_about s = write_about (use_long && hc_long_help_exists lv) lv.
Proof. exact help_level. Qed.
Print Assumptions C12_help_level.

(** parser model: the DisplayHelp error raised by a level's parser / by [help <path>] names that level *)
Theorem C12_parser_help_err_level : forall c use_long,
  e_kind (help_err c use_long) = EDisplayHelp /\ e_cmd (help_err c use_long) = opt_default [] (c_about c)
  /\ e_long (help_err c use_long) = use_long.
Proof. exact help_err_level. Qed.
Print Assumptions C12_parser_help_err_level.

Theorem C12_parser_help_walk_level : forall names c,
  e_kind (help_walk c names) = EDisplayHelp ->
  exists lv, p_level_walk c names = Some lv
             /\ e_cmd (help_walk c names) = opt_default [] (c_about lv) /\ e_long (help_walk c names) = true.
Proof. exact help_walk_level. Qed.
Print Assumptions C12_parser_help_walk_level.

(** the three defects of the unchanged tree, as witnesses against the pre-repair definitions *)
Theorem C12_padding_unsafe_before_fix :
  exists a L, arg_ok a = true /\ wa_longest_orig len [a] 2 = Some L
              /\ align_to_about len (mkCtx false 80 false) a false L = None.
Proof. exact padding_unsafe_before_fix. Qed.
Print Assumptions C12_padding_unsafe_before_fix.

Theorem C12_sort_key_collision_before_fix :
  option_sort_key flag_a = option_sort_key flag_a0
  /\ map (fun p => ha_id (snd p)) (wa_ord_orig option_sort_key [flag_a; flag_a0]) = [[98]]
  /\ map (fun p => ha_id (snd p)) (wa_ord option_sort_key [flag_a; flag_a0]) = [[97]; [98]].
Proof. exact sort_key_collision_before_fix. Qed.
Print Assumptions C12_sort_key_collision_before_fix.

Theorem C12_next_line_override_before_fix :
  should_show_arg_orig false hidden_next_line = true /\ should_show_arg false hidden_next_line = false.
Proof. exact next_line_override_before_fix. Qed.
Print Assumptions C12_next_line_override_before_fix.

(** non-vacuity: a command with hidden and visible items satisfies every hypothesis above *)
Theorem C12_hypotheses_satisfiable :
  hc_built ex_cmd = false /\ spec_ok ex_cmd /\ cmd_ok len (h_build_self ex_cmd)
  /\ NoDup (map ha_id (hc_args (h_build_self ex_cmd))) /\ NoDup (map sc_str (hc_subs (h_build_self ex_cmd))).
Proof. exact ex_cmd_hyps. Qed.
Theorem C12_hypotheses_satisfiable_refs : refs_ok (h_build_self ex_cmd) = true.
Proof. exact ex_cmd_refs. Qed.
Print Assumptions C12_hypotheses_satisfiable_refs.
Print Assumptions C12_hypotheses_satisfiable.

(** ---- round 2: [spec_vals] (env, defaults, aliases, possible values) ---- *)

(** nothing hidden appears anywhere: two commands that differ only in hidden possible values (name, help),
    in aliases / short aliases that are not visible, in the env entry under [hide_env], the env value under
    [hide_env_values] or the defaults under [hide_default_value] ([erase_cmd] blanks exactly these) render the
    same screen, in every mode, at every width, for every display-width function (panic included) *)
Theorem C12_hidden_content_noninterference : forall dw c c' use_long w,
  erase_cmd c = erase_cmd c' -> write_help dw c use_long w = write_help dw c' use_long w.
Proof. exact hidden_content_noninterference. Qed.
Print Assumptions C12_hidden_content_noninterference.

(** every row of every section is the row of a shown argument, carrying exactly [spec_vals use_long a] as its
    spec text and the names of the not-hidden values as its long-form list, or a subcommand row without either *)
Theorem C12_row_spec_vals : forall dw c use_long w s sec r,
  write_help dw c use_long w = Some s -> In sec (scr_sections s) -> In r (s_rows sec) ->
  (exists a, In a (hc_args c) /\ should_show_arg use_long a = true /\ r_id r = ha_id a
             /\ r_spec r = spec_vals use_long a /\ r_long_pvs r = long_list use_long a)
  \/ (exists sc, In sc (hc_subs c) /\ hc_hide sc = false /\ r_id r = hc_name sc /\ r_spec r = [] /\ r_long_pvs r = []).
Proof. exact row_spec_vals. Qed.
Print Assumptions C12_row_spec_vals.

(** every possible value that is not hidden is listed in the row of its argument when the argument is shown
    and [hide_possible_values] is off *)
Theorem C12_visible_pv_listed : forall dw c use_long w s a pv,
  NoDup (map ha_id (hc_args c)) -> write_help dw c use_long w = Some s ->
  In a (hc_args c) -> should_show_arg use_long a = true -> ha_hide_pv a = false ->
  In pv (ha_possible_values a) -> pv_hide pv = false ->
  exists sec r, In sec (scr_sections s) /\ s_title sec = arg_section_title a /\ In r (s_rows sec) /\ r_id r = ha_id a
    /\ r_spec r = intercalate (if use_long then [10] else [32]) (spec_vals_list use_long a)
    /\ ((use_long_pv use_long a = true /\ In (pv_name pv) (r_long_pvs r))
        \/ (use_long_pv use_long a = false
            /\ In (s_pv_open ++ intercalate [44; 32] (pv_quoted_names a) ++ [93]) (spec_vals_list use_long a)
            /\ In (quote_if_ws (pv_name pv)) (pv_quoted_names a))).
Proof. exact visible_pv_listed. Qed.
Print Assumptions C12_visible_pv_listed.

(** the values a row lists are values that are not hidden (both forms) *)
Theorem C12_listed_pv_visible : forall use_long a n,
  (In n (long_list use_long a) \/ In n (pv_quoted_names a)) ->
  exists pv, In pv (ha_pvs a) /\ pv_hide pv = false /\ (pv_name pv = n \/ quote_if_ws (pv_name pv) = n).
Proof. exact listed_pv_visible. Qed.
Print Assumptions C12_listed_pv_visible.

(** non-vacuity: two built commands that differ in hidden content only; every hypothesis above holds *)
Theorem C12_spec_vals_satisfiable :
  erase_cmd sv_cmd = erase_cmd sv_cmd' /\ sv_cmd <> sv_cmd'
  /\ NoDup (map ha_id (hc_args sv_cmd)) /\ cmd_ok len sv_cmd
  /\ (exists a pv, In a (hc_args sv_cmd) /\ should_show_arg false a = true /\ ha_hide_pv a = false
                   /\ In pv (ha_possible_values a) /\ pv_hide pv = false).
Proof. exact sv_hyps5. Qed.
Print Assumptions C12_spec_vals_satisfiable.

(** observation: a default value that names a hidden possible value is printed ([default: sec]) *)
Theorem C12_default_names_hidden_pv :
  exists a pv, In pv (ha_pvs a) /\ pv_hide pv = true
    /\ spec_vals false a = s_default_open ++ pv_name pv ++ [93; 32] ++ s_pv_open ++ [97; 93].
Proof. exact default_names_hidden_pv. Qed.
Print Assumptions C12_default_names_hidden_pv.

(** ---- round 2: the help flag yields the help of the level it was given at (parser model) ---- *)

(** [bin name_1 .. name_k --help anything..]: when the names form a chain of subcommand names / aliases
    ([help_chain]: UTF-8 names, no inference / ignore_errors on the way, not the generated [help] subcommand,
    aliases resolve consistently) and [--help] is a help flag of the level [lv] the chain ends at
    ([long_help_at]), [try_get_matches_from] returns the DisplayHelp error of [lv] -- the level
    [p_level_walk] reaches -- in the mode the flag's action asks for, whatever follows the flag *)
Theorem C12_help_flag_long_level : forall c0 bin names rest lv ul,
  is_set s_no_binary_name c0 = false -> c_bin_name c0 <> None ->
  valid c0 = true -> help_chain (build_self c0) names = Some lv -> long_help_at lv ul = true ->
  parse_top c0 (bin :: names ++ tok_help_long :: rest) = OErr (help_err lv ul)
  /\ p_level_walk (build_self c0) names = Some lv
  /\ e_kind (help_err lv ul) = EDisplayHelp /\ e_cmd (help_err lv ul) = opt_default [] (c_about lv)
  /\ e_long (help_err lv ul) = ul.
Proof. exact help_flag_long_level. Qed.
Print Assumptions C12_help_flag_long_level.

(** the same for [-h] *)
Theorem C12_help_flag_short_level : forall c0 bin names rest lv ul,
  is_set s_no_binary_name c0 = false -> c_bin_name c0 <> None ->
  valid c0 = true -> help_chain (build_self c0) names = Some lv -> short_help_at lv ul = true ->
  parse_top c0 (bin :: names ++ tok_help_short :: rest) = OErr (help_err lv ul)
  /\ p_level_walk (build_self c0) names = Some lv
  /\ e_kind (help_err lv ul) = EDisplayHelp /\ e_cmd (help_err lv ul) = opt_default [] (c_about lv)
  /\ e_long (help_err lv ul) = ul.
Proof. exact help_flag_short_level. Qed.
Print Assumptions C12_help_flag_short_level.

(** non-vacuity: a three-level command, a chain through an alias, [--help] followed by an unknown flag *)
Theorem C12_help_chain_satisfiable :
  is_set s_no_binary_name hd_root = false /\ c_bin_name hd_root <> None /\ valid hd_root = true
  /\ exists lv, help_chain (build_self hd_root) hd_names = Some lv /\ c_about lv = Some [116; 45; 97; 98]
                /\ long_help_at lv true = true /\ short_help_at lv false = true
                /\ parse_top hd_root ([112] :: hd_names ++ tok_help_long :: [[45; 45; 98; 111; 103; 117; 115]])
                   = OErr (help_err lv true)
                /\ parse_top hd_root ([112] :: hd_names ++ tok_help_short :: []) = OErr (help_err lv false).
Proof. exact hd_hyps. Qed.
Print Assumptions C12_help_chain_satisfiable.

(** ---- rounds 2 and 3: the usage line (groups, [requires], the subcommand forms) ---- *)

(** the usage line never panics: for every built command whose references resolve, [write_help_usage]
    (without [flatten_help]) returns its pieces -- the worklists of [unroll_arg_requires] /
    [unroll_args_in_group] terminate, the [expect] of the group lookup, both [debug_assert!]s of
    [write_args], [pos.get_index().unwrap()] and the [debug_assert!] of [render_arg_val] are not reached *)
Theorem C12_usage_total : forall c, args_ok c -> refs_ok c = true -> usage_pieces c <> None.
Proof. exact usage_total. Qed.
Print Assumptions C12_usage_total.

(** where every piece of [Usage::write_args] comes from: an argument among the unrolled requirements that
    is not a member of a listed group, a positional that is not hidden (nor such a member), or a group among
    the requirements, written by [format_group] *)
Theorem C12_usage_piece_sources : forall c fo, args_ok c -> refs_ok c = true ->
  exists items, usage_arg_items c fo = Some items /\ forall x, In x items -> usage_src c x.
Proof. exact usage_arg_items_spec. Qed.
Print Assumptions C12_usage_piece_sources.

(** every required argument is mentioned: inside the [<a|b>] piece of a listed group it is a member of,
    else by a piece of its own (positional: its slot; option: its rendered text) *)
Theorem C12_usage_mentions_required : forall c a,
  NoDup (map ha_id (hc_args c)) -> In a (hc_args c) ->
  (forall b i, In b (hc_args c) -> ha_index b = Some i -> ha_index a = Some i -> ha_id b = ha_id a) ->
  forall items, args_ok c -> refs_ok c = true -> usage_arg_items c false = Some items -> ha_required a = true ->
  if mem_id (ha_id a) (usage_members c)
  then exists g gm txt, In g (usage_reqs c) /\ unroll_args_in_group (pcmd_of c) g = Some gm /\ In (ha_id a) gm
                        /\ format_group c g = Some txt /\ In txt (map snd items)
  else match ha_index a with
       | Some _ => In (ha_id a) (map fst items)
       | None => forall s, stylized a (Some true) = Some s -> In s (map snd items)
       end.
Proof. exact usage_mentions_required. Qed.
Print Assumptions C12_usage_mentions_required.

(** round 2's statement for positionals, for commands with groups *)
Theorem C12_usage_lists_required_positionals : forall c items a,
  NoDup (map ha_id (hc_args c)) -> args_ok c -> refs_ok c = true -> usage_arg_items c false = Some items ->
  In a (hc_args c) -> ha_is_positional a = true -> ha_required a = true ->
  mem_id (ha_id a) (usage_members c) = false ->
  (forall b, In b (hc_args c) -> ha_index b = ha_index a -> ha_id b = ha_id a) ->
  In (ha_id a) (map fst items).
Proof. exact usage_lists_required_positionals. Qed.
Print Assumptions C12_usage_lists_required_positionals.

(** non-vacuity: required group [<--a|--b <b>>], [--r] requires [--x], hidden optional [--z], required
    positional [f], optional hidden [last] positional [l]: every hypothesis of the three theorems holds *)
Theorem C12_usage_required_satisfiable :
  NoDup (map ha_id (hc_args rq_built)) /\ args_ok rq_built /\ refs_ok rq_built = true
  /\ (exists items, usage_arg_items rq_built false = Some items)
  /\ In (rq_arg 4) (hc_args rq_built) /\ ha_hide (rq_arg 4) = true /\ req_srcb rq_built (ha_id (rq_arg 4)) = false
  /\ find_group (pcmd_of rq_built) (ha_id (rq_arg 4)) = None
  /\ In (rq_arg 6) (hc_args rq_built) /\ ha_hide (rq_arg 6) = true /\ ha_last (rq_arg 6) = true
  /\ req_srcb rq_built (ha_id (rq_arg 6)) = false /\ find_group (pcmd_of rq_built) (ha_id (rq_arg 6)) = None
  /\ ha_required (rq_arg 2) = true /\ ha_required (rq_arg 5) = true
  /\ mem_id (ha_id (rq_arg 2)) (usage_members rq_built) = false
  /\ mem_id (ha_id (rq_arg 0)) (usage_members rq_built) = true
  /\ (forall b i, In b (hc_args rq_built) -> ha_index b = Some i -> ha_index (rq_arg 5) = Some i -> ha_id b = ha_id (rq_arg 5)).
Proof. exact rq_hyps. Qed.
Print Assumptions C12_usage_required_satisfiable.

(** its usage line: [p [OPTIONS] --x --r <r> <--a|--b <b>> <f>] (neither [--z] nor [[-- <l>...]]) *)
Theorem C12_usage_required_example :
  usage_pieces rq_built
  = Some [[112]; s_options_tag; [45; 45; 120]; [45; 45; 114; 32; 60; 114; 62];
          [60; 45; 45; 97; 124; 45; 45; 98; 32; 60; 98; 62; 62]; [60; 102; 62]].
Proof. exact rq_usage. Qed.
Print Assumptions C12_usage_required_example.

(** the subcommand forms ([subcommand_value_name] = V): [[V]], [<V>] under [subcommand_required], a second
    line [p [f] <V>] under [subcommand_negates_reqs], [p <V>] under [args_conflicts_with_subcommands] *)
Theorem C12_usage_subcommand_forms :
  usage_pieces (h_build_self (sf_cmd false false false))
    = Some [[112]; [45; 45; 114; 32; 60; 114; 62]; [60; 102; 62]; [91; 86; 93]]
  /\ usage_pieces (h_build_self (sf_cmd false false true))
    = Some [[112]; [45; 45; 114; 32; 60; 114; 62]; [60; 102; 62]; [60; 86; 62]]
  /\ usage_pieces (h_build_self (sf_cmd true false false))
    = Some [[112]; [45; 45; 114; 32; 60; 114; 62]; [60; 102; 62]; s_usage_sep; [112]; [91; 102; 93]; [60; 86; 62]]
  /\ usage_pieces (h_build_self (sf_cmd false true false))
    = Some [[112]; [45; 45; 114; 32; 60; 114; 62]; [60; 102; 62]; s_usage_sep; [112]; [60; 86; 62]].
Proof. exact sf_usage. Qed.
Print Assumptions C12_usage_subcommand_forms.

(** observation (the class of [C12_usage_hides_hidden] is sharp): a hidden optional argument that is a
    member of a required group is printed by [format_group]: [p <--a|--z>] *)
Theorem C12_usage_hidden_group_member_shown :
  exists c a, In a (hc_args c) /\ ha_hide a = true /\ ha_required a = false /\ ha_long a = Some [122]
    /\ refs_ok (h_build_self c) = true
    /\ usage_pieces (h_build_self c) = Some [[112]; [60; 45; 45; 97; 124; 45; 45; 122; 62]].
Proof. exact hidden_group_member_shown. Qed.
Print Assumptions C12_usage_hidden_group_member_shown.

(** ---- round 2: global arguments are inherited into the subcommand levels ---- *)

(** the level [_build_subcommand] returns for a subcommand other than the generated [help] subcommand has an
    argument with the id of every global argument of the parent (its help lists it when it is shown there:
    [C12_lists_visible_args]) *)
Theorem C12_globals_in_level : forall c a name lv,
  hc_built c = false -> In a (hc_args c) -> ha_global a = true ->
  h_build_subcommand (h_build_self c) name = Some (Some lv) ->
  (beq name s_help && negb (h_is_set hs_no_help_sub (h_build_self c))) = false ->
  exists b, In b (hc_args lv) /\ ha_id b = ha_id a.
Proof. exact globals_in_level. Qed.
Print Assumptions C12_globals_in_level.

Theorem C12_globals_satisfiable :
  hc_built gl_cmd = false /\
  exists a lv, In a (hc_args gl_cmd) /\ ha_global a = true
    /\ h_build_subcommand (h_build_self gl_cmd) [115] = Some (Some lv)
    /\ (beq [115] s_help && negb (h_is_set hs_no_help_sub (h_build_self gl_cmd))) = false
    /\ map ha_id (hc_args lv) = [[111]; [103]; s_help].
Proof. exact gl_cmd_level. Qed.
Print Assumptions C12_globals_satisfiable.

(** ---- round 3: custom help templates ([Command::help_template], [write_templated_help]) ---- *)

(** for EVERY template text, rendering a built command whose references resolve does not panic *)
Theorem C12_template_total : forall dw cx c t, cmd_ok dw c -> refs_ok c = true -> write_templated_help dw cx c t <> None.
Proof. exact template_total. Qed.
Print Assumptions C12_template_total.

(** the tags dispatch to the writers of the default template: [{options}] = [write_args] over ALL arguments that
    are not positional (custom headings included), [{positionals}] = [write_args] over the positionals,
    [{subcommands}] = [write_subcommands], [{all-args}] = [write_all_args] -- each with its visibility filter *)
Theorem C12_template_tag_dispatch : forall dw cx c,
  write_tag dw cx c t_options
    = (dO rows <- write_args dw cx (filter (fun a => negb (ha_is_positional a)) (hc_args c)) option_sort_key; Some (TPOptions rows))
  /\ write_tag dw cx c t_positionals
    = (dO rows <- write_args dw cx (filter ha_is_positional (hc_args c)) positional_sort_key; Some (TPPositionals rows))
  /\ write_tag dw cx c t_subcommands = (dO rows <- write_subcommands dw cx c; Some (TPSubcommands rows))
  /\ write_tag dw cx c t_all_args = (dO secs <- write_all_args dw cx c; Some (TPAllArgs secs)).
Proof. intros dw cx c. exact (conj (tag_options dw cx c) (conj (tag_positionals dw cx c) (conj (tag_subcommands dw cx c) (tag_all_args dw cx c)))). Qed.
Print Assumptions C12_template_tag_dispatch.

(** hidden-absent, for every template and every tag: each row any piece of the rendered template contains comes
    from an argument shown in the rendered mode (listing only possible values that are not hidden) or from a
    subcommand that is not hidden *)
Theorem C12_template_hides_hidden : forall dw cx c t ps p r,
  cmd_ok dw c -> write_templated_help dw cx c t = Some ps -> In p ps -> In r (piece_rows p) ->
  (exists a, In a (hc_args c) /\ should_show_arg (cx_use_long cx) a = true /\ r_id r = ha_id a
             /\ forall v, In v (r_pvs r) -> exists pv, In pv (ha_pvs a) /\ pv_hide pv = false /\ pv_name pv = v)
  \/ (exists sc, In sc (hc_subs c) /\ hc_hide sc = false /\ r_id r = hc_name sc /\ r_pvs r = []).
Proof. exact template_hides_hidden. Qed.
Print Assumptions C12_template_hides_hidden.

(** visible-listed, per tag: the output of [{options}] has a row for every shown argument that is not positional,
    [{positionals}] for every shown positional, [{subcommands}] for every subcommand that is not hidden,
    [{all-args}] for every shown argument (in its section) and every visible subcommand *)
Theorem C12_template_lists_visible : forall dw cx c t ps,
  NoDup (map ha_id (hc_args c)) -> NoDup (map sc_str (hc_subs c)) ->
  write_templated_help dw cx c t = Some ps ->
  (forall rows a, In (TPOptions rows) ps -> In a (hc_args c) -> ha_is_positional a = false ->
                  should_show_arg (cx_use_long cx) a = true -> exists r, In r rows /\ r_id r = ha_id a)
  /\ (forall rows a, In (TPPositionals rows) ps -> In a (hc_args c) -> ha_is_positional a = true ->
                     should_show_arg (cx_use_long cx) a = true -> exists r, In r rows /\ r_id r = ha_id a)
  /\ (forall rows sc, In (TPSubcommands rows) ps -> In sc (hc_subs c) -> hc_hide sc = false ->
                      exists r, In r rows /\ r_id r = hc_name sc)
  /\ (forall secs a, In (TPAllArgs secs) ps -> In a (hc_args c) -> should_show_arg (cx_use_long cx) a = true ->
                     exists sec r, In sec secs /\ s_title sec = arg_section_title a /\ In r (s_rows sec) /\ r_id r = ha_id a)
  /\ (forall secs sc, In (TPAllArgs secs) ps -> In sc (hc_subs c) -> hc_hide sc = false -> hc_name sc <> s_help ->
                      exists sec r, In sec secs /\ s_title sec = sub_section_title c /\ In r (s_rows sec) /\ r_id r = hc_name sc).
Proof. exact template_lists_visible. Qed.
Print Assumptions C12_template_lists_visible.

(** non-vacuity: ["U {usage}|O:{options}|P:{positionals}|S:{subcommands}|{zz}{all-args}{open"] on [ex_cmd] (whose
    hypotheses are [C12_hypotheses_satisfiable]): the hidden [--hi] and the hidden subcommand [t] are in no piece *)
Theorem C12_template_example :
  option_map (map tp_shape) (write_templated_help len (mkCtx false 80 false) (h_build_self ex_cmd) tp_template)
  = Some [ ([116], [[85; 32]]); ([117], [[112]; s_options_tag; [60; 102; 62]; [91; 67; 79; 77; 77; 65; 78; 68; 93]]);
           ([116], [[124; 79; 58]]); ([111], [[111]; [118]; s_help; s_version]);
           ([116], [[124; 80; 58]]); ([112], [[102]]);
           ([116], [[124; 83; 58]]); ([115], [[115]; s_help]);
           ([116], [[124]]); ([116], [[123; 122; 122; 125]]); ([116], [[]]);
           ([97], [s_commands; s_arguments; s_options; [72]]); ([116], [[]]) ].
Proof. exact tp_renders. Qed.
Print Assumptions C12_template_example.

(** ---- round 3: [next_help_heading] / [subcommand_help_heading] ---- *)

(** builder calls in the user's order ([apply_headings] = the heading part of [arg_internal]): an argument without
    a heading of its own, added after [next_help_heading(h)] with no other such call in between, carries [h] -- so
    [C12_lists_visible_args] lists it in the section titled [h] ([arg_section_title]); one with its own heading keeps it *)
Theorem C12_next_heading_applies : forall pre h mid a post current,
  only_args mid -> ha_heading a = None ->
  In (a <| ha_heading := h |>) (apply_headings (pre ++ BNextHeading h :: mid ++ BArg a :: post) current).
Proof. exact next_heading_applies. Qed.
Print Assumptions C12_next_heading_applies.

Theorem C12_own_heading_wins : forall pre a post current g,
  ha_heading a = Some g -> In a (apply_headings (pre ++ BArg a :: post) current).
Proof. exact own_heading_wins. Qed.
Print Assumptions C12_own_heading_wins.

(** end to end: [--a], next_help_heading("N"), [--b], [--c] (own heading "H"), next_help_heading(None), [--d],
    subcommand_help_heading("S"): sections S, Options (a, d, help), N (b), H (c) *)
Theorem C12_headings_example :
  match render_help len nh_cmd false 80 with
  | Some s => map (fun sec => (s_title sec, map r_id (s_rows sec))) (scr_sections s)
  | None => []
  end
  = [ ([83], [[115]; s_help]); (s_options, [[97]; [100]; s_help]); ([78], [[98]]); ([72], [[99]]) ].
Proof. exact nh_renders. Qed.
Print Assumptions C12_headings_example.

(** round 3: the [OPTIONS] tag of the usage line, declaratively (so: options that are all hidden, required or
    members of a required group never cause it) *)
Theorem C12_options_tag_iff : forall c,
  needs_options_tag c = true <->
  exists f, In f (hc_args c) /\ ha_is_positional f = false
    /\ opt_is (ha_long f) s_help = false /\ opt_is (ha_long f) s_version = false
    /\ is_help_or_version_action (ha_action f) = false
    /\ ha_hide f = false /\ ha_required f = false /\ in_required_group c f = false.
Proof. exact options_tag_iff. Qed.
Print Assumptions C12_options_tag_iff.

(** round 3: [refs_ok] is a property of the USER's command -- [_build_self] keeps the groups and the id / [required] /
    [requires] of every argument and only appends the generated [--help] / [--version] (which require nothing) *)
Theorem C12_refs_ok_build : forall c, refs_ok c = true -> refs_ok (h_build_self c) = true.
Proof. exact refs_ok_build. Qed.
Print Assumptions C12_refs_ok_build.

(** [Command::render_help] / [render_long_help] / [render_usage] never panic: hypotheses on the user's command *)
Theorem C12_render_total_user : forall dw c use_long w,
  hc_built c = false -> spec_ok c -> refs_ok c = true -> widths_ok dw (h_build_self c) ->
  render_help dw c use_long w <> None /\ render_usage c <> None.
Proof. exact render_total_user. Qed.
Print Assumptions C12_render_total_user.

(** ---- round 3: the generated [-h] / [--help] of a level is a help flag of that level ---- *)

(** [long_help_at] / [short_help_at] derived: the level passes [assert_app], contains the generated help argument
    ([built_help_arg] = [arg_build help_arg]: the help flag is not disabled there) and no subcommand answers to
    the token (a subcommand may be NAMED [--help]: the condition is necessary) *)
Theorem C12_generated_help_is_help_flag : forall lv,
  assert_app lv = true -> In built_help_arg (c_args lv) ->
  (possible_subcommand lv tok_help_long false = None -> long_help_at lv true = true)
  /\ (possible_subcommand lv tok_help_short false = None ->
      match get_pos lv 1 with Some a => negb (a_negnum a) && negb (a_hyphen a && negb (a_last a)) | None => true end = true ->
      short_help_at lv false = true).
Proof. intros lv V Hin. exact (conj (gen_long_help_at lv V Hin) (gen_short_help_at lv V Hin)). Qed.
Print Assumptions C12_generated_help_is_help_flag.

(** the build puts it there: [x] = the command after the settings / propagation blocks of [_build_self] *)
Theorem C12_build_has_help : forall c,
  s_built (c_set c) = false -> is_set s_disable_help_flag (bs_propagate (bs_settings c)) = false ->
  In built_help_arg (c_args (build_self c)).
Proof. exact build_self_has_help. Qed.
Print Assumptions C12_build_has_help.

(** [C12_help_flag_long_level] / [_short_level] without the [long_help_at] / [short_help_at] hypothesis: [--help]
    resp. [-h] after a chain of subcommand names yields the help of the level at the END of the chain, in long resp.
    short mode ([assert_app] of that level comes out of [valid c0]) *)
Theorem C12_help_flag_long_level_gen : forall c0 bin names rest lv,
  is_set s_no_binary_name c0 = false -> c_bin_name c0 <> None ->
  valid c0 = true -> help_chain (build_self c0) names = Some lv ->
  In built_help_arg (c_args lv) -> possible_subcommand lv tok_help_long false = None ->
  parse_top c0 (bin :: names ++ tok_help_long :: rest) = OErr (help_err lv true)
  /\ p_level_walk (build_self c0) names = Some lv
  /\ e_kind (help_err lv true) = EDisplayHelp /\ e_cmd (help_err lv true) = opt_default [] (c_about lv)
  /\ e_long (help_err lv true) = true.
Proof. exact help_flag_long_level_gen. Qed.
Print Assumptions C12_help_flag_long_level_gen.

Theorem C12_help_flag_short_level_gen : forall c0 bin names rest lv,
  is_set s_no_binary_name c0 = false -> c_bin_name c0 <> None ->
  valid c0 = true -> help_chain (build_self c0) names = Some lv ->
  In built_help_arg (c_args lv) -> possible_subcommand lv tok_help_short false = None ->
  match get_pos lv 1 with Some a => negb (a_negnum a) && negb (a_hyphen a && negb (a_last a)) | None => true end = true ->
  parse_top c0 (bin :: names ++ tok_help_short :: rest) = OErr (help_err lv false)
  /\ p_level_walk (build_self c0) names = Some lv
  /\ e_kind (help_err lv false) = EDisplayHelp /\ e_cmd (help_err lv false) = opt_default [] (c_about lv)
  /\ e_long (help_err lv false) = false.
Proof. exact help_flag_short_level_gen. Qed.
Print Assumptions C12_help_flag_short_level_gen.

(** non-vacuity: the three-level example of [C12_help_chain_satisfiable] satisfies the new hypotheses *)
Theorem C12_help_flag_gen_satisfiable :
  exists lv, help_chain (build_self hd_root) hd_names = Some lv
    /\ In built_help_arg (c_args lv)
    /\ possible_subcommand lv tok_help_long false = None /\ possible_subcommand lv tok_help_short false = None
    /\ match get_pos lv 1 with Some a => negb (a_negnum a) && negb (a_hyphen a && negb (a_last a)) | None => true end = true.
Proof. exact hd_gen_hyps. Qed.
Print Assumptions C12_help_flag_gen_satisfiable.

(** ---- fourth pass: the help flag behind a chain of subcommands WITH arguments between the names ---- *)

(** Class [hsplit c toks ns lv pst pos] (Help/HelpChainWide.v): [toks] = `pre_0 t_1 pre_1 .. t_k pre_k`; every [pre_i] is a
    [wprefix] of the level reached (C09's wide class: options in the six spellings of [prefix_ok], values of
    single-valued positionals, the values of a multi-valued positional) that this level ACCEPTS (its token loop on
    [pre_i] alone, from a fresh matcher, ends without an error; at the last level also the occurrence still pending);
    every [t_i] is a [psel] selection (name / alias, inferred prefix, long flag-subcommand, a name behind multi-values
    with precedence); levels have [ignore_errors] and [args_conflicts_with_subcommands] off; the line ends in loop state [pst] of
    [lv] -- between two arguments, or while a multi-valued positional that does not take hyphen values collects values
    ([pst_ok]) -- with the positional counter at [pos].  `prog -v sub --opt x subsub --help anything..` yields the
    help of [subsub]: the DisplayHelp error of [lv], which is the level [p_level_walk] reaches by [ns]. *)
Theorem C12_help_flag_long_wide : forall c0 bin toks ns lv pst pos rest ul,
  is_set s_no_binary_name c0 = false -> c_bin_name c0 <> None ->
  valid c0 = true -> hsplit (build_self c0) toks ns lv pst pos -> pst_ok lv pst /\ long_help_at lv ul = true ->
  parse_top c0 (bin :: toks ++ tok_help_long :: rest) = OErr (help_err lv ul)
  /\ p_level_walk (build_self c0) ns = Some lv
  /\ e_kind (help_err lv ul) = EDisplayHelp /\ e_cmd (help_err lv ul) = opt_default [] (c_about lv)
  /\ e_long (help_err lv ul) = ul.
Proof. exact help_flag_long_wide. Qed.
Print Assumptions C12_help_flag_long_wide.

(** [-h]: the positional the counter points at does not take hyphen values / negative numbers ([no_hyphen_pos]) *)
Theorem C12_help_flag_short_wide : forall c0 bin toks ns lv pst pos rest ul,
  is_set s_no_binary_name c0 = false -> c_bin_name c0 <> None ->
  valid c0 = true -> hsplit (build_self c0) toks ns lv pst pos ->
  pst_ok lv pst /\ short_help_flag lv ul = true /\ Dispatch.no_hyphen_pos lv pos ->
  parse_top c0 (bin :: toks ++ tok_help_short :: rest) = OErr (help_err lv ul)
  /\ p_level_walk (build_self c0) ns = Some lv
  /\ e_kind (help_err lv ul) = EDisplayHelp /\ e_cmd (help_err lv ul) = opt_default [] (c_about lv)
  /\ e_long (help_err lv ul) = ul.
Proof. exact help_flag_short_wide. Qed.
Print Assumptions C12_help_flag_short_wide.

(** the class lies inside C09's [wsplit] (hence [wline]: [C09_chain_wide] speaks about the same lines) *)
Theorem C12_hsplit_in_wsplit : forall c toks ns lv pst pos, hsplit c toks ns lv pst pos ->
  exists names lvl, ChainWide.wsplit c toks names lvl.
Proof. exact hsplit_wsplit. Qed.
Print Assumptions C12_hsplit_in_wsplit.

(** every level the parser reaches from an UNBUILT tree (C18's class [tree_all unb]: no node carries the [Built] flag)
    is [_build_self] of an unbuilt record ([from_unbuilt]); such a level holds the generated help argument unless its
    help flag is disabled -- the hypothesis [In built_help_arg (c_args lv)] of the round-3 theorems, derived *)
Theorem C12_child_from_unbuilt : forall c n sc,
  from_unbuilt c -> build_subcommand c n = Some sc -> from_unbuilt sc.
Proof. exact child_from_unbuilt. Qed.
Print Assumptions C12_child_from_unbuilt.

Theorem C12_level_has_help : forall lv,
  from_unbuilt lv -> is_set s_disable_help_flag lv = false -> In built_help_arg (c_args lv).
Proof. exact level_has_help. Qed.
Print Assumptions C12_level_has_help.

(** nothing assumed about the help flag but "not disabled at [lv]" and "no subcommand of [lv] is NAMED like the token" *)
Theorem C12_help_flag_long_wide_gen : forall c0 bin toks ns lv pst pos rest,
  is_set s_no_binary_name c0 = false -> c_bin_name c0 <> None ->
  valid c0 = true -> EngineProofs.tree_all EngineLevel.unb c0 -> hsplit (build_self c0) toks ns lv pst pos -> pst_ok lv pst ->
  is_set s_disable_help_flag lv = false -> possible_subcommand lv tok_help_long false = None ->
  parse_top c0 (bin :: toks ++ tok_help_long :: rest) = OErr (help_err lv true)
  /\ p_level_walk (build_self c0) ns = Some lv
  /\ e_kind (help_err lv true) = EDisplayHelp /\ e_cmd (help_err lv true) = opt_default [] (c_about lv)
  /\ e_long (help_err lv true) = true.
Proof. exact help_flag_long_wide_gen. Qed.
Print Assumptions C12_help_flag_long_wide_gen.

Theorem C12_help_flag_short_wide_gen : forall c0 bin toks ns lv pst pos rest,
  is_set s_no_binary_name c0 = false -> c_bin_name c0 <> None ->
  valid c0 = true -> EngineProofs.tree_all EngineLevel.unb c0 -> hsplit (build_self c0) toks ns lv pst pos -> pst_ok lv pst ->
  is_set s_disable_help_flag lv = false -> possible_subcommand lv tok_help_short false = None ->
  Dispatch.no_hyphen_pos lv pos ->
  parse_top c0 (bin :: toks ++ tok_help_short :: rest) = OErr (help_err lv false)
  /\ p_level_walk (build_self c0) ns = Some lv
  /\ e_kind (help_err lv false) = EDisplayHelp /\ e_cmd (help_err lv false) = opt_default [] (c_about lv)
  /\ e_long (help_err lv false) = false.
Proof. exact help_flag_short_wide_gen. Qed.
Print Assumptions C12_help_flag_short_wide_gen.

(** the bare chains of round 3 ([C12_help_flag_long_level_gen] / [_short_level_gen]) without their last hypothesis *)
Theorem C12_help_flag_long_level_unb : forall c0 bin names rest lv,
  is_set s_no_binary_name c0 = false -> c_bin_name c0 <> None ->
  valid c0 = true -> EngineProofs.tree_all EngineLevel.unb c0 -> help_chain (build_self c0) names = Some lv ->
  is_set s_disable_help_flag lv = false -> possible_subcommand lv tok_help_long false = None ->
  parse_top c0 (bin :: names ++ tok_help_long :: rest) = OErr (help_err lv true)
  /\ p_level_walk (build_self c0) names = Some lv
  /\ e_kind (help_err lv true) = EDisplayHelp /\ e_cmd (help_err lv true) = opt_default [] (c_about lv)
  /\ e_long (help_err lv true) = true.
Proof. exact help_flag_long_level_unb. Qed.
Print Assumptions C12_help_flag_long_level_unb.

Theorem C12_help_flag_short_level_unb : forall c0 bin names rest lv,
  is_set s_no_binary_name c0 = false -> c_bin_name c0 <> None ->
  valid c0 = true -> EngineProofs.tree_all EngineLevel.unb c0 -> help_chain (build_self c0) names = Some lv ->
  is_set s_disable_help_flag lv = false -> possible_subcommand lv tok_help_short false = None ->
  match get_pos lv 1 with Some a => negb (a_negnum a) && negb (a_hyphen a && negb (a_last a)) | None => true end = true ->
  parse_top c0 (bin :: names ++ tok_help_short :: rest) = OErr (help_err lv false)
  /\ p_level_walk (build_self c0) names = Some lv
  /\ e_kind (help_err lv false) = EDisplayHelp /\ e_cmd (help_err lv false) = opt_default [] (c_about lv)
  /\ e_long (help_err lv false) = false.
Proof. exact help_flag_short_level_unb. Qed.
Print Assumptions C12_help_flag_short_level_unb.

(** non-vacuity: `p --verbose --cfg=a sy -y --out o1 q -z --cfg b (--help | -h) --bogus` on C09's three-level [ex_chain]
    (flag, `--opt=v`, alias, cluster, `--opt v` at two levels; `--cfg b` of level [q] is still pending when the help
    flag is read): every hypothesis of the four theorems holds, and [parse_top] computes to the help of [q] *)
Theorem C12_help_wide_satisfiable :
  is_set s_no_binary_name hw_root = false /\ c_bin_name hw_root <> None /\ valid hw_root = true
  /\ EngineProofs.tree_all EngineLevel.unb hw_root
  /\ exists lv, hsplit (build_self hw_root) hw_toks [Chain.w_sync; Dispatch.b1 113] lv PSValuesDone 1 /\ c_name lv = Dispatch.b1 113
       /\ is_set s_disable_help_flag lv = false
       /\ possible_subcommand lv tok_help_long false = None /\ possible_subcommand lv tok_help_short false = None
       /\ Dispatch.no_hyphen_pos lv 1
       /\ (exists p, mt_pending (mt p) <> None
                     /\ parse_loop lv [[45; 122]; Chain.dd Chain.w_cfg; Dispatch.b1 98] (Chain.lsV 1 false) ps_new = ROk (LDone p))
       /\ parse_top hw_root (Dispatch.b1 112 :: hw_toks ++ tok_help_long :: [hw_bogus]) = OErr (help_err lv true)
       /\ parse_top hw_root (Dispatch.b1 112 :: hw_toks ++ tok_help_short :: [hw_bogus]) = OErr (help_err lv false).
Proof. exact hw_hyps. Qed.
Print Assumptions C12_help_wide_satisfiable.

(** non-vacuity for the state "a multi-valued positional collects values": `p a b sync --help` / `-h` on C09's [ex_wide]
    (`sync` is swallowed by <files>...: no [subcommand_precedence_over_arg]) -- the help of the ROOT, not of [sync] *)
Theorem C12_help_wide_multi_satisfiable :
  is_set s_no_binary_name hs_wide = false /\ c_bin_name hs_wide <> None /\ valid hs_wide = true
  /\ EngineProofs.tree_all EngineLevel.unb hs_wide
  /\ hsplit (build_self hs_wide) [Dispatch.b1 97; Dispatch.b1 98; Chain.w_sync] [] (build_self hs_wide) (PSPos ChainWide.w_files) 2
  /\ pst_ok (build_self hs_wide) (PSPos ChainWide.w_files)
  /\ is_set s_disable_help_flag (build_self hs_wide) = false
  /\ possible_subcommand (build_self hs_wide) tok_help_long false = None
  /\ possible_subcommand (build_self hs_wide) tok_help_short false = None
  /\ Dispatch.no_hyphen_pos (build_self hs_wide) 2
  /\ parse_top hs_wide (Dispatch.b1 112 :: [Dispatch.b1 97; Dispatch.b1 98; Chain.w_sync] ++ tok_help_long :: [])
     = OErr (help_err (build_self hs_wide) true)
  /\ parse_top hs_wide (Dispatch.b1 112 :: [Dispatch.b1 97; Dispatch.b1 98; Chain.w_sync] ++ tok_help_short :: [])
     = OErr (help_err (build_self hs_wide) false).
Proof. exact hs_hyps_multi. Qed.
Print Assumptions C12_help_wide_multi_satisfiable.

(** ---- fourth pass: `help <path>`, the help SUBCOMMAND ---- *)

(** [parse_help_subcommand] with the lookup as a parameter and [_build_subcommand(&sc_name).unwrap()] visible
    ([help_walk_with lk]: [None] = the [unwrap] panics).  With clap's lookup ([lookup_clap] =
    [find_subcommand(cmd).map(|sc| sc.get_name())]: name or alias, exact, canonicalised to the name) the [unwrap] is
    dead for EVERY command and word list, and the walk is the parser model's [help_walk] *)
Theorem C12_help_walk_unwrap_dead : forall names sc, help_walk_with lookup_clap sc names = Some (help_walk sc names).
Proof. exact help_walk_unwrap_dead. Qed.
Print Assumptions C12_help_walk_unwrap_dead.

(** what makes a lookup safe: it returns only NAMES of subcommands of the level *)
Theorem C12_help_walk_lookup_sound : forall lk, lookup_sound lk -> forall names sc, help_walk_with lk sc names <> None.
Proof. exact help_walk_with_total. Qed.
Print Assumptions C12_help_walk_lookup_sound.

(** ... and the two lookups that drop the canonicalisation panic: the typed text (`help delete`, [delete] an alias of
    [remove]) and the token loop's [possible_subcommand], which under [infer_subcommands] returns the TEXT of the alias
    a word is a prefix of (`help del`); clap's lookup answers the first with the help of [remove], the second with
    InvalidSubcommand `del` *)
Theorem C12_help_walk_text_panics :
  let c := build_self (ChainWide.ex_wide false) in
  find_subcommand c ChainWide.w_delete <> None /\ help_walk_with lookup_text c [ChainWide.w_delete] = None
  /\ exists lv, help_walk_with lookup_clap c [ChainWide.w_delete] = Some (help_err lv true) /\ c_name lv = ChainWide.w_remove.
Proof. exact help_walk_text_panics. Qed.
Print Assumptions C12_help_walk_text_panics.

Theorem C12_help_walk_infer_panics :
  let c := build_self (ChainWide.ex_wide false) in
  ChainWide.infer_list c [100; 101; 108] = [ChainWide.w_delete] /\ help_walk_with lookup_infer c [[100; 101; 108]] = None
  /\ help_walk_with lookup_clap c [[100; 101; 108]] = Some (unknown_sub_err c [100; 101; 108]).
Proof. exact help_walk_infer_panics. Qed.
Print Assumptions C12_help_walk_infer_panics.

(** the whole line: behind a chain with arguments ([hsplit]) a token that selects the generated [help] subcommand
    ([help_sel]: [possible_subcommand] answers `help` -- the word itself or, with [infer_subcommands], a prefix of it --
    and the help subcommand is not disabled; [sub_tried]: the loop looks for subcommands in that state -- between two
    arguments, or anywhere under [subcommand_precedence_over_arg]) and a path of names / ALIASES: the DisplayHelp error (long form) of the
    level the path leads to, which is the level [p_level_walk] reaches from the root by [ns ++ path] *)
Theorem C12_help_subcommand_level : forall c0 bin toks ns lv pst pos tok path lv',
  is_set s_no_binary_name c0 = false -> c_bin_name c0 <> None ->
  valid c0 = true -> hsplit (build_self c0) toks ns lv pst pos -> help_sel lv tok /\ sub_tried lv pst ->
  p_level_walk lv path = Some lv' ->
  parse_top c0 (bin :: toks ++ tok :: path) = OErr (help_err lv' true)
  /\ p_level_walk (build_self c0) (ns ++ path) = Some lv'
  /\ e_kind (help_err lv' true) = EDisplayHelp /\ e_cmd (help_err lv' true) = opt_default [] (c_about lv')
  /\ e_long (help_err lv' true) = true.
Proof. exact help_sub_level. Qed.
Print Assumptions C12_help_subcommand_level.

(** a word of the path that is no name or alias of the level reached -- a proper prefix included, with or without
    [infer_subcommands] -- is reported: InvalidSubcommand naming that word, for the level reached so far; never a panic *)
Theorem C12_help_subcommand_unknown : forall c0 bin toks ns lv pst pos tok known w more lvk,
  is_set s_no_binary_name c0 = false -> c_bin_name c0 <> None ->
  valid c0 = true -> hsplit (build_self c0) toks ns lv pst pos -> help_sel lv tok /\ sub_tried lv pst ->
  p_level_walk lv known = Some lvk -> find_subcommand lvk w = None ->
  parse_top c0 (bin :: toks ++ tok :: known ++ w :: more) = OErr (unknown_sub_err lvk w).
Proof. exact help_sub_unknown. Qed.
Print Assumptions C12_help_subcommand_unknown.

(** non-vacuity: `p --verbose help sy q` (through the alias `sy`, help of [q]); `p -g x a he delete` ([he] an inferred
    prefix of `help`, [delete] an alias: help of [remove]) and `p -g x a he del` (InvalidSubcommand `del` although
    [del] is a unique prefix of the alias and [infer_subcommands] is on) *)
Theorem C12_help_subcommand_satisfiable :
  is_set s_no_binary_name hw_root = false /\ c_bin_name hw_root <> None /\ valid hw_root = true
  /\ hsplit (build_self hw_root) [Chain.dd Chain.w_verbose] [] (build_self hw_root) PSValuesDone 1
  /\ (help_sel (build_self hw_root) s_help /\ sub_tried (build_self hw_root) PSValuesDone)
  /\ exists lv', p_level_walk (build_self hw_root) [[115; 121]; Dispatch.b1 113] = Some lv' /\ c_name lv' = Dispatch.b1 113
       /\ parse_top hw_root (Dispatch.b1 112 :: [Chain.dd Chain.w_verbose] ++ s_help :: [[115; 121]; Dispatch.b1 113])
          = OErr (help_err lv' true).
Proof. exact hs_hyps_alias. Qed.
Print Assumptions C12_help_subcommand_satisfiable.

Theorem C12_help_subcommand_infer_example :
  is_set s_no_binary_name hs_wide = false /\ c_bin_name hs_wide <> None /\ valid hs_wide = true
  /\ hsplit (build_self hs_wide) [[45; 103]; Dispatch.b1 120; Dispatch.b1 97] [] (build_self hs_wide) PSValuesDone 2
  /\ (help_sel (build_self hs_wide) [104; 101] /\ sub_tried (build_self hs_wide) PSValuesDone)
  /\ (exists lv', p_level_walk (build_self hs_wide) [ChainWide.w_delete] = Some lv' /\ c_name lv' = ChainWide.w_remove
       /\ parse_top hs_wide (Dispatch.b1 112 :: [[45; 103]; Dispatch.b1 120; Dispatch.b1 97] ++ [104; 101] :: [ChainWide.w_delete])
          = OErr (help_err lv' true))
  /\ find_subcommand (build_self hs_wide) [100; 101; 108] = None
  /\ ChainWide.infer_list (build_self hs_wide) [100; 101; 108] = [ChainWide.w_delete]
  /\ parse_top hs_wide (Dispatch.b1 112 :: [[45; 103]; Dispatch.b1 120; Dispatch.b1 97] ++ [104; 101] :: [] ++ [100; 101; 108] :: [])
     = OErr (unknown_sub_err (build_self hs_wide) [100; 101; 108]).
Proof. exact hs_hyps_infer. Qed.
Print Assumptions C12_help_subcommand_infer_example.

(** ---- fourth pass: [C12_usage_hides_hidden] at the boundary of the recorded finding C12-usage-hidden-group-member ---- *)

(** [mentions c x i]: the usage piece [x] = (id, text) is the piece of the argument [i], or the piece of a group whose
    unrolled members -- what [format_group] prints between [<] and [>] -- contain [i].
    Class: distinct argument ids, no argument id is a group id ([ids_disjoint]), built arguments, [refs_ok]; the argument is
    [hide]n, (R) NOT in the unrolled requirement closure [usage_reqs] (not required, not reached from a required argument
    or required group through unconditional [requires] rules) and (G) a member of NO LISTED group ([usage_members]: the
    members of the groups among the requirements).  Then NO piece mentions it, in either form of the usage line. *)
Theorem C12_usage_hides_hidden_exact : forall c fo items a,
  NoDup (map ha_id (hc_args c)) -> ids_disjoint c = true -> args_ok c -> refs_ok c = true -> usage_arg_items c fo = Some items ->
  In a (hc_args c) -> ha_hide a = true ->
  ~ In (ha_id a) (usage_reqs c) -> mem_id (ha_id a) (usage_members c) = false ->
  forall x, In x items -> ~ mentions c x (ha_id a).
Proof. exact usage_hides_hidden_exact. Qed.
Print Assumptions C12_usage_hides_hidden_exact.

(** the round-3 class ([req_srcb] = false: named by no rule at all) lies inside (R) *)
Theorem C12_usage_req_srcb_inside : forall c i, req_srcb c i = false -> ~ In i (usage_reqs c).
Proof. exact req_srcb_not_in_reqs. Qed.
Print Assumptions C12_usage_req_srcb_inside.

Theorem C12_usage_hides_hidden_exact_satisfiable :
  NoDup (map ha_id (hc_args rq_built)) /\ ids_disjoint rq_built = true /\ args_ok rq_built /\ refs_ok rq_built = true
  /\ (exists items, usage_arg_items rq_built false = Some items) /\ (exists items, usage_arg_items rq_built true = Some items)
  /\ In (rq_arg 4) (hc_args rq_built) /\ ha_hide (rq_arg 4) = true
  /\ ~ In (ha_id (rq_arg 4)) (usage_reqs rq_built) /\ mem_id (ha_id (rq_arg 4)) (usage_members rq_built) = false
  /\ In (rq_arg 6) (hc_args rq_built) /\ ha_hide (rq_arg 6) = true /\ ha_last (rq_arg 6) = true
  /\ ~ In (ha_id (rq_arg 6)) (usage_reqs rq_built) /\ mem_id (ha_id (rq_arg 6)) (usage_members rq_built) = false.
Proof. exact exact_hyps. Qed.
Print Assumptions C12_usage_hides_hidden_exact_satisfiable.

(** the boundary is sharp on both sides; each witness satisfies every other hypothesis of the theorem.
    (G) dropped = the recorded finding: `--z` hidden, optional, not among the requirements, member of the listed group:
    the piece `<--a|--z>` mentions it *)
Theorem C12_usage_hidden_listed_member_mentioned :
  exists a items x,
    NoDup (map ha_id (hc_args hg_built)) /\ ids_disjoint hg_built = true /\ args_ok hg_built /\ refs_ok hg_built = true
    /\ usage_arg_items hg_built false = Some items
    /\ In a (hc_args hg_built) /\ ha_hide a = true /\ ha_required a = false /\ ha_long a = Some [122]
    /\ ~ In (ha_id a) (usage_reqs hg_built)
    /\ mem_id (ha_id a) (usage_members hg_built) = true
    /\ In x items /\ mentions hg_built x (ha_id a) /\ snd x = [60; 45; 45; 97; 124; 45; 45; 122; 62].
Proof. exact hidden_listed_member_mentioned. Qed.
Print Assumptions C12_usage_hidden_listed_member_mentioned.

(** (R) dropped: `--z` hidden, [required] off, member of no group, but the target of an unconditional [requires] rule of
    the required `--r`: among the requirements, printed on its own -- `p --z --r <r>` *)
Theorem C12_usage_hidden_required_target_mentioned :
  exists a items x,
    NoDup (map ha_id (hc_args rt_built)) /\ ids_disjoint rt_built = true /\ args_ok rt_built /\ refs_ok rt_built = true
    /\ usage_arg_items rt_built false = Some items
    /\ In a (hc_args rt_built) /\ ha_hide a = true /\ ha_required a = false /\ ha_long a = Some [122]
    /\ In (ha_id a) (usage_reqs rt_built)
    /\ mem_id (ha_id a) (usage_members rt_built) = false
    /\ In x items /\ mentions rt_built x (ha_id a) /\ snd x = [45; 45; 122]
    /\ usage_pieces rt_built = Some [[112]; [45; 45; 122]; [45; 45; 114; 32; 60; 114; 62]].
Proof. exact hidden_required_target_mentioned. Qed.
Print Assumptions C12_usage_hidden_required_target_mentioned.

(** ---- round 5: [Command::flatten_help] (Help/HelpFlatten.v, HelpFlattenProofs.v, HelpFlattenExamples.v) ----
    [hc_flatten] is the setting; [flat_cond c] = the level has visible subcommands and the setting (the test of
    [write_help_usage] and [write_all_args]); [h_build] is [Command::build] (recursive build with the expanded help
    tree, then [_build_bin_names_internal]) on the clone; [usage_lines fuel c] are the lines of the usage block (each a
    list of pieces), [write_flat_subcommands] the flattened sections of the built clone, [write_help_flat] the screen. *)

(** without the setting (or without visible subcommands) the flattened writer is [write_help] *)
Theorem C12_flatten_off_same : forall dw c use_long w,
  flat_cond c = false -> write_help_flat dw c use_long w = option_map embed_screen (write_help dw c use_long w).
Proof. exact flat_off_same. Qed.
Print Assumptions C12_flatten_off_same.

(** one level: the own line (iff [own_cond]: not [subcommand_required], or [args_conflicts_with_subcommands]), then
    EXACTLY one line per subcommand of the built clone that is not hidden, in order, which is that subcommand's usage
    and starts with its usage name; a hidden subcommand has no line ([visible_subs] is the filter) *)
Theorem C12_flatten_usage_lines : forall f c b ls,
  flat_cond c = true -> h_build c = Some b ->
  (forall sc, In sc (visible_subs b) -> flat_cond sc = false) ->
  usage_lines (S f) c = Some ls ->
  exists own lines, ls = own ++ lines
    /\ (if own_cond c then exists u, write_arg_usage c true = Some u /\ own = [u] else own = [])
    /\ Forall2 (fun sc ln => usage_pieces sc = Some ln
                             /\ (usage_name_fallback sc <> [] -> exists rest, ln = usage_name_fallback sc :: rest))
               (visible_subs b) lines.
Proof. exact usage_lines_one_level. Qed.
Print Assumptions C12_flatten_usage_lines.

Theorem C12_flatten_usage_count : forall f c b ls,
  flat_cond c = true -> h_build c = Some b ->
  (forall sc, In sc (visible_subs b) -> flat_cond sc = false) ->
  usage_lines (S f) c = Some ls ->
  length ls = ((if own_cond c then 1 else 0) + length (visible_subs b))%nat.
Proof. exact usage_lines_count. Qed.
Print Assumptions C12_flatten_usage_count.

(** what [build()] makes of the subcommands of a built level: name, [hide], [flatten_help] kept; the usage name is
    [bin name of the level ++ mid_string ++ {name|--long|-s}] unless the subcommand had one *)
Theorem C12_flatten_build_names : forall c b, hc_built c = true -> h_build c = Some b ->
  exists mid, h_mid_string c = Some mid /\ hd_of b = hd_of c /\ hc_args b = hc_args c
    /\ Forall2 (fun sc sb => hc_name sb = hc_name sc /\ hc_hide sb = hc_hide sc /\ hc_flatten sb = hc_flatten sc
                             /\ usage_name_fallback sb = built_usage_name c mid sc)
               (hc_subs c) (hc_subs b).
Proof. exact h_build_names. Qed.
Print Assumptions C12_flatten_build_names.

(** the headline, in terms of the level [write_help] sees: a built level with the setting whose subcommands are not
    flattened themselves and carry no usage name yet.  One line per subcommand of [c] that is not hidden (the generated
    [help] included), in order, starting with [bin name of c ++ " " ++ required arguments of c ++ {name|--long|-s}];
    none for a hidden subcommand *)
Theorem C12_flatten_usage_heads : forall f c ls,
  hc_built c = true -> flat_cond c = true ->
  (forall sc, In sc (hc_subs c) -> hc_flatten sc = false /\ hc_usage_name sc = None) ->
  usage_lines (S f) c = Some ls ->
  exists mid own lines, h_mid_string c = Some mid /\ ls = own ++ lines
    /\ (if own_cond c then exists u, write_arg_usage c true = Some u /\ own = [u] else own = [])
    /\ Forall2 (fun sc ln => exists rest, ln = (bin_name_fallback c ++ mid ++ sc_usage_names sc) :: rest)
               (visible_subs c) lines.
Proof. exact flat_usage_heads. Qed.
Print Assumptions C12_flatten_usage_heads.

(** nested flattening, to the depth the code goes: the lines of the block are exactly the lines of the nodes that
    [writes] reaches -- through subcommands of the built clones that are NOT hidden, below flattened nodes only *)
Theorem C12_flatten_usage_sound : forall f c ls, usage_lines f c = Some ls ->
  forall l, In l ls -> exists x, writes c x /\ is_line x l.
Proof. exact usage_lines_sound. Qed.
Print Assumptions C12_flatten_usage_sound.

Theorem C12_flatten_usage_complete : forall c x, writes c x ->
  forall f ls, usage_lines f c = Some ls -> exists l, In l ls /\ is_line x l.
Proof. exact usage_lines_complete. Qed.
Print Assumptions C12_flatten_usage_complete.

Theorem C12_flatten_line_head : forall x l,
  is_line x l -> usage_name_fallback x <> [] -> exists rest, l = usage_name_fallback x :: rest.
Proof. exact is_line_head. Qed.
Print Assumptions C12_flatten_line_head.

(** below the own line the block is a function of the built clone only *)
Theorem C12_flatten_usage_of_built : forall f c b,
  flat_cond c = true -> h_build c = Some b ->
  usage_lines (S f) c =
  (dO own <- (if own_cond c then dO l <- write_arg_usage c true; Some [l] else Some []);
   dO blk <- block_of_built f b; Some (own ++ blk)).
Proof. exact usage_lines_built_block. Qed.
Print Assumptions C12_flatten_usage_of_built.

Theorem C12_flatten_usage_same_build : forall f c c',
  flat_cond c = true -> flat_cond c' = true -> h_build c = h_build c' ->
  (if own_cond c then Some (write_arg_usage c true) else None) = (if own_cond c' then Some (write_arg_usage c' true) else None) ->
  usage_lines (S f) c = usage_lines (S f) c'.
Proof. exact usage_lines_of_built. Qed.
Print Assumptions C12_flatten_usage_same_build.

(** the flattened sections.  Class [flat_tree_ok dw b]: every argument of every node of the built clone that gets a
    section ([fsec_of]: not hidden, below nodes that have the setting) renders ([arg_ok]) within the format-width limit.
    Total; every section belongs to such a node; every row comes from an argument of that node that is shown in the
    mode and not global, lists only possible values that are not hidden, padding <= widest left column + 6 *)
Theorem C12_flatten_sections_safe : forall dw cx c, flat_tree_ok dw c ->
  exists fs, write_flat_subcommands dw cx c = Some fs
             /\ forall f, In f fs -> exists sc, fsec_of c sc /\ fsec_from dw (cx_use_long cx) sc f.
Proof. exact flat_sections_safe. Qed.
Print Assumptions C12_flatten_sections_safe.

(** with distinct sibling names / argument ids where the flattening goes, every such node has its section, with a
    row for every argument that is shown in the mode and not global *)
Theorem C12_flatten_sections_complete : forall dw cx c x, fsec_of c x ->
  forall fs, flat_distinct c -> write_flat_subcommands dw cx c = Some fs ->
  exists f, In f fs /\ fs_title f = usage_name_fallback x /\ fs_about f = flat_about x
            /\ forall a, In a (hc_args x) -> should_show_arg (cx_use_long cx) a = true -> ha_global a = false ->
                         exists r, In r (fs_rows f) /\ r_id r = ha_id a.
Proof. exact flat_sections_complete. Qed.
Print Assumptions C12_flatten_sections_complete.

(** [C12_padding_safe] with [flatten_help] in the class: the flattened screen renders, for every display-width
    function, width and mode ([usage_ok]: the arguments of every node that writes a usage line render and its
    references resolve, [build()] of every flattened node succeeds) *)
Theorem C12_padding_safe_flat : forall dw c b use_long w,
  cmd_ok dw c -> flat_cond c = true -> h_build c = Some b -> flat_tree_ok dw b ->
  usage_ok tree_fuel c ->
  write_help_flat dw c use_long w <> None.
Proof. exact padding_safe_flat. Qed.
Print Assumptions C12_padding_safe_flat.

Theorem C12_padding_bounded_flat : forall dw c b use_long w s,
  cmd_ok dw c -> flat_cond c = true -> h_build c = Some b -> flat_tree_ok dw b ->
  write_help_flat dw c use_long w = Some s ->
  (forall sec r, In sec (fsc_sections s) -> In r (s_rows sec) -> row_of_arg dw use_long c r)
  /\ (forall f, In f (fsc_flat s) -> exists sc, fsec_of b sc /\ fsec_from dw use_long sc f).
Proof. exact padding_bounded_flat. Qed.
Print Assumptions C12_padding_bounded_flat.

(** non-vacuity.  [fx_root]: `p` (flatten_help, `--v`, required `<inp>`) with `sa` (flatten_help, `--out <o>`, subcommands
    `sb` and hidden `h2`), hidden `h1`, `sq` (flags `--lq` / `-q`); [fx_one]: the same with `sa` not flattened *)
Theorem C12_flatten_satisfiable :
  cmd_ok len fx_c /\ refs_ok fx_c = true /\ flat_cond fx_c = true /\ h_build fx_c = Some fx_b
  /\ flat_tree_ok len fx_b /\ usage_ok tree_fuel fx_c /\ flat_distinct fx_b.
Proof. exact fx_flat_hyps. Qed.
Print Assumptions C12_flatten_satisfiable.

Theorem C12_flatten_one_level_satisfiable :
  hc_built fx_c1 = true /\ flat_cond fx_c1 = true
  /\ (forall sc, In sc (hc_subs fx_c1) -> hc_flatten sc = false /\ hc_usage_name sc = None)
  /\ own_cond fx_c1 = true
  /\ map hc_name (visible_subs fx_c1) = [[115;97]; [115;113]; s_help]
  /\ option_map (map (hd [])) (usage_lines 3 fx_c1)
     = Some [[112]; [112;32;60;105;110;112;62;32;115;97];
             [112;32;60;105;110;112;62;32;123;115;113;124;45;45;108;113;124;45;113;125];
             [112;32;60;105;110;112;62;32] ++ s_help].
Proof. exact fx_one_hyps. Qed.
Print Assumptions C12_flatten_one_level_satisfiable.

(** the nested example, byte for byte what the real crate prints (corpus/C12/help-flatten.examples.cases):
    `p [OPTIONS] <inp>` / `p <inp> sa [OPTIONS]` / `p sa sb [OPTIONS]` / `p sa help [COMMAND]` / `p <inp> {sq|--lq|-q}` /
    `p <inp> help [COMMAND]...` -- the two shapes of the generated help subcommand side by side *)
Theorem C12_flatten_example_usage :
  option_map usage_text (render_usage_flat fx_root)
  = Some ([112;32;91;79;80;84;73;79;78;83;93;32;60;105;110;112;62]
          ++ s_usage_sep ++ [112;32;60;105;110;112;62;32;115;97;32;91;79;80;84;73;79;78;83;93]
          ++ s_usage_sep ++ [112;32;115;97;32;115;98;32;91;79;80;84;73;79;78;83;93]
          ++ s_usage_sep ++ [112;32;115;97;32;104;101;108;112;32;91;67;79;77;77;65;78;68;93]
          ++ s_usage_sep ++ [112;32;60;105;110;112;62;32;123;115;113;124;45;45;108;113;124;45;113;125]
          ++ s_usage_sep ++ [112;32;60;105;110;112;62;32;104;101;108;112;32;91;67;79;77;77;65;78;68;93;46;46;46]).
Proof. exact fx_usage_text. Qed.
Print Assumptions C12_flatten_example_usage.

Theorem C12_flatten_example_sections :
  match render_help_flat len fx_root false 80 with
  | Some s => (map s_title (fsc_sections s), map (fun f => (fs_title f, map r_id (fs_rows f))) (fsc_flat s))
  | None => ([], [])
  end
  = ([s_arguments; s_options],
     [([112;32;60;105;110;112;62;32;115;97], [[111]; s_help]);
      ([112;32;115;97;32;115;98], [[122]; s_help]);
      ([112;32;115;97;32] ++ s_help, []);
      ([112;32;60;105;110;112;62;32;123;115;113;124;45;45;108;113;124;45;113;125], [s_help]);
      ([112;32;60;105;110;112;62;32] ++ s_help, [s_subcommand])]).
Proof. exact fx_sections. Qed.
Print Assumptions C12_flatten_example_sections.
