(** Property C12: help and usage always render, list every visible item and nothing hidden.
    This file contains only the pinned statements; proofs live in Help/HelpProofs.v. *)
From ClapModel Require Import Base.Bytes Base.Machine Parse.Cmd.
From ClapModel Require Import Help.UsageModel Help.HelpModel Help.HelpProofs.
Open Scope N_scope.

Theorem C12_padding_safe_refuted : exists c w, render_help len c false w = None.
Proof. exact padding_safe_refuted. Qed.
Print Assumptions C12_padding_safe_refuted.

Theorem C12_hide_never_shown : forall use_long a, ha_hide a = true -> should_show_arg use_long a = false.
Proof. exact hide_never_shown. Qed.
Print Assumptions C12_hide_never_shown.
