(** Property C01: parsing is total.  Only pinned statements; proofs live in ParseProofs/
    (Invariant.v: the token loop of one level; Totality.v: recursion over the command tree;
    ValidateTotal.v: the validator; TotalityMain.v: assembly). *)
From Coq Require Import String.   (* first, so that List's names (length, ++) stay the visible ones *)
From ClapModel Require Import Base.Bytes Base.Machine Base.Utf8.
From ClapModel Require Import Parse.Cmd Parse.Build Parse.Valid Parse.Matcher Parse.Errors Parse.Validator Parse.Parser.
From ClapModel Require Import ParseProofs.Safe ParseProofs.Invariant ParseProofs.Totality
                              ParseProofs.ValidateTotal ParseProofs.Relations ParseProofs.TotalityMain
                              ParseProofs.Sites ParseProofs.SitesComplete ParseProofs.FlagSubClass
                              ParseProofs.FsTotality ParseProofs.FsAny ParseProofs.FsLine ParseProofs.FsResume ParseProofs.FsTop ParseProofs.SitesCoverage.
From ClapModel Require Import Errors.RenderModel Errors.RenderLink.
From ClapModel Require Gen.ErrorCtx.
From ClapModel Require Gen.ParseSites.
From Coq Require Import ZArith.
From RecordUpdate Require Import RecordSet.
Import RecordSetNotations.
Open Scope N_scope.

(** [Arg::_build] gives every argument an action, a value range and a value parser, so the
    [expect]s on them (parser.rs 1029, 1101, 1333; arg_matcher.rs needs_more_vals) are dead. *)
Theorem C01_built_args_complete : forall c a,
  s_built (c_set c) = false -> In a (c_args (build_self c)) -> arg_complete a.
Proof. exact build_self_args_complete. Qed.
Print Assumptions C01_built_args_complete.

(** With error-ignoring enabled the outcome is matches for every input except an explicit
    help or version request (whatever happened inside). *)
Theorem C01_ignore_errors : forall c toks,
  is_set s_ignore_errors (build_self c) = true ->
  match do_parse c toks with
  | OOk _ => True
  | OErr e => e_kind e = EDisplayHelp \/ e_kind e = EDisplayVersion
  | OPanicked _ | OOutOfFuel | OInvalidConfig => True
  end.
Proof. exact do_parse_ignore_errors. Qed.
Print Assumptions C01_ignore_errors.

(** The validator never reaches one of its own [expect]/[debug_assert] sites when the matcher's
    keys are arguments or groups of a command that passed the gate, for any relation graph. *)
Theorem C01_validate_total : forall c m,
  assert_app c = true -> keys_ok c (mt_args m) -> forall s, validate c m <> VPanic s.
Proof. intros c m H. apply validate_total. apply assert_app_rel_wf. exact H. Qed.
Print Assumptions C01_validate_total.

(** MAIN THEOREM.  For every command definition a user can write ([plain]: the internal Built flag
    is unset; class restriction: no subcommand carries a *short* flag) that the library's own
    configuration checks accept ([valid]: assert_app/assert_arg/_verify_positionals on every node as
    the parser builds it), parsing ANY token list (any length, any bytes) neither reaches a panic
    site (unwrap/expect/unreachable!/debug_assert/index/unsigned subtraction, all modelled
    explicitly) nor runs out of the recursion fuel: it returns matches or a structured error. *)
Theorem C01_no_panic : forall c0 toks,
  plain c0 = true -> valid c0 = true ->
  match do_parse c0 toks with OPanicked _ | OOutOfFuel => False | _ => True end.
Proof. exact do_parse_total. Qed.
Print Assumptions C01_no_panic.

(** the same through [try_get_matches_from] (program name taken from argv[0]) *)
Theorem C01_no_panic_top : forall c0 argv,
  plain c0 = true -> (forall b, valid (c0 <| c_bin_name := b |>) = true) -> valid c0 = true ->
  match parse_top c0 argv with OPanicked _ | OOutOfFuel => False | _ => True end.
Proof. exact parse_top_total. Qed.
Print Assumptions C01_no_panic_top.

(** Outside the class the statement is false of the faithful model (and of the implementation:
    recorded finding C01-flag-subcmd-skip): nested short flag-subcommands with an intermediate
    flag that consumes three indices. *)
Definition refuted_cmd : cmd :=
  let z := (arg_new [122]) <| a_short := Some 122 |> <| a_action := Some ASetTrue |> in
  let q := (cmd_new [113]) <| c_short_flag := Some 113 |> <| c_args := [z] |> in
  let f := (arg_new [102]) <| a_short := Some 102 |> <| a_action := Some ASet |>
             <| a_num := Some r_empty |> <| a_default_missing := [[97]; [98]] |> in
  let s := (cmd_new [83]) <| c_short_flag := Some 83 |> <| c_args := [f] |> <| c_subs := [q] |> in
  (cmd_new [112]) <| c_subs := [s] |>.
Theorem C01_no_panic_refuted :
  valid refuted_cmd = true /\ parse_top refuted_cmd [[112]; [45; 83; 102; 113; 122]] = OPanicked 920.
Proof. split; vm_compute; reflexivity. Qed.
Print Assumptions C01_no_panic_refuted.

(** Non-vacuity: a command with options, a group, conflicts, a positional, a subcommand with a long
    flag and inference enabled satisfies the hypotheses of the main theorem under every program name. *)
Definition nonvacuous_cmd : cmd :=
  let a := (arg_new [97]) <| a_short := Some 97 |> <| a_long := Some [97; 97] |> <| a_groups := [[103]] |>
             <| a_blacklist := [[98]] |> in
  let b := (arg_new [98]) <| a_long := Some [98; 98] |> <| a_action := Some ACount |> in
  let p := (arg_new [112]) <| a_num := Some {| vmin := 0; vmax := usize_max |} |> in
  let sub := (cmd_new [115; 117; 98]) <| c_long_flag := Some [115] |> <| c_args := [(arg_new [120]) <| a_short := Some 120 |>] |> in
  (cmd_new [112]) <| c_args := [a; b; p] |> <| c_subs := [sub] |>
                  <| c_set := settings_none <| s_infer_long := true |> <| s_args_negate_subs := true |> |>.
Theorem C01_hypotheses_satisfiable :
  plain nonvacuous_cmd = true /\ valid nonvacuous_cmd = true
  /\ (forall b, valid (nonvacuous_cmd <| c_bin_name := b |>) = true).
Proof.
  split; [vm_compute; reflexivity|split; [vm_compute; reflexivity|]].
  intros [b|]; vm_compute; reflexivity.
Qed.
Print Assumptions C01_hypotheses_satisfiable.

(** ---------- round 2 (1): the panic sites of the parse path, tied to the Rust source ----------
    [Gen.ParseSites.parse_sites] is regenerated from /repo on every run (translators/parse_sites.py: every
    unwrap() / expect( / unreachable! / panic! / (debug_)assert*! / index expression / binary minus / assert_app( of
    parser.rs, arg_matcher.rs, matched_arg.rs, validator.rs and the parse-reachable functions of command.rs, keyed
    by (file, enclosing fn, kind, ordinal within the fn)).  The model-side table [model_site_table] (ParseProofs/Sites.v)
    has one row per source site, in source order: a new panic site on the parse path breaks this theorem. *)
Theorem C01_sites_match : map fst model_site_table = Gen.ParseSites.parse_sites.
Proof. exact sites_match. Qed.
Print Assumptions C01_sites_match.

(** every row [Modelled l]: each number in [l] is an [RPanic]/[VPanic] site of the model and is never the
    outcome of parsing, for every plain valid definition and every token list *)
Theorem C01_sites_dead : forall c0 toks, plain c0 = true -> valid c0 = true ->
  forall n, In n modelled_sites -> do_parse c0 toks <> OPanicked n.
Proof. exact sites_dead. Qed.
Print Assumptions C01_sites_dead.

(** every row [Proved P why]: the statement [P] (about the model, for ALL commands and inputs) that makes the
    site dead holds *)
Theorem C01_sites_proved : forall k P w, In (k, Proved P w) model_site_table -> P.
Proof. exact sites_proved. Qed.
Print Assumptions C01_sites_proved.

(** the rows that are neither: justified by reasoning local to the Rust function (string in the table).  Their
    keys are pinned here, so that classifying a new site as "reasoned" is a visible, deliberate change. *)
Theorem C01_sites_reasoned_rows :
  map fst (filter (fun p => match snd p with Reasoned _ => true | _ => false end) model_site_table)
  = [ ("parser/parser.rs", "Parser::parse", "unreachable!", 0);
      ("parser/parser.rs", "Parser::parse", "unreachable!", 4);
      ("parser/parser.rs", "Parser::parse", "debug_assert_eq!", 0);
      ("parser/parser.rs", "Parser::did_you_mean_error", "index", 0);
      ("parser/arg_matcher.rs", "ArgMatcher::start_custom_arg", "debug_assert_eq!", 0);
      ("parser/arg_matcher.rs", "ArgMatcher::start_custom_group", "debug_assert_eq!", 0);
      ("parser/arg_matcher.rs", "ArgMatcher::start_occurrence_of_external", "debug_assert_eq!", 0);
      ("builder/command.rs", "Command::_build_subcommand", "unwrap", 0);
      ("builder/command.rs", "Command::_build_subcommand", "unwrap", 1);
      ("builder/command.rs", "Command::format_group", "unwrap", 0) ]%string.
Proof. exact sites_reasoned_rows. Qed.
Print Assumptions C01_sites_reasoned_rows.

(** the converse: the table knows every panic site of the MODEL.  For EVERY definition (valid or not, any class)
    and every token list, a panic outcome of the model carries a number of a [Modelled] row or of
    [callee_sites] (callees outside the five files: Arg::get_min_vals, the value parser, OsStrExt::split; the
    model's own short-loop fuel). *)
Theorem C01_model_sites_listed : forall c0 toks s,
  do_parse c0 toks = OPanicked s -> In s (modelled_sites ++ callee_sites).
Proof. exact model_sites_listed. Qed.
Print Assumptions C01_model_sites_listed.

(** ---------- round 2 (2): "the error can always be rendered" ----------
    Errors/RenderModel.v models the error value (kind, message Raw | Formatted | none, ordered context of
    (ContextKind, ContextValue), source, help flag), every constructor of error/mod.rs the parse path calls,
    Error::render/formatted, RichFormatter::format_error, write_dynamic_context (panic sites visible: the
    `as_str().unwrap()` of format.rs, the `others.pop().unwrap()` of mod.rs). *)

(** rendering never panics -- for ANY error value (any kind, any context, any message), whatever
    [<str as Debug>::fmt] (used by [Escape]) returns *)
Theorem C01_render_total : forall (str_debug : bytes -> bytes) (e : rerror) s, render str_debug e <> Panic s.
Proof. exact render_total. Qed.
Print Assumptions C01_render_total.

(** the two constructors that contain an [unwrap] never reach it *)
Theorem C01_conflict_ctors_total : forall c x others usage,
  (exists e, argument_conflict c x others usage = Done e) /\ (exists e, subcommand_conflict c x others usage = Done e).
Proof. exact conflict_ctors_total. Qed.
Print Assumptions C01_conflict_ctors_total.

(** the tables behind the model are the source's today (Gen/ErrorCtx.v regenerated on every run): which kinds have
    an [as_str] text, the ContextKind enum, per constructor the context kinds attached unconditionally / conditionally
    in order, and "format.rs contains exactly one unwrap and no expect/index/unreachable; mod.rs the two `others.pop().unwrap()`;
    kind.rs and context.rs none" -- the three sites are [Panic 175] and [Panic 276] of the model *)
Theorem C01_error_tables_match :
  List.map (fun k => (ekind_name k, is_some (kind_as_str k))) all_kinds = Gen.ErrorCtx.gen_kind_has_msg
  /\ List.map ckind_name all_ckinds = Gen.ErrorCtx.gen_context_kinds
  /\ model_ctor_ctx = Gen.ErrorCtx.gen_ctor_ctx
  /\ Gen.ErrorCtx.gen_format_sites = [("write_dynamic_context", "unwrap", 0%N);
                                      ("Error::argument_conflict", "unwrap", 0%N); ("Error::subcommand_conflict", "unwrap", 0%N)]%string.
Proof. exact (conj kind_has_msg_match (conj context_kinds_match (conj ctor_ctx_match ctx_format_sites_match))). Qed.
Print Assumptions C01_error_tables_match.

(** the errors of the parse path have every kind except Io and Format -- for every definition (any class) *)
Theorem C01_parser_error_kinds : forall c0 toks e,
  do_parse c0 toks = OErr e -> e_kind e <> EIo /\ e_kind e <> EFormat.
Proof. exact parser_error_kinds_ne. Qed.
Print Assumptions C01_parser_error_kinds.

(** MAIN (rendering).  For EVERY definition (valid or not, any class) and EVERY token list: if the parser model
    returns an error [e], then [rich_alternatives e] -- the rich errors [e] stands for: per kind, each constructor
    the parse path uses for that kind -- is non-empty, and each of them (1) is built by a modelled constructor,
    (2) has the kind of [e] (or its jaro-dependent alternative), (3) renders without panic, (4) where a specific
    message is expected (no pre-formatted message, kind other than InvalidUtf8) carries the context
    [write_dynamic_context] asks for, so the specific message is produced. *)
Theorem C01_renders : forall c0 toks e, do_parse c0 toks = OErr e ->
  rich_alternatives e <> []
  /\ forall r, In r (rich_alternatives e) ->
       constructed r
       /\ (r_kind r = e_kind e \/ Some (r_kind r) = e_alt e)
       /\ (forall dbg s, render dbg r <> Panic s)
       /\ (rich_expected r = true -> forall dbg, exists txt, write_dynamic_context dbg r = Done (true, txt)).
Proof. exact parser_errors_render. Qed.
Print Assumptions C01_renders.

(** every constructed error (not only the placeholders of [rich_alternatives]) gets its specific message *)
Theorem C01_constructed_rich : forall dbg e, constructed e -> rich_expected e = true ->
  exists txt, write_dynamic_context dbg e = Done (true, txt).
Proof. exact constructed_rich. Qed.
Print Assumptions C01_constructed_rich.

(** what the model driver of stream `errctx` prints (a literal table, extracted without the texts) is the signature
    -- message form, ordered (context kind, value variant), specific message expected -- computed from the
    constructor functions above; the run compares it with `Error::context()` / the message form / the rendered
    text of the implementation's error on every generated case *)
Theorem C01_signature_table : forall e, error_signature_table e = error_signature e.
Proof. exact error_signature_table_ok. Qed.
Print Assumptions C01_signature_table.

(** ---------- round 2 (3): short flag-subcommands ----------
    [C01_no_panic] stays stated for [plain].  The wider classes one would try are refuted by the faithful model
    (each witness also panics the real crate, debug build, in debug_assert_eq!(advance_by(skip), Ok(()))): *)

(** "every short-named argument consumes exactly one index per occurrence" does not suffice: [flag_subcmd_at] is
    never cleared after `-Sx`, the next cluster `-Qy` of the child computes its skip from the stale value *)
Theorem C01_no_panic_one_index_refuted :
  valid stale_cmd = true /\ unplain_ok stale_cmd = true /\ one_index_flags stale_cmd = true
  /\ parse_top stale_cmd [[112]; [45; 83; 120]; [45; 81; 121]] = OPanicked 920.
Proof. exact stale_at_witness. Qed.
Print Assumptions C01_no_panic_one_index_refuted.

(** nor does "... and short flag-subcommands are not nested": a re-read cluster accepted as a hyphen value leaves
    [flag_subcmd_skip] unconsumed (`p -Sz -\xff`) *)
Theorem C01_no_panic_flat_refuted :
  valid hyphen_cmd = true /\ unplain_ok hyphen_cmd = true /\ one_index_flags hyphen_cmd = true
  /\ flat_flag_subs hyphen_cmd = true
  /\ parse_top hyphen_cmd [[112]; [45; 83; 122]; [45; 255]] = OPanicked 920.
Proof. exact unconsumed_skip_witness. Qed.
Print Assumptions C01_no_panic_flat_refuted.

(** ---------- round 4: the positive theorem for definitions WITH short flag-subcommands ----------
    ParseProofs/FsInvariant.v (the traversal of Invariant.v generalised over the resume state
    [flag_subcmd_at]/[flag_subcmd_skip], without the level hypothesis "no short flag-subcommands"; the short
    cluster, [parse_short_arg] and the token loop with the resume state; the first iteration of a level that is
    entered by re-reading a cluster) and ParseProofs/FsTotality.v (recursion over the tree, class). *)

(** MAIN THEOREM for the class [flag_sub_class] (boolean; computed, like [valid], on the tree as the parser builds
    it): no node carries the internal Built flag, and every level a cluster can re-enter -- the built child of a
    subcommand that has a short flag or short-flag alias -- has no short flag-subcommands of its own, and its
    first positional neither allows negative numbers nor (unless it is `last`) hyphen values.  Arguments of
    any shape (options, optional values, require_equals, multiple values, Count/Append, default_missing_values,
    groups, relations), any settings, any nesting of the short flag-subcommands BELOW other subcommands are
    allowed.  For every valid definition of the class and EVERY token list, parsing neither reaches a panic
    site (in particular not debug_assert_eq!(advance_by(skip)) = 920, not the unsigned subtraction
    cur_idx - flag_subcmd_at = 243) nor runs out of fuel.  Every [plain] definition is in the class
    ([C01_plain_in_flag_sub_class]), so this subsumes [C01_no_panic]. *)
Theorem C01_no_panic_flag_subs : forall c0 toks,
  flag_sub_class c0 = true -> valid c0 = true ->
  match do_parse c0 toks with OPanicked _ | OOutOfFuel => False | _ => True end.
Proof. exact do_parse_total_fs. Qed.
Print Assumptions C01_no_panic_flag_subs.

(** every row [Modelled l] of the panic-site table ([C01_sites_match]: the sites of the Rust source today) is dead
    for the class too -- in particular the two sites of the resume logic, parser.rs `self.cur_idx.get() - flag_subcmd_at`
    (243) and `debug_assert_eq!(short_arg.advance_by(skip), Ok(()))` (920), which [C01_sites_dead] excludes only for
    definitions without short flag-subcommands *)
Theorem C01_sites_dead_flag_subs : forall c0 toks, flag_sub_class c0 = true -> valid c0 = true ->
  forall n, In n modelled_sites -> do_parse c0 toks <> OPanicked n.
Proof. exact sites_dead_fs. Qed.
Print Assumptions C01_sites_dead_flag_subs.

(** the class is an extension of [plain] (on valid definitions) *)
Theorem C01_plain_in_flag_sub_class : forall c0, plain c0 = true -> valid c0 = true -> flag_sub_class c0 = true.
Proof. exact plain_in_class. Qed.
Print Assumptions C01_plain_in_flag_sub_class.

(** the same through [try_get_matches_from] *)
Theorem C01_no_panic_flag_subs_top : forall c0 argv,
  (forall b, flag_sub_class (c0 <| c_bin_name := b |>) = true) -> flag_sub_class c0 = true ->
  (forall b, valid (c0 <| c_bin_name := b |>) = true) -> valid c0 = true ->
  match parse_top c0 argv with OPanicked _ | OOutOfFuel => False | _ => True end.
Proof. exact parse_top_total_fs. Qed.
Print Assumptions C01_no_panic_flag_subs_top.

(** Non-vacuity and class boundary: two definitions with short flag-subcommands (outside [plain]) satisfy the
    hypotheses under every program name; the three recorded witnesses of C01-flag-subcmd-skip (stale [at] through
    nesting; unconsumed skip through a hyphen-value positional; both) are outside the class. *)
Theorem C01_flag_sub_class_satisfiable :
  (flag_sub_class candidate_cmd = true /\ valid candidate_cmd = true /\ plain candidate_cmd = false)
  /\ (flag_sub_class fs_wide_cmd = true /\ valid fs_wide_cmd = true /\ plain fs_wide_cmd = false
      /\ (forall b, flag_sub_class (fs_wide_cmd <| c_bin_name := b |>) = true)
      /\ (forall b, valid (fs_wide_cmd <| c_bin_name := b |>) = true))
  /\ flag_sub_class stale_cmd = false /\ flag_sub_class hyphen_cmd = false /\ flag_sub_class hyphen2_cmd = false.
Proof. exact flag_sub_class_examples. Qed.
Print Assumptions C01_flag_sub_class_satisfiable.

(** ---------- round 5 (A): the top-level theorems for the definition as the user wrote it ----------
    ParseProofs/FsTop.v.  [try_get_matches_from] stores argv[0] as the program name before building; rounds 1-4
    asked for gate and class "under every program name".  Neither reads the name: *)
Theorem C01_valid_any_bin_name : forall c0 b, valid (c0 <| c_bin_name := b |>) = valid c0.
Proof. exact valid_bin_name. Qed.
Print Assumptions C01_valid_any_bin_name.

Theorem C01_flag_sub_class_any_bin_name : forall c0 b, flag_sub_class (c0 <| c_bin_name := b |>) = flag_sub_class c0.
Proof. exact flag_sub_class_bin_name. Qed.
Print Assumptions C01_flag_sub_class_any_bin_name.

(** MAIN THEOREM at the entry point: for every definition of the class that the gate accepts and EVERY argv
    (program name included, any bytes), [try_get_matches_from] neither panics nor runs out of fuel.  Subsumes
    [C01_no_panic_top] and [C01_no_panic_flag_subs_top] (their extra hypotheses follow from the two above). *)
Theorem C01_no_panic_argv : forall c0 argv,
  flag_sub_class c0 = true -> valid c0 = true ->
  match parse_top c0 argv with OPanicked _ | OOutOfFuel => False | _ => True end.
Proof. exact parse_top_total_fs_any_bin. Qed.
Print Assumptions C01_no_panic_argv.

(** [_build_self] neither sets nor clears IgnoreErrors: what the parser reads on the built root is what the user set
    ([Command::ignore_errors] = the global setting; [is_set] reads local or global) *)
Theorem C01_ignore_errors_setting_kept : forall c, is_set s_ignore_errors (build_self c) = is_set s_ignore_errors c.
Proof. exact ignore_errors_build_self. Qed.
Print Assumptions C01_ignore_errors_setting_kept.

(** THE ERROR-IGNORING CONTRACT at the entry point, as the property states it: for every definition of the class
    that the gate accepts and that has error-ignoring enabled, and EVERY argv, the result is matches or an error of
    kind DisplayHelp / DisplayVersion -- never a panic, never out of fuel, never another error kind (in
    particular not DisplayHelpOnMissingArgumentOrSubcommand, the [arg_required_else_help] error, which uses
    stderr).  [C01_ignore_errors] (round 1) allowed panics and spoke about the built root's setting. *)
Theorem C01_ignore_errors_top : forall c0 argv,
  flag_sub_class c0 = true -> valid c0 = true -> is_set s_ignore_errors c0 = true ->
  match parse_top c0 argv with
  | OOk _ => True
  | OErr e => e_kind e = EDisplayHelp \/ e_kind e = EDisplayVersion
  | OPanicked _ | OOutOfFuel | OInvalidConfig => False
  end.
Proof. exact parse_top_ignore_errors_exact. Qed.
Print Assumptions C01_ignore_errors_top.

(** non-vacuity and sharpness: a definition with a short flag-subcommand, required options, [arg_required_else_help]
    and [subcommand_required]; six faulty lines (nothing, unknown argument, re-read cluster with a non-UTF-8 byte,
    -V without a version, `help` + unknown name, option without value in the child) all yield matches; `--help`
    and `help s` still end the parse with DisplayHelp; without the setting each faulty line is an error *)
Theorem C01_ignore_errors_top_example :
  flag_sub_class ign_cmd = true /\ valid ign_cmd = true /\ is_set s_ignore_errors ign_cmd = true
  /\ plain ign_cmd = false
  /\ map (fun l => outcome_kind (parse_top ign_cmd l)) ign_lines = map (fun _ => Some None) ign_lines
  /\ outcome_kind (parse_top ign_cmd [[112]; [45; 45; 104; 101; 108; 112]]) = Some (Some EDisplayHelp)
  /\ outcome_kind (parse_top ign_cmd [[112]; [104; 101; 108; 112]; [115]]) = Some (Some EDisplayHelp)
  /\ map (fun l => outcome_kind (parse_top (ign_cmd <| c_gset := settings_none |>) l)) ign_lines
     = [Some (Some EDisplayHelpOnMissing); Some (Some EUnknownArgument); Some (Some EUnknownArgument);
        Some (Some EUnknownArgument); Some (Some EInvalidSubcommand); Some (Some EInvalidValue)].
Proof. exact ignore_errors_example. Qed.
Print Assumptions C01_ignore_errors_top_example.

(** ---------- round 5 (B): EVERY definition the gate accepts; the one reachable panic site ----------
    ParseProofs/FsAny.v.  Class [unbuilt]: the internal Built flag is unset (local and global settings) on every node
    of the definition -- a syntactic check; users cannot set the flag.  No condition on short flag-subcommands:
    nesting, hyphen values, negative numbers anywhere. *)

(** MAIN THEOREM for the full class.  For every definition the gate accepts and EVERY token list, parsing does not
    run out of fuel, and the only panic site it can reach is 920 = `debug_assert_eq!(short_arg.advance_by(skip), Ok(()))`
    of Parser::parse_short_arg (the recorded finding C01-flag-subcmd-skip).  Every other unwrap / expect / unreachable! /
    debug_assert / index / unsigned subtraction on the parse path -- in particular `cur_idx - flag_subcmd_at` (243), which
    [C01_sites_dead_flag_subs] excludes only for flat short flag-subcommands -- is dead for every valid definition. *)
Theorem C01_only_site_920 : forall c0 toks,
  unbuilt c0 = true -> valid c0 = true ->
  match do_parse c0 toks with OPanicked s => s = 920 | OOutOfFuel => False | _ => True end.
Proof. exact do_parse_only_920. Qed.
Print Assumptions C01_only_site_920.

(** the same at the entry point, for every argv (program name included) *)
Theorem C01_only_site_920_argv : forall c0 argv,
  unbuilt c0 = true -> valid c0 = true ->
  match parse_top c0 argv with OPanicked s => s = 920 | OOutOfFuel => False | _ => True end.
Proof. exact parse_top_only_920. Qed.
Print Assumptions C01_only_site_920_argv.

(** every [Modelled] row of the panic-site table ([C01_sites_match]: the sites of the Rust source today) except that one
    assertion is dead for EVERY valid definition *)
Theorem C01_sites_dead_any_valid : forall c0 toks, unbuilt c0 = true -> valid c0 = true ->
  forall n, In n modelled_sites -> n <> 920 -> do_parse c0 toks <> OPanicked n.
Proof. exact sites_dead_any. Qed.
Print Assumptions C01_sites_dead_any_valid.

(** the error-ignoring contract for EVERY valid definition with the setting: matches, a help / version request, or that
    one assertion -- no other error kind, no other panic, no fuel exhaustion *)
Theorem C01_ignore_errors_any_valid : forall c0 argv,
  unbuilt c0 = true -> valid c0 = true -> is_set s_ignore_errors c0 = true ->
  match parse_top c0 argv with
  | OOk _ => True
  | OErr e => e_kind e = EDisplayHelp \/ e_kind e = EDisplayVersion
  | OPanicked s => s = 920
  | OOutOfFuel | OInvalidConfig => False
  end.
Proof. exact parse_top_ignore_errors_any. Qed.
Print Assumptions C01_ignore_errors_any_valid.

(** non-vacuity and sharpness: the witnesses of the recorded finding (stale [at] through nesting; skip left unconsumed by
    a hyphen-value positional; both; the round-1 witness with a three-index flag) satisfy the hypotheses, lie outside
    [flag_sub_class], and reach 920 -- so the exception is necessary; other lines on the same nested definitions parse *)
Theorem C01_only_site_920_examples :
  (unbuilt stale_cmd = true /\ valid stale_cmd = true /\ flag_sub_class stale_cmd = false
   /\ parse_top stale_cmd [[112]; [45; 83; 120]; [45; 81; 121]] = OPanicked 920
   /\ outcome_kind (parse_top stale_cmd [[112]; [45; 83; 120; 81; 121]]) = Some None
   /\ outcome_kind (parse_top stale_cmd [[112]; [45; 83]; [45; 81; 121]]) = Some None)
  /\ (unbuilt hyphen_cmd = true /\ valid hyphen_cmd = true /\ flag_sub_class hyphen_cmd = false
      /\ parse_top hyphen_cmd [[112]; [45; 83; 122]; [45; 255]] = OPanicked 920)
  /\ (unbuilt hyphen2_cmd = true /\ valid hyphen2_cmd = true /\ flag_sub_class hyphen2_cmd = false)
  /\ (unbuilt refuted_nested_cmd = true /\ valid refuted_nested_cmd = true
      /\ parse_top refuted_nested_cmd [[112]; [45; 83; 102; 113; 122]] = OPanicked 920).
Proof. exact only_920_examples. Qed.
Print Assumptions C01_only_site_920_examples.

(** ---------- round 5 (C): every source site has a coverage class; the classes are pinned by name ----------
    ParseProofs/SitesCoverage.v, SitesGuards.v.  Three rows that rounds 2-4 justified in prose now carry statements about the
    model proved for every definition and input ([external_guarded]: the loop returns LExternal only under
    AllowExternalSubcommands -- the guard of the two `get_external_subcommand_value_parser().expect`s; [missing_known]:
    every id validate_required collects is an argument or group of the command); [C01_sites_reasoned_rows] above lists the
    10 rows left. *)

(** what each coverage class claims, for every site of that class *)
Theorem C01_sites_coverage_sound : forall k cov, In (k, cov) site_coverage ->
  match cov with
  | CovAllDefs => exists P w, In (k, Proved P w) model_site_table /\ P
  | CovValid => exists l, In (k, Modelled l) model_site_table
      /\ forall c0 toks, unbuilt c0 = true -> valid c0 = true -> forall n, In n l -> do_parse c0 toks <> OPanicked n
  | CovClassOnly => exists l, In (k, Modelled l) model_site_table
      /\ forall c0 toks, flag_sub_class c0 = true -> valid c0 = true -> forall n, In n l -> do_parse c0 toks <> OPanicked n
  | CovReasoned => exists w, In (k, Reasoned w) model_site_table
  end.
Proof. exact sites_coverage_sound. Qed.
Print Assumptions C01_sites_coverage_sound.

(** the classification covers exactly the sites the translator finds in the source today, and the members of each class
    are these (47 of today's 48 sites are covered for every valid definition or justified locally; ONE site is reachable --
    outside [flag_sub_class] only).  The lists CovClassOnly and CovReasoned are the "differential only" lists the check
    prints into the evidence (vp/props/c01.py reads them from this statement). *)
Theorem C01_sites_classified :
  (List.map fst site_coverage = Gen.ParseSites.parse_sites
  /\ sites_of CovAllDefs =
     [ ("parser/parser.rs", "Parser::parse_help_subcommand", "unwrap", 0);
       ("parser/parser.rs", "Parser::parse_opt_value", "debug_assert_eq!", 0);
       ("parser/parser.rs", "Parser::parse_opt_value", "debug_assert_eq!", 1);
       ("parser/arg_matcher.rs", "ArgMatcher::start_occurrence_of_external", "expect", 0);
       ("parser/matches/matched_arg.rs", "MatchedArg::new_external", "expect", 0);
       ("parser/validator.rs", "Validator::missing_required_error", "debug_assert!", 0);
       ("builder/command.rs", "Command::contains_short", "debug_assert!", 0) ]
  /\ sites_of CovValid =
     [ ("parser/parser.rs", "Parser::parse", "index", 0);
       ("parser/parser.rs", "Parser::parse", "unreachable!", 1);
       ("parser/parser.rs", "Parser::parse", "unreachable!", 2);
       ("parser/parser.rs", "Parser::parse", "sub", 0);
       ("parser/parser.rs", "Parser::parse", "unreachable!", 3);
       ("parser/parser.rs", "Parser::parse", "index", 1);
       ("parser/parser.rs", "Parser::parse", "expect", 0);
       ("parser/parser.rs", "Parser::is_new_arg", "index", 0);
       ("parser/parser.rs", "Parser::is_new_arg", "index", 1);
       ("parser/parser.rs", "Parser::parse_long_arg", "index", 0);
       ("parser/parser.rs", "Parser::parse_long_arg", "debug_assert!", 0);
       ("parser/parser.rs", "Parser::parse_short_arg", "index", 0);
       ("parser/parser.rs", "Parser::parse_short_arg", "index", 1);
       ("parser/parser.rs", "Parser::resolve_pending", "expect", 0);
       ("parser/parser.rs", "Parser::verify_num_args", "expect", 0);
       ("parser/parser.rs", "Parser::verify_num_args", "expect", 1);
       ("parser/arg_matcher.rs", "ArgMatcher::add_val_to", "expect", 0);
       ("parser/arg_matcher.rs", "ArgMatcher::add_index_to", "expect", 0);
       ("parser/arg_matcher.rs", "ArgMatcher::needs_more_vals", "expect", 0);
       ("parser/arg_matcher.rs", "ArgMatcher::pending_values_mut", "debug_assert_eq!", 0);
       ("parser/arg_matcher.rs", "ArgMatcher::pending_values_mut", "debug_assert_eq!", 1);
       ("parser/matches/matched_arg.rs", "MatchedArg::append_val", "expect", 0);
       ("parser/matches/matched_arg.rs", "MatchedArg::append_val", "expect", 1);
       ("parser/validator.rs", "Validator::build_conflict_err", "expect", 0);
       ("parser/validator.rs", "Validator::build_conflict_err", "expect", 1);
       ("parser/validator.rs", "gather_direct_conflicts", "debug_assert!", 0);
       ("parser/validator.rs", "gather_arg_direct_conflicts", "expect", 0);
       ("builder/command.rs", "Command::_build_self", "assert_app", 0);
       ("builder/command.rs", "Command::unroll_args_in_group", "expect", 0);
       ("builder/command.rs", "Command::index", "expect", 0) ]
  /\ sites_of CovClassOnly =
     [ ("parser/parser.rs", "Parser::parse_short_arg", "debug_assert_eq!", 0) ]
  /\ sites_of CovReasoned =
     [ ("parser/parser.rs", "Parser::parse", "unreachable!", 0);
       ("parser/parser.rs", "Parser::parse", "unreachable!", 4);
       ("parser/parser.rs", "Parser::parse", "debug_assert_eq!", 0);
       ("parser/parser.rs", "Parser::did_you_mean_error", "index", 0);
       ("parser/arg_matcher.rs", "ArgMatcher::start_custom_arg", "debug_assert_eq!", 0);
       ("parser/arg_matcher.rs", "ArgMatcher::start_custom_group", "debug_assert_eq!", 0);
       ("parser/arg_matcher.rs", "ArgMatcher::start_occurrence_of_external", "debug_assert_eq!", 0);
       ("builder/command.rs", "Command::_build_subcommand", "unwrap", 0);
       ("builder/command.rs", "Command::_build_subcommand", "unwrap", 1);
       ("builder/command.rs", "Command::format_group", "unwrap", 0) ])%string.
Proof. exact sites_classified. Qed.
Print Assumptions C01_sites_classified.

(** ---------- round 5 (D): the line side of the finding ----------
    ParseProofs/FsLine.v.  [single_clusters argv]: no token is a short cluster of more than one character (`-x` is allowed;
    `-xy`, `-x=v`, `-xVALUE` are not; long options, values, `-`, `--`, non-UTF-8 tokens are unrestricted). *)

(** for EVERY definition the gate accepts -- any nesting of short flag-subcommands, hyphen values anywhere -- a line of that
    class never reaches a panic site nor runs out of fuel: [flag_subcmd_at] is set only when a short flag-subcommand letter
    is followed by more of its cluster.  With [C01_no_panic_flag_subs] (definition side) and [C01_only_site_920]: a panic
    needs a definition outside [flag_sub_class] AND a multi-character short cluster on the line, and is then the
    assertion 920. *)
Theorem C01_no_panic_single_clusters : forall c0 toks,
  unbuilt c0 = true -> valid c0 = true -> single_clusters toks = true ->
  match do_parse c0 toks with OPanicked _ | OOutOfFuel => False | _ => True end.
Proof. exact do_parse_single_clusters. Qed.
Print Assumptions C01_no_panic_single_clusters.

Theorem C01_no_panic_single_clusters_argv : forall c0 argv,
  unbuilt c0 = true -> valid c0 = true -> single_clusters argv = true ->
  match parse_top c0 argv with OPanicked _ | OOutOfFuel => False | _ => True end.
Proof. exact parse_top_single_clusters. Qed.
Print Assumptions C01_no_panic_single_clusters_argv.

(** the tokens a subcommand level receives are a suffix of its parent's (the rest of the line, or the rest with the
    re-read cluster in front) -- for every definition and every loop state *)
Theorem C01_sub_tokens_suffix : forall c toks ls st n keep vaf st' toks',
  parse_loop c toks ls st = ROk (LSub n keep vaf st' toks') -> exists pre, toks = pre ++ toks'.
Proof. exact SitesGuards.sub_tokens_suffix. Qed.
Print Assumptions C01_sub_tokens_suffix.

(** non-vacuity and sharpness on the nested definition of the finding: `p -S -x -Q -y` parses through two levels of short
    flag-subcommands; `p -Sx -Qy` is outside the class and reaches 920 *)
Theorem C01_single_clusters_examples :
  unbuilt stale_cmd = true /\ valid stale_cmd = true /\ flag_sub_class stale_cmd = false
  /\ single_clusters [[112]; [45; 83]; [45; 120]; [45; 81]; [45; 121]] = true
  /\ outcome_kind (parse_top stale_cmd [[112]; [45; 83]; [45; 120]; [45; 81]; [45; 121]]) = Some None
  /\ single_clusters [[112]; [45; 83; 120]; [45; 81; 121]] = false
  /\ parse_top stale_cmd [[112]; [45; 83; 120]; [45; 81; 121]] = OPanicked 920
  /\ single_clusters [[112]; [45; 83]; [45; 195; 169]; [45]; [45; 45]; [45; 45; 120; 61; 49]; [45; 255]] = true
  /\ single_clusters [[112]; [45; 120; 61]] = false.
Proof. exact single_clusters_examples. Qed.
Print Assumptions C01_single_clusters_examples.

(** the panic-shaped sites of the files reached while an error is constructed (usage string: output/usage.rs; help text of a
    DisplayHelp error: output/help_template.rs, builder/styled_str.rs), regenerated from the source on every run.  Outside the
    parser model -- C12 models them and proves them dead for its class (C12_usage_total, C12_padding_safe, C12_render_total);
    for C01: differential only (every error is rendered under catch_unwind on every case).  Pinned so that a new site on that
    path fails this gate until it is acknowledged here. *)
Theorem C01_render_path_sites :
  (Gen.ParseSites.render_path_sites =
     [
       ("output/usage.rs", "Usage::write_args", "debug_assert!", 0);
       ("output/usage.rs", "Usage::write_args", "index", 0);
       ("output/usage.rs", "Usage::write_args", "debug_assert!", 1);
       ("output/usage.rs", "Usage::write_args", "unwrap", 0);
       ("output/usage.rs", "Usage::write_args", "index", 1);
       ("output/usage.rs", "Usage::write_args", "index", 2);
       ("output/usage.rs", "Usage::write_args", "unwrap", 1);
       ("output/usage.rs", "Usage::write_args", "index", 3);
       ("output/usage.rs", "Usage::write_args", "index", 4);
       ("output/usage.rs", "Usage::write_args", "index", 5);
       ("output/usage.rs", "Usage::get_required_usage_from", "debug_assert!", 0);
       ("output/usage.rs", "Usage::get_required_usage_from", "index", 0);
       ("output/usage.rs", "Usage::get_required_usage_from", "debug_assert!", 1);
       ("output/help_template.rs", "HelpTemplate::align_to_about", "sub", 0);
       ("output/help_template.rs", "HelpTemplate::align_to_about", "sub", 1);
       ("output/help_template.rs", "HelpTemplate::help", "expect", 0);
       ("output/help_template.rs", "HelpTemplate::help", "sub", 0);
       ("output/help_template.rs", "HelpTemplate::help", "sub", 1);
       ("output/help_template.rs", "HelpTemplate::help", "sub", 2);
       ("output/help_template.rs", "HelpTemplate::arg_next_line_help", "sub", 0);
       ("output/help_template.rs", "HelpTemplate::subcommand_next_line_help", "sub", 0);
       ("output/help_template.rs", "HelpTemplate::subcmd", "sub", 0);
       ("builder/styled_str.rs", "StyledStr::wrap", "sub", 0);
       ("builder/styled_str.rs", "StyledStr::wrap", "index", 0);
       ("builder/styled_str.rs", "StyledStr::wrap", "index", 1) ])%string.
Proof. exact render_path_sites_listed. Qed.
Print Assumptions C01_render_path_sites.

(** ---------- round 5: the property statement at the entry point, in one theorem ----------
    For EVERY definition the gate accepts and EVERY argv, [try_get_matches_from] returns
    - matches, or
    - a structured error that stands for rich errors each of which renders without panic, and that under error-ignoring is a
      help / version request, or
    - (the recorded finding, and nothing else) the panic of the one debug assertion 920 -- and then the definition is outside
      [flag_sub_class] AND the line contains a short cluster in which a short flag-subcommand letter of the definition is
      followed by further characters (for every letter set [L] covering those letters the line is outside [no_resume L];
      in particular it contains a cluster of more than one character);
    never out of fuel, never "invalid configuration", never another panic site. *)
Theorem C01_entry_point_summary : forall c0 argv, unbuilt c0 = true -> valid c0 = true ->
  match parse_top c0 argv with
  | OOk _ => True
  | OErr e =>
      (rich_alternatives e <> [] /\ forall r, In r (rich_alternatives e) -> forall dbg s, render dbg r <> Panic s)
      /\ (is_set s_ignore_errors c0 = true -> e_kind e = EDisplayHelp \/ e_kind e = EDisplayVersion)
  | OPanicked s => s = 920 /\ flag_sub_class c0 = false /\ single_clusters argv = false
                   /\ (forall L, letters_inb L c0 = true -> no_resume L argv = false)
  | OOutOfFuel | OInvalidConfig => False
  end.
Proof. exact entry_point_summary. Qed.
Print Assumptions C01_entry_point_summary.

(** [C01_renders] at the entry point *)
Theorem C01_renders_argv : forall c0 argv e, parse_top c0 argv = OErr e ->
  rich_alternatives e <> []
  /\ forall r, In r (rich_alternatives e) ->
       constructed r
       /\ (r_kind r = e_kind e \/ Some (r_kind r) = e_alt e)
       /\ (forall dbg s, render dbg r <> Panic s)
       /\ (rich_expected r = true -> forall dbg, exists txt, write_dynamic_context dbg r = Done (true, txt)).
Proof. exact parser_errors_render_top. Qed.
Print Assumptions C01_renders_argv.

(** ---------- round 5 (F): the line side, sharpened: the resume logic is never engaged ----------
    ParseProofs/FsResume.v.  [letters_inb L c0] (syntactic): [L] contains every short flag and short-flag alias of every
    subcommand of the definition, at every depth.  [no_resume L argv]: in no short cluster of the line is a character of [L]
    followed by further characters (`-abc`, `-ovalue`, `-j4`, `-o=v`, `-abS` are fine; `-Sx` is not). *)

(** for EVERY definition the gate accepts, every covering letter set and every line of the class, parsing never reaches a
    panic site nor runs out of fuel -- [flag_subcmd_at] stays unset at every level, so [flag_subcmd_skip] stays 0.
    [C01_no_panic_single_clusters] is the special case ([C01_single_clusters_no_resume]). *)
Theorem C01_no_panic_no_resume : forall c0 L toks,
  unbuilt c0 = true -> valid c0 = true -> letters_inb L c0 = true -> no_resume L toks = true ->
  match do_parse c0 toks with OPanicked _ | OOutOfFuel => False | _ => True end.
Proof. exact do_parse_no_resume. Qed.
Print Assumptions C01_no_panic_no_resume.

Theorem C01_no_panic_no_resume_argv : forall c0 L argv,
  unbuilt c0 = true -> valid c0 = true -> letters_inb L c0 = true -> no_resume L argv = true ->
  match parse_top c0 argv with OPanicked _ | OOutOfFuel => False | _ => True end.
Proof. exact parse_top_no_resume. Qed.
Print Assumptions C01_no_panic_no_resume_argv.

Theorem C01_single_clusters_no_resume : forall L toks, single_clusters toks = true -> no_resume L toks = true.
Proof. exact single_clusters_no_resume. Qed.
Print Assumptions C01_single_clusters_no_resume.

(** the step behind it, for ANY parser state and ANY [flag_subcmd_skip]: on a cluster of the class [parse_short_arg] reports a
    short flag-subcommand only with [flag_subcmd_at] cleared (so the loop does not ask for [keep_state]) *)
Theorem C01_flag_sub_at_end_clears_at : forall c L, (forall ch, In ch (letters_here c) -> In ch L) ->
  forall r pst pc vaf st st1 n vaf1, CO L r ->
  parse_short_arg c r pst pc vaf st = ROk (st1, PRFlagSub n, vaf1) -> fs_at st1 = None.
Proof.
  intros c L HL r pst pc vaf st st1 n vaf1 Hco H.
  pose proof (parse_short_arg_at c L HL r pst pc vaf st Hco) as G. rewrite H in G. exact (G n eq_refl).
Qed.
Print Assumptions C01_flag_sub_at_end_clears_at.

(** non-vacuity and sharpness on the nested definition of the finding (letters S, Q) *)
Theorem C01_no_resume_examples :
  unbuilt stale_cmd = true /\ valid stale_cmd = true /\ flag_sub_class stale_cmd = false
  /\ letters_inb [83; 81] stale_cmd = true /\ letters_inb [83] stale_cmd = false
  /\ no_resume [83; 81] [[112]; [45; 83]; [45; 120; 119; 81]; [45; 121]] = true
  /\ outcome_kind (parse_top stale_cmd [[112]; [45; 83]; [45; 120; 119; 81]; [45; 121]]) = Some None
  /\ single_clusters [[112]; [45; 83]; [45; 120; 119; 81]; [45; 121]] = false
  /\ no_resume [83; 81] [[112]; [45; 83; 120]; [45; 81; 121]] = false
  /\ no_resume [83; 81] [[112]; [45; 83; 120]] = false
  /\ outcome_kind (parse_top stale_cmd [[112]; [45; 83; 120]]) = Some None.
Proof. exact no_resume_examples. Qed.
Print Assumptions C01_no_resume_examples.

(** observation (not a violation: the property says "except"): under error-ignoring a help request inside a subcommand
    (`p -Sh`, `p s --help`) yields matches -- [parse_subcommand] drops every error of the child level; without the setting the
    same lines give DisplayHelp.  Same on the real crate (corpus/C01/parse-ignore-errors.round5.cases). *)
Theorem C01_ignore_errors_swallows_help_in_subcommand :
  outcome_kind (parse_top ign_cmd [[112]; [45; 83; 104]]) = Some None
  /\ outcome_kind (parse_top ign_cmd [[112]; [115]; [45; 45; 104; 101; 108; 112]]) = Some None
  /\ outcome_kind (parse_top (ign_cmd <| c_gset := settings_none |>) [[112]; [45; 83; 104]]) = Some (Some EDisplayHelp)
  /\ outcome_kind (parse_top (ign_cmd <| c_gset := settings_none |>) [[112]; [115]; [45; 45; 104; 101; 108; 112]])
     = Some (Some EDisplayHelp).
Proof. exact ignore_errors_swallows_help_in_subcommand. Qed.
Print Assumptions C01_ignore_errors_swallows_help_in_subcommand.
