(** Property C01: parsing is total.  Only pinned statements; proofs live in ParseProofs/. *)
From ClapModel Require Import Base.Bytes Base.Machine Base.Utf8.
From ClapModel Require Import Parse.Cmd Parse.Build Parse.Valid Parse.Matcher Parse.Errors Parse.Validator Parse.Parser.
From ClapModel Require Import ParseProofs.Totality.
From Coq Require Import ZArith.
Open Scope N_scope.

(** [Arg::_build] gives every argument an action, a value range and a value parser, so the
    [expect]s on them (parser.rs 1029, 1101, 1333; arg_matcher.rs needs_more_vals) are dead. *)
Theorem C01_built_args_complete : forall c a,
  s_built (c_set c) = false -> In a (c_args (build_self c)) -> arg_complete a.
Proof. exact build_self_args_complete. Qed.
Print Assumptions C01_built_args_complete.

(** With error-ignoring enabled the outcome is matches for every input except an explicit
    help or version request (whatever happened inside). *)
Theorem C01_ignore_errors : forall c toks,
  is_set s_ignore_errors (build_self c) = true ->
  match do_parse c toks with
  | OOk _ => True
  | OErr e => e_kind e = EDisplayHelp \/ e_kind e = EDisplayVersion
  | OPanicked _ | OOutOfFuel | OInvalidConfig => True
  end.
Proof. exact do_parse_ignore_errors. Qed.
Print Assumptions C01_ignore_errors.
