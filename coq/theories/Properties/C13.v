(** Property C13: lexing any OS string is a lossless, consistent decomposition.
    This file contains only the pinned statements; proofs live in Base/Utf8.v and Lex/LexProofs.v.
    All statements quantify over every byte string (no length bound). *)
From ClapModel Require Import Base.Bytes Base.Utf8.
From ClapModel Require Import Lex.OsStrExtModel Lex.LexModel Lex.LexProofs.
Open Scope N_scope.

(** The classifiers are mutually consistent; every argument is exactly one of
    empty / stdio / escape / long / short / plain (plain = non-empty, no leading '-'). *)
Theorem C13_classes : forall s,
  (is_escape s = true ->
     is_long s = false /\ is_short s = false /\ to_long s = Ret None /\ to_short s = Ret None) /\
  (is_stdio s = true ->
     is_long s = false /\ is_short s = false /\ to_long s = Ret None /\ to_short s = Ret None) /\
  (is_long s = true <-> exists x, to_long s = Ret (Some x)) /\
  (is_short s = true <-> exists r, to_short s = Ret (Some r)) /\
  (is_long s = true -> is_short s = false) /\
  count_true [is_empty s; is_stdio s; is_escape s; is_long s; is_short s;
              negb (is_empty s) && negb (starts_with s [45])] = 1%nat.
Proof. exact classes_spelled. Qed.
Print Assumptions C13_classes.

(** The long decomposition re-assembles to the original bytes; the name has no '='. *)
Theorem C13_long_reassemble : forall s f u v,
  to_long s = Ret (Some (f, u, v)) ->
  s = [45; 45] ++ f ++ match v with Some v => [61] ++ v | None => [] end /\
  ~ In 61 f /\ u = utf8_valid f /\ (f = [] -> v <> None).
Proof. exact long_reassemble. Qed.
Print Assumptions C13_long_reassemble.

Theorem C13_long_total : forall t, t <> [] -> exists x, to_long (45 :: 45 :: t) = Ret (Some x).
Proof. exact long_total. Qed.
Print Assumptions C13_long_total.

Theorem C13_long_inverse : forall f v,
  ~ In 61 f -> (f = [] -> v <> None) ->
  to_long ([45; 45] ++ f ++ match v with Some v => [61] ++ v | None => [] end)
  = Ret (Some (f, utf8_valid f, v)).
Proof. exact long_join_inv. Qed.
Print Assumptions C13_long_inverse.

(** [is_number] is exactly: digits; at most one '.', not first, before any exponent;
    at most one 'e'/'E', not first, not last ([number_lang]); its [len - 1] never underflows. *)
Theorem C13_is_number_lang : forall s,
  is_number s <> Panic /\ (is_number s = Ret true <-> number_lang s).
Proof. exact is_number_lang. Qed.
Print Assumptions C13_is_number_lang.

Theorem C13_negnum_lang : forall s,
  is_negative_number s = Ret true <-> (exists r, s = 45 :: r /\ number_lang r).
Proof. exact negnum_lang. Qed.
Print Assumptions C13_negnum_lang.

Theorem C13_negnum_sub : forall s,
  is_negative_number s = Ret true -> is_short s = true \/ is_stdio s = true.
Proof. exact negnum_sub. Qed.
Print Assumptions C13_negnum_sub.

(** Documented oddity (not a violation): "-" is stdio and a "negative number", as [is_number ""]. *)
Theorem C13_stdio_is_negnum :
  is_stdio [45] = true /\ is_negative_number [45] = Ret true /\ is_number [] = Ret true.
Proof. exact stdio_is_negative_number. Qed.
Print Assumptions C13_stdio_is_negnum.

(** [split_nonutf8_once]: longest well-formed prefix, the rest (never empty, no scalar value
    starts it) iff the whole is not UTF-8; nothing is lost. *)
Theorem C13_split_nonutf8_once : forall b,
  exists p suf, split_nonutf8_once b = Ret (p, suf) /\
    p = firstn (valid_up_to b) b /\ utf8_valid p = true /\ b = p ++ suffix_bytes suf /\
    (suf = None <-> utf8_valid b = true) /\
    (forall s, suf = Some s -> s = skipn (valid_up_to b) b /\ s <> [] /\ utf8_step s = None).
Proof. exact split_nonutf8_once_spec. Qed.
Print Assumptions C13_split_nonutf8_once.

(** [n] calls of [next_flag] on the cluster [r]: the scalar values of the longest well-formed
    prefix in order, then the non-UTF-8 tail exactly once iff it is non-empty, then [None] forever. *)
Theorem C13_short_walk : forall r st0 n, sf_new r = Ret st0 ->
  sf_run st0 (repeat NextFlag n) =
  firstn n (map (fun x => SFlag (Some x))
              (map FOk (decode (firstn (valid_up_to r) r)) ++
               match skipn (valid_up_to r) r with [] => [] | s => [FErr s] end))
  ++ repeat (SFlag None)
       (n - length (map FOk (decode (firstn (valid_up_to r) r)) ++
                    match skipn (valid_up_to r) r with [] => [] | s => [FErr s] end)).
Proof. exact short_walk. Qed.
Print Assumptions C13_short_walk.

(** every returned char is a Unicode scalar value and stands for exactly the bytes of its encoding *)
Theorem C13_scalar_values : forall s c n, utf8_step s = Some (c, n) ->
  firstn n s = utf8_encode c /\ c < 1114112 /\ ~ (55296 <= c < 57344).
Proof. exact utf8_step_encode. Qed.
Print Assumptions C13_scalar_values.

(** a drained clone lists what is left to walk and leaves the original untouched *)
Theorem C13_clone_drain : forall r st0 ops, sf_new r = Ret st0 ->
  sf_step (sf_steps st0 ops) CloneDrain =
  (sf_steps st0 ops, SDrain (walk (sf_unread (sf_steps st0 ops)))).
Proof. exact clone_drain. Qed.
Print Assumptions C13_clone_drain.

(** After [k] successful [next_flag] calls [next_value_os] returns exactly the unread bytes
    (what follows the encodings of the first [k] scalar values, invalid tail included),
    [None] iff nothing is unread; afterwards everything is consumed. *)
Theorem C13_next_value : forall r st0 k, sf_new r = Ret st0 -> (k <= length (decode r))%nat ->
  let st := sf_steps st0 (repeat NextFlag k) in
  exists unread st',
    r = concat (map utf8_encode (firstn k (decode r))) ++ unread /\
    sf_next_value_os st = (st', Ret (match unread with [] => None | _ => Some unread end)) /\
    sf_unread st' = [] /\ sf_is_empty st' = true /\
    snd (sf_next_flag st') = Ret None /\ snd (sf_next_value_os st') = Ret None.
Proof. exact next_value_after_k. Qed.
Print Assumptions C13_next_value.

(** ... and after any history of operations whatsoever. *)
Theorem C13_next_value_any : forall r st0 ops, sf_new r = Ret st0 ->
  let st := sf_steps st0 ops in
  exists st',
    sf_next_value_os st = (st', Ret (match sf_unread st with [] => None | _ => Some (sf_unread st) end)) /\
    sf_unread st = u_steps r ops /\
    sf_unread st' = [] /\ sf_is_empty st' = true /\
    snd (sf_next_flag st') = Ret None /\ snd (sf_next_value_os st') = Ret None.
Proof. exact next_value_any. Qed.
Print Assumptions C13_next_value_any.

(** Every interleaving of next_flag / next_value_os / advance_by / is_empty / is_negative_number /
    clone-and-drain on the struct model (CharIndices offset, remaining prefix, invalid suffix)
    equals the "unread bytes" machine, never panics, never runs out of fuel, and keeps
    consumed ++ unread = cluster, consumed being the encodings / tail / value returned so far
    ([advance_by] does not return what it skipped, hence the side condition). *)
Theorem C13_any_interleaving : forall r st0 ops, sf_new r = Ret st0 ->
  sf_run st0 ops = u_run r ops /\
  sf_unread (sf_steps st0 ops) = u_steps r ops /\
  ~ In SPanic (sf_run st0 ops) /\ ~ In SOutOfFuel (sf_run st0 ops) /\
  exists consumed, consumed ++ sf_unread (sf_steps st0 ops) = r /\
    (forallb (fun o => negb (is_advance o)) ops = true ->
     consumed = concat (map out_bytes (sf_run st0 ops))).
Proof. exact any_interleaving. Qed.
Print Assumptions C13_any_interleaving.

(** The index of the [split_at] in [split_nonutf8_once] is in range and preceded by well-formed UTF-8. *)
Theorem C13_boundaries : forall b,
  (valid_up_to b <= length b)%nat /\ utf8_valid (firstn (valid_up_to b) b) = true /\
  split_at b (valid_up_to b) = Ret (firstn (valid_up_to b) b, skipn (valid_up_to b) b) /\
  split_nonutf8_once b <> Panic.
Proof. exact boundary_split_once. Qed.
Print Assumptions C13_boundaries.

(** The index [CharIndices::next] yields in any reachable state (the one [next_value_os] hands to
    [split_at]) is in range, preceded by well-formed UTF-8, followed by exactly the unread bytes,
    and a scalar value starts there. *)
Theorem C13_boundary_next_value : forall r st0 ops idx c st', sf_new r = Ret st0 ->
  ci_next (sf_steps st0 ops) = Ret (Some (idx, c, st')) ->
  sf_inner (sf_steps st0 ops) = r /\ (idx <= length r)%nat /\
  utf8_valid (firstn idx r) = true /\ skipn idx r = sf_unread (sf_steps st0 ops) /\
  (exists n, utf8_step (skipn idx r) = Some (c, n)).
Proof. exact boundary_next_value. Qed.
Print Assumptions C13_boundary_next_value.

(** The modelled panic sites are unreachable: debug_asserts of to_long/to_short, [len - 1] of
    is_number, the unwrap and split_at bounds of split_nonutf8_once / ShortFlags::new, and
    CharIndices never meets a malformed str. *)
Theorem C13_no_panic : forall s,
  to_long s <> Panic /\ to_short s <> Panic /\ is_number s <> Panic /\
  is_negative_number s <> Panic /\ split_nonutf8_once s <> Panic /\ sf_new s <> Panic /\
  short_of_arg s <> Panic.
Proof. exact no_panic. Qed.
Print Assumptions C13_no_panic.

Theorem C13_ci_next_no_panic : forall r st0 ops,
  sf_new r = Ret st0 -> ci_next (sf_steps st0 ops) <> Panic.
Proof. exact ci_next_no_panic. Qed.
Print Assumptions C13_ci_next_no_panic.
