(** Property C20: text wrapping keeps every word, in order, within the requested width.
    This file contains only the pinned statements; proofs live in Wrap/WrapProofs.v.
    [ch_width] (unicode-width) and [utf8_len] (char::len_utf8) are arbitrary functions. *)
From ClapModel Require Import Base.Bytes.
From ClapModel Require Import Wrap.WrapModel Wrap.WrapProofs.
Open Scope N_scope.

Theorem C20_rewrap : forall (ch_width utf8_len : N -> N) (s : list N) (hard : N),
  exists outs, wrap ch_width utf8_len s hard = concat outs /\
    Forall2 (fun line o => Wrapped (indent_of line) line o) (split_inclusive s) outs.
Proof. exact wrap_rewrap. Qed.
Print Assumptions C20_rewrap.

Theorem C20_lines : forall s : list N,
  concat (split_inclusive s) = s /\ Forall (fun l => nl_last l = true) (split_inclusive s).
Proof. exact (fun s => conj (split_inclusive_concat s) (split_inclusive_nl_last s)). Qed.
Print Assumptions C20_lines.

Theorem C20_indent : forall line : list N,
  exists rest, line = indent_of line ++ rest /\ all_ws (indent_of line) = true.
Proof. exact indent_of_prefix. Qed.
Print Assumptions C20_indent.

Theorem C20_content : forall (ch_width utf8_len : N -> N) (s : list N) (hard : N),
  nonws (wrap ch_width utf8_len s hard) = nonws s.
Proof. exact wrap_content. Qed.
Print Assumptions C20_content.

Theorem C20_newlines_kept : forall (ch_width utf8_len : N -> N) (s : list N) (hard : N),
  InsNL (skeleton s) (skeleton (wrap ch_width utf8_len s hard)).
Proof. exact wrap_newlines_kept. Qed.
Print Assumptions C20_newlines_kept.

Theorem C20_styled : forall (ch_width utf8_len : N -> N) (segs : list (bool * list N)) (hard : N),
  exists out, Forall2 piece_rel segs out /\
    styled_wrap ch_width utf8_len segs hard = trim_end (concat (map snd out)).
Proof. exact styled_wrap_spec. Qed.
Print Assumptions C20_styled.

Theorem C20_trim_end : forall s : list N, exists t, s = trim_end s ++ t /\ all_ws t = true.
Proof. exact trim_end_spec. Qed.
Print Assumptions C20_trim_end.
