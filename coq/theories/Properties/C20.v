(** Property C20: text wrapping keeps every word, in order, within the requested width.
    This file contains only the pinned statements; proofs live in Wrap/WrapProofs.v.
    [ch_width] (unicode-width) and [utf8_len] (char::len_utf8) are arbitrary functions. *)
From ClapModel Require Import Base.Bytes.
From ClapModel Require Import Wrap.WrapModel Wrap.WrapProofs.
Open Scope N_scope.

Theorem C20_rewrap : forall (ch_width utf8_len : N -> N) (s : list N) (hard : N),
  exists outs, wrap ch_width utf8_len s hard = concat outs /\
    Forall2 (fun line o => Wrapped (indent_of line) line o) (split_inclusive s) outs.
Proof. exact wrap_rewrap. Qed.
Print Assumptions C20_rewrap.

Theorem C20_lines : forall s : list N,
  concat (split_inclusive s) = s /\ Forall (fun l => nl_last l = true) (split_inclusive s).
Proof. exact (fun s => conj (split_inclusive_concat s) (split_inclusive_nl_last s)). Qed.
Print Assumptions C20_lines.

Theorem C20_indent : forall line : list N,
  exists rest, line = indent_of line ++ rest /\ all_ws (indent_of line) = true.
Proof. exact indent_of_prefix. Qed.
Print Assumptions C20_indent.

Theorem C20_content : forall (ch_width utf8_len : N -> N) (s : list N) (hard : N),
  nonws (wrap ch_width utf8_len s hard) = nonws s.
Proof. exact wrap_content. Qed.
Print Assumptions C20_content.

Theorem C20_newlines_kept : forall (ch_width utf8_len : N -> N) (s : list N) (hard : N),
  InsNL (skeleton s) (skeleton (wrap ch_width utf8_len s hard)).
Proof. exact wrap_newlines_kept. Qed.
Print Assumptions C20_newlines_kept.

Theorem C20_styled : forall (ch_width utf8_len : N -> N) (segs : list (bool * list N)) (hard : N),
  exists out, Forall2 piece_rel segs out /\
    styled_wrap ch_width utf8_len segs hard = trim_end (concat (map snd out)).
Proof. exact styled_wrap_spec. Qed.
Print Assumptions C20_styled.

Theorem C20_trim_end : forall s : list N, exists t, s = trim_end s ++ t /\ all_ws t = true.
Proof. exact trim_end_spec. Qed.
Print Assumptions C20_trim_end.

(* plain text = no ASCII control character except '\n'; [line_fits w ln]: the line without its trailing
   whitespace is at most w columns wide, or nothing after its whitespace indent is breakable (no U+0020).
   Oracle hypothesis: a whitespace character is never wider than its UTF-8 encoding is long (the code
   accounts trailing whitespace and the indent in BYTES). *)
Theorem C20_width : forall ch_width utf8_len : N -> N,
  (forall c, is_ws c = true -> ch_width c <= utf8_len c) ->
  forall (s : list N) (hard : N), plain s = true ->
  Forall (line_fits ch_width hard) (lines (wrap ch_width utf8_len s hard)).
Proof. exact wrap_width. Qed.
Print Assumptions C20_width.

Theorem C20_width_no_underflow : forall (utf8_len : N -> N) (w : list N),
  blen utf8_len (trim_end w) <= blen utf8_len w.
Proof. exact trimmed_delta_no_underflow. Qed.
Print Assumptions C20_width_no_underflow.

Theorem C20_ansi_zero : forall (ch_width : N -> N) (a params b : list N),
  no_ctrl a = true -> no_ctrl b = true -> forallb (fun c => negb (c =? 109)) params = true ->
  display_width ch_width (a ++ 27 :: 91 :: params ++ 109 :: b) =
  display_width ch_width a + display_width ch_width b.
Proof. exact ansi_zero. Qed.
Print Assumptions C20_ansi_zero.

Theorem C20_strict_on_plain : forall (ch_width utf8_len : N -> N) (s : list N) (hard : N),
  only_sp_nl s ->
  exists outs, wrap ch_width utf8_len s hard = concat outs /\
    Forall2 (fun line o => WrappedS (indent_of line) line o) (split_inclusive s) outs.
Proof. exact wrap_strict_on_plain. Qed.
Print Assumptions C20_strict_on_plain.

(* observations: where the stronger readings fail on the faithful model (each replayed on the crate) *)
Theorem C20_strict_reading_refuted :
  exists s hard,
    filter (fun c => negb (c =? SP) && negb (c =? NL)) (wrap w1 utf8_len_std s hard) <>
    filter (fun c => negb (c =? SP) && negb (c =? NL)) s.
Proof. exact strict_reading_refuted. Qed.
Print Assumptions C20_strict_reading_refuted.

Theorem C20_width_control_char_refuted :
  exists s hard ln,
    In ln (lines (wrap (table_width [(9, 0)]) utf8_len_std s hard)) /\
    hard < sumw (table_width [(9, 0)]) (trim_end ln) /\
    (forall ind u, trim_end ln = ind ++ u -> all_ws ind = true -> In SP u).
Proof. exact width_control_char_refuted. Qed.
Print Assumptions C20_width_control_char_refuted.

(** the defect repaired by /repo 63452b4: before the repair the wrapper was not reset between text
    pieces, so after a piece ending in a blank line the carry-over "indent" was the newline itself;
    the repaired function resets after every line that ended with a newline *)
Theorem C20_styled_stale_carryover :
  styled_wrap_before_fix w1 utf8_len_std [(true, [10]); (false, [27; 91; 49; 109]); (true, [32; 97])] 0
  = [10; 27; 91; 49; 109; 10; 10; 97]
  /\ styled_wrap w1 utf8_len_std [(true, [10]); (false, [27; 91; 49; 109]); (true, [32; 97])] 0
  = [10; 27; 91; 49; 109; 10; 32; 97].
Proof. exact styled_stale_carryover_witness. Qed.
Print Assumptions C20_styled_stale_carryover.
