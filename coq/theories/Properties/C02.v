(** Property C02: every argv token is attributed exactly once.  Pinned statements only; the
    proofs are in ParseProofs/IndexInv.v (instance of the parse-loop invariant of Invariant.v). *)
From ClapModel Require Import Base.Bytes Base.Machine.
From ClapModel Require Import Parse.Cmd Parse.Build Parse.Valid Parse.Matcher Parse.Errors Parse.Validator Parse.Parser.
From ClapModel Require Import ParseProofs.Safe ParseProofs.Invariant ParseProofs.Totality
                              ParseProofs.TotalityMain ParseProofs.IndexInv ParseProofs.Provenance Properties.C01.
From ClapModel Require Import ParseProofs.Actions ParseProofs.Unparse ParseProofs.UnparseProofs ParseProofs.UnparseTop
                              ParseProofs.UnparseSub ParseProofs.UnparseTrail ParseProofs.UnparseTree ParseProofs.UnparseIdx ParseProofs.UnparseIdxTop
                              ParseProofs.UnparseExamples.
From ClapModel Require Import Base.Utf8 Lex.OsStrExtModel Lex.OsStrExtProofs ParseProofs.UnparseLift.
From ClapModel Require Import ParseProofs.UnparseX ParseProofs.UnparseXProofs ParseProofs.UnparseXTree ParseProofs.UnparseXExamples.
From ClapModel Require Import ParseProofs.Globals ParseProofs.UnparseGlobals ParseProofs.Spelling ParseProofs.UnparsePending ParseProofs.UnparseBridge.
From ClapModel Require Import ParseProofs.Escape ParseProofs.UnparseXTrail ParseProofs.UnparseYTree ParseProofs.UnparseYExamples ParseProofs.UnparseUser ParseProofs.LoopStep ParseProofs.UnparsePendingLoop ParseProofs.UnparseXLook ParseProofs.UnparseUserTree ParseProofs.UnparseUserTreeX.
From Coq Require Import ZArith Sorting.Sorted Sorting.Permutation List.
Import ListNotations.
Open Scope N_scope.

(** The index discipline is closed under every primitive matcher operation the parser performs
    (bump of the counter, entry removal by overrides, start of an occurrence, value append, the
    combined "bump, append value, record the fresh counter value as its index"). *)
Theorem C02_index_discipline_closed : forall c, closedP c trivV idx_inv.
Proof. exact idx_inv_closed. Qed.
Print Assumptions C02_index_discipline_closed.

(** Every successful level of the recursion, at any depth, for any token list: keys pairwise
    distinct; no index reported twice (neither within one argument nor across arguments); every
    index at most the running counter; the indices of each argument strictly increasing. *)
Theorem C02_level_indices : forall fuel c toks st0 st,
  tree_ok fuel c -> G c idx_inv trivV st0 -> get_matches_with fuel c toks st0 = ROk st ->
  NoDup (map fst (mt_args (mt st)))
  /\ NoDup (all_indices (mt_args (mt st)))
  /\ Forall (fun i => i <= cur_idx st) (all_indices (mt_args (mt st)))
  /\ Forall (fun p => StronglySorted N.lt (m_indices (snd p))) (mt_args (mt st)).
Proof. exact level_indices. Qed.
Print Assumptions C02_level_indices.

(** The root level of the parse of any valid definition a user can write (class: no short
    flag-subcommands), for any token list. *)
Theorem C02_indices_unique_increasing : forall c0 toks st,
  plain c0 = true -> valid c0 = true ->
  get_matches_with (S (S (depth (build_self c0)))) (build_self c0) toks ps_new = ROk st ->
  NoDup (map fst (mt_args (mt st)))
  /\ NoDup (all_indices (mt_args (mt st)))
  /\ Forall (fun i => i <= cur_idx st) (all_indices (mt_args (mt st)))
  /\ Forall (fun p => StronglySorted N.lt (m_indices (snd p))) (mt_args (mt st)).
Proof. exact root_indices. Qed.
Print Assumptions C02_indices_unique_increasing.

(** NO VALUE IS INVENTED.  For every valid definition a user can write (class [plain]) and every
    token list, at the root level — and, second theorem, at every level of the recursion with that
    level's own token list —, each raw value the matcher stores for an *argument* is a contiguous
    piece ([sub_of]) of a token of the command line, of a value the definition declares (default,
    default-missing, conditional default, environment value) or of an action literal ("true",
    "false", a decimal count).  (Splitting happens only inside such a piece; nothing is synthesised.) *)
Theorem C02_values_have_origin : forall c0 toks st,
  plain c0 = true -> valid c0 = true ->
  get_matches_with (S (S (depth (build_self c0)))) (build_self c0) toks ps_new = ROk st ->
  forall i m, In (i, m) (mt_args (mt st)) -> (exists a, find_arg (build_self c0) i = Some a) ->
  Forall (Forall (origin (build_self c0) toks)) (m_raw m).
Proof. exact root_provenance. Qed.
Print Assumptions C02_values_have_origin.

Theorem C02_level_values_have_origin : forall fuel c toks st0 st,
  tree_ok fuel c -> G c (prov c toks) (origin c toks) st0 ->
  get_matches_with fuel c toks st0 = ROk st ->
  forall i m, In (i, m) (mt_args (mt st)) -> (exists a, find_arg c i = Some a) ->
  Forall (Forall (origin c toks)) (m_raw m).
Proof. exact level_provenance. Qed.
Print Assumptions C02_level_values_have_origin.

(** Non-vacuity: on the command of C01's non-vacuity example the line `--aa v w x` parses and
    reports the indices 2 (value of --aa), 3 and 4 (the positional's values). *)
Theorem C02_nonvacuous :
  exists st, get_matches_with (S (S (depth (build_self nonvacuous_cmd)))) (build_self nonvacuous_cmd)
               [[45;45;97;97]; [118]; [119]; [120]] ps_new = ROk st
             /\ all_indices (mt_args (mt st)) <> [].
Proof. eexists. split; [vm_compute; reflexivity|discriminate]. Qed.
Print Assumptions C02_nonvacuous.

(** * The un-parser theorem (ParseProofs/Unparse.v: definitions; UnparseProofs.v, UnparseTop.v: proofs)

    An invocation of one command level is a list of items -- [--flag], [--opt=v], [--opt v1 .. vk],
    short clusters [-abc], [-abcoV], [-abco=V], [-abco v1 .. vk], and runs of positional values --,
    [render] prints it as tokens, [apply_items] is its meaning on parser states (one [react] per
    occurrence with exactly that occurrence's values; an occurrence whose values are separate tokens
    stays open in the pending buffer), [occs] its meaning as a spelling-independent list of
    occurrences.  [pos] is the positional counter, [pst] the [ParseState] when the items start.
    Class: [conv c] (built command: validity gate, no subcommand_precedence_over_arg, no
    allow_missing_positional, only the last positional multiple, no argument with hyphen/negative-
    number values, require_equals, a terminator, last or trailing_var_arg) and [wf_items c pst pos its]
    (names resolve by exact key, short names any character but [-] (spelled in UTF-8), the first token of an item is not a subcommand
    name, separate values are value tokens -- not starting with [-], see [C02_value_tokens] -- and at
    most [num_args.max] of them for an option; a positional run does not directly follow an option
    that is still open and is maximal). *)

(** TOKEN LOOP.  From every state between two items ([pst_ok]: done, an option still open, or a
    positional run open; [pend_inv]: what may be pending there), the loop of [Parser::parse] on the
    rendered items followed by ANY rest is the loop on the rest from the state the invocation
    denotes: every token is consumed exactly once, as the part of the item it was rendered from.
    (An equality of results: it includes the lines where [react] rejects an occurrence.) *)
Theorem C02_unparse_loop : forall c, conv c = true -> forall its rest pst pos vaf st,
  wf_items c pst pos its = true -> pst_ok c pst -> pend_inv c pst st -> fs_skip st = 0 ->
  parse_loop c (render its ++ rest) (mkL pst pos vaf false) st =
  (do st' <- apply_items c pos its st;
   parse_loop c rest (mkL (items_pst c pst pos its) (items_pos c pos its) (vaf || negb (is_nil its)) false) st').
Proof. exact loop_items. Qed.
Print Assumptions C02_unparse_loop.

(** SPELLING-INDEPENDENT MEANING.  Flushing the pending occurrence after the invocation gives the
    fold of [react] over [occs]: [--o=v], [--o v], [-ov], [-o=v], [-o v] and a cluster ending in
    [o] all contribute the same occurrence (argument, value list); a run of positional values is
    one occurrence of the positional the counter points at. *)
Theorem C02_unparse_meaning : forall c, conv c = true -> forall its pst pos st, wf_items c pst pos its = true ->
  (do st' <- apply_items c pos its st; resolve_pending c st') =
  (do st0 <- resolve_pending c st; react_all c (occs c pos its) st0).
Proof. exact flush_items. Qed.
Print Assumptions C02_unparse_meaning.

(** ONE LEVEL, WHOLE LINE.  [get_matches_with] on a rendered invocation (no subcommand selected,
    no [ignore_errors]) is: the fold of [react] over the invocation's occurrences from the empty
    matcher, then the env, default and validation phases. *)
Theorem C02_unparse_level : forall c, conv c = true -> is_set s_ignore_errors c = false ->
  forall f its, wf_items c PSValuesDone 1 its = true ->
  get_matches_with (S f) c (render its) ps_new =
  (do st1 <- react_all c (occs c 1 its) ps_new; post_loop c st1).
Proof. exact gmw_items. Qed.
Print Assumptions C02_unparse_level.

(** CONSERVATION.  On every successful parse of a rendered invocation, for every argument:
    (1) if the invocation gives it the occurrence groups [gs] ([denote_arg]: computed from the
    invocation alone), the matches report exactly [gs] -- nothing dropped, duplicated or reordered;
    (2) every entry labelled command line reports exactly the groups the invocation gives to that
    argument -- nothing invented, nothing attributed to another argument. *)
Theorem C02_conservation : forall c, conv c = true -> is_set s_ignore_errors c = false ->
  forall f its st, wf_items c PSValuesDone 1 its = true ->
  get_matches_with (S f) c (render its) ps_new = ROk st ->
  forall a, In a (c_args c) ->
    (forall gs, denote_arg c (a_id a) its = Some gs -> groups_of (a_id a) (mt st) = Some gs)
    /\ (forall e, fm_get (a_id a) (mt_args (mt st)) = Some e -> m_source e = Some SCmdLine ->
          denote_arg c (a_id a) its = Some (m_raw e)).
Proof. exact conservation. Qed.
Print Assumptions C02_conservation.

(** For an Append argument of a command without override relations the reported groups are, in
    command-line order, one group per occurrence, each holding that occurrence's values split only
    at the declared delimiter ([occ_groups]/[o_vals] = [delimit] of the occurrence's values). *)
Theorem C02_conservation_append : forall c, conv c = true -> is_set s_ignore_errors c = false ->
  forall f its st a, wf_items c PSValuesDone 1 its = true -> no_overrides c = true ->
  get_matches_with (S f) c (render its) ps_new = ROk st ->
  In a (c_args c) -> a_get_action a = AAppend -> (0 < Actions.count_occ (a_id a) (occs c 1 its))%nat ->
  groups_of (a_id a) (mt st) = Some (occ_groups c (a_id a) (occs c 1 its)).
Proof. exact conservation_append. Qed.
Print Assumptions C02_conservation_append.

(** the side condition on separate values: any token that does not start with [-] qualifies *)
Theorem C02_value_tokens : forall v, hd 0 v <> DASH -> value_ok v = true.
Proof. exact value_ok_nodash. Qed.
Print Assumptions C02_value_tokens.

(** Non-vacuity: a built command satisfying [conv], and an invocation using every item kind and
    every spelling ([--qu F -vvoAB --opt=== --mu A B,C -vm A -s= R S --yy -v T -é]) that is well
    formed, parses, and reports the expected groups (Append order and boundaries, delimiter split,
    the count 4 for four [v]s in three clusters, the positional runs [R S] and [T] as two
    occurrences of the second positional). *)
Theorem C02_unparse_nonvacuous :
  valid UnparseEx.c0 = true /\ conv UnparseEx.c = true /\ is_set s_ignore_errors UnparseEx.c = false /\
  no_overrides UnparseEx.c = true /\ wf_items UnparseEx.c PSValuesDone 1 UnparseEx.its = true /\
  render UnparseEx.its =
    [[45; 45; 113; 117]; [70]; [45; 118; 118; 111; 65; 66]; [45; 45; 111; 112; 116; 61; 61; 61];
     [45; 45; 109; 117]; [65]; [66; 44; 67]; [45; 118; 109]; [65]; [45; 115; 61]; [82]; [83]; [45; 45; 121; 121]; [45; 118]; [84]; [45; 195; 169]] /\
  exists st, get_matches_with 3 UnparseEx.c (render UnparseEx.its) ps_new = ROk st /\
    groups_of [111] (mt st) = Some [[[65; 66]]; [[61; 61]]] /\
    groups_of [109] (mt st) = Some [[[65]; [66]; [67]]; [[65]]] /\
    groups_of [118] (mt st) = Some [[[52]]] /\
    groups_of [102] (mt st) = Some [[[70]]] /\
    groups_of [114] (mt st) = Some [[[82]; [83]]; [[84]]] /\
    groups_of [101] (mt st) = Some [[s_true]].
Proof.
  split; [exact UnparseEx.ex_valid|]. split; [exact UnparseEx.ex_conv|]. split; [exact UnparseEx.ex_no_ignore_errors|].
  split; [exact UnparseEx.ex_no_overrides|]. split; [exact UnparseEx.ex_wf|]. split; [exact UnparseEx.ex_render|].
  eexists. split; [vm_compute; reflexivity|]. repeat split.
Qed.
Print Assumptions C02_unparse_nonvacuous.

(** * Subcommands and the top level (ParseProofs/UnparseSub.v, UnparseTree.v)

    An invocation tree [inv] is the items of one level, optionally followed by a subcommand name
    (or alias) and the subcommand's own tree, or by [--] and the values after it ([ITrail]);
    [render_inv] prints it; [run_inv] is its meaning: per
    level the meaning of the items, the child's matches stored under the child's name, then the
    env/default/validation phases.  Class [wf_inv] (boolean, on the built tree): every level [conv]
    and without [ignore_errors], its items [wf_items]; a subcommand name follows only a finished
    occurrence, is recognised, is not the generated [help], no [args_conflicts_with_subcommands];
    [--] does not directly follow an open run of a multi-valued positional, is not a subcommand name,
    no [dont_delimit_trailing_values], every value after it finds a positional ([wf_trail]). *)

(** AFTER [--] every token is a positional value, whatever it looks like: the loop hands each value to
    the positional the counter points at; one that takes several values takes all that remain. *)
Theorem C02_unparse_after_escape : forall c, conv c = true -> forall vs pos pst vaf st,
  wf_trail c pos vs = true -> pend_inv c PSValuesDone st ->
  parse_loop c vs (mkL pst pos vaf true) st = (do s' <- trail_apply c pos vs st; ROk (LDone s')).
Proof. exact loop_trail. Qed.
Print Assumptions C02_unparse_after_escape.

(** the command-line machinery of a level never touches the subcommand slot (results and error
    states commute with storing anything there) *)
Theorem C02_subcommand_slot_untouched : forall c x st,
  resolve_pending c (ssub x st) = psub x (resolve_pending c st).
Proof. exact resolve_pending_sub. Qed.
Print Assumptions C02_subcommand_slot_untouched.

(** THE UN-PARSER THEOREM for a command tree, by induction on the tree: [get_matches_with] on the
    rendered tree is the tree's meaning (an equality of results, errors included). *)
Theorem C02_unparse_tree : forall i c f, valid_tree (S f) c = true -> wf_inv c i = true ->
  get_matches_with (S f) c (render_inv i) ps_new = run_inv c i.
Proof. exact gmw_inv. Qed.
Print Assumptions C02_unparse_tree.

(** ... and for [try_get_matches_from_mut]: argv = binary name followed by the rendered tree.
    ([finish_outcome] is [_do_parse]'s own last step: the merge of global values, C09.) *)
Theorem C02_unparse : forall c0 bin i, is_set s_no_binary_name c0 = false ->
  valid (with_bin c0 bin) = true -> wf_inv (build_self (with_bin c0 bin)) i = true ->
  parse_top c0 (bin :: render_inv i) =
  finish_outcome (with_bin c0 bin) (run_inv (build_self (with_bin c0 bin)) i).
Proof. exact parse_top_inv. Qed.
Print Assumptions C02_unparse.

(** THE PLANNED FORM, for trees without global arguments ([no_globals]): parsing the rendered
    invocation returns exactly the matches its meaning computes. *)
Theorem C02_unparse_denote : forall c0 bin i st, is_set s_no_binary_name c0 = false ->
  valid (with_bin c0 bin) = true -> wf_inv (build_self (with_bin c0 bin)) i = true ->
  no_globals (build_recursive (S (S (depth (build_self (with_bin c0 bin))))) (with_bin c0 bin)) = true ->
  run_inv (build_self (with_bin c0 bin)) i = ROk st ->
  parse_top c0 (bin :: render_inv i) = OOk (into_inner (mt st)).
Proof. exact parse_top_denote. Qed.
Print Assumptions C02_unparse_denote.

(** when the child succeeds, the level's own entries are the fold of [react] over the level's
    occurrences, with the child's matches in the subcommand slot *)
Theorem C02_unparse_sub_level : forall c its name j scb sub_st st, conv c = true ->
  wf_items c PSValuesDone 1 its = true -> child c name = Some scb -> run_inv scb j = ROk sub_st ->
  (run_inv c (ISub its name j) = ROk st <->
   exists st1, react_all c (occs c 1 its) ps_new = ROk st1 /\
               post_loop c (ssub (Some (c_name scb, into_inner (mt sub_st))) st1) = ROk st).
Proof. exact run_inv_sub_ok. Qed.
Print Assumptions C02_unparse_sub_level.

(** CONSERVATION at the root of any tree (hence, by [C02_unparse_tree], at every level: each level
    is parsed by [get_matches_with] on the rendering of its subtree). *)
Theorem C02_conservation_tree : forall i c f st, valid_tree (S f) c = true -> wf_inv c i = true ->
  get_matches_with (S f) c (render_inv i) ps_new = ROk st ->
  forall a, In a (c_args c) ->
    (forall gs, denote_os c (a_id a) (inv_occs c i) = Some gs -> groups_of (a_id a) (mt st) = Some gs)
    /\ (forall e, fm_get (a_id a) (mt_args (mt st)) = Some e -> m_source e = Some SCmdLine ->
          denote_os c (a_id a) (inv_occs c i) = Some (m_raw e)).
Proof. exact conservation_inv. Qed.
Print Assumptions C02_conservation_tree.

(** the subcommand chain is kept: the matches hold the child's matches under the child's name *)
Theorem C02_chain_kept : forall c its name j st, wf_inv c (ISub its name j) = true ->
  run_inv c (ISub its name j) = ROk st ->
  exists scb sub_st, child c name = Some scb /\ run_inv scb j = ROk sub_st /\
    mt_sub (mt st) = Some (c_name scb, into_inner (mt sub_st)).
Proof. exact chain_inv. Qed.
Print Assumptions C02_chain_kept.

(** Non-vacuity for trees: [prog --qu -voA go -x --name=V F] (subcommand [run] by its alias [go]):
    the hypotheses of [C02_unparse] hold and [parse_top] reports the chain and the values. *)
Theorem C02_unparse_tree_nonvacuous :
  is_set s_no_binary_name UnparseEx.t0 = false /\ valid (with_bin UnparseEx.t0 UnparseEx.tbin) = true /\
  wf_inv (build_self (with_bin UnparseEx.t0 UnparseEx.tbin)) UnparseEx.tinv = true /\
  no_globals (build_recursive (S (S (depth (build_self (with_bin UnparseEx.t0 UnparseEx.tbin)))))
                              (with_bin UnparseEx.t0 UnparseEx.tbin)) = true /\
  (exists st, run_inv (build_self (with_bin UnparseEx.t0 UnparseEx.tbin)) UnparseEx.tinv = ROk st) /\
  render_inv UnparseEx.tinv =
    [[45; 45; 113; 117]; [45; 118; 111; 65]; [103; 111]; [45; 120]; [45; 45; 110; 97; 109; 101; 61; 86]; [70]] /\
  exists m sm,
    parse_top UnparseEx.t0 (UnparseEx.tbin :: render_inv UnparseEx.tinv) = OOk m /\
    ms_sub m = Some ([114; 117; 110], sm) /\
    UnparseEx.raw_of [111] m = Some [[[65]]] /\ UnparseEx.raw_of [118] m = Some [[[49]]] /\
    UnparseEx.raw_of [120] sm = Some [[s_true]] /\ UnparseEx.raw_of [110] sm = Some [[[86]]] /\
    UnparseEx.raw_of [102] sm = Some [[[70]]].
Proof.
  split; [exact UnparseEx.ex_tree_nobin|]. split; [exact UnparseEx.ex_tree_valid|]. split; [exact UnparseEx.ex_tree_wf|].
  split; [exact UnparseEx.ex_tree_no_globals|]. split; [exact UnparseEx.ex_tree_run|].
  split; [exact UnparseEx.ex_tree_render|]. exact UnparseEx.ex_tree_parse.
Qed.
Print Assumptions C02_unparse_tree_nonvacuous.

(** * The indices (ParseProofs/UnparseIdx.v, UnparseIdxTop.v) *)

(** THE INDEX RULE of one occurrence, for every state with unique keys: the counter advances by one
    for the name of an option given by flag ([name_bump]: Set/Append by [--o]/[-o]) and by one per
    stored value ([stored_count]); the argument's index list becomes what it keeps (Append) followed
    by exactly the counter values of the stored values ([span k n] = k+1 .. k+n). *)
Theorem C02_index_rule : forall c idn s a raw ti st st' pr,
  wf_m (mt st) -> ~ In (a_id a) (groups_for_arg c (a_id a)) ->
  react_core c idn s a raw ti st = ROk (st', pr) ->
  exists vals, occ_values c a raw ti = Some vals /\
    cur_idx st' = cur_idx st + name_bump idn s a + N.of_nat (stored_count a vals) /\
    idx_of (a_id a) (mt st') =
      Some (kept_idx c s a (idx_of (a_id a) (mt st)) ++ span (cur_idx st + name_bump idn s a) (stored_count a vals)).
Proof. exact react_core_idx. Qed.
Print Assumptions C02_index_rule.

(** INDICES OF AN INVOCATION.  At the root of any tree (hence at every level) the index list
    reported for an argument is the one the invocation denotes ([denote_idx_os]: the fold of the index
    rule over the level's occurrences [inv_occs], counter starting at 0). *)
Theorem C02_indices_tree : forall i c f st, valid_tree (S f) c = true -> wf_inv c i = true ->
  get_matches_with (S f) c (render_inv i) ps_new = ROk st ->
  forall a ix, In a (c_args c) -> denote_idx_os c (a_id a) (inv_occs c i) = Some ix ->
  idx_of (a_id a) (mt st) = Some ix.
Proof. exact indices_inv. Qed.
Print Assumptions C02_indices_tree.

(** INDICES INCREASE IN ARGV ORDER.  The index events of a level, taken in command-line order
    ([events_os]: one entry per occurrence, the indices of its stored values), form one strictly
    increasing sequence; an Append argument of a command without override relations reports exactly
    its own events, in that order. *)
Theorem C02_index_events_increasing : forall c os, StronglySorted N.lt (concat (map snd (events_os c os))).
Proof. exact events_increasing. Qed.
Print Assumptions C02_index_events_increasing.

Theorem C02_indices_append : forall c os a, conv c = true -> no_overrides c = true ->
  Forall (fun o => In (o_arg o) (c_args c)) os -> In a (c_args c) ->
  a_get_action a = AAppend -> (0 < Actions.count_occ (a_id a) os)%nat ->
  denote_idx_os c (a_id a) os = Some (own_events (a_id a) (events_os c os)).
Proof. exact denote_idx_append. Qed.
Print Assumptions C02_indices_append.

(** Non-vacuity: the indices of [--qu F -vvoAB --opt=== --mu A B,C -vm A -s= R S --yy -v T -é]
    (option names 5, 7, 9, 14, 16, 20 are consumed by [-o], [--opt], [--mu], [-m], [-s], [--yy]). *)
Theorem C02_indices_nonvacuous :
  denote_idx UnparseEx.c [111] UnparseEx.its = Some [6; 8] /\
  UnparseEx.idx_after (render UnparseEx.its) [111] = Some (Some [6; 8]) /\
  denote_idx UnparseEx.c [109] UnparseEx.its = Some [10; 11; 12; 15] /\
  UnparseEx.idx_after (render UnparseEx.its) [109] = Some (Some [10; 11; 12; 15]) /\
  denote_idx UnparseEx.c [114] UnparseEx.its = Some [18; 19; 23] /\
  UnparseEx.idx_after (render UnparseEx.its) [114] = Some (Some [18; 19; 23]) /\
  denote_idx UnparseEx.c [118] UnparseEx.its = Some [22] /\
  UnparseEx.idx_after (render UnparseEx.its) [118] = Some (Some [22]) /\
  denote_idx UnparseEx.c [101] UnparseEx.its = Some [24] /\
  UnparseEx.idx_after (render UnparseEx.its) [101] = Some (Some [24]).
Proof. exact UnparseEx.ex_idx. Qed.
Print Assumptions C02_indices_nonvacuous.

(** Non-vacuity for [--]: [prog --qu --mu A -- F -x R] -- the open option is flushed, [F] goes to the
    first positional, [-x] and [R] (values, because they follow [--]) to the multi-valued second one. *)
Theorem C02_unparse_trail_nonvacuous :
  conv UnparseEx.c = true /\ valid_tree 3 UnparseEx.c = true /\ wf_inv UnparseEx.c UnparseEx.trinv = true /\
  render_inv UnparseEx.trinv = [[45; 45; 113; 117]; [45; 45; 109; 117]; [65]; [45; 45]; [70]; [45; 120]; [82]] /\
  UnparseEx.groups_after (render_inv UnparseEx.trinv) [109] = Some (Some [[[65]]]) /\
  UnparseEx.groups_after (render_inv UnparseEx.trinv) [102] = Some (Some [[[70]]]) /\
  UnparseEx.groups_after (render_inv UnparseEx.trinv) [114] = Some (Some [[[45; 120]; [82]]]) /\
  UnparseEx.idx_after (render_inv UnparseEx.trinv) [114] = Some (Some [5; 6]) /\
  denote_os UnparseEx.c [114] (inv_occs UnparseEx.c UnparseEx.trinv) = Some [[[45; 120]; [82]]] /\
  denote_idx_os UnparseEx.c [114] (inv_occs UnparseEx.c UnparseEx.trinv) = Some [5; 6].
Proof.
  split; [exact UnparseEx.ex_conv|]. split; [exact UnparseEx.ex_trail_valid|]. split; [exact UnparseEx.ex_trail_wf|].
  split; [exact UnparseEx.ex_trail_render|]. exact UnparseEx.ex_trail_parse.
Qed.
Print Assumptions C02_unparse_trail_nonvacuous.

(** * Third pass: conjuncts of the class lifted one at a time (ParseProofs/UnparseLift.v ...) *)

(** (1) POSITIONALS ARE LOOKED UP BY KEY, NOT BY DECLARATION ORDER.  For every command passing the validity gate,
    [get_pos c n] (the lookup [Parser::parse] does for the value at positional counter [n]) answers
    exactly the argument whose index is [n]; no other argument has that index. *)
Theorem C02_positional_key_decides : forall c, assert_app c = true -> forall n a,
  get_pos c n = Some a <-> (In a (c_args c) /\ a_index a = Some n).
Proof. exact get_pos_key. Qed.
Print Assumptions C02_positional_key_decides.

Theorem C02_positional_index_unique : forall c, assert_app c = true -> forall a b n,
  In a (c_args c) -> In b (c_args c) -> a_index a = Some n -> a_index b = Some n -> a = b.
Proof. exact assert_app_pos_unique. Qed.
Print Assumptions C02_positional_index_unique.

(** ... so declaring the same arguments in any other order changes no positional lookup *)
Theorem C02_positional_declaration_order_irrelevant : forall c c', assert_app c = true ->
  Permutation (c_args c) (c_args c') -> forall n, get_pos c' n = get_pos c n.
Proof. exact get_pos_perm. Qed.
Print Assumptions C02_positional_declaration_order_irrelevant.

(** ... and in the denotation of [C02_unparse] / [C02_conservation_tree] a run of values at counter
    [pos] is one occurrence of THE argument with index [pos] *)
Theorem C02_positional_run_attribution : forall c, conv c = true -> forall pst pos vs its,
  wf_items c pst pos (ItPos vs :: its) = true ->
  exists a, In a (c_args c) /\ a_index a = Some pos /\
    (forall b, In b (c_args c) -> a_index b = Some pos -> b = a) /\
    occs c pos (ItPos vs :: its) = occ_of IIndex a vs :: occs c (item_pos c pos (ItPos vs)) its.
Proof. exact pos_run_attribution. Qed.
Print Assumptions C02_positional_run_attribution.

(** Non-vacuity: [prog <second>... <first>] with the index-2 positional declared first; the line [A B C]
    satisfies the hypotheses of [C02_unparse_denote], [A] goes to index 1, [B C] to index 2. *)
Theorem C02_positional_order_nonvacuous :
  (is_set s_no_binary_name LiftEx.k0 = false /\ valid (with_bin LiftEx.k0 LiftEx.kbin) = true /\
   wf_inv LiftEx.kc LiftEx.kinv = true /\
   no_globals (build_recursive (S (S (depth LiftEx.kc))) (with_bin LiftEx.k0 LiftEx.kbin)) = true /\
   render_inv LiftEx.kinv = [[65]; [66]; [67]] /\
   opt_map a_id (hd_error (positionals LiftEx.kc)) = Some [50] /\
   opt_map a_id (get_pos LiftEx.kc 1) = Some [49] /\ opt_map a_id (get_pos LiftEx.kc 2) = Some [50]) /\
  exists m, parse_top LiftEx.k0 (LiftEx.kbin :: render_inv LiftEx.kinv) = OOk m /\
    LiftEx.raw_of [49] m = Some [[[65]]] /\ LiftEx.raw_of [50] m = Some [[[66]; [67]]] /\
    LiftEx.idx_of_m [49] m = Some [1] /\ LiftEx.idx_of_m [50] m = Some [2; 3].
Proof. split; [exact LiftEx.ex_order_hyps|exact LiftEx.ex_order_parse]. Qed.
Print Assumptions C02_positional_order_nonvacuous.

(** (2) DELIMITER SPLITTING IS BYTE LEVEL AND KEEPS EVERY PIECE.  For any command, any argument with a
    delimiter [d] and ANY byte strings (no UTF-8 condition), the values stored for an occurrence are the
    concatenation, in order, of the pieces of each raw value, where the pieces of [v] are its leftmost
    non-overlapping split at the encoded delimiter ([SplitSpec], a functional relation) and re-assemble
    to [v] -- so [a,,b], [,a], [b,] give [a;"";b], ["";a], [b;""].  Without a delimiter nothing is split. *)
Theorem C02_delimit_bytes : forall c a d raw, a_delim a = Some d ->
  exists pss, Forall2 (fun v ps => SplitSpec (encode_utf8 d) v ps /\ intercalate (encode_utf8 d) ps = v) raw pss
              /\ delimit c a raw None = Some (concat pss).
Proof. exact delimit_bytes. Qed.
Print Assumptions C02_delimit_bytes.

Theorem C02_no_delimiter_no_split : forall c a raw ti, a_delim a = None -> delimit c a raw ti = Some raw.
Proof. exact delimit_none. Qed.
Print Assumptions C02_no_delimiter_no_split.

(** a value of an OsString-typed argument is never rejected for its bytes *)
Theorem C02_osstring_never_rejects : forall c a, a_vp a = Some VPOsString -> forall raw st e s,
  push_arg_values c a raw st <> RErr e s.
Proof. exact push_os_never_rejects. Qed.
Print Assumptions C02_osstring_never_rejects.

(** Non-vacuity: [prog --mu a,,b ,a b, --mu=\xff,\xc3 -m\xe9 g\xe9n] on an OsString Append option with
    delimiter [,] and an OsString positional: hypotheses of [C02_unparse_denote] hold, three values are
    not UTF-8, the groups keep every (empty) piece, indices count every piece. *)
Theorem C02_osstring_nonvacuous :
  (is_set s_no_binary_name LiftEx.o0 = false /\ valid (with_bin LiftEx.o0 LiftEx.kbin) = true /\
   wf_inv LiftEx.oc LiftEx.oinv = true /\
   no_globals (build_recursive (S (S (depth LiftEx.oc))) (with_bin LiftEx.o0 LiftEx.kbin)) = true /\
   render_inv LiftEx.oinv = [[45; 45; 109; 117]; [97; 44; 44; 98]; [44; 97]; [98; 44]; [45; 45; 109; 117; 61; 255; 44; 195];
                             [45; 109; 233]; [103; 233; 110]] /\
   utf8_valid [255; 44; 195] = false /\ utf8_valid [233] = false /\ utf8_valid [103; 233; 110] = false) /\
  exists mm, parse_top LiftEx.o0 (LiftEx.kbin :: render_inv LiftEx.oinv) = OOk mm /\
    LiftEx.raw_of [109] mm = Some [[[97]; []; [98]; []; [97]; [98]; []]; [[255]; [195]]; [[233]]] /\
    LiftEx.idx_of_m [109] mm = Some [2; 3; 4; 5; 6; 7; 8; 10; 11; 13] /\
    LiftEx.raw_of [102] mm = Some [[[103; 233; 110]]] /\ LiftEx.idx_of_m [102] mm = Some [14].
Proof. split; [exact LiftEx.ex_os_hyps|exact LiftEx.ex_os_parse]. Qed.
Print Assumptions C02_osstring_nonvacuous.

(** (3) THE LIFTED CLASS: [require_equals], value terminators, hyphen / negative-number values of options
    (ParseProofs/UnparseX.v: class; UnparseXProofs.v: token loop; UnparseXTree.v: level, tree, top).
    Items, rendering and meaning are unchanged; the class [convx]/[wfx_items]/[wfx_inv] allows an argument to
    have [require_equals] (then it is spelled only [--o=v] / [-o=v], clusters [-abco=v] included), a value
    terminator (separate values differ from it; the terminator token itself: [C02_terminator_token]), and --
    options only -- [allow_hyphen_values] (separate values are ANY tokens, [--], [--x], [-x] included) /
    [allow_negative_numbers] (also [-<number>]); an occurrence with separate values of such an option is
    complete (otherwise it swallows the next item).  Still outside: [last], [trailing_var_arg], hyphen values
    of positionals, the values after [--] for this class. *)

(** the old class is contained in the new one (so [C02_unparse_loop] etc. are instances of what follows) *)
Theorem C02_class_lifted : forall c, conv c = true -> convx c = true /\
  forall its pst pos, wf_items c pst pos its = true -> wfx_items c pst pos its = true.
Proof. exact class_lifted. Qed.
Print Assumptions C02_class_lifted.

Theorem C02_class_lifted_tree : forall i c, wf_inv c i = true -> no_trail i = true -> wfx_inv c i = true.
Proof. exact wf_inv_wfx_inv. Qed.
Print Assumptions C02_class_lifted_tree.

(** TOKEN LOOP, lifted class: every token of the rendered items is consumed exactly once, as the part of the item
    it was rendered from, for every state between two items and ANY rest. *)
Theorem C02_unparse_loop_x : forall c, convx c = true -> forall its rest pst pos vaf st,
  wfx_items c pst pos its = true -> pst_okx c pst -> pend_inv c pst st -> fs_skip st = 0 ->
  parse_loop c (render its ++ rest) (mkL pst pos vaf false) st =
  (do st' <- apply_items c pos its st;
   parse_loop c rest (mkL (items_pst c pst pos its) (items_pos c pos its) (vaf || negb (is_nil its)) false) st').
Proof. exact loop_items_x. Qed.
Print Assumptions C02_unparse_loop_x.

Theorem C02_unparse_meaning_x : forall c, convx c = true -> forall its pst pos st, wfx_items c pst pos its = true ->
  (do st' <- apply_items c pos its st; resolve_pending c st') =
  (do st0 <- resolve_pending c st; react_all c (occs c pos its) st0).
Proof. exact flush_items_x. Qed.
Print Assumptions C02_unparse_meaning_x.

(** one separate value of an open occurrence of [a]: a plain value token, ANY token when [a] takes hyphen
    values, [-<number>] when [a] takes negative numbers -- compared with the terminator, otherwise stored *)
Theorem C02_value_step_x : forall c, convx c = true -> forall a tok rest pos vaf st, In a (c_args c) ->
  (a_hyphen a || value_ok tok || (a_negnum a && negnum_tok tok)) = true ->
  parse_loop c (tok :: rest) (mkL (PSOpt (a_id a)) pos vaf false) st =
  (if check_terminator a tok then parse_loop c rest (mkL PSValuesDone pos vaf false) st
   else do y <- Spelling.take_value c (a_id a) tok st;
        parse_loop c rest (mkL (if snd y then PSOpt (a_id a) else PSValuesDone) pos vaf false) (fst y)).
Proof. exact value_step_x. Qed.
Print Assumptions C02_value_step_x.

(** THE TERMINATOR TOKEN is consumed, stores nothing, closes the occurrence *)
Theorem C02_terminator_token : forall c, convx c = true -> forall a t rest pos vaf st,
  In a (c_args c) -> a_term a = Some t -> (a_hyphen a || value_ok t || (a_negnum a && negnum_tok t)) = true ->
  parse_loop c (t :: rest) (mkL (PSOpt (a_id a)) pos vaf false) st =
  parse_loop c rest (mkL PSValuesDone pos vaf false) st.
Proof. exact loop_terminator_x. Qed.
Print Assumptions C02_terminator_token.

(** one level, whole line, with a terminator token in it: [items1 ; items2] denotes the occurrences of
    [items1 ++ items2] *)
Theorem C02_unparse_level_terminator : forall c, convx c = true -> forall f its1 its2 a t,
  is_set s_ignore_errors c = false ->
  wfx_items c PSValuesDone 1 its1 = true -> items_pst c PSValuesDone 1 its1 = PSOpt (a_id a) ->
  In a (c_args c) -> a_term a = Some t -> (a_hyphen a || value_ok t || (a_negnum a && negnum_tok t)) = true ->
  wfx_items c PSValuesDone (items_pos c 1 its1) its2 = true ->
  get_matches_with (S f) c (render its1 ++ t :: render its2) ps_new =
  (do st1 <- react_all c (occs c 1 (its1 ++ its2)) ps_new; post_loop c st1).
Proof. exact gmw_items_term_x. Qed.
Print Assumptions C02_unparse_level_terminator.

(** ONE LEVEL / TREE / TOP for the lifted class *)
Theorem C02_unparse_level_x : forall c, convx c = true -> is_set s_ignore_errors c = false ->
  forall f its, wfx_items c PSValuesDone 1 its = true ->
  get_matches_with (S f) c (render its) ps_new =
  (do st1 <- react_all c (occs c 1 its) ps_new; post_loop c st1).
Proof. exact gmw_items_x. Qed.
Print Assumptions C02_unparse_level_x.

Theorem C02_unparse_tree_x : forall i c f, valid_tree (S f) c = true -> wfx_inv c i = true ->
  get_matches_with (S f) c (render_inv i) ps_new = run_inv c i.
Proof. exact gmw_inv_x. Qed.
Print Assumptions C02_unparse_tree_x.

Theorem C02_unparse_x : forall c0 bin i, is_set s_no_binary_name c0 = false ->
  valid (with_bin c0 bin) = true -> wfx_inv (build_self (with_bin c0 bin)) i = true ->
  parse_top c0 (bin :: render_inv i) =
  finish_outcome (with_bin c0 bin) (run_inv (build_self (with_bin c0 bin)) i).
Proof. exact parse_top_inv_x. Qed.
Print Assumptions C02_unparse_x.

Theorem C02_unparse_denote_x : forall c0 bin i st, is_set s_no_binary_name c0 = false ->
  valid (with_bin c0 bin) = true -> wfx_inv (build_self (with_bin c0 bin)) i = true ->
  no_globals (build_recursive (S (S (depth (build_self (with_bin c0 bin))))) (with_bin c0 bin)) = true ->
  run_inv (build_self (with_bin c0 bin)) i = ROk st ->
  parse_top c0 (bin :: render_inv i) = OOk (into_inner (mt st)).
Proof. exact parse_top_denote_x. Qed.
Print Assumptions C02_unparse_denote_x.

(** CONSERVATION and INDICES at every level of a tree of the lifted class *)
Theorem C02_conservation_tree_x : forall i c f st, valid_tree (S f) c = true -> wfx_inv c i = true ->
  get_matches_with (S f) c (render_inv i) ps_new = ROk st ->
  forall a, In a (c_args c) ->
    (forall gs, denote_os c (a_id a) (inv_occs c i) = Some gs -> groups_of (a_id a) (mt st) = Some gs)
    /\ (forall e, fm_get (a_id a) (mt_args (mt st)) = Some e -> m_source e = Some SCmdLine ->
          denote_os c (a_id a) (inv_occs c i) = Some (m_raw e)).
Proof. exact conservation_inv_x. Qed.
Print Assumptions C02_conservation_tree_x.

Theorem C02_indices_tree_x : forall i c f st, valid_tree (S f) c = true -> wfx_inv c i = true ->
  get_matches_with (S f) c (render_inv i) ps_new = ROk st ->
  forall a ix, In a (c_args c) -> denote_idx_os c (a_id a) (inv_occs c i) = Some ix ->
  idx_of (a_id a) (mt st) = Some ix.
Proof. exact indices_inv_x. Qed.
Print Assumptions C02_indices_tree_x.

(** Non-vacuity: [prog --req=A -vr=B --term X Y --hy -x -- --num -5 F -t Z --req== -y --num --term run --key=K]
    ([--req]/[--key]: require_equals; [--term]: terminator [;], 1..3 values; [--hy]: two hyphen values -- here [-x], [--],
    later [--num], [--term]; [--num]: negative numbers): in the lifted class, not in the old one; parses as denoted. *)
Theorem C02_unparse_x_nonvacuous :
  (is_set s_no_binary_name XEx.c0 = false /\ valid (with_bin XEx.c0 XEx.bin) = true /\ wfx_inv XEx.c XEx.xinv = true /\
   convx XEx.c = true /\ conv XEx.c = false /\
   no_globals (build_recursive (S (S (depth XEx.c))) (with_bin XEx.c0 XEx.bin)) = true /\
   render_inv XEx.xinv =
     [[45; 45; 114; 101; 113; 61; 65]; [45; 118; 114; 61; 66]; [45; 45; 116; 101; 114; 109]; [88]; [89];
      [45; 45; 104; 121]; [45; 120]; [45; 45]; [45; 45; 110; 117; 109]; [45; 53]; [70]; [45; 116]; [90];
      [45; 45; 114; 101; 113; 61; 61]; [45; 121]; [45; 45; 110; 117; 109]; [45; 45; 116; 101; 114; 109];
      [114; 117; 110]; [45; 45; 107; 101; 121; 61; 75]]) /\
  exists m sm,
    parse_top XEx.c0 (XEx.bin :: render_inv XEx.xinv) = OOk m /\ ms_sub m = Some ([114; 117; 110], sm) /\
    XEx.raw_of [114] m = Some [[[61]]] /\ XEx.raw_of [116] m = Some [[[88]; [89]]; [[90]]] /\
    XEx.raw_of [121] m = Some [[[45; 45; 110; 117; 109]; [45; 45; 116; 101; 114; 109]]] /\
    XEx.raw_of [110] m = Some [[[45; 53]]] /\ XEx.raw_of [102] m = Some [[[70]]] /\ XEx.raw_of [118] m = Some [[[49]]] /\
    XEx.raw_of [107] sm = Some [[[75]]] /\
    XEx.idx_of_m [116] m = Some [7; 8; 16] /\ XEx.idx_of_m [121] m = Some [20; 21] /\ XEx.idx_of_m [110] m = Some [13].
Proof. split; [exact XEx.ex_hyps|exact XEx.ex_parse]. Qed.
Print Assumptions C02_unparse_x_nonvacuous.

(** Non-vacuity of the terminator theorems: [prog --term X ; F -v] *)
Theorem C02_terminator_nonvacuous :
  (is_set s_ignore_errors XEx.c = false /\ wfx_items XEx.c PSValuesDone 1 XEx.its1 = true /\
   items_pst XEx.c PSValuesDone 1 XEx.its1 = PSOpt (a_id XEx.tb) /\ In XEx.tb (c_args XEx.c) /\ a_term XEx.tb = Some [59] /\
   (a_hyphen XEx.tb || value_ok [59] || (a_negnum XEx.tb && negnum_tok [59])) = true /\
   wfx_items XEx.c PSValuesDone (items_pos XEx.c 1 XEx.its1) XEx.its2 = true /\
   render XEx.its1 ++ [59] :: render XEx.its2 = [[45; 45; 116; 101; 114; 109]; [88]; [59]; [70]; [45; 118]]) /\
  exists st, get_matches_with 3 XEx.c (render XEx.its1 ++ [59] :: render XEx.its2) ps_new = ROk st /\
    groups_of [116] (mt st) = Some [[[88]]] /\ groups_of [102] (mt st) = Some [[[70]]] /\
    idx_of [116] (mt st) = Some [2] /\ idx_of [102] (mt st) = Some [3].
Proof. split; [exact XEx.ex_term_hyps|exact XEx.ex_term_parse]. Qed.
Print Assumptions C02_terminator_nonvacuous.

(** (4) COMPOSITION WITH THE MERGE OF GLOBAL VALUES (ParseProofs/UnparseGlobals.v; the merge's closed form is C09's).
    For a rendered tree WITH global arguments whose meaning succeeds, [parse_top] returns the matches of the
    meaning with ONE final map inserted at every level: [merged_map] = C09's [final_vm] over the ids
    [get_used_global_args] collects ([merged_ids]), folded down the levels of the meaning. *)
Theorem C02_unparse_globals : forall c0 bin i st, is_set s_no_binary_name c0 = false ->
  valid (with_bin c0 bin) = true -> wf_inv (build_self (with_bin c0 bin)) i = true ->
  run_inv (build_self (with_bin c0 bin)) i = ROk st ->
  parse_top c0 (bin :: render_inv i) =
  OOk (ins_levels (merged_map (with_bin c0 bin) (into_inner (mt st))) (into_inner (mt st))).
Proof. exact parse_top_merged. Qed.
Print Assumptions C02_unparse_globals.

Theorem C02_unparse_globals_x : forall c0 bin i st, is_set s_no_binary_name c0 = false ->
  valid (with_bin c0 bin) = true -> wfx_inv (build_self (with_bin c0 bin)) i = true ->
  run_inv (build_self (with_bin c0 bin)) i = ROk st ->
  parse_top c0 (bin :: render_inv i) =
  OOk (ins_levels (merged_map (with_bin c0 bin) (into_inner (mt st))) (into_inner (mt st))).
Proof. exact parse_top_merged_x. Qed.
Print Assumptions C02_unparse_globals_x.

(** what that result holds, level by level and key by key: the final map has pairwise distinct keys, all of them
    merged ids; its entry for a merged id is [pick] over the chain's own entries for that id (C09: the most
    explicit source, the deepest level among equals); chain and number of levels are the meaning's; a level of
    the result answers a key with the final map's entry if there is one, otherwise with the meaning's own entry. *)
Theorem C02_merged_levels : forall c0 m,
  let vmF := merged_map c0 m in
  NoDup (map fst vmF) /\
  (forall g, mem_id g (merged_ids c0 m) = false -> fm_get g vmF = None) /\
  (forall g, fm_get g vmF = if mem_id g (merged_ids c0 m) then pick None (map (fm_get g) (levels m)) else None) /\
  chain (ins_levels vmF m) = chain m /\
  levels (ins_levels vmF m) = map (ins_all vmF) (levels m) /\
  (forall lv k, fm_get k (ins_all vmF lv) = match fm_get k vmF with Some e => Some e | None => fm_get k lv end).
Proof. exact merged_levels. Qed.
Print Assumptions C02_merged_levels.

(** Non-vacuity: [prog --gl=R -q run --gl=S -x] with [--gl] global: the meaning has R at the root and S in the
    subcommand; [parse_top] reports S at both levels and leaves the other entries alone. *)
Theorem C02_unparse_globals_nonvacuous :
  (is_set s_no_binary_name GlobEx.c0 = false /\ valid (with_bin GlobEx.c0 GlobEx.bin) = true /\ wf_inv GlobEx.c GlobEx.ginv = true /\
   no_globals (build_recursive (S (S (depth GlobEx.c))) (with_bin GlobEx.c0 GlobEx.bin)) = false /\
   render_inv GlobEx.ginv = [[45; 45; 103; 108; 61; 82]; [45; 113]; [114; 117; 110]; [45; 45; 103; 108; 61; 83]; [45; 120]]) /\
  exists st sm, run_inv GlobEx.c GlobEx.ginv = ROk st /\
    GlobEx.raw_of [103; 108] (into_inner (mt st)) = Some [[[82]]] /\ ms_sub (into_inner (mt st)) = Some ([114; 117; 110], sm) /\
    GlobEx.raw_of [103; 108] sm = Some [[[83]]] /\
    merged_ids (with_bin GlobEx.c0 GlobEx.bin) (into_inner (mt st)) = [[103; 108]; [103; 108]] /\
    map fst (merged_map (with_bin GlobEx.c0 GlobEx.bin) (into_inner (mt st))) = [[103; 108]] /\
    exists mp smp, parse_top GlobEx.c0 (GlobEx.bin :: render_inv GlobEx.ginv) = OOk mp /\ ms_sub mp = Some ([114; 117; 110], smp) /\
      GlobEx.raw_of [103; 108] mp = Some [[[83]]] /\ GlobEx.raw_of [103; 108] smp = Some [[[83]]] /\
      GlobEx.raw_of [113] mp = Some [[s_true]] /\ GlobEx.raw_of [120] smp = Some [[s_true]].
Proof. split; [exact GlobEx.ex_hyps|exact GlobEx.ex_run]. Qed.
Print Assumptions C02_unparse_globals_nonvacuous.

(** (5) THE PENDING BUFFER AND THE VALUE RANGE, for ALL commands (ParseProofs/UnparsePending.v).
    Planned (DESIGN section 5): [C02_pending_bounded : the pending buffer never exceeds num_args.max].  As a statement about
    every intermediate state of the loop it is FALSE for multi-valued positionals ([C02_pending_positional_refuted]: the
    run of a positional is only counted when it is flushed).  Proved instead, for all commands, states and tokens:
    (a) an option occurrence opened without a value starts empty; (b) the loop's value branch appends exactly the token
    and keeps the option open iff the new length is strictly below the maximum -- so from below the maximum the buffer
    reaches at most the maximum ([_partial]: the step, not yet folded into one invariant of [parse_loop] over arbitrary
    token lists; for rendered lines the buffer between items is explicit in [C02_unparse_loop]/[_x]: [set_pending] with at most
    [num_args.max] values); (c) whatever is flushed from the command line and accepted has min <= #values <= max. *)
Theorem C02_pending_open_empty : forall c idn attached a has_eq st st' i,
  parse_opt_value c idn attached a has_eq st = ROk (st', PROpt i) ->
  i = a_id a /\ mt_pending (mt st') = Some (mkPending (a_id a) (Some idn) [] None).
Proof. exact pending_open_empty. Qed.
Print Assumptions C02_pending_open_empty.

Theorem C02_pending_bounded_partial : forall c i tok st st' more p a r,
  mt_pending (mt st) = Some p -> p_id p = i -> find_arg c i = Some a -> a_id a = i -> a_num a = Some r ->
  N.of_nat (length (p_raw p)) < vmax r ->
  take_value c i tok st = ROk (st', more) ->
  exists p', mt_pending (mt st') = Some p' /\ p_id p' = i /\ p_raw p' = p_raw p ++ [tok] /\
    N.of_nat (length (p_raw p')) <= vmax r /\
    (more = true -> N.of_nat (length (p_raw p')) < vmax r) /\
    (more = false -> N.of_nat (length (p_raw p')) = vmax r).
Proof. exact take_value_bounded. Qed.
Print Assumptions C02_pending_bounded_partial.

Theorem C02_flushed_in_range : forall c idn a raw ti st x r, is_set s_ignore_errors c = false -> a_num a = Some r ->
  react_core c idn SCmdLine a raw ti st = ROk x ->
  vmin r <= N.of_nat (length raw) <= vmax r.
Proof. exact flushed_in_range. Qed.
Print Assumptions C02_flushed_in_range.

(** [prog <f>{1..2}] on [a b c]: at the end of the loop three values are pending for [f]; the line is then rejected
    (TooManyValues) -- the real crate gives the same answer on this line. *)
Theorem C02_pending_positional_refuted : exists c toks st p a r,
  assert_app c = true /\ parse_loop c toks (mkL PSValuesDone 1 false false) ps_new = ROk (LDone st) /\
  mt_pending (mt st) = Some p /\ find_arg c (p_id p) = Some a /\ a_num a = Some r /\
  vmax r < N.of_nat (length (p_raw p)) /\
  (exists e s, get_matches_with 2 c toks ps_new = RErr e s /\ e_kind e = ETooManyValues).
Proof. exact pending_positional_unbounded. Qed.
Print Assumptions C02_pending_positional_refuted.

(** Non-vacuity of the option side: [--mu <v>{1..2}]: after [--mu] nothing, after [--mu A] one, after [--mu A B] two values
    pending; a third token is no longer the option's (here: rejected, there is no positional). *)
Theorem C02_pending_nonvacuous :
  PendOptEx.pend_after [[45; 45; 109; 117]] = Some [] /\ PendOptEx.pend_after [[45; 45; 109; 117]; [65]] = Some [[65]] /\
  PendOptEx.pend_after [[45; 45; 109; 117]; [65]; [66]] = Some [[65]; [66]] /\
  (exists e s, get_matches_with 2 PendOptEx.c [[45; 45; 109; 117]; [65]; [66]; [67]] ps_new = RErr e s /\ e_kind e = EUnknownArgument).
Proof. exact PendOptEx.ex. Qed.
Print Assumptions C02_pending_nonvacuous.

(** (6) THE BRIDGE from the command as written to the class on the built command -- the steps (ParseProofs/UnparseBridge.v);
    the assembly is [C02_bridge] / [C02_bridge_conventional0] below (fourth pass).
    Full statement (third pass: not proved; now [C02_bridge_conventional0]): [forall c0, valid c0 = true -> conventional0 c0 = true ->
    low_index_multiple (build_self c0) = false -> conv (build_self c0) = true].
    Proved, for all commands: [Arg::_build] and the positional-index assignment keep the six per-argument conjuncts of
    [conv] for every declared argument; the settings the class mentions are unchanged by the stages of [_build_self] before
    the deprecated-settings push, and with [allow_hyphen_values]/[allow_negative_numbers]/[trailing_var_arg] off at command
    level that push changes no argument.  Missing: the help/version arguments appended by [_check_help_and_version], the
    [Built] mark, the low-index conjunct, and the assembly. *)
Theorem C02_bridge_args_partial : forall args groups pc, forallb conv_arg args = true ->
  forallb conv_arg (fst (build_args args groups pc)) = true.
Proof. exact build_args_conv. Qed.
Print Assumptions C02_bridge_args_partial.

Theorem C02_bridge_deprecated_partial : forall c h a,
  is_set s_allow_hyphen c = false -> is_set s_allow_negnum c = false -> is_set s_tva c = false ->
  bs_deprecated_arg c h a = a.
Proof. exact deprecated_conv. Qed.
Print Assumptions C02_bridge_deprecated_partial.

Theorem C02_bridge_settings_partial : forall c,
  is_set s_allow_hyphen (pre_build c) = is_set s_allow_hyphen c /\
  is_set s_allow_negnum (pre_build c) = is_set s_allow_negnum c /\
  is_set s_tva (pre_build c) = is_set s_tva c /\
  is_set s_sub_precedence (pre_build c) = is_set s_sub_precedence c /\
  is_set s_allow_missing_pos (pre_build c) = is_set s_allow_missing_pos c.
Proof. exact bridge_settings. Qed.
Print Assumptions C02_bridge_settings_partial.

(** ---------- round 4: definitions WITH short flag-subcommands (class [flag_sub_class], see Properties/C01.v) ----------
    The index discipline and "no value is invented" are instances of the same traversal as C01's totality theorem;
    ParseProofs/FsInvariant.v / FsTotality.v generalise that traversal over the resume state of short
    flag-subcommands, ParseProofs/FsIndex.v instantiates it.  A level entered by re-reading a cluster ([idx_entry],
    second alternative: skip = 1, the cluster first in its token list) starts with an empty matcher and CONTINUES the
    parent's index counter. *)
From ClapModel Require Import ParseProofs.FlagSubClass ParseProofs.FsInvariant ParseProofs.FsTotality ParseProofs.FsIndex.

Theorem C02_level_indices_flag_subs : forall fuel c toks st0 st,
  tree_ok_fs fuel c -> idx_entry c toks st0 -> get_matches_with fuel c toks st0 = ROk st ->
  NoDup (map fst (mt_args (mt st)))
  /\ NoDup (all_indices (mt_args (mt st)))
  /\ Forall (fun i => i <= cur_idx st) (all_indices (mt_args (mt st)))
  /\ Forall (fun p => StronglySorted N.lt (m_indices (snd p))) (mt_args (mt st)).
Proof. exact level_indices_fs. Qed.
Print Assumptions C02_level_indices_flag_subs.

(** the root level, for every valid definition of the class and every token list *)
Theorem C02_indices_unique_increasing_flag_subs : forall c0 toks st,
  flag_sub_class c0 = true -> valid c0 = true ->
  get_matches_with (S (S (depth (build_self c0)))) (build_self c0) toks ps_new = ROk st ->
  NoDup (map fst (mt_args (mt st)))
  /\ NoDup (all_indices (mt_args (mt st)))
  /\ Forall (fun i => i <= cur_idx st) (all_indices (mt_args (mt st)))
  /\ Forall (fun p => StronglySorted N.lt (m_indices (snd p))) (mt_args (mt st)).
Proof. exact root_indices_fs. Qed.
Print Assumptions C02_indices_unique_increasing_flag_subs.

Theorem C02_values_have_origin_flag_subs : forall c0 toks st,
  flag_sub_class c0 = true -> valid c0 = true ->
  get_matches_with (S (S (depth (build_self c0)))) (build_self c0) toks ps_new = ROk st ->
  forall i m, In (i, m) (mt_args (mt st)) -> (exists a, find_arg (build_self c0) i = Some a) ->
  Forall (Forall (origin (build_self c0) toks)) (m_raw m).
Proof. exact root_provenance_fs. Qed.
Print Assumptions C02_values_have_origin_flag_subs.

Theorem C02_level_values_have_origin_flag_subs : forall fuel c toks st0 st,
  tree_ok_fs fuel c -> prov_entry c toks st0 ->
  get_matches_with fuel c toks st0 = ROk st ->
  forall i m, In (i, m) (mt_args (mt st)) -> (exists a, find_arg c i = Some a) ->
  Forall (Forall (origin c toks)) (m_raw m).
Proof. exact level_provenance_fs. Qed.
Print Assumptions C02_level_values_have_origin_flag_subs.

(** Non-vacuity: `p -a -Sx v` on [candidate_cmd] (root flag a; subcommand s with short flag S, flags x, w, positional v):
    the root reports index 1 for `-a` and the subcommand; the level `s`, entered by re-reading `-Sx`, reports 3 for
    `-x`, 4 for `v` and 5 for the default of `-w`: the numbering continues across the re-read cluster. *)
Theorem C02_flag_subs_nonvacuous :
  flag_sub_class candidate_cmd = true /\ valid candidate_cmd = true
  /\ (exists st, Relations.run_level candidate_cmd [[45; 97]; [45; 83; 120]; [118]] = ROk st
                 /\ all_indices (mt_args (mt st)) = [1] /\ cur_idx st = 2
                 /\ exists sm, mt_sub (mt st) = Some ([115], sm)
                               /\ map (fun p => (fst p, m_indices (snd p))) (ms_args sm) = [([120], [3]); ([118], [4]); ([119], [5])]).
Proof. exact fs_index_example. Qed.
Print Assumptions C02_flag_subs_nonvacuous.
(** * Fourth pass.
    (1) TAILS FOR THE LIFTED CLASS; [last(true)] AND [trailing_var_arg] POSITIONALS (ParseProofs/UnparseXTrail.v, UnparseYTree.v).
    [convx] (the class of all [_x] theorems above) now admits positionals with [last(true)] and [trailing_var_arg], and a multiple
    positional below the highest index when the last positional is [last(true)] (the parser's own test [low_index_mults_any], C05);
    a run of values BEFORE [--] is never for a [last(true)] / [trailing_var_arg] positional ([posx_ok]).
    Trees [invy] = items, then nothing | subcommand + tree | [--] + values ([YTrail]) | the run of a [trailing_var_arg]
    positional ([YTva], rendered without [--]).  After [--] every token -- whatever it looks like -- goes to the positional the
    CORRECTED counter points at ([sink_index], C05: the highest positional when there is a [last(true)] one); a positional taking
    several values takes all that remain.  A [trailing_var_arg] run: the first value is an ordinary value token, all later tokens are
    raw values of the same occurrence; it denotes what [--] followed by the same values denotes. *)
Theorem C02_unparse_after_escape_x : forall c, convx c = true -> low_index_mults_any c = false ->
  forall (vs : list bytes) pos pst vaf st, wfx_trail c pos vs = true -> pend_inv c PSValuesDone st ->
  parse_loop c vs (mkL pst pos vaf true) st = (do s' <- trailx_apply c pos vs st; ROk (LDone s')).
Proof. exact loop_trail_x. Qed.
Print Assumptions C02_unparse_after_escape_x.

Theorem C02_unparse_tva_run : forall c, convx c = true -> low_index_mults_any c = false ->
  forall (vs : list bytes) pos vaf st, wfx_tva c pos vs = true -> pend_inv c PSValuesDone st ->
  parse_loop c vs (mkL PSValuesDone pos vaf false) st = (do s' <- trailx_apply c pos vs st; ROk (LDone s')).
Proof. exact loop_tva. Qed.
Print Assumptions C02_unparse_tva_run.

Theorem C02_unparse_tree_y : forall i c f, valid_tree (S f) c = true -> wfy_inv c i = true ->
  get_matches_with (S f) c (render_invy i) ps_new = run_invy c i.
Proof. exact gmw_inv_y. Qed.
Print Assumptions C02_unparse_tree_y.

Theorem C02_unparse_y : forall c0 bin i, is_set s_no_binary_name c0 = false ->
  valid (with_bin c0 bin) = true -> wfy_inv (build_self (with_bin c0 bin)) i = true ->
  parse_top c0 (bin :: render_invy i) =
  finish_outcome (with_bin c0 bin) (run_invy (build_self (with_bin c0 bin)) i).
Proof. exact parse_top_inv_y. Qed.
Print Assumptions C02_unparse_y.

Theorem C02_unparse_denote_y : forall c0 bin i st, is_set s_no_binary_name c0 = false ->
  valid (with_bin c0 bin) = true -> wfy_inv (build_self (with_bin c0 bin)) i = true ->
  no_globals (build_recursive (S (S (depth (build_self (with_bin c0 bin))))) (with_bin c0 bin)) = true ->
  run_invy (build_self (with_bin c0 bin)) i = ROk st ->
  parse_top c0 (bin :: render_invy i) = OOk (into_inner (mt st)).
Proof. exact parse_top_denote_y. Qed.
Print Assumptions C02_unparse_denote_y.

Theorem C02_unparse_globals_y : forall c0 bin i st, is_set s_no_binary_name c0 = false ->
  valid (with_bin c0 bin) = true -> wfy_inv (build_self (with_bin c0 bin)) i = true ->
  run_invy (build_self (with_bin c0 bin)) i = ROk st ->
  parse_top c0 (bin :: render_invy i) =
  OOk (ins_levels (merged_map (with_bin c0 bin) (into_inner (mt st))) (into_inner (mt st))).
Proof. exact parse_top_merged_y. Qed.
Print Assumptions C02_unparse_globals_y.

Theorem C02_conservation_tree_y : forall i c f st, valid_tree (S f) c = true -> wfy_inv c i = true ->
  get_matches_with (S f) c (render_invy i) ps_new = ROk st ->
  forall a, In a (c_args c) ->
    (forall gs, denote_os c (a_id a) (invy_occs c i) = Some gs -> groups_of (a_id a) (mt st) = Some gs)
    /\ (forall e, fm_get (a_id a) (mt_args (mt st)) = Some e -> m_source e = Some SCmdLine ->
          denote_os c (a_id a) (invy_occs c i) = Some (m_raw e)).
Proof. exact conservation_inv_y. Qed.
Print Assumptions C02_conservation_tree_y.

Theorem C02_indices_tree_y : forall i c f st, valid_tree (S f) c = true -> wfy_inv c i = true ->
  get_matches_with (S f) c (render_invy i) ps_new = ROk st ->
  forall a ix, In a (c_args c) -> denote_idx_os c (a_id a) (invy_occs c i) = Some ix ->
  idx_of (a_id a) (mt st) = Some ix.
Proof. exact indices_inv_y. Qed.
Print Assumptions C02_indices_tree_y.

(** the trees of the earlier passes are the trees without a [trailing_var_arg] run; both earlier classes are contained,
    with the same rendering and the same meaning (in the old class the corrected counter is the counter) *)
Theorem C02_class_lifted_tails :
  (forall i, render_invy (of_inv i) = render_inv i) /\
  (forall i c, wf_inv c i = true -> wfy_inv c (of_inv i) = true /\ run_invy c (of_inv i) = run_inv c i) /\
  (forall i c, wfx_inv c i = true -> wfy_inv c (of_inv i) = true /\ run_invy c (of_inv i) = run_inv c i).
Proof. exact (conj render_of_inv (conj wf_inv_wfy_inv wfx_inv_wfy_inv)). Qed.
Print Assumptions C02_class_lifted_tails.

(** Non-vacuity: [prog -v --opt <o> <files>... [-- <cmd>...]] ([cmd] last(true) with terminator [;], [files] a multiple
    positional below it): [-v A B --opt X -- -a -- run] and [-v -- R S] (the counter jumps over the absent [files]). *)
Theorem C02_unparse_y_nonvacuous :
  (is_set s_no_binary_name YEx.c0 = false /\ valid (with_bin YEx.c0 YEx.bin) = true /\ wfy_inv YEx.c YEx.yinv = true /\ wfy_inv YEx.c YEx.yinv2 = true /\
   convx YEx.c = true /\ conv YEx.c = false /\ low_index_multiple YEx.c = true /\
   no_globals (build_recursive (S (S (depth YEx.c))) (with_bin YEx.c0 YEx.bin)) = true /\
   render_invy YEx.yinv = [[45; 118]; [65]; [66]; [45; 45; 111; 112; 116]; [88]; [45; 45]; [45; 97]; [45; 45]; [114; 117; 110]] /\
   render_invy YEx.yinv2 = [[45; 118]; [45; 45]; [82]; [83]]) /\
  exists m m2,
    parse_top YEx.c0 (YEx.bin :: render_invy YEx.yinv) = OOk m /\
    YEx.raw_of [102] m = Some [[[65]; [66]]] /\ YEx.raw_of [99] m = Some [[[45; 97]; [45; 45]; [114; 117; 110]]] /\ YEx.raw_of [111] m = Some [[[88]]] /\
    YEx.idx_of_m [102] m = Some [2; 3] /\ YEx.idx_of_m [99] m = Some [6; 7; 8] /\
    parse_top YEx.c0 (YEx.bin :: render_invy YEx.yinv2) = OOk m2 /\
    YEx.raw_of [102] m2 = None /\ YEx.raw_of [99] m2 = Some [[[82]; [83]]] /\ YEx.idx_of_m [99] m2 = Some [2; 3].
Proof. split; [exact YEx.ex_hyps|exact YEx.ex_parse]. Qed.
Print Assumptions C02_unparse_y_nonvacuous.

(** Non-vacuity: [prog -v <cmd> <args>...] with [args] trailing_var_arg: [-v C a1 --x -v -- z] *)
Theorem C02_unparse_tva_nonvacuous :
  (is_set s_no_binary_name YEx.t0 = false /\ valid (with_bin YEx.t0 YEx.bin) = true /\ wfy_inv YEx.tc YEx.tinv = true /\
   convx YEx.tc = true /\ conv YEx.tc = false /\
   no_globals (build_recursive (S (S (depth YEx.tc))) (with_bin YEx.t0 YEx.bin)) = true /\
   render_invy YEx.tinv = [[45; 118]; [67]; [97; 49]; [45; 45; 120]; [45; 118]; [45; 45]; [122]]) /\
  exists m,
    parse_top YEx.t0 (YEx.bin :: render_invy YEx.tinv) = OOk m /\
    YEx.raw_of [99] m = Some [[[67]]] /\ YEx.raw_of [97] m = Some [[[97; 49]; [45; 45; 120]; [45; 118]; [45; 45]; [122]]] /\
    YEx.raw_of [118] m = Some [[[49]]] /\ YEx.idx_of_m [97] m = Some [3; 4; 5; 6; 7].
Proof. split; [exact YEx.ex_tva_hyps|exact YEx.ex_tva_parse]. Qed.
Print Assumptions C02_unparse_tva_nonvacuous.

(** (2) THE BRIDGE, COMPLETE (ParseProofs/UnparseBridge.v, UnparseUser.v): from the command AS THE USER WRITES IT to the class
    of the theorems on the built command, for ALL commands passing the validity gate.
    [user_conventional c0]: not yet built; none of [subcommand_precedence_over_arg], [allow_missing_positional], command-level
    [allow_hyphen_values] / [allow_negative_numbers] / [trailing_var_arg]; every declared argument [conv_arg]; no explicit
    positional index; only the LAST declared positional takes several values / appends (judged after [Arg::_build] has filled in
    action and value range).  [user_conventionalx], for the lifted class: not yet built; no [subcommand_precedence_over_arg], no
    command-level [allow_hyphen_values] / [allow_negative_numbers] / [trailing_var_arg]; no explicit positional index; declared
    options free of [last]/[trailing_var_arg] (everything else -- positionals included -- is free).
    The generated [--help] / [--version] flags, [Arg::_build], the index assignment, the deprecated-settings push and the
    [Built] mark are all covered; the low-index conjunct is DERIVED ([C02_bridge_low_index]: the k-th declared positional gets
    index k, the number of positional keys is the number of positionals). *)
Theorem C02_bridge : forall c0, valid c0 = true -> user_conventional c0 = true -> conv (build_self c0) = true.
Proof. exact conv_of_user. Qed.
Print Assumptions C02_bridge.

Theorem C02_bridge_x : forall c0, valid c0 = true -> user_conventionalx c0 = true -> convx (build_self c0) = true.
Proof. exact convx_of_user. Qed.
Print Assumptions C02_bridge_x.

Theorem C02_bridge_conventional0 : forall c0, valid c0 = true -> conventional0 c0 = true ->
  low_index_multiple (build_self c0) = false -> conv (build_self c0) = true.
Proof. exact conv_of_conventional0. Qed.
Print Assumptions C02_bridge_conventional0.

Theorem C02_bridge_low_index : forall c0, s_built (c_set c0) = false ->
  is_set s_allow_hyphen c0 = false -> is_set s_allow_negnum c0 = false -> is_set s_tva c0 = false ->
  no_index (c_args c0) = true -> last_only_multiple (c_args c0) = true ->
  low_index_multiple (build_self c0) = false.
Proof. exact low_index_of_user. Qed.
Print Assumptions C02_bridge_low_index.

(** THE UN-PARSER THEOREM ON THE DEFINITION AS WRITTEN: the class conjunct of the root level is discharged; what is left on the
    built command is what mentions its lookup tables ([wf_body]: the items, and the class of the children of a tree) *)
Theorem C02_unparse_user : forall c0 bin i, is_set s_no_binary_name c0 = false -> valid (with_bin c0 bin) = true ->
  user_conventional c0 = true -> is_set s_ignore_errors c0 = false ->
  wf_body (build_self (with_bin c0 bin)) i = true ->
  parse_top c0 (bin :: render_inv i) = finish_outcome (with_bin c0 bin) (run_inv (build_self (with_bin c0 bin)) i).
Proof. exact parse_top_user. Qed.
Print Assumptions C02_unparse_user.

Theorem C02_unparse_user_y : forall c0 bin i, is_set s_no_binary_name c0 = false -> valid (with_bin c0 bin) = true ->
  user_conventionalx c0 = true -> is_set s_ignore_errors c0 = false ->
  wfy_body (build_self (with_bin c0 bin)) i = true ->
  parse_top c0 (bin :: render_invy i) = finish_outcome (with_bin c0 bin) (run_invy (build_self (with_bin c0 bin)) i).
Proof. exact parse_top_user_y. Qed.
Print Assumptions C02_unparse_user_y.

(** Non-vacuity: the example commands of the earlier passes satisfy the user-level classes as written *)
Theorem C02_bridge_nonvacuous :
  user_conventional UnparseEx.c0 = true /\ is_set s_ignore_errors UnparseEx.c0 = false /\
  wf_body (build_self (with_bin UnparseEx.c0 [112])) (ILeaf UnparseEx.its) = true /\
  user_conventionalx XEx.c0 = true /\ user_conventional XEx.c0 = false /\
  wfy_body (build_self (with_bin XEx.c0 XEx.bin)) (of_inv XEx.xinv) = true /\
  user_conventionalx YEx.t0 = true /\ wfy_body (build_self (with_bin YEx.t0 YEx.bin)) YEx.tinv = true /\
  user_conventionalx YEx.c0 = true /\ convx YEx.c = true.
Proof. exact user_examples. Qed.
Print Assumptions C02_bridge_nonvacuous.

(** (3) [C02_pending_bounded] AS ONE INVARIANT OF [parse_loop] (ParseProofs/UnparsePendingLoop.v), for ALL commands passing
    [assert_app], ALL token lists, ALL exits of the loop (end of line, subcommand, external subcommand, help subcommand, error).
    [bnd c st]: the occurrence being collected, if it belongs to an OPTION (an argument without positional index), holds at
    most [num_args.max] values.  [PB c ls st] = [bnd] + while the loop is in state [Opt(i)], [i] takes values and its buffer is
    strictly below the maximum.  [PB] holds initially, and from ANY loop state satisfying it every exit state satisfies [bnd]:
    the proof is an induction over the tokens that re-establishes [PB] at every recursive call, following each branch of the
    iteration ([parse_loop_step]: the iteration split into its classification and delivery phases, by computation).
    For positionals the statement stays refuted ([C02_pending_positional_refuted]): their run is counted when flushed
    ([C02_flushed_in_range]). *)
Theorem C02_pending_invariant : forall c, assert_app c = true ->
  PB c (mkL PSValuesDone 1 false false) ps_new /\
  forall toks ls st, PB c ls st -> okres c (parse_loop c toks ls st).
Proof. exact (fun c HA => conj (PB_new c) (pending_bounded_loop c HA)). Qed.
Print Assumptions C02_pending_invariant.

Theorem C02_pending_bounded : forall c toks, assert_app c = true ->
  match parse_loop c toks (mkL PSValuesDone 1 false false) ps_new with
  | ROk lr => bnd c (lr_st lr)
  | RErr _ s => bnd c s
  | RPanic _ => True
  end.
Proof. exact pending_bounded. Qed.
Print Assumptions C02_pending_bounded.

(** what [bnd] says, spelled out (definitional) *)
Theorem C02_pending_bounded_meaning : forall c st,
  bnd c st <-> (forall p a r, mt_pending (mt st) = Some p -> find_arg c (p_id p) = Some a -> a_index a = None ->
                  a_num a = Some r -> N.of_nat (length (p_raw p)) <= vmax r).
Proof. exact (fun c st => conj (fun H => H) (fun H => H)). Qed.
Print Assumptions C02_pending_bounded_meaning.

(** one iteration of the loop = classification phase, then delivery phase (the decomposition the invariant proof follows) *)
Theorem C02_parse_loop_step : forall c tok rest ls st,
  parse_loop c (tok :: rest) ls st =
  (do p1 <- phase1 c (parse_loop c rest) tok rest ls st;
   let '(early, ls, st) := p1 in
   match early with Some r => r | None => phase2 c (parse_loop c rest) tok rest ls st end).
Proof. exact parse_loop_step. Qed.
Print Assumptions C02_parse_loop_step.

(** Non-vacuity: [prog --mu <v>{1..2}] on [--mu A B]: the hypothesis holds and the bound is attained *)
Theorem C02_pending_bounded_nonvacuous : assert_app PendLoopEx.c = true /\
  exists st p a, parse_loop PendLoopEx.c PendLoopEx.toks (mkL PSValuesDone 1 false false) ps_new = ROk (LDone st) /\
    mt_pending (mt st) = Some p /\ find_arg PendLoopEx.c (p_id p) = Some a /\ a_index a = None /\
    a_num a = Some {| vmin := 1; vmax := 2 |} /\ p_raw p = [[65]; [66]].
Proof. exact PendLoopEx.ex. Qed.
Print Assumptions C02_pending_bounded_nonvacuous.

(** (1, last part) HYPHEN / NEGATIVE-NUMBER VALUES OF POSITIONALS (UnparseX.v [hyphen_tok], [cluster_clear], [posx_ok]; UnparseXTrail.v
    [wfx_hyp]).  [convx] puts no condition on a positional's [allow_hyphen_values] / [allow_negative_numbers] any more.  While the
    counter points at such a positional: an unknown long flag, a cluster with an unknown short ([allow_hyphen_values]) or a
    [-<number>] token ([allow_negative_numbers]) IS a value of that positional ([ItPos [v]], class [hyph_single]); a cluster is a
    cluster only if it is neither ([cluster_clear], part of [wfx_item]).  The run of a MULTI-valued positional with hyphen
    values swallows the rest of the line -- known flags, [--], subcommand names: tree constructor [YHyp], class [wfx_hyp];
    all theorems [_y] above quantify over these trees too.  [C02_hyphen_run]: the loop on such a run. *)
Theorem C02_hyphen_run : forall c, convx c = true ->
  forall (vs : list bytes) pos vaf st, wfx_hyp c pos vs = true -> pend_inv c PSValuesDone st ->
  parse_loop c vs (mkL PSValuesDone pos vaf false) st = (do s' <- apply_item c pos (ItPos vs) st; ROk (LDone s')).
Proof. exact loop_hyp. Qed.
Print Assumptions C02_hyphen_run.

(** the token that looks like a flag and is a value: one step of the loop *)
Theorem C02_hyphen_value_token : forall c, convx c = true -> forall (v : bytes) (rest : list bytes) pos vaf st a,
  nosub c v = true -> hyphen_tok c pos v = true -> get_pos c pos = Some a ->
  lookahead_off c pos -> check_terminator a v = false -> a_last a = false -> a_tva a = false ->
  parse_loop c (v :: rest) (mkL PSValuesDone pos vaf false) st = pos_step_k c a v rest pos st.
Proof. exact pos_branch_h. Qed.
Print Assumptions C02_hyphen_value_token.

(** Non-vacuity: [prog -v --opt <o> <pat> <num>] ([pat]: hyphen values, [num]: negative numbers) on [-v --opt X --weird -5] and
    [-x -v -7]; [prog -v <cmd> <args>...] ([args]: hyphen values) with a subcommand [sub] on [-v C --foo -v -- sub]. *)
Theorem C02_hyphen_positional_nonvacuous :
  (is_set s_no_binary_name HEx.c0 = false /\ valid (with_bin HEx.c0 HEx.bin) = true /\ wfy_inv HEx.c HEx.hinv = true /\ wfy_inv HEx.c HEx.hinv2 = true /\
   user_conventionalx HEx.c0 = true /\
   no_globals (build_recursive (S (S (depth HEx.c))) (with_bin HEx.c0 HEx.bin)) = true /\
   render_invy HEx.hinv = [[45; 118]; [45; 45; 111; 112; 116]; [88]; [45; 45; 119; 101; 105; 114; 100]; [45; 53]] /\
   render_invy HEx.hinv2 = [[45; 120]; [45; 118]; [45; 55]]) /\
  (exists m m2,
    parse_top HEx.c0 (HEx.bin :: render_invy HEx.hinv) = OOk m /\
    HEx.raw_of [112] m = Some [[[45; 45; 119; 101; 105; 114; 100]]] /\ HEx.raw_of [110] m = Some [[[45; 53]]] /\ HEx.raw_of [111] m = Some [[[88]]] /\
    HEx.raw_of [118] m = Some [[[49]]] /\ HEx.idx_of_m [112] m = Some [4] /\ HEx.idx_of_m [110] m = Some [5] /\
    parse_top HEx.c0 (HEx.bin :: render_invy HEx.hinv2) = OOk m2 /\
    HEx.raw_of [112] m2 = Some [[[45; 120]]] /\ HEx.raw_of [110] m2 = Some [[[45; 55]]] /\ HEx.raw_of [118] m2 = Some [[[49]]] /\
    HEx.idx_of_m [112] m2 = Some [1] /\ HEx.idx_of_m [110] m2 = Some [3]) /\
  (is_set s_no_binary_name HEx.m0 = false /\ valid (with_bin HEx.m0 HEx.bin) = true /\ wfy_inv HEx.mc HEx.minv = true /\ user_conventionalx HEx.m0 = true /\
   no_globals (build_recursive (S (S (depth HEx.mc))) (with_bin HEx.m0 HEx.bin)) = true /\
   render_invy HEx.minv = [[45; 118]; [67]; [45; 45; 102; 111; 111]; [45; 118]; [45; 45]; [115; 117; 98]]) /\
  (exists m,
    parse_top HEx.m0 (HEx.bin :: render_invy HEx.minv) = OOk m /\ HEx.raw_of [99] m = Some [[[67]]] /\
    HEx.raw_of [97] m = Some [[[45; 45; 102; 111; 111]; [45; 118]; [45; 45]; [115; 117; 98]]] /\
    HEx.raw_of [118] m = Some [[[49]]] /\ HEx.idx_of_m [97] m = Some [3; 4; 5; 6] /\ ms_sub m = None).
Proof. exact (conj HEx.ex_hyps (conj HEx.ex_parse (conj HEx.ex_multi_hyps HEx.ex_multi_parse))). Qed.
Print Assumptions C02_hyphen_positional_nonvacuous.

(** (4) LOW-INDEX MULTIPLES ([<sources>... <target>]) AND [allow_missing_positional] IN THE INVOCATION LANGUAGE
    (ParseProofs/UnparseXLook.v; tree constructor [YLook its init vl its2] of [invy], so every [_y] theorem above covers it).
    [convx] no longer excludes either.  They switch on the LOOK-AHEAD of the positional counter correction at the second-to-last
    positional [a] ([lookahead_at c pos]; off when [a] has a value terminator): a value followed by another plain value stays with
    [a]; a value followed by a flag-looking token, or by nothing, goes to the LAST positional [b].  A look-ahead run is
    [init ++ [vl]] followed by nothing or by items that start with a flag: [init] (any number of values if [a] takes several,
    at most one otherwise; none = [a] is skipped) is one occurrence of [a], [vl] the occurrence of [b].
    Everywhere else ([lookahead_at c pos = false]) the correction is the identity ([C02_lookahead_off]) and runs are ordinary
    items.  After [--] the look-ahead of a low-index multiple stays live: [YTrail]/[YTva] keep [low_index_mults_any c = false]. *)
Theorem C02_lookahead_run : forall c, convx c = true -> forall pos (init : list bytes) (vl : bytes) (next : list bytes) vaf st,
  wfx_look c pos init vl next = true -> pend_inv c PSValuesDone st ->
  parse_loop c (init ++ vl :: next) (mkL PSValuesDone pos vaf false) st =
  (do s' <- look_apply c pos init vl st; parse_loop c next (mkL PSValuesDone (pos + 2) true false) s').
Proof. exact loop_look_wf. Qed.
Print Assumptions C02_lookahead_run.

Theorem C02_lookahead_off : forall c pos, lookahead_at c pos = false ->
  forall vaf (rest : list bytes) pst, pc_part c rest (mkL pst pos vaf false) = ROk pos.
Proof. exact lookahead_off_of. Qed.
Print Assumptions C02_lookahead_off.

(** Non-vacuity: [prog -v <src>... <dst>] on [-v A B C] and [A B C -v]; [prog -v [first] <second>] with
    [allow_missing_positional] on [A -v] ([first] skipped) and [-v A B]. *)
Theorem C02_lookahead_nonvacuous :
  (is_set s_no_binary_name LEx.c0 = false /\ valid (with_bin LEx.c0 LEx.bin) = true /\ wfy_inv LEx.c LEx.l1 = true /\ wfy_inv LEx.c LEx.l2 = true /\
   user_conventionalx LEx.c0 = true /\ low_index_mults_any LEx.c = true /\
   no_globals (build_recursive (S (S (depth LEx.c))) (with_bin LEx.c0 LEx.bin)) = true /\
   render_invy LEx.l1 = [[45; 118]; [65]; [66]; [67]] /\ render_invy LEx.l2 = [[65]; [66]; [67]; [45; 118]]) /\
  (exists m m2,
    parse_top LEx.c0 (LEx.bin :: render_invy LEx.l1) = OOk m /\
    LEx.raw_of [115] m = Some [[[65]; [66]]] /\ LEx.raw_of [100] m = Some [[[67]]] /\ LEx.raw_of [118] m = Some [[[49]]] /\
    LEx.idx_of_m [115] m = Some [2; 3] /\ LEx.idx_of_m [100] m = Some [4] /\
    parse_top LEx.c0 (LEx.bin :: render_invy LEx.l2) = OOk m2 /\
    LEx.raw_of [115] m2 = Some [[[65]; [66]]] /\ LEx.raw_of [100] m2 = Some [[[67]]] /\ LEx.raw_of [118] m2 = Some [[[49]]] /\
    LEx.idx_of_m [115] m2 = Some [1; 2] /\ LEx.idx_of_m [100] m2 = Some [3]) /\
  (is_set s_no_binary_name LEx.m0 = false /\ valid (with_bin LEx.m0 LEx.bin) = true /\ wfy_inv LEx.mc LEx.a1 = true /\ wfy_inv LEx.mc LEx.a2 = true /\
   user_conventionalx LEx.m0 = true /\ is_set s_allow_missing_pos LEx.mc = true /\
   no_globals (build_recursive (S (S (depth LEx.mc))) (with_bin LEx.m0 LEx.bin)) = true /\
   render_invy LEx.a1 = [[65]; [45; 118]] /\ render_invy LEx.a2 = [[45; 118]; [65]; [66]]) /\
  (exists m m2,
    parse_top LEx.m0 (LEx.bin :: render_invy LEx.a1) = OOk m /\ LEx.raw_of [102] m = None /\ LEx.raw_of [115] m = Some [[[65]]] /\ LEx.idx_of_m [115] m = Some [1] /\
    parse_top LEx.m0 (LEx.bin :: render_invy LEx.a2) = OOk m2 /\ LEx.raw_of [102] m2 = Some [[[65]]] /\ LEx.raw_of [115] m2 = Some [[[66]]] /\
    LEx.idx_of_m [102] m2 = Some [2] /\ LEx.idx_of_m [115] m2 = Some [3]).
Proof. exact (conj LEx.ex_hyps (conj LEx.ex_parse (conj LEx.ex_amp_hyps LEx.ex_amp_parse))). Qed.
Print Assumptions C02_lookahead_nonvacuous.

(** (2, trees) THE BRIDGE FOR WHOLE COMMAND TREES (ParseProofs/UnparseUserTree.v).  [user_tree k c0] ([k] > depth of the tree as
    written): at EVERY node [user_conventional], no [ignore_errors], no [Built] mark in the global settings, global arguments
    are options, no subcommand named or aliased [help].  The class is stable under what the parser does to a child before
    building it ([_propagate_subcommand]: the parent's global settings; [_propagate_global_args]: the parent's global
    arguments) -- [C02_user_tree_stable] -- so the class conjuncts of every level of [wf_inv] follow from the tree as written:
    what remains ([wf_tree_body]) are the items of each level and the subcommand names. *)
Theorem C02_user_tree_stable : forall k c0 s0, user_node c0 = true -> user_tree k s0 = true ->
  user_tree k (prop_child c0 s0) = true.
Proof. exact prop_child_tree. Qed.
Print Assumptions C02_user_tree_stable.

Theorem C02_bridge_tree : forall i k c0 f, user_tree k c0 = true -> valid_tree (S f) (build_self c0) = true ->
  wf_tree_body (build_self c0) i = true -> wf_inv (build_self c0) i = true.
Proof. exact wf_inv_of_user_tree. Qed.
Print Assumptions C02_bridge_tree.

Theorem C02_unparse_user_tree : forall c0 bin i k, is_set s_no_binary_name c0 = false -> valid (with_bin c0 bin) = true ->
  user_tree k c0 = true -> wf_tree_body (build_self (with_bin c0 bin)) i = true ->
  parse_top c0 (bin :: render_inv i) = finish_outcome (with_bin c0 bin) (run_inv (build_self (with_bin c0 bin)) i).
Proof. exact parse_top_user_tree. Qed.
Print Assumptions C02_unparse_user_tree.

Theorem C02_bridge_tree_nonvacuous :
  user_tree 3 UnparseEx.t0 = true /\
  wf_tree_body (build_self (with_bin UnparseEx.t0 UnparseEx.tbin)) UnparseEx.tinv = true /\
  user_tree 3 GlobEx.c0 = true /\ wf_tree_body (build_self (with_bin GlobEx.c0 GlobEx.bin)) GlobEx.ginv = true /\
  user_tree 1 UnparseEx.t0 = false.
Proof. exact user_tree_examples. Qed.
Print Assumptions C02_bridge_tree_nonvacuous.

(** ... and for trees of the LIFTED class (ParseProofs/UnparseUserTreeX.v): [user_treex] = at every node [user_conventionalx], no
    [ignore_errors], no [Built] mark in the global settings, no subcommand named or aliased [help]; [C02_child_is_propagated]: the
    child the parser builds for a subcommand token IS [build_self] of the declared child after propagation ([prop_child]) with
    its binary and display names set ([named_sub]). *)
Theorem C02_child_is_propagated : forall c0 scn sc0 scb, s_built (c_set c0) = false -> no_help_sub c0 = true ->
  (beq scn s_help && negb (is_set s_disable_help_sub (build_self c0))) = false ->
  find_subcommand (build_self c0) scn = Some sc0 -> build_subcommand (build_self c0) (c_name sc0) = Some scb ->
  exists s0, In s0 (c_subs c0) /\ scb = build_self (named_sub (build_self c0) (prop_child c0 s0)).
Proof. exact child_is_prop. Qed.
Print Assumptions C02_child_is_propagated.

Theorem C02_bridge_tree_y : forall i k c0 f, user_treex k c0 = true -> valid_tree (S f) (build_self c0) = true ->
  wfy_tree_body (build_self c0) i = true -> wfy_inv (build_self c0) i = true.
Proof. exact wfy_inv_of_user_tree. Qed.
Print Assumptions C02_bridge_tree_y.

Theorem C02_unparse_user_tree_y : forall c0 bin i k, is_set s_no_binary_name c0 = false -> valid (with_bin c0 bin) = true ->
  user_treex k c0 = true -> wfy_tree_body (build_self (with_bin c0 bin)) i = true ->
  parse_top c0 (bin :: render_invy i) = finish_outcome (with_bin c0 bin) (run_invy (build_self (with_bin c0 bin)) i).
Proof. exact parse_top_user_tree_y. Qed.
Print Assumptions C02_unparse_user_tree_y.

Theorem C02_bridge_tree_y_nonvacuous :
  user_treex 3 XEx.c0 = true /\ wfy_tree_body (build_self (with_bin XEx.c0 XEx.bin)) (of_inv XEx.xinv) = true /\
  user_tree 3 XEx.c0 = false.
Proof. exact user_treex_examples. Qed.
Print Assumptions C02_bridge_tree_y_nonvacuous.
