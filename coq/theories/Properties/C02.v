(** Property C02: every argv token is attributed exactly once.  Pinned statements only; the
    proofs are in ParseProofs/IndexInv.v (instance of the parse-loop invariant of Invariant.v). *)
From ClapModel Require Import Base.Bytes Base.Machine.
From ClapModel Require Import Parse.Cmd Parse.Build Parse.Valid Parse.Matcher Parse.Errors Parse.Validator Parse.Parser.
From ClapModel Require Import ParseProofs.Safe ParseProofs.Invariant ParseProofs.Totality
                              ParseProofs.TotalityMain ParseProofs.IndexInv ParseProofs.Provenance Properties.C01.
From Coq Require Import ZArith Sorting.Sorted.
Open Scope N_scope.

(** The index discipline is closed under every primitive matcher operation the parser performs
    (bump of the counter, entry removal by overrides, start of an occurrence, value append, the
    combined "bump, append value, record the fresh counter value as its index"). *)
Theorem C02_index_discipline_closed : forall c, closedP c trivV idx_inv.
Proof. exact idx_inv_closed. Qed.
Print Assumptions C02_index_discipline_closed.

(** Every successful level of the recursion, at any depth, for any token list: keys pairwise
    distinct; no index reported twice (neither within one argument nor across arguments); every
    index at most the running counter; the indices of each argument strictly increasing. *)
Theorem C02_level_indices : forall fuel c toks st0 st,
  tree_ok fuel c -> G c idx_inv trivV st0 -> get_matches_with fuel c toks st0 = ROk st ->
  NoDup (map fst (mt_args (mt st)))
  /\ NoDup (all_indices (mt_args (mt st)))
  /\ Forall (fun i => i <= cur_idx st) (all_indices (mt_args (mt st)))
  /\ Forall (fun p => StronglySorted N.lt (m_indices (snd p))) (mt_args (mt st)).
Proof. exact level_indices. Qed.
Print Assumptions C02_level_indices.

(** The root level of the parse of any valid definition a user can write (class: no short
    flag-subcommands), for any token list. *)
Theorem C02_indices_unique_increasing : forall c0 toks st,
  plain c0 = true -> valid c0 = true ->
  get_matches_with (S (S (depth (build_self c0)))) (build_self c0) toks ps_new = ROk st ->
  NoDup (map fst (mt_args (mt st)))
  /\ NoDup (all_indices (mt_args (mt st)))
  /\ Forall (fun i => i <= cur_idx st) (all_indices (mt_args (mt st)))
  /\ Forall (fun p => StronglySorted N.lt (m_indices (snd p))) (mt_args (mt st)).
Proof. exact root_indices. Qed.
Print Assumptions C02_indices_unique_increasing.

(** NO VALUE IS INVENTED.  For every valid definition a user can write (class [plain]) and every
    token list, at the root level — and, second theorem, at every level of the recursion with that
    level's own token list —, each raw value the matcher stores for an *argument* is a contiguous
    piece ([sub_of]) of a token of the command line, of a value the definition declares (default,
    default-missing, conditional default, environment value) or of an action literal ("true",
    "false", a decimal count).  (Splitting happens only inside such a piece; nothing is synthesised.) *)
Theorem C02_values_have_origin : forall c0 toks st,
  plain c0 = true -> valid c0 = true ->
  get_matches_with (S (S (depth (build_self c0)))) (build_self c0) toks ps_new = ROk st ->
  forall i m, In (i, m) (mt_args (mt st)) -> (exists a, find_arg (build_self c0) i = Some a) ->
  Forall (Forall (origin (build_self c0) toks)) (m_raw m).
Proof. exact root_provenance. Qed.
Print Assumptions C02_values_have_origin.

Theorem C02_level_values_have_origin : forall fuel c toks st0 st,
  tree_ok fuel c -> G c (prov c toks) (origin c toks) st0 ->
  get_matches_with fuel c toks st0 = ROk st ->
  forall i m, In (i, m) (mt_args (mt st)) -> (exists a, find_arg c i = Some a) ->
  Forall (Forall (origin c toks)) (m_raw m).
Proof. exact level_provenance. Qed.
Print Assumptions C02_level_values_have_origin.

(** Non-vacuity: on the command of C01's non-vacuity example the line `--aa v w x` parses and
    reports the indices 2 (value of --aa), 3 and 4 (the positional's values). *)
Theorem C02_nonvacuous :
  exists st, get_matches_with (S (S (depth (build_self nonvacuous_cmd)))) (build_self nonvacuous_cmd)
               [[45;45;97;97]; [118]; [119]; [120]] ps_new = ROk st
             /\ all_indices (mt_args (mt st)) <> [].
Proof. eexists. split; [vm_compute; reflexivity|discriminate]. Qed.
Print Assumptions C02_nonvacuous.
