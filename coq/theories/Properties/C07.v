(** Property C07: occurrences combine by action (last-wins, append-in-order, saturating count),
    overrides are symmetric.  Only pinned statements; proofs live in ParseProofs/Actions.v.

    Vocabulary (ParseProofs/Actions.v): [wf_m m] = the FlatMap of [m] has unique keys;
    [get j m] = entry of id [j]; [groups_of j m] = its raw value groups (one per kept occurrence);
    [occ_values c a raw ti] = the values of one occurrence after default-missing and delimiter;
    [overridden c a j] = [j] is named by [a]'s overrides OR the argument [j] of [c] names [a];
    [step_self] = the per-action combination; [react_all] = one [react] per occurrence, in order;
    [step_abs] = the abstract per-argument fold; [enc k] = what a Count flag holds after k occurrences. *)
From ClapModel Require Import Base.Bytes Base.Machine.
From ClapModel Require Import Parse.Cmd Parse.Build Parse.Valid Parse.Matcher Parse.Errors Parse.Parser ParseProofs.Actions ParseProofs.ActionsLoop ParseProofs.ActionsTokens ParseProofs.ActionsTop ParseProofs.ActionsWide ParseProofs.ActionsWideTop ParseProofs.ActionsGraph ParseProofs.ActionsRequired ParseProofs.ActionsChain.
From ClapModel Require ParseProofs.Chain ParseProofs.Globals ParseProofs.UnparseTree.
From ClapModel Require Gen.ActionTables ParseProofs.TablesActions Gen.SettingsTables ParseProofs.TablesSettings.
From ClapModel Require Gen.BuildTables ParseProofs.TablesBuild Derive.DeriveModel Complete.AotTree.
From ClapModel Require Gen.GateSites ParseProofs.TablesGate ParseProofs.TablesSettingsTree ParseProofs.Totality.
From Coq Require Import ZArith.
Open Scope N_scope.

(** ---- override symmetry: [remove_overrides], exact, both directions, with frame ---- *)
Theorem C07_override_symmetric : forall c a m, wf_m m ->
  wf_m (remove_overrides c a m) /\ mt_pending (remove_overrides c a m) = mt_pending m /\
  forall j, get j (remove_overrides c a m) = if overridden c a j then None else get j m.
Proof. exact remove_overrides_spec. Qed.
Print Assumptions C07_override_symmetric.

(** ---- master single step, every action, every matcher state ---- *)
Theorem C07_react_step : forall c idn s a raw ti st st' pr,
  wf_m (mt st) -> ~ In (a_id a) (groups_for_arg c (a_id a)) ->
  react_core c idn s a raw ti st = ROk (st', pr) ->
  exists vals, occ_values c a raw ti = Some vals /\
    wf_m (mt st') /\ mt_pending (mt st') = mt_pending (mt st) /\
    groups_of (a_id a) (mt st') = Some (step_self c s a vals (groups_of (a_id a) (mt st))) /\
    (forall j, j <> a_id a -> ~ In j (groups_for_arg c (a_id a)) ->
       get j (mt st') = if is_cmdline s && overridden c a j then None else get j (mt st)) /\
    (forall gs v, groups_of (a_id a) (mt st') = Some gs -> In v (last gs []) ->
       exists vp, a_vp a = Some vp /\ vp_parse vp v = None).
Proof. exact react_core_spec. Qed.
Print Assumptions C07_react_step.

(** the side condition on group ids is implied by the configuration gate *)
Theorem C07_group_ids_distinct : forall c a, assert_app c = true -> In a (c_args c) ->
  forall x, ~ In (a_id a) (groups_for_arg c x).
Proof. exact assert_app_group_ids. Qed.
Print Assumptions C07_group_ids_distinct.

(** ---- Set ---- *)
Theorem C07_set_last_wins : forall c idn s a raw ti st st' pr,
  wf_m (mt st) -> ~ In (a_id a) (groups_for_arg c (a_id a)) -> a_get_action a = ASet ->
  react_core c idn s a raw ti st = ROk (st', pr) ->
  exists vals, occ_values c a raw ti = Some vals /\ groups_of (a_id a) (mt st') = Some [vals].
Proof. exact set_last_wins. Qed.
Print Assumptions C07_set_last_wins.

Theorem C07_set_repeat_conflict : forall c idn s a raw ti st vals,
  set_family a = true ->
  (if is_cmdline s then verify_num_args c a raw st else ROk tt) = ROk tt ->
  occ_values c a raw ti = Some vals ->
  mt_contains (mt st) (a_id a) = true ->
  is_set s_args_override_self c = false -> mem_id (a_id a) (a_overrides a) = false ->
  exists st', react_core c idn s a raw ti st = RErr (mkerr c EArgumentConflict (a_id a)) st' /\
              cur_idx st <= cur_idx st' <= cur_idx st + 1 /\
              mt st' = fst (mt_remove (mt st) (a_id a)).
Proof. exact react_core_repeat_conflict. Qed.
Print Assumptions C07_set_repeat_conflict.

Theorem C07_conflict_only_repeat : forall c idn s a raw ti st e st',
  wf_m (mt st) ->
  react_core c idn s a raw ti st = RErr e st' -> e_kind e = EArgumentConflict ->
  set_family a = true /\ mt_contains (mt st) (a_id a) = true /\ self_override c a = false.
Proof. exact react_core_conflict_only_repeat. Qed.
Print Assumptions C07_conflict_only_repeat.

Theorem C07_set_last_occurrence_wins : forall c a os1 o os2 st st',
  set_family a = true -> o_arg o = a ->
  wf_m (mt st) -> mt_pending (mt st) = None ->
  Forall (no_group_clash c (a_id a)) (os1 ++ o :: os2) -> Forall (unrelated c (a_id a)) os2 ->
  react_all c (os1 ++ o :: os2) st = ROk st' ->
  groups_of (a_id a) (mt st') = Some (step_self c (o_src o) a (o_vals c o) None).
Proof. exact set_last_occurrence_wins. Qed.
Print Assumptions C07_set_last_occurrence_wins.

(** ---- Append ---- *)
Theorem C07_append_in_order : forall c idn s a raw ti st st' pr,
  wf_m (mt st) -> ~ In (a_id a) (groups_for_arg c (a_id a)) -> a_get_action a = AAppend ->
  react_core c idn s a raw ti st = ROk (st', pr) ->
  exists vals, occ_values c a raw ti = Some vals /\
    groups_of (a_id a) (mt st') = Some (opt_default [] (own_prev c s a (groups_of (a_id a) (mt st))) ++ [vals]) /\
    (forall j, j <> a_id a -> ~ In j (groups_for_arg c (a_id a)) ->
       get j (mt st') = if is_cmdline s && overridden c a j then None else get j (mt st)).
Proof. exact append_in_order. Qed.
Print Assumptions C07_append_in_order.

Theorem C07_append_all_in_order : forall c a os st st',
  a_get_action a = AAppend ->
  wf_m (mt st) -> mt_pending (mt st) = None ->
  Forall (no_group_clash c (a_id a)) os ->
  Forall (fun o => (o_arg o = a /\ is_cmdline (o_src o) && overridden c a (a_id a) = false) \/ unrelated c (a_id a) o) os ->
  react_all c os st = ROk st' ->
  opt_default [] (groups_of (a_id a) (mt st')) = opt_default [] (groups_of (a_id a) (mt st)) ++ occ_groups c (a_id a) os /\
  ((0 < count_occ (a_id a) os)%nat -> is_some (groups_of (a_id a) (mt st')) = true).
Proof. exact append_all_in_order. Qed.
Print Assumptions C07_append_all_in_order.

(** ---- Count ---- *)
Theorem C07_count_step : forall c idn s a ti st,
  wf_m (mt st) -> ~ In (a_id a) (groups_for_arg c (a_id a)) -> count_flag a ->
  exists st', react_core c idn s a [] ti st = ROk (st', PRValuesDone) /\
    wf_m (mt st') /\ mt_pending (mt st') = mt_pending (mt st) /\
    groups_of (a_id a) (mt st') = Some [[n_to_dec (N.min 255 (count_of (groups_of (a_id a) (mt st)) + 1))]] /\
    (forall j, j <> a_id a -> ~ In j (groups_for_arg c (a_id a)) ->
       get j (mt st') = if is_cmdline s && overridden c a j then None else get j (mt st)).
Proof. exact count_step. Qed.
Print Assumptions C07_count_step.

Theorem C07_count_saturates : forall c a os st st',
  a_get_action a = ACount -> a_default_missing a = [] ->
  wf_m (mt st) -> mt_pending (mt st) = None -> groups_of (a_id a) (mt st) = None ->
  Forall (no_group_clash c (a_id a)) os ->
  Forall (fun o => (o_arg o = a /\ o_raw o = []) \/ unrelated c (a_id a) o) os ->
  react_all c os st = ROk st' ->
  groups_of (a_id a) (mt st') = enc (N.of_nat (count_occ (a_id a) os)).
Proof. exact count_saturates. Qed.
Print Assumptions C07_count_saturates.

Theorem C07_count_total : forall c a idn s ti, count_flag a -> ~ In (a_id a) (groups_for_arg c (a_id a)) ->
  forall n st k, wf_m (mt st) -> mt_pending (mt st) = None -> groups_of (a_id a) (mt st) = enc k ->
  exists st', react_all c (repeat (mkOcc idn s a [] ti) n) st = ROk st' /\
    wf_m (mt st') /\ mt_pending (mt st') = None /\
    groups_of (a_id a) (mt st') = enc (k + N.of_nat n).
Proof. exact count_total. Qed.
Print Assumptions C07_count_total.

Theorem C07_count_decimal : forall k, k <= 255 ->
  parse_i64 (n_to_dec k) = Some (Z.of_N k) /\ vp_parse VPCount (n_to_dec k) = None /\ count_of (enc k) = k.
Proof. exact count_decimal. Qed.
Print Assumptions C07_count_decimal.

Theorem C07_count_build : forall a0,
  a_action a0 = Some ACount -> a_vp a0 = None -> a_default_missing a0 = [] -> a_num a0 = None -> a_nvalnames a0 <= 1 ->
  count_flag (arg_build a0) /\ a_id (arg_build a0) = a_id a0 /\ (a_default a0 = [] -> a_default (arg_build a0) = [[48]]).
Proof. exact count_build. Qed.
Print Assumptions C07_count_build.

(** ---- SetTrue / SetFalse ---- *)
Theorem C07_flag_truth : forall c idn s a ti st st' pr b,
  wf_m (mt st) -> ~ In (a_id a) (groups_for_arg c (a_id a)) ->
  a_get_action a = flag_action b -> a_delim a = None ->
  (a_default_missing a = [] \/ a_default_missing a = [flag_value b]) ->
  react_core c idn s a [] ti st = ROk (st', pr) ->
  exists ma, get (a_id a) (mt st') = Some ma /\ m_raw ma = [[flag_value b]] /\ m_source ma = Some s.
Proof. exact flag_truth. Qed.
Print Assumptions C07_flag_truth.

Theorem C07_flag_build_defaults : forall a0 b,
  a_action a0 = Some (flag_action b) -> a_default a0 = [] -> a_default_missing a0 = [] ->
  a_get_action (arg_build a0) = flag_action b /\
  a_default (arg_build a0) = [flag_value (negb b)] /\
  a_default_missing (arg_build a0) = [flag_value b] /\
  a_id (arg_build a0) = a_id a0 /\ a_delim (arg_build a0) = a_delim a0 /\
  (a_vp a0 = None -> a_vp (arg_build a0) = Some VPBool).
Proof. exact flag_build_defaults. Qed.
Print Assumptions C07_flag_build_defaults.

Theorem C07_default_only_when_absent : forall c a st,
  a_default_ifs a = [] ->
  (mt_contains (mt st) (a_id a) = true -> add_default_value c a st = ROk st) /\
  (a_default a <> [] -> mt_contains (mt st) (a_id a) = false ->
   add_default_value c a st = (do x <- react c None SDefault a (a_default a) None st; ROk (fst x))).
Proof. exact default_only_when_absent. Qed.
Print Assumptions C07_default_only_when_absent.

Theorem C07_set_like_source : forall c idn s a raw ti st st' pr,
  wf_m (mt st) -> ~ In (a_id a) (groups_for_arg c (a_id a)) -> set_family a = true ->
  react_core c idn s a raw ti st = ROk (st', pr) ->
  exists ma, get (a_id a) (mt st') = Some ma /\ m_source ma = Some s.
Proof. exact set_like_source. Qed.
Print Assumptions C07_set_like_source.

(** ---- sequences: refinement to the abstract fold; later-given override wins ---- *)
Theorem C07_sequence_denote : forall c i os st st',
  wf_m (mt st) -> mt_pending (mt st) = None -> Forall (no_group_clash c i) os ->
  react_all c os st = ROk st' ->
  groups_of i (mt st') = fold_left (step_abs c i) os (groups_of i (mt st)) /\
  wf_m (mt st') /\ mt_pending (mt st') = None.
Proof. exact react_all_denote. Qed.
Print Assumptions C07_sequence_denote.

Theorem C07_override_later_wins : forall c i os1 o os2 st st',
  beq (a_id (o_arg o)) i = false -> o_src o = SCmdLine -> overridden c (o_arg o) i = true ->
  wf_m (mt st) -> mt_pending (mt st) = None ->
  Forall (no_group_clash c i) (os1 ++ o :: os2) ->
  Forall (fun o' => beq (a_id (o_arg o')) i = false) os2 ->
  react_all c (os1 ++ o :: os2) st = ROk st' ->
  groups_of i (mt st') = None.
Proof. exact override_later_wins. Qed.
Print Assumptions C07_override_later_wins.

(** ---- a proved token class: separate short flags through the real token loop ---- *)
Theorem C07_loop_flag_tokens : forall c toks os, flag_tokens c toks os -> forall pos vaf st,
  fs_skip st = 0 ->
  parse_loop c toks (mkL PSValuesDone pos vaf false) st = (do st' <- react_all c os st; ROk (LDone st')).
Proof. exact parse_loop_flag_tokens. Qed.
Print Assumptions C07_loop_flag_tokens.

Theorem C07_loop_count_flag : forall c ch a n pos vaf st,
  plain_short_flag c ch a -> count_flag a -> ~ In (a_id a) (groups_for_arg c (a_id a)) ->
  wf_m (mt st) -> mt_pending (mt st) = None -> fs_skip st = 0 -> groups_of (a_id a) (mt st) = None ->
  exists st', parse_loop c (repeat [45; ch] n) (mkL PSValuesDone pos vaf false) st = ROk (LDone st') /\
    groups_of (a_id a) (mt st') = enc (N.of_nat n).
Proof. exact parse_loop_count_flag. Qed.
Print Assumptions C07_loop_count_flag.

Theorem C07_loop_cluster_tokens : forall c, c_subs c = [] -> forall toks os, cluster_tokens c toks os -> forall pos vaf st,
  fs_skip st = 0 ->
  parse_loop c toks (mkL PSValuesDone pos vaf false) st = (do st' <- react_all c os st; ROk (LDone st')).
Proof. exact parse_loop_cluster_tokens. Qed.
Print Assumptions C07_loop_cluster_tokens.

Theorem C07_loop_count_cluster : forall c ch a n pos vaf st,
  plain_short_flag c ch a -> count_flag a -> ~ In (a_id a) (groups_for_arg c (a_id a)) ->
  wf_m (mt st) -> mt_pending (mt st) = None -> fs_skip st = 0 -> groups_of (a_id a) (mt st) = None ->
  exists st', parse_loop c [45 :: repeat ch (S n)] (mkL PSValuesDone pos vaf false) st = ROk (LDone st') /\
    groups_of (a_id a) (mt st') = enc (N.of_nat (S n)).
Proof. exact parse_loop_count_cluster. Qed.
Print Assumptions C07_loop_count_cluster.

(** ---- tokens -> occurrences: the whole class of flag / cluster / one-value-option lines ----
    [occurrences c toks] (ParseProofs/ActionsTokens.v) is a declarative scanner: long flags [--flag], short
    clusters [-xyz] (optionally ended by a one-value option with its value attached, [-ov] / [-o=v]), one-value
    options [--o=v], [--o v], [-o v] (a separate value does not start with [-]); every token checked not to be a
    subcommand name.  For every such line and EVERY parser state (skip counter clear), the token loop ends in
    [LDone] of a state computation [r], and [r] followed by the flush of the pending buffer equals the fold of
    [react] over the scanned occurrences followed by the flush - errors and panic sites included. *)
Theorem C07_loop_occurrences : forall c toks os pos vaf st,
  no_hyphen_args c = true -> ids_ok c -> occurrences c toks = Some os -> fs_skip st = 0 ->
  exists r : res ps,
    parse_loop c toks (mkL PSValuesDone pos vaf false) st = (do s <- r; ROk (LDone s)) /\
    (do s <- r; resolve_pending c s) = (do s <- react_all c os st; resolve_pending c s).
Proof. exact parse_loop_occurrences. Qed.
Print Assumptions C07_loop_occurrences.

(** what the scanner returns: command-line occurrences of arguments of the command; no value for a flag,
    exactly one for an option *)
Theorem C07_occurrences_scanned : forall c toks os, occurrences c toks = Some os -> Forall (scanned c) os.
Proof. exact occurrences_scanned. Qed.
Print Assumptions C07_occurrences_scanned.

(** ---- through the post-loop phases: statements about [parse_top c0 (bin :: toks)] ----
    [top_class c0 bin toks os] (ParseProofs/ActionsTop.v): the binary name is dropped, [ignore_errors] is off, and on the
    BUILT command [c = build_self (with_bin c0 bin)] no argument accepts hyphen values / negative numbers and
    [occurrences c toks = Some os].  A successful parse returns no subcommand and, per argument of [c]: the entry the fold
    of [react] over the scanned occurrences leaves (labelled CommandLine), or - when the fold leaves none - only
    what the environment / default phases filled in. *)
Theorem C07_top_occurrences : forall c0 bin toks os m,
  let c := build_self (with_bin c0 bin) in
  top_class c0 bin toks os ->
  parse_top c0 (bin :: toks) = OOk m ->
  exists st1, react_all c os ps_new = ROk st1 /\ ms_sub m = None /\
    forall a, In a (c_args c) ->
      match get (a_id a) (mt st1) with
      | Some e => fm_get (a_id a) (ms_args m) = Some e /\ m_source e = Some SCmdLine
      | None => forall e, fm_get (a_id a) (ms_args m) = Some e ->
                  m_source e = Some SEnv \/ m_source e = Some SDefault
      end.
Proof. exact parse_top_occurrences. Qed.
Print Assumptions C07_top_occurrences.

(** the same against the abstract per-argument fold [step_abs] *)
Theorem C07_top_denote : forall c0 bin toks os m a,
  let c := build_self (with_bin c0 bin) in
  top_class c0 bin toks os -> parse_top c0 (bin :: toks) = OOk m -> In a (c_args c) ->
  match fold_left (step_abs c (a_id a)) os None with
  | Some g => exists e, fm_get (a_id a) (ms_args m) = Some e /\ m_raw e = g /\ m_source e = Some SCmdLine
  | None => forall e, fm_get (a_id a) (ms_args m) = Some e -> m_source e = Some SEnv \/ m_source e = Some SDefault
  end.
Proof. exact parse_top_denote. Qed.
Print Assumptions C07_top_denote.

(** Count: n occurrences anywhere on the line (any spelling, clustered or not) give min(n,255), for ALL n *)
Theorem C07_top_count : forall c0 bin toks os m a,
  let c := build_self (with_bin c0 bin) in
  top_class c0 bin toks os -> parse_top c0 (bin :: toks) = OOk m -> In a (c_args c) ->
  count_flag a -> override_free c (a_id a) ->
  let n := count_occ (a_id a) os in
  ((0 < n)%nat -> exists e, fm_get (a_id a) (ms_args m) = Some e /\
       m_raw e = [[n_to_dec (N.min (N.of_nat n) 255)]] /\ m_source e = Some SCmdLine) /\
  (n = 0%nat -> forall e, fm_get (a_id a) (ms_args m) = Some e -> m_source e = Some SEnv \/ m_source e = Some SDefault).
Proof. exact parse_top_count. Qed.
Print Assumptions C07_top_count.

(** Append: all occurrences' values in command-line order, one group per occurrence *)
Theorem C07_top_append : forall c0 bin toks os m a,
  let c := build_self (with_bin c0 bin) in
  top_class c0 bin toks os -> parse_top c0 (bin :: toks) = OOk m -> In a (c_args c) ->
  a_get_action a = AAppend -> (forall b, In b (c_args c) -> overridden c b (a_id a) = false) ->
  (0 < count_occ (a_id a) os)%nat ->
  exists e, fm_get (a_id a) (ms_args m) = Some e /\ m_raw e = occ_groups c (a_id a) os /\ m_source e = Some SCmdLine.
Proof. exact parse_top_append. Qed.
Print Assumptions C07_top_append.

(** Set / SetTrue / SetFalse: on a successful parse the LAST occurrence decides *)
Theorem C07_top_set_last : forall c0 bin toks os1 o os2 m a,
  let c := build_self (with_bin c0 bin) in
  top_class c0 bin toks (os1 ++ o :: os2) -> parse_top c0 (bin :: toks) = OOk m -> In a (c_args c) ->
  set_family a = true -> o_arg o = a -> Forall (unrelated c (a_id a)) os2 ->
  exists e, fm_get (a_id a) (ms_args m) = Some e /\
    m_raw e = step_self c SCmdLine a (o_vals c o) None /\ m_source e = Some SCmdLine.
Proof. exact parse_top_set_last. Qed.
Print Assumptions C07_top_set_last.

(** ... and without self-override a repeat makes [parse_top] answer ArgumentConflict *)
Theorem C07_top_set_repeat_conflict : forall c0 bin toks os1 o os2 st vals,
  let c := build_self (with_bin c0 bin) in
  top_class c0 bin toks (os1 ++ o :: os2) -> valid (with_bin c0 bin) = true ->
  react_all c os1 ps_new = ROk st ->
  set_family (o_arg o) = true -> fold_left (step_abs c (a_id (o_arg o))) os1 None <> None ->
  self_override c (o_arg o) = false ->
  verify_num_args c (o_arg o) (o_raw o) st = ROk tt -> occ_values c (o_arg o) (o_raw o) None = Some vals ->
  exists e, parse_top c0 (bin :: toks) = OErr e /\ e_kind e = EArgumentConflict /\ e_arg e = a_id (o_arg o).
Proof. exact parse_top_set_repeat_conflict. Qed.
Print Assumptions C07_top_set_repeat_conflict.

(** overrides in either order of appearance ([overridden] holds when either side declares the relation) *)
Theorem C07_top_override : forall c0 bin toks os1 o os2 m a,
  let c := build_self (with_bin c0 bin) in
  top_class c0 bin toks (os1 ++ o :: os2) -> parse_top c0 (bin :: toks) = OOk m -> In a (c_args c) ->
  beq (a_id (o_arg o)) (a_id a) = false -> overridden c (o_arg o) (a_id a) = true ->
  Forall (fun o' => beq (a_id (o_arg o')) (a_id a) = false) os2 ->
  forall e, fm_get (a_id a) (ms_args m) = Some e -> m_source e = Some SEnv \/ m_source e = Some SDefault.
Proof. exact parse_top_override. Qed.
Print Assumptions C07_top_override.

(** defaults only fill absent arguments *)
Theorem C07_top_default : forall c0 bin toks os m a,
  let c := build_self (with_bin c0 bin) in
  top_class c0 bin toks os -> parse_top c0 (bin :: toks) = OOk m -> In a (c_args c) ->
  fold_left (step_abs c (a_id a)) os None = None ->
  a_env a = None -> a_default_ifs a = [] -> a_default a <> [] -> a_delim a = None ->
  exists e, fm_get (a_id a) (ms_args m) = Some e /\ m_raw e = [a_default a] /\ m_source e = Some SDefault.
Proof. exact parse_top_default. Qed.
Print Assumptions C07_top_default.

(** SetTrue / SetFalse: the truth value when given, the opposite default when absent *)
Theorem C07_top_flag : forall c0 bin toks os m a b,
  let c := build_self (with_bin c0 bin) in
  top_class c0 bin toks os -> parse_top c0 (bin :: toks) = OOk m -> In a (c_args c) ->
  a_get_action a = flag_action b -> a_takes_value a = false -> a_delim a = None ->
  a_default_missing a = [flag_value b] -> a_default a = [flag_value (negb b)] ->
  (forall os1 o os2, os = os1 ++ o :: os2 -> o_arg o = a -> Forall (unrelated c (a_id a)) os2 ->
     exists e, fm_get (a_id a) (ms_args m) = Some e /\ m_raw e = [[flag_value b]] /\ m_source e = Some SCmdLine) /\
  (count_occ (a_id a) os = 0%nat -> a_env a = None -> a_default_ifs a = [] ->
     exists e, fm_get (a_id a) (ms_args m) = Some e /\ m_raw e = [[flag_value (negb b)]] /\ m_source e = Some SDefault).
Proof. exact parse_top_flag. Qed.
Print Assumptions C07_top_flag.

(** ---- the typed getters' view of the result ([get_count_view] / [get_flag_view], ParseProofs/ActionsTop.v: the first
    stored value read back as the model reads it for [get_one::<u8>] / [get_one::<bool>]) ---- *)
Theorem C07_top_get_count : forall c0 bin toks os m a,
  let c := build_self (with_bin c0 bin) in
  top_class c0 bin toks os -> parse_top c0 (bin :: toks) = OOk m -> In a (c_args c) ->
  count_flag a -> override_free c (a_id a) ->
  a_default a = [[48]] -> a_env a = None -> a_default_ifs a = [] -> a_delim a = None ->
  get_count_view m (a_id a) = Some (N.min (N.of_nat (count_occ (a_id a) os)) 255).
Proof. exact parse_top_get_count. Qed.
Print Assumptions C07_top_get_count.

Theorem C07_top_get_flag : forall c0 bin toks os m a b,
  let c := build_self (with_bin c0 bin) in
  top_class c0 bin toks os -> parse_top c0 (bin :: toks) = OOk m -> In a (c_args c) ->
  a_get_action a = flag_action b -> a_takes_value a = false -> a_delim a = None ->
  a_default_missing a = [flag_value b] -> a_default a = [flag_value (negb b)] ->
  (forall os1 o os2, os = os1 ++ o :: os2 -> o_arg o = a -> Forall (unrelated c (a_id a)) os2 ->
     get_flag_view m (a_id a) = Some b) /\
  (count_occ (a_id a) os = 0%nat -> a_env a = None -> a_default_ifs a = [] ->
     get_flag_view m (a_id a) = Some (negb b)).
Proof. exact parse_top_get_flag. Qed.
Print Assumptions C07_top_get_flag.

(** ======== round 3: the WIDE class of lines (ParseProofs/ActionsWide.v, ActionsWideTop.v) ========
    [woccurrences c toks] reads everything [occurrences] reads and, in addition: positional values (the positional
    counter stepping as [Parser::parse] steps it: one occurrence per maximal run for a positional with a value range,
    one occurrence PER VALUE for an [Append] positional with [num_args(1)]), the escape [--] (trailing index recorded),
    options with ANY value range (separate values collected until the range is full / a flag-like token / a value
    terminator / the end of the line; a value-less occurrence is an occurrence without raw value).  The scanner
    mirrors the loop's control state (parse state, positional counter, trailing flag, pending buffer) and nothing of
    the matcher.  Conditions checked by the scanner itself: no [allow_missing_positional], no [last] argument, only
    the highest positional may be multiple (no counter correction); options do not [require_equals]. *)
Theorem C07_wide_loop : forall c toks os vaf st,
  no_hyphen_args c = true -> ids_ok c -> woccurrences c toks = Some os ->
  fs_skip st = 0 -> mt_pending (mt st) = None ->
  exists r : res ps,
    parse_loop c toks (mkL PSValuesDone 1 vaf false) st = (do s <- r; ROk (LDone s)) /\
    (do s <- r; resolve_pending c s) = (do s <- react_all c os st; resolve_pending c s).
Proof. exact parse_loop_woccurrences. Qed.
Print Assumptions C07_wide_loop.

(** the simulation behind it, from ANY control state of the loop: [wrel c w st] = the skip counter is clear and the
    pending buffer of [st] holds exactly the scanner's pending occurrence *)
Theorem C07_wide_loop_any_state : forall c, no_hyphen_args c = true -> ids_ok c ->
  forall toks w os, wscan c w toks = Some os ->
  forall vaf st, wrel c w st ->
  exists r : res ps,
    parse_loop c toks (mkL (w_pst w) (w_pos w) vaf (w_trailing w)) st = (do s <- r; ROk (LDone s)) /\
    (do s <- r; resolve_pending c s) = (do s <- react_all c os (clear_pending st); resolve_pending c s).
Proof. exact parse_loop_wscan. Qed.
Print Assumptions C07_wide_loop_any_state.

Theorem C07_wide_scanned : forall c toks os, woccurrences c toks = Some os ->
  Forall (fun o => In (o_arg o) (c_args c) /\ o_src o = SCmdLine /\ (a_takes_value (o_arg o) = false -> o_raw o = [])) os.
Proof. exact woccurrences_scanned. Qed.
Print Assumptions C07_wide_scanned.

Theorem C07_wide_top_occurrences : forall c0 bin toks os m,
  let c := build_self (with_bin c0 bin) in
  wide_class c0 bin toks os ->
  parse_top c0 (bin :: toks) = OOk m ->
  exists st1, react_all c os ps_new = ROk st1 /\ ms_sub m = None /\
    forall a, In a (c_args c) ->
      match get (a_id a) (mt st1) with
      | Some e => fm_get (a_id a) (ms_args m) = Some e /\ m_source e = Some SCmdLine
      | None => forall e, fm_get (a_id a) (ms_args m) = Some e ->
                  m_source e = Some SEnv \/ m_source e = Some SDefault
      end.
Proof. exact wide_top_occurrences. Qed.
Print Assumptions C07_wide_top_occurrences.

Theorem C07_wide_top_denote : forall c0 bin toks os m a,
  let c := build_self (with_bin c0 bin) in
  wide_class c0 bin toks os -> parse_top c0 (bin :: toks) = OOk m -> In a (c_args c) ->
  match fold_left (step_abs c (a_id a)) os None with
  | Some g => exists e, fm_get (a_id a) (ms_args m) = Some e /\ m_raw e = g /\ m_source e = Some SCmdLine
  | None => forall e, fm_get (a_id a) (ms_args m) = Some e -> m_source e = Some SEnv \/ m_source e = Some SDefault
  end.
Proof. exact wide_top_denote. Qed.
Print Assumptions C07_wide_top_denote.

Theorem C07_wide_top_count : forall c0 bin toks os m a,
  let c := build_self (with_bin c0 bin) in
  wide_class c0 bin toks os -> parse_top c0 (bin :: toks) = OOk m -> In a (c_args c) ->
  count_flag a -> override_free c (a_id a) ->
  let n := count_occ (a_id a) os in
  ((0 < n)%nat -> exists e, fm_get (a_id a) (ms_args m) = Some e /\
       m_raw e = [[n_to_dec (N.min (N.of_nat n) 255)]] /\ m_source e = Some SCmdLine) /\
  (n = 0%nat -> forall e, fm_get (a_id a) (ms_args m) = Some e -> m_source e = Some SEnv \/ m_source e = Some SDefault).
Proof. exact wide_top_count. Qed.
Print Assumptions C07_wide_top_count.

(** Append (option or positional): one group per occurrence, in command-line order - value-less occurrences are
    empty groups, a run of a multi-valued positional is one group, every value of a one-value-per-occurrence
    positional is its own group *)
Theorem C07_wide_top_append : forall c0 bin toks os m a,
  let c := build_self (with_bin c0 bin) in
  wide_class c0 bin toks os -> parse_top c0 (bin :: toks) = OOk m -> In a (c_args c) ->
  a_get_action a = AAppend -> (forall b, In b (c_args c) -> overridden c b (a_id a) = false) ->
  (0 < count_occ (a_id a) os)%nat ->
  exists e, fm_get (a_id a) (ms_args m) = Some e /\ m_raw e = occ_groups c (a_id a) os /\ m_source e = Some SCmdLine.
Proof. exact wide_top_append. Qed.
Print Assumptions C07_wide_top_append.

Theorem C07_wide_top_set_last : forall c0 bin toks os1 o os2 m a,
  let c := build_self (with_bin c0 bin) in
  wide_class c0 bin toks (os1 ++ o :: os2) -> parse_top c0 (bin :: toks) = OOk m -> In a (c_args c) ->
  set_family a = true -> o_arg o = a -> Forall (unrelated c (a_id a)) os2 ->
  exists e, fm_get (a_id a) (ms_args m) = Some e /\
    m_raw e = step_self c SCmdLine a (o_vals c o) None /\ m_source e = Some SCmdLine.
Proof. exact wide_top_set_last. Qed.
Print Assumptions C07_wide_top_set_last.

Theorem C07_wide_top_set_repeat_conflict : forall c0 bin toks os1 o os2 st vals,
  let c := build_self (with_bin c0 bin) in
  wide_class c0 bin toks (os1 ++ o :: os2) -> valid (with_bin c0 bin) = true ->
  react_all c os1 ps_new = ROk st ->
  set_family (o_arg o) = true -> fold_left (step_abs c (a_id (o_arg o))) os1 None <> None ->
  self_override c (o_arg o) = false ->
  verify_num_args c (o_arg o) (o_raw o) st = ROk tt -> occ_values c (o_arg o) (o_raw o) (o_ti o) = Some vals ->
  exists e, parse_top c0 (bin :: toks) = OErr e /\ e_kind e = EArgumentConflict /\ e_arg e = a_id (o_arg o).
Proof. exact wide_top_set_repeat_conflict. Qed.
Print Assumptions C07_wide_top_set_repeat_conflict.

Theorem C07_wide_top_override : forall c0 bin toks os1 o os2 m a,
  let c := build_self (with_bin c0 bin) in
  wide_class c0 bin toks (os1 ++ o :: os2) -> parse_top c0 (bin :: toks) = OOk m -> In a (c_args c) ->
  beq (a_id (o_arg o)) (a_id a) = false -> overridden c (o_arg o) (a_id a) = true ->
  Forall (fun o' => beq (a_id (o_arg o')) (a_id a) = false) os2 ->
  forall e, fm_get (a_id a) (ms_args m) = Some e -> m_source e = Some SEnv \/ m_source e = Some SDefault.
Proof. exact wide_top_override. Qed.
Print Assumptions C07_wide_top_override.

Theorem C07_wide_top_default : forall c0 bin toks os m a,
  let c := build_self (with_bin c0 bin) in
  wide_class c0 bin toks os -> parse_top c0 (bin :: toks) = OOk m -> In a (c_args c) ->
  fold_left (step_abs c (a_id a)) os None = None ->
  a_env a = None -> a_default_ifs a = [] -> a_default a <> [] -> a_delim a = None ->
  exists e, fm_get (a_id a) (ms_args m) = Some e /\ m_raw e = [a_default a] /\ m_source e = Some SDefault.
Proof. exact wide_top_default. Qed.
Print Assumptions C07_wide_top_default.

Theorem C07_wide_top_flag : forall c0 bin toks os m a b,
  let c := build_self (with_bin c0 bin) in
  wide_class c0 bin toks os -> parse_top c0 (bin :: toks) = OOk m -> In a (c_args c) ->
  a_get_action a = flag_action b -> a_takes_value a = false -> a_delim a = None ->
  a_default_missing a = [flag_value b] -> a_default a = [flag_value (negb b)] ->
  (forall os1 o os2, os = os1 ++ o :: os2 -> o_arg o = a -> Forall (unrelated c (a_id a)) os2 ->
     exists e, fm_get (a_id a) (ms_args m) = Some e /\ m_raw e = [[flag_value b]] /\ m_source e = Some SCmdLine) /\
  (count_occ (a_id a) os = 0%nat -> a_env a = None -> a_default_ifs a = [] ->
     exists e, fm_get (a_id a) (ms_args m) = Some e /\ m_raw e = [[flag_value (negb b)]] /\ m_source e = Some SDefault).
Proof. exact wide_top_flag. Qed.
Print Assumptions C07_wide_top_flag.

Theorem C07_wide_top_get_count : forall c0 bin toks os m a,
  let c := build_self (with_bin c0 bin) in
  wide_class c0 bin toks os -> parse_top c0 (bin :: toks) = OOk m -> In a (c_args c) ->
  count_flag a -> override_free c (a_id a) ->
  a_default a = [[48]] -> a_env a = None -> a_default_ifs a = [] -> a_delim a = None ->
  get_count_view m (a_id a) = Some (N.min (N.of_nat (count_occ (a_id a) os)) 255).
Proof. exact wide_top_get_count. Qed.
Print Assumptions C07_wide_top_get_count.

Theorem C07_wide_top_get_flag : forall c0 bin toks os m a b,
  let c := build_self (with_bin c0 bin) in
  wide_class c0 bin toks os -> parse_top c0 (bin :: toks) = OOk m -> In a (c_args c) ->
  a_get_action a = flag_action b -> a_takes_value a = false -> a_delim a = None ->
  a_default_missing a = [flag_value b] -> a_default a = [flag_value (negb b)] ->
  (forall os1 o os2, os = os1 ++ o :: os2 -> o_arg o = a -> Forall (unrelated c (a_id a)) os2 ->
     get_flag_view m (a_id a) = Some b) /\
  (count_occ (a_id a) os = 0%nat -> a_env a = None -> a_default_ifs a = [] ->
     get_flag_view m (a_id a) = Some (negb b)).
Proof. exact wide_top_get_flag. Qed.
Print Assumptions C07_wide_top_get_flag.

(** ---- two closed forms of the wide scanner, for ALL lengths ---- *)
(** an [Append] positional taking one value per occurrence ([per_value_positional]: not [a_multiple_values], no
    terminator, not trailing-var-arg, the command needs no counter correction): a line of n plain values is n
    occurrences, and [parse_top] stores every value as its own group, in order - adjacent values are never merged *)
Theorem C07_wide_positional_scan : forall c a vals, per_value_positional c 1 a -> value_tokens c vals ->
  woccurrences c vals = Some (map (pos_occ a) vals).
Proof. exact woccurrences_per_value. Qed.
Print Assumptions C07_wide_positional_scan.

Theorem C07_wide_positional_per_value : forall c0 bin vals m a,
  let c := build_self (with_bin c0 bin) in
  is_set s_no_binary_name c0 = false -> is_set s_ignore_errors c = false -> no_hyphen_args c = true ->
  per_value_positional c 1 a -> value_tokens c vals -> vals <> [] ->
  a_get_action a = AAppend -> a_delim a = None -> (forall b, In b (c_args c) -> overridden c b (a_id a) = false) ->
  parse_top c0 (bin :: vals) = OOk m ->
  exists e, fm_get (a_id a) (ms_args m) = Some e /\ m_raw e = map (fun v => [v]) vals /\ m_source e = Some SCmdLine.
Proof. exact wide_top_positional_per_value. Qed.
Print Assumptions C07_wide_positional_per_value.

(** a positional with a value RANGE ([run_positional]: [a_multiple_values], no terminator, not trailing-var-arg): a run
    of adjacent values is ONE occurrence; [parse_top] stores one group holding all of them, in order *)
Theorem C07_wide_positional_run_scan : forall c a v vals, run_positional c 1 a -> value_tokens c (v :: vals) ->
  woccurrences c (v :: vals) = Some [mkOcc (Some IIndex) SCmdLine a (v :: vals) None].
Proof. exact woccurrences_run. Qed.
Print Assumptions C07_wide_positional_run_scan.

Theorem C07_wide_positional_run : forall c0 bin v vals m a,
  let c := build_self (with_bin c0 bin) in
  is_set s_no_binary_name c0 = false -> is_set s_ignore_errors c = false -> no_hyphen_args c = true ->
  run_positional c 1 a -> value_tokens c (v :: vals) ->
  a_get_action a = AAppend -> a_delim a = None -> (forall b, In b (c_args c) -> overridden c b (a_id a) = false) ->
  parse_top c0 (bin :: v :: vals) = OOk m ->
  exists e, fm_get (a_id a) (ms_args m) = Some e /\ m_raw e = [v :: vals] /\ m_source e = Some SCmdLine.
Proof. exact wide_top_positional_run. Qed.
Print Assumptions C07_wide_positional_run.

(** an option given n times WITHOUT a value ([bare_token]: the token is [--opt] / [-o] of an option of the class):
    n occurrences without raw value; for an [Append] option without [default_missing_value] [parse_top] stores n
    EMPTY groups - [get_occurrences] = one group per occurrence, none dropped, merged or reused *)
Theorem C07_wide_bare_scan : forall c tok idn a n, bare_token c tok idn a ->
  woccurrences c (repeat tok n) = Some (repeat (tok_occ idn a []) n).
Proof. exact woccurrences_bare. Qed.
Print Assumptions C07_wide_bare_scan.

Theorem C07_wide_bare_append : forall c0 bin tok idn a n m,
  let c := build_self (with_bin c0 bin) in
  is_set s_no_binary_name c0 = false -> is_set s_ignore_errors c = false -> no_hyphen_args c = true ->
  bare_token c tok idn a -> (0 < n)%nat ->
  a_get_action a = AAppend -> a_default_missing a = [] -> (forall b, In b (c_args c) -> overridden c b (a_id a) = false) ->
  parse_top c0 (bin :: repeat tok n) = OOk m ->
  exists e, fm_get (a_id a) (ms_args m) = Some e /\ m_raw e = repeat [] n /\ m_source e = Some SCmdLine.
Proof. exact wide_top_bare_append. Qed.
Print Assumptions C07_wide_bare_append.

(** ======== round 3: arbitrary override graphs (ParseProofs/ActionsGraph.v) ========
    [overrider c i o] = [o] is a command-line occurrence of ANOTHER argument in an override relation with [i], declared
    on either side; [live c i os] = the occurrences after the LAST overrider of [i] (all of [os] when there is none).
    However many arguments are related to [i] and in whatever order they appear, what [i] holds after the line is the
    fold of the live occurrences alone. *)
Theorem C07_live_suffix : forall c i os,
  (existsb (overrider c i) os = false /\ live c i os = os) \/
  (exists pre o, os = pre ++ o :: live c i os /\ overrider c i o = true).
Proof. exact live_suffix. Qed.
Print Assumptions C07_live_suffix.

Theorem C07_live_no_overrider : forall c i os, existsb (overrider c i) (live c i os) = false.
Proof. exact live_no_overrider. Qed.
Print Assumptions C07_live_no_overrider.

Theorem C07_override_graph_fold : forall c i os,
  fold_left (step_abs c i) os None = fold_left (step_abs c i) (live c i os) None.
Proof. exact abs_live. Qed.
Print Assumptions C07_override_graph_fold.

Theorem C07_top_override_graph : forall c0 bin toks os m a,
  let c := build_self (with_bin c0 bin) in
  top_class c0 bin toks os -> parse_top c0 (bin :: toks) = OOk m -> In a (c_args c) ->
  match fold_left (step_abs c (a_id a)) (live c (a_id a) os) None with
  | Some g => exists e, fm_get (a_id a) (ms_args m) = Some e /\ m_raw e = g /\ m_source e = Some SCmdLine
  | None => forall e, fm_get (a_id a) (ms_args m) = Some e -> m_source e = Some SEnv \/ m_source e = Some SDefault
  end.
Proof. exact top_override_graph. Qed.
Print Assumptions C07_top_override_graph.

Theorem C07_wide_override_graph : forall c0 bin toks os m a,
  let c := build_self (with_bin c0 bin) in
  wide_class c0 bin toks os -> parse_top c0 (bin :: toks) = OOk m -> In a (c_args c) ->
  match fold_left (step_abs c (a_id a)) (live c (a_id a) os) None with
  | Some g => exists e, fm_get (a_id a) (ms_args m) = Some e /\ m_raw e = g /\ m_source e = Some SCmdLine
  | None => forall e, fm_get (a_id a) (ms_args m) = Some e -> m_source e = Some SEnv \/ m_source e = Some SDefault
  end.
Proof. exact wide_override_graph. Qed.
Print Assumptions C07_wide_override_graph.

(** Count in ANY override graph (no [override_free] hypothesis): the number of occurrences after the last overrider *)
Theorem C07_wide_count_graph : forall c0 bin toks os m a,
  let c := build_self (with_bin c0 bin) in
  wide_class c0 bin toks os -> parse_top c0 (bin :: toks) = OOk m -> In a (c_args c) ->
  count_flag a ->
  let n := count_occ (a_id a) (live c (a_id a) os) in
  ((0 < n)%nat -> exists e, fm_get (a_id a) (ms_args m) = Some e /\
       m_raw e = [[n_to_dec (N.min (N.of_nat n) 255)]] /\ m_source e = Some SCmdLine) /\
  (n = 0%nat -> forall e, fm_get (a_id a) (ms_args m) = Some e -> m_source e = Some SEnv \/ m_source e = Some SDefault).
Proof. exact wide_count_graph. Qed.
Print Assumptions C07_wide_count_graph.

(** Append in ANY override graph (the argument does not override itself): the live occurrences' values, one group each *)
Theorem C07_wide_append_graph : forall c0 bin toks os m a,
  let c := build_self (with_bin c0 bin) in
  wide_class c0 bin toks os -> parse_top c0 (bin :: toks) = OOk m -> In a (c_args c) ->
  a_get_action a = AAppend -> overridden c a (a_id a) = false ->
  let lv := live c (a_id a) os in
  ((0 < count_occ (a_id a) lv)%nat ->
     exists e, fm_get (a_id a) (ms_args m) = Some e /\ m_raw e = occ_groups c (a_id a) lv /\ m_source e = Some SCmdLine) /\
  (count_occ (a_id a) lv = 0%nat ->
     forall e, fm_get (a_id a) (ms_args m) = Some e -> m_source e = Some SEnv \/ m_source e = Some SDefault).
Proof. exact wide_append_graph. Qed.
Print Assumptions C07_wide_append_graph.

(** Set / SetTrue / SetFalse in ANY override graph: the last own occurrence after the last overrider decides
    ([last_own]); when there is none only env / default entries remain *)
Theorem C07_wide_set_graph : forall c0 bin toks os m a,
  let c := build_self (with_bin c0 bin) in
  wide_class c0 bin toks os -> parse_top c0 (bin :: toks) = OOk m -> In a (c_args c) ->
  set_family a = true ->
  match last_own (a_id a) (live c (a_id a) os) with
  | Some o => exists e, fm_get (a_id a) (ms_args m) = Some e /\
                m_raw e = step_self c SCmdLine a (o_vals c o) None /\ m_source e = Some SCmdLine
  | None => forall e, fm_get (a_id a) (ms_args m) = Some e -> m_source e = Some SEnv \/ m_source e = Some SDefault
  end.
Proof. exact wide_set_graph. Qed.
Print Assumptions C07_wide_set_graph.

(** ======== round 3: the default of a flag comes from [Arg::_build], required or not (ParseProofs/ActionsRequired.v) ======== *)
(** every argument of the (unbuilt) definition is in the built command as [_build] left it *)
Theorem C07_build_self_from : forall c a0, s_built (c_set c) = false -> In a0 (c_args c) ->
  exists a, In a (c_args (build_self c)) /\ built_from a0 a.
Proof. exact build_self_from. Qed.
Print Assumptions C07_build_self_from.

Theorem C07_built_flag_default : forall c a0 b, s_built (c_set c) = false -> In a0 (c_args c) ->
  a_action a0 = Some (flag_action b) -> a_default a0 = [] -> a_default_missing a0 = [] ->
  exists a, In a (c_args (build_self c)) /\ a_id a = a_id a0 /\ a_required a = a_required a0 /\
    a_get_action a = flag_action b /\ a_default a = [flag_value (negb b)] /\ a_default_missing a = [flag_value b] /\
    a_env a = a_env a0 /\ a_default_ifs a = a_default_ifs a0 /\ a_delim a = a_delim a0.
Proof. exact built_flag_default. Qed.
Print Assumptions C07_built_flag_default.

Theorem C07_built_count_default : forall c a0, s_built (c_set c) = false -> In a0 (c_args c) ->
  a_action a0 = Some ACount -> a_default a0 = [] ->
  exists a, In a (c_args (build_self c)) /\ a_id a = a_id a0 /\ a_required a = a_required a0 /\
    a_get_action a = ACount /\ a_default a = [[48]] /\
    a_env a = a_env a0 /\ a_default_ifs a = a_default_ifs a0 /\ a_delim a = a_delim a0.
Proof. exact built_count_default. Qed.
Print Assumptions C07_built_count_default.

(** a flag of the definition - [a_required a0] is NOT constrained - whose occurrences were removed by a later argument in
    an override relation with it reports the action's default, source DefaultValue; [get_flag] reads [negb b] *)
Theorem C07_wide_overridden_flag_default : forall c0 bin toks os1 o os2 m a0 b,
  let c := build_self (with_bin c0 bin) in
  wide_class c0 bin toks (os1 ++ o :: os2) -> parse_top c0 (bin :: toks) = OOk m ->
  s_built (c_set c0) = false -> In a0 (c_args c0) ->
  a_action a0 = Some (flag_action b) -> a_default a0 = [] -> a_default_missing a0 = [] ->
  a_env a0 = None -> a_default_ifs a0 = [] -> a_delim a0 = None ->
  beq (a_id (o_arg o)) (a_id a0) = false -> overridden c (o_arg o) (a_id a0) = true ->
  Forall (fun o' => beq (a_id (o_arg o')) (a_id a0) = false) os2 ->
  exists e, fm_get (a_id a0) (ms_args m) = Some e /\ m_raw e = [[flag_value (negb b)]] /\ m_source e = Some SDefault /\
            get_flag_view m (a_id a0) = Some (negb b).
Proof. exact wide_overridden_flag_default. Qed.
Print Assumptions C07_wide_overridden_flag_default.

(** ======== round 3: lines that select subcommands - every level of the chain (ParseProofs/ActionsChain.v) ========
    [cline c toks lv]: [toks] = `pre_0 n_1 pre_1 ... n_k pre_k` for the built command [c]; every inner [pre_i] is an
    option prefix of its level (C09's class [Chain.prefix_ok]) read by the wide scanner, every [n_i] selects a child
    ([Chain.sel]), the LAST level is any line of the wide class (positionals, [--], multi-valued options); [lv] lists per
    level the built command and the scanned occurrences.  [level_form c os args]: per argument of [c], [args] holds the
    entry the fold of [react] over [os] leaves (source CommandLine), else only env / default entries.  Statements are
    about [get_matches_with] (before the globals merge), like C09_chain. *)
Theorem C07_chain_levels : forall c toks lv, cline c toks lv ->
  forall f st, get_matches_with f c toks ps_new = ROk st ->
  Forall2 (fun p args => level_form (fst p) (snd p) args) lv (Globals.levels (into_inner (mt st))) /\
  Globals.chain (into_inner (mt st)) = map (fun p => c_name (fst p)) (tl lv).
Proof. exact chain_level_forms. Qed.
Print Assumptions C07_chain_levels.

Theorem C07_cline_levels_ok : forall c toks lv, cline c toks lv ->
  Forall (fun p => assert_app (fst p) = true /\ Forall (wscanned (fst p)) (snd p)) lv.
Proof. exact cline_levels_ok. Qed.
Print Assumptions C07_cline_levels_ok.

(** one level that selects a subcommand: its entries are those of its own prefix, whatever follows *)
Theorem C07_level_sub : forall c pre F tok n f rest st os,
  Chain.prefix_ok c pre F -> Chain.sel c tok n -> Chain.lvl_ok c ->
  no_hyphen_args c = true -> assert_app c = true -> woccurrences c pre = Some os ->
  get_matches_with (S f) c (pre ++ tok :: rest) ps_new = ROk st ->
  level_form c os (mt_args (mt st)).
Proof. exact level_sub_form. Qed.
Print Assumptions C07_level_sub.

(** the closed forms at a level, any override graph *)
Theorem C07_level_denote : forall c os args a, assert_app c = true -> Forall (wscanned c) os -> level_form c os args ->
  In a (c_args c) ->
  match fold_left (step_abs c (a_id a)) os None with
  | Some g => exists e, fm_get (a_id a) args = Some e /\ m_raw e = g /\ m_source e = Some SCmdLine
  | None => forall e, fm_get (a_id a) args = Some e -> m_source e = Some SEnv \/ m_source e = Some SDefault
  end.
Proof. exact level_denote. Qed.
Print Assumptions C07_level_denote.

Theorem C07_level_count : forall c os args a, assert_app c = true -> Forall (wscanned c) os -> level_form c os args ->
  In a (c_args c) -> count_flag a ->
  let n := count_occ (a_id a) (live c (a_id a) os) in
  ((0 < n)%nat -> exists e, fm_get (a_id a) args = Some e /\
       m_raw e = [[n_to_dec (N.min (N.of_nat n) 255)]] /\ m_source e = Some SCmdLine) /\
  (n = 0%nat -> forall e, fm_get (a_id a) args = Some e -> m_source e = Some SEnv \/ m_source e = Some SDefault).
Proof. exact level_count. Qed.
Print Assumptions C07_level_count.

Theorem C07_level_append : forall c os args a, assert_app c = true -> Forall (wscanned c) os -> level_form c os args ->
  In a (c_args c) -> a_get_action a = AAppend -> overridden c a (a_id a) = false ->
  let lv := live c (a_id a) os in
  ((0 < count_occ (a_id a) lv)%nat ->
     exists e, fm_get (a_id a) args = Some e /\ m_raw e = occ_groups c (a_id a) lv /\ m_source e = Some SCmdLine) /\
  (count_occ (a_id a) lv = 0%nat ->
     forall e, fm_get (a_id a) args = Some e -> m_source e = Some SEnv \/ m_source e = Some SDefault).
Proof. exact level_append. Qed.
Print Assumptions C07_level_append.

(** the abstract folds in closed form (used by the level theorems; any override graph) *)
Theorem C07_count_graph_fold : forall c a os, assert_app c = true -> In a (c_args c) -> count_flag a -> Forall (wscanned c) os ->
  fold_left (step_abs c (a_id a)) os None = enc (N.of_nat (count_occ (a_id a) (live c (a_id a) os))).
Proof. exact abs_count_graph. Qed.
Print Assumptions C07_count_graph_fold.

Theorem C07_append_graph_fold : forall c a os, assert_app c = true -> In a (c_args c) -> a_get_action a = AAppend ->
  overridden c a (a_id a) = false -> Forall (wscanned c) os ->
  fold_left (step_abs c (a_id a)) os None =
  if (0 <? count_occ (a_id a) (live c (a_id a) os))%nat then Some (occ_groups c (a_id a) (live c (a_id a) os)) else None.
Proof. exact abs_append_graph. Qed.
Print Assumptions C07_append_graph_fold.

(** ... and at [parse_top], for trees without global arguments (C02's [no_globals]: the globals merge is the identity) *)
Theorem C07_chain_levels_top : forall c0 bin toks lv m,
  let c := build_self (with_bin c0 bin) in
  is_set s_no_binary_name c0 = false -> is_set s_ignore_errors c = false ->
  UnparseTree.no_globals (build_recursive (S (S (depth c))) (with_bin c0 bin)) = true ->
  cline c toks lv -> parse_top c0 (bin :: toks) = OOk m ->
  Forall2 (fun p args => level_form (fst p) (snd p) args) lv (Globals.levels m) /\
  Globals.chain m = map (fun p => c_name (fst p)) (tl lv).
Proof. exact chain_levels_top. Qed.
Print Assumptions C07_chain_levels_top.

(** ---- round 5: the model's builder data are the tables found in the source on this run ----
    [Gen.ActionTables] is regenerated from clap_builder/src/builder/{action,range,arg}.rs by translators/builder_tables.py
    before every build; vocabulary in ParseProofs/TablesActions.v: [row_ok act row] = the row says about [act] what
    [action_default_num_args], [r_takes_values], [action_default_value], [action_default_missing_value], [action_default_vp]
    say; [range_named] / [src_range_pred] read the constants / predicates of [ValueRange]; [tbl_arg_build] interprets
    the table as [Arg::_build]. *)
Theorem C07_action_table :
  Forall2 TablesActions.row_ok TablesActions.action_variants ActionTables.gen_action_rows
  /\ (forall act, In act TablesActions.action_variants)
  /\ (forall act, exists row, TablesActions.row_of act = Some row /\ TablesActions.row_ok act row).
Proof. exact (conj TablesActions.model_action_table (conj TablesActions.action_variants_complete TablesActions.model_action_row)). Qed.
Print Assumptions C07_action_table.

(** [Arg::_build] of the model IS the function the regenerated table defines, for every argument *)
Theorem C07_arg_build_table : forall a, TablesActions.tbl_arg_build a = Some (arg_build a).
Proof. exact TablesActions.arg_build_table. Qed.
Print Assumptions C07_arg_build_table.

(** after the build, "takes a value" of an argument without explicit [num_args] is the source's [takes_values()] of its action *)
Theorem C07_built_takes_value_table : forall a row,
  a_num a = None -> a_nvalnames a <= 1 -> TablesActions.row_of (a_get_action (ab_action a)) = Some row ->
  a_takes_value (arg_build a) = ActionTables.ga_takes_values row.
Proof. exact TablesActions.built_takes_value_table. Qed.
Print Assumptions C07_built_takes_value_table.

(** the constants and predicates of [ValueRange] *)
Theorem C07_range_consts_table :
  (forall n r, In (n, r) TablesActions.model_range_names -> TablesActions.range_named n = Some r)
  /\ TablesActions.range_named ActionTables.gen_range_default = Some r_single
  /\ {| vmin := ActionTables.gen_takes_value_default_fixed; vmax := ActionTables.gen_takes_value_default_fixed |} = r_single
  /\ (forall n lo hi dbg, In (n, lo, hi, dbg) ActionTables.gen_range_consts -> dbg = false ->
        In n (map fst TablesActions.model_range_names)).
Proof. exact TablesActions.model_range_consts. Qed.
Print Assumptions C07_range_consts_table.

Theorem C07_range_preds_table :
  TablesActions.pred_is TablesActions.pn_takes_values (fun r _ => r_takes_values r)
  /\ TablesActions.pred_is TablesActions.pn_is_unbounded (fun r _ => r_is_unbounded r)
  /\ TablesActions.pred_is TablesActions.pn_is_fixed (fun r _ => r_is_fixed r)
  /\ TablesActions.pred_is TablesActions.pn_is_multiple (fun r _ => r_is_multiple r)
  /\ TablesActions.pred_is TablesActions.pn_accepts_more r_accepts_more
  /\ (forall r, TablesActions.obind (TablesActions.src_range_pred (fst ActionTables.gen_range_num_values) r 0)
                  (fun b => Some (if b then Some (TablesActions.term_val r 0 (snd ActionTables.gen_range_num_values)) else None))
                = Some (r_num_values r))
  /\ map fst ActionTables.gen_range_preds = TablesActions.model_range_pred_names.
Proof. exact TablesActions.model_range_preds. Qed.
Print Assumptions C07_range_preds_table.

(** the configuration gate ([assert_arg]: max_num_args, value_type_id) has the source's data for every action (since the
    repair of Parse/Cmd.v found by this comparison: SetTrue/SetFalse allow num_args(0..=1) and any value parser) *)
Theorem C07_action_gate_table : forall act,
  TablesActions.src_max_num_args act = Some (action_max_num_args act)
  /\ TablesActions.src_value_type act = Some (action_value_type act).
Proof. exact TablesActions.model_action_gate. Qed.
Print Assumptions C07_action_gate_table.

(** the actions whose occurrences can carry a value are exactly Set / Append and SetTrue / SetFalse (`--flag=value`) *)
Theorem C07_action_takes_value_arg : forall act,
  vmax (action_max_num_args act) <> 0 <-> (act = ASet \/ act = AAppend \/ act = ASetTrue \/ act = ASetFalse).
Proof. exact TablesActions.model_action_takes_value_arg. Qed.
Print Assumptions C07_action_takes_value_arg.

(** whatever the model's gate accepts passes the source's two assertions about the action *)
Theorem C07_gate_implies_source : forall a, assert_arg a = true ->
  exists r ty, TablesActions.src_max_num_args (a_get_action a) = Some r
    /\ TablesActions.src_value_type (a_get_action a) = Some ty
    /\ vmax (opt_default r_single (a_num a)) <= vmax r
    /\ (forall t, ty = Some t -> exists vp, a_vp a = Some vp /\ vp_type vp = t).
Proof. exact TablesActions.model_gate_implies_source. Qed.
Print Assumptions C07_gate_implies_source.

(** `args_override_self` (read by the Set-like branches of [react]: [C07_set_repeat_conflict]) is a GLOBAL setting in the
    source: set on a command it holds there and at every level below ([propagate_chain]: each level propagated from the
    one above); and the propagation step of the model is the one the source's table defines (Gen/SettingsTables.v) *)
Theorem C07_args_override_self_global : forall p p' scs,
  TablesSettings.spec_apply TablesSettings.n_args_override_self p = Some p' -> scs <> [] ->
  is_set s_args_override_self p' = true /\ is_set s_args_override_self (TablesSettings.propagate_chain p' scs) = true.
Proof. exact TablesSettings.args_override_self_global. Qed.
Print Assumptions C07_args_override_self_global.

Theorem C07_settings_propagate_table : forall p sc,
  TablesSettings.tbl_propagate p sc = Some (propagate_subcommand p sc).
Proof. exact TablesSettings.propagate_table. Qed.
Print Assumptions C07_settings_propagate_table.

(** ---- round 5, continued: [Gen.BuildTables] (Command::_check_help_and_version, mkeymap.rs, the bool setters of Arg) ---- *)
(** the generated `--help` / `--version` arguments, the `help` subcommand's name, about and argument are the source's *)
Theorem C07_generated_args_table :
  TablesBuild.tbl_flag_arg BuildTables.gen_help_arg = Some help_arg
  /\ TablesBuild.tbl_flag_arg BuildTables.gen_version_arg = Some version_arg
  /\ TablesBuild.tbl_help_sub_arg = Some help_subcommand_arg
  /\ TablesActions.bytes_of_string BuildTables.gen_help_sub_name = s_help
  /\ TablesActions.bytes_of_string BuildTables.gen_help_sub_about = s_help_about.
Proof. exact TablesBuild.generated_args_table. Qed.
Print Assumptions C07_generated_args_table.

(** [_check_help_and_version] of the model (guards, order, what is appended) is the function the tables define *)
Theorem C07_help_version_table : forall c, TablesBuild.tbl_bs_help_version c = Some (bs_help_version c).
Proof. exact TablesBuild.bs_help_version_table. Qed.
Print Assumptions C07_help_version_table.

(** the keys an argument gets in the key map, in the source's order (`get` returns the first match) *)
Theorem C07_arg_keys_table : forall a, TablesBuild.tbl_arg_keys a = Some (arg_keys a).
Proof. exact TablesBuild.arg_keys_table. Qed.
Print Assumptions C07_arg_keys_table.

(** every `(flags f)` of a case: the harness calls an Arg setter of the ArgSettings variant the model field stands for,
    and both readers know the same flag names *)
Theorem C07_arg_flags_table :
  forallb TablesBuild.flag_ok BuildTables.gen_spec_arg_flags = true
  /\ map fst BuildTables.gen_spec_arg_flags = map fst BuildTables.gen_harness_arg_flags.
Proof. exact TablesBuild.arg_flags_table. Qed.
Print Assumptions C07_arg_flags_table.

(** the copies of `ArgAction::takes_values` in the derive model (C15) and the completion tree model (C16) are the source's *)
Theorem C07_other_models_takes_values :
  (forall act row, TablesActions.row_of act = Some row ->
     DeriveModel.action_takes_values act = ActionTables.ga_takes_values row)
  /\ (forall a row, TablesActions.row_of (TablesBuild.aot_action a) = Some row ->
     AotTree.action_takes_values a = ActionTables.ga_takes_values row
     /\ TablesActions.range_named (ActionTables.ga_default_num_args row)
        = Some (if AotTree.action_takes_values a then {| vmin := 1; vmax := 1 |} else {| vmin := 0; vmax := 0 |})).
Proof. exact (conj TablesBuild.derive_takes_values_table TablesBuild.aot_takes_values_table). Qed.
Print Assumptions C07_other_models_takes_values.

(** [Command::_build_self]: the model composes its steps in the order the source runs them ([gen_build_self_steps] is the
    order of the parts in the source text; [TablesBuild.step_named] maps a part to the model's function) *)
Theorem C07_build_self_steps_table : forall c, TablesBuild.tbl_build_self c = Some (build_self c).
Proof. exact TablesBuild.build_self_steps_table. Qed.
Print Assumptions C07_build_self_steps_table.

Theorem C07_args_loop_table :
  BuildTables.gen_args_loop_steps = TablesBuild.model_args_loop_steps
  /\ (forall c, c_args (bs_args c) = fst (build_args (c_args c) (c_groups c) BuildTables.gen_pos_counter_start)
              /\ c_groups (bs_args c) = snd (build_args (c_args c) (c_groups c) BuildTables.gen_pos_counter_start)).
Proof. exact TablesBuild.args_loop_table_proj. Qed.
Print Assumptions C07_args_loop_table.

(** the deprecated command-level allow_hyphen_values / allow_negative_numbers / trailing_var_arg, from the table's rules *)
Theorem C07_deprecated_table :
  (forall c highest a, TablesBuild.tbl_deprecated_arg c highest a = Some (bs_deprecated_arg c highest a))
  /\ (forall c, c_args (bs_deprecated c) =
        map (bs_deprecated_arg c (fold_left (fun m a => match a_index a with Some n => N.max m n | None => m end)
                                            (c_args c) BuildTables.gen_highest_idx_default)) (c_args c)).
Proof. exact (conj TablesBuild.deprecated_table TablesBuild.deprecated_highest_table_proj). Qed.
Print Assumptions C07_deprecated_table.

(** ---- the configuration gate (debug_asserts.rs): inventory of its assertions, and its two `checker!` tables ---- *)
(** every assert!/assert_eq!/panic! of the source's gate, in source order, is classified in [TablesGate.model_gate_coverage]
    (which conjunct of Parse/Valid.v stands for it, or why the model has none); 7 of the 63 have none (value hints, help
    templates: data no case of this framework can express) *)
Theorem C07_gate_sites_covered :
  map fst TablesGate.model_gate_coverage = GateSites.gen_gate_sites
  /\ length (filter (fun r => TablesGate.is_nodata (snd r)) TablesGate.model_gate_coverage) = 7%nat
  /\ length TablesGate.model_gate_coverage = 63%nat.
Proof. exact (conj TablesGate.gate_sites_covered TablesGate.gate_sites_without_counterpart). Qed.
Print Assumptions C07_gate_sites_covered.

(** [assert_arg] = its core && the interpreted `checker!(a requires b)` table of assert_arg_flags; the rows of the table
    the model has no flag for are exactly the two help-only ones *)
Theorem C07_assert_arg_flags_table :
  (forall a, assert_arg a = TablesGate.assert_arg_core a && TablesGate.tbl_arg_flag_checks a)
  /\ map fst (filter (fun row => match TablesGate.arg_getter (fst row) with None => true | Some _ => false end)
                     GateSites.gen_arg_flag_requires)
     = TablesGate.known_unmodelled_arg_flags.
Proof. exact (conj TablesGate.assert_arg_flags_table TablesGate.unmodelled_arg_flags). Qed.
Print Assumptions C07_assert_arg_flags_table.

Theorem C07_app_flags_table : forall c, assert_app c = true -> TablesGate.tbl_app_flag_checks c = Some true.
Proof. exact TablesGate.app_flags_table. Qed.
Print Assumptions C07_app_flags_table.

(** `args_override_self(true)` on the root of an unbuilt tree (class [Totality.plain]) is set at every level the parser
    builds on its way down ([build_self], then [build_subcommand] repeatedly), to any depth *)
Theorem C07_args_override_self_every_built_level : forall fuel x x',
  TablesSettings.spec_apply TablesSettings.n_args_override_self x = Some x' -> Totality.plain x' = true ->
  TablesSettingsTree.set_all s_args_override_self fuel (build_self x').
Proof. exact TablesSettingsTree.args_override_self_every_built_level. Qed.
Print Assumptions C07_args_override_self_every_built_level.
