(** Property C07: occurrences combine by action (last-wins, append-in-order, saturating count),
    overrides are symmetric.  Only pinned statements; proofs live in ParseProofs/Actions.v. *)
From ClapModel Require Import Base.Bytes Base.Machine.
From ClapModel Require Import Parse.Cmd Parse.Build Parse.Matcher Parse.Errors Parse.Parser ParseProofs.Actions.
From Coq Require Import ZArith.
Open Scope N_scope.

Theorem C07_override_symmetric : forall c a m, wf_m m ->
  wf_m (remove_overrides c a m) /\ mt_pending (remove_overrides c a m) = mt_pending m /\
  forall j, get j (remove_overrides c a m) = if overridden c a j then None else get j m.
Proof. exact remove_overrides_spec. Qed.
Print Assumptions C07_override_symmetric.

Theorem C07_react_step : forall c idn s a raw ti st st' pr,
  wf_m (mt st) -> ~ In (a_id a) (groups_for_arg c (a_id a)) ->
  react_core c idn s a raw ti st = ROk (st', pr) ->
  exists vals, occ_values c a raw ti = Some vals /\
    wf_m (mt st') /\ mt_pending (mt st') = mt_pending (mt st) /\
    groups_of (a_id a) (mt st') = Some (step_self c s a vals (groups_of (a_id a) (mt st))) /\
    (forall j, j <> a_id a -> ~ In j (groups_for_arg c (a_id a)) ->
       get j (mt st') = if is_cmdline s && overridden c a j then None else get j (mt st)) /\
    (forall gs v, groups_of (a_id a) (mt st') = Some gs -> In v (last gs []) ->
       exists vp, a_vp a = Some vp /\ vp_parse vp v = None).
Proof. exact react_core_spec. Qed.
Print Assumptions C07_react_step.

Theorem C07_set_repeat_conflict : forall c idn s a raw ti st vals,
  set_family a = true ->
  (if is_cmdline s then verify_num_args c a raw st else ROk tt) = ROk tt ->
  occ_values c a raw ti = Some vals ->
  mt_contains (mt st) (a_id a) = true ->
  is_set s_args_override_self c = false -> mem_id (a_id a) (a_overrides a) = false ->
  exists st', react_core c idn s a raw ti st = RErr (mkerr c EArgumentConflict (a_id a)) st' /\
              cur_idx st <= cur_idx st' <= cur_idx st + 1 /\
              mt st' = fst (mt_remove (mt st) (a_id a)).
Proof. exact react_core_repeat_conflict. Qed.
Print Assumptions C07_set_repeat_conflict.
