(** Property C18: the dynamic completion engine never fails and only offers valid continuations.
    This file contains only the pinned statements; proofs live in Complete/EngineProofs.v. *)
From ClapModel Require Import Base.Bytes Base.Machine Base.Utf8.
From ClapModel Require Import Parse.Cmd Parse.Build Parse.Valid Complete.EngineModel Complete.EngineProofs.
From Coq Require Import ZArith.
Open Scope N_scope.

(** Totality: for every command, argv and index the engine returns candidates, the plain
    "no completion" error, or the command is rejected by clap's own debug assertions when it is
    built - no [unreachable!]/[expect] of complete.rs is reached (after fixes 8cf4a4e ff.). *)
Theorem C18_total : forall tbl c args i site, complete_model tbl c args i <> CPanic site.
Proof. exact total. Qed.
Print Assumptions C18_total.

(** the engine proper needs no fuel: only [Command::build] of the tree does *)
Theorem C18_engine_no_fuel : forall tbl f c b args i,
  build_full f c = BOk b -> complete_built tbl b args i <> CFuel.
Proof. exact built_no_fuel. Qed.
Print Assumptions C18_engine_no_fuel.
