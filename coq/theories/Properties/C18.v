(** Property C18: the dynamic completion engine never fails and only offers valid continuations.
    This file contains only the pinned statements; proofs live in Complete/EngineProofs.v.

    Reading guide.  [complete_model tbl c args i] = [cmd.build()] ([build_full]) then the shadow
    parse of the words before the cursor ([start_walk], which yields the word under the cursor
    [w], the level reached [cur], the positional index and the [ParseState]) then [complete_arg].
    "A new argument may start, before any `--`" is the state [ValueDone] with [is_escaped = false];
    the theorems hold for either value of [is_escaped].  [cand_sound w cur cd] says: an option
    candidate (id [arg::..]) extends [w] and is [--]+long/alias or [-]+cluster+short/alias of an
    argument of [cur]; a subcommand candidate (id [command::..]) extends [w] and is a name or alias
    of a subcommand of [cur].  [cand_resolves cur cd] says: the parser model's key map
    ([get_long]/[get_short]) resp. [find_subcommand] resolve that spelling at [cur]. *)
From ClapModel Require Import Base.Bytes Base.Machine Base.Utf8.
From ClapModel Require Import Parse.Cmd Parse.Build Parse.Valid Complete.EngineModel Complete.EngineProofs.
From ClapModel Require Gen.EngineSites.
From Coq Require Import ZArith.
Open Scope N_scope.

(** Totality: for every command, argv and index the engine returns candidates, the plain
    "no completion" error, or the command is rejected by clap's own debug assertions when it is
    built - no [unreachable!]/[expect] of complete.rs is reached (after fix 8cf4a4e). *)
Theorem C18_total : forall tbl c args i site, complete_model tbl c args i <> CPanic site.
Proof. exact total. Qed.
Print Assumptions C18_total.

(** every [unreachable!]/[panic!]/[assert!] macro and every [expect]/[unwrap] call that the source of
    complete.rs contains today (Gen/EngineSites.v, regenerated on every run) is a panic site of the
    model, function by function - so C18_total speaks about all of them *)
Theorem C18_sites_match : Gen.EngineSites.engine_panic_sites = model_panic_sites.
Proof. exact sites_match. Qed.
Print Assumptions C18_sites_match.

(** the engine proper needs no fuel: only [Command::build] of the tree does *)
Theorem C18_engine_no_fuel : forall tbl f c b args i,
  build_full f c = BOk b -> complete_built tbl b args i <> CFuel.
Proof. exact built_no_fuel. Qed.
Print Assumptions C18_engine_no_fuel.

(** a successful completion decomposes into build, shadow parse and [complete_arg] *)
Theorem C18_model_decomposes : forall tbl c args i l, complete_model tbl c args i = COk l ->
  exists b w cur pi st esc,
    build_full (build_fuel c) c = BOk b /\ start_walk b args i = WAt w cur pi st esc /\
    complete_arg tbl w cur pi st = COk l.
Proof. exact model_ok_inv. Qed.
Print Assumptions C18_model_decomposes.

(** Soundness: in state [ValueDone] every option/subcommand candidate (i) extends the word,
    (ii) names an option, alias or subcommand of the level [cur], which is a node of the built tree
    reached by the shadow parse, (iii) is resolved as such by the parser model's lookups. *)
Theorem C18_sound : forall tbl c b args i w cur pi esc l cd,
  build_full (build_fuel c) c = BOk b ->
  start_walk b args i = WAt w cur pi ValueDone esc ->
  complete_arg tbl w cur pi ValueDone = COk l -> In cd l ->
  reach b cur /\ cand_sound w cur cd /\ cand_resolves cur cd.
Proof. exact sound. Qed.
Print Assumptions C18_sound.

(** Completeness, options: every visible argument of the level with a long name or visible alias
    [--s] extending the (well-formed) word is represented by a visible candidate carrying its id
    (by C18_sound that candidate extends the word and is a spelling of that argument). *)
Theorem C18_complete_options : forall tbl w c pi l a s,
  complete_arg tbl w c pi ValueDone = COk l ->
  In a (c_args c) -> a_hide a = false -> a_long a <> None ->
  (a_long a = Some s \/ In s (vis_aliases (a_aliases a))) ->
  ~ In EQ s -> utf8_valid w = true -> is_prefix w (dd ++ s) = true ->
  exists y, In y l /\ cd_id y = Some (IdArg (a_id a)) /\ cd_hidden y = false.
Proof. exact value_done_complete_long. Qed.
Print Assumptions C18_complete_options.

(** Completeness, subcommands: every visible subcommand of the level whose name or visible alias
    extends the word is represented by a visible candidate carrying its id. *)
Theorem C18_complete_subcommands : forall tbl w c pi l sc n,
  complete_arg tbl w c pi ValueDone = COk l ->
  In sc (c_subs c) -> is_hide_set sc = false ->
  (n = c_name sc \/ In n (vis_aliases (c_aliases sc))) ->
  utf8_valid w = true -> is_prefix w n = true ->
  exists y, In y l /\ cd_id y = Some (IdCmd (c_name sc)) /\ cd_hidden y = false.
Proof. exact value_done_complete_sub. Qed.
Print Assumptions C18_complete_subcommands.

(** Hidden candidates are offered only when nothing visible is (every state). *)
Theorem C18_hidden_only_if_no_visible : forall tbl w c pi st l,
  complete_arg tbl w c pi st = COk l ->
  forall x, In x l -> cd_hidden x = false -> forall y, In y l -> cd_hidden y = false.
Proof. exact hidden_only_if_no_visible. Qed.
Print Assumptions C18_hidden_only_if_no_visible.

(** ... and when no raw candidate is visible, all hidden ones are kept ([finish] is the tail of
    [complete_arg]: hidden filter, then de-duplication by id, first one wins) *)
Theorem C18_hidden_kept_when_nothing_visible : forall raw,
  (forall x, In x raw -> cd_hidden x = true) -> finish raw = dedup_ids [] raw.
Proof. exact hidden_kept_when_nothing_visible. Qed.
Print Assumptions C18_hidden_kept_when_nothing_visible.
