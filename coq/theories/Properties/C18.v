(** Property C18: the dynamic completion engine never fails and only offers valid continuations.
    This file contains only the pinned statements; proofs live in Complete/EngineProofs.v.

    Reading guide.  [complete_model tbl c args i] = [cmd.build()] ([build_full]) then the shadow
    parse of the words before the cursor ([start_walk], which yields the word under the cursor
    [w], the level reached [cur], the positional index and the [ParseState]) then [complete_arg].
    "A new argument may start, before any `--`" is the state [ValueDone] with [is_escaped = false];
    the theorems hold for either value of [is_escaped].  [cand_sound w cur cd] says: an option
    candidate (id [arg::..]) extends [w] and is [--]+long/alias or [-]+cluster+short/alias of an
    argument of [cur]; a subcommand candidate (id [command::..]) extends [w] and is a name or alias
    of a subcommand of [cur].  [cand_resolves cur cd] says: the parser model's key map
    ([get_long]/[get_short]) resp. [find_subcommand] resolve that spelling at [cur].

    Round 2 (second half of the file): the engine against the PARSER model of Parse/Parser.v.
    Names defined by both models ([DASH], [EQ], [to_short], ...) are the engine's when unqualified,
    the parser's are written [Parser.x].  [same_level pc cur]: the parser's level [pc] and the engine's
    level [cur] have the same arguments and the same subcommand names/aliases.  [opt_head pc idn a st] is
    what the parser does at the start of an occurrence of [a] without attached value ([react] for a flag,
    [parse_opt_value] for an option), [after_opt] how the token loop goes on after it, [occ_head pc a h]:
    [h] ends in ValuesDone / Opt(a) / EqualsNotProvided(a) or in an error raised by a reaction (never an
    unknown-token error), [tok_accepted]: an UnknownArgument/InvalidSubcommand error of the level is not
    caused by the token (it is the error of the tokens after it; none if it is the last word). *)
From ClapModel Require Import Base.Bytes Base.Machine Base.Utf8.
From ClapModel Require Import Parse.Matcher Parse.Errors Parse.Validator Parse.Parser.
From ClapModel Require Import ParseProofs.Spelling ParseProofs.ErrorSound.
From ClapModel Require Import Parse.Cmd Parse.Build Parse.Valid Complete.EngineModel Complete.EngineProofs.
From ClapModel Require Import Complete.EngineAccept Complete.EngineFuel Complete.EngineComplete Complete.EngineLevel.
From ClapModel Require ParseProofs.Chain ParseProofs.ActionsTop.
From ClapModel Require Import Complete.EngineLine Complete.EnginePositional.
From ClapModel Require ParseProofs.ChainWide.
From ClapModel Require Import Complete.EngineItems Complete.EngineWide Complete.EngineHidden Complete.EngineOrder Complete.EngineOptState Complete.EngineTerm Complete.EngineEscape.
From Coq Require Import Permutation Sorted.
From ClapModel Require Gen.EngineSites.
From Coq Require Import ZArith.
Open Scope N_scope.

(** Totality: for every command, argv and index the engine returns candidates, the plain
    "no completion" error, or the command is rejected by clap's own debug assertions when it is
    built - no [unreachable!]/[expect] of complete.rs is reached (after fix 8cf4a4e). *)
Theorem C18_total : forall tbl c args i site, complete_model tbl c args i <> CPanic site.
Proof. exact total. Qed.
Print Assumptions C18_total.

(** every [unreachable!]/[panic!]/[assert!] macro and every [expect]/[unwrap] call that the source of
    complete.rs contains today (Gen/EngineSites.v, regenerated on every run) is a panic site of the
    model, function by function - so C18_total speaks about all of them *)
Theorem C18_sites_match : Gen.EngineSites.engine_panic_sites = model_panic_sites.
Proof. exact sites_match. Qed.
Print Assumptions C18_sites_match.

(** the engine proper needs no fuel: only [Command::build] of the tree does *)
Theorem C18_engine_no_fuel : forall tbl f c b args i,
  build_full f c = BOk b -> complete_built tbl b args i <> CFuel.
Proof. exact built_no_fuel. Qed.
Print Assumptions C18_engine_no_fuel.

(** a successful completion decomposes into build, shadow parse and [complete_arg_v] (= the engine's [complete_arg] with
    the flag [valid_arg_found] of the repair of finding C18-args-conflict).  [complete_arg] (without the flag; all the
    theorems below are stated for it) is the same function with the flag off, and [complete_arg_v tbl w cur pi st vaf]
    = [complete_arg tbl w (sub_cut cur vaf) pi st]: behind an argument of a command whose arguments conflict with
    subcommands the candidates are those of the command WITHOUT its subcommands ([sub_cut]) *)
Theorem C18_model_decomposes : forall tbl c args i l, complete_model tbl c args i = COk l ->
  exists b w cur pi st esc vaf,
    build_full (build_fuel c) c = BOk b /\ start_walk b args i = WAt w cur pi st esc vaf /\
    complete_arg_v tbl w cur pi st vaf = COk l /\ complete_arg tbl w (sub_cut cur vaf) pi st = COk l.
Proof. exact model_ok_inv. Qed.
Print Assumptions C18_model_decomposes.

(** Soundness: in state [ValueDone] every option/subcommand candidate (i) extends the word,
    (ii) names an option, alias or subcommand of the level [cur], which is a node of the built tree
    reached by the shadow parse, (iii) is resolved as such by the parser model's lookups. *)
Theorem C18_sound : forall tbl c b args i w cur pi esc vaf l cd,
  build_full (build_fuel c) c = BOk b ->
  start_walk b args i = WAt w cur pi ValueDone esc vaf ->
  complete_arg_v tbl w cur pi ValueDone vaf = COk l -> In cd l ->
  reach b cur /\ cand_sound w cur cd /\ cand_resolves cur cd.
Proof. exact sound. Qed.
Print Assumptions C18_sound.

(** Completeness, options: every visible argument of the level with a long name or visible alias
    [--s] extending the (well-formed) word is represented by a visible candidate carrying its id
    (by C18_sound that candidate extends the word and is a spelling of that argument). *)
Theorem C18_complete_options : forall tbl w c pi l a s,
  complete_arg tbl w c pi ValueDone = COk l ->
  In a (c_args c) -> a_hide a = false -> a_long a <> None ->
  (a_long a = Some s \/ In s (vis_aliases (a_aliases a))) ->
  ~ In EQ s -> utf8_valid w = true -> is_prefix w (dd ++ s) = true ->
  exists y, In y l /\ cd_id y = Some (IdArg (a_id a)) /\ cd_hidden y = false.
Proof. exact value_done_complete_long. Qed.
Print Assumptions C18_complete_options.

(** Completeness, subcommands: every visible subcommand of the level whose name or visible alias
    extends the word is represented by a visible candidate carrying its id. *)
Theorem C18_complete_subcommands : forall tbl w c pi l sc n,
  complete_arg tbl w c pi ValueDone = COk l ->
  In sc (c_subs c) -> is_hide_set sc = false ->
  (n = c_name sc \/ In n (vis_aliases (c_aliases sc))) ->
  utf8_valid w = true -> is_prefix w n = true ->
  exists y, In y l /\ cd_id y = Some (IdCmd (c_name sc)) /\ cd_hidden y = false.
Proof. exact value_done_complete_sub. Qed.
Print Assumptions C18_complete_subcommands.

(** Hidden candidates are offered only when nothing visible is (every state). *)
Theorem C18_hidden_only_if_no_visible : forall tbl w c pi st l,
  complete_arg tbl w c pi st = COk l ->
  forall x, In x l -> cd_hidden x = false -> forall y, In y l -> cd_hidden y = false.
Proof. exact hidden_only_if_no_visible. Qed.
Print Assumptions C18_hidden_only_if_no_visible.

(** ... and when no raw candidate is visible, all hidden ones are kept ([finish] is the tail of
    [complete_arg]: hidden filter, then de-duplication by id, first one wins) *)
Theorem C18_hidden_kept_when_nothing_visible : forall raw,
  (forall x, In x raw -> cd_hidden x = true) -> finish raw = dedup_ids [] raw.
Proof. exact hidden_kept_when_nothing_visible. Qed.
Print Assumptions C18_hidden_kept_when_nothing_visible.

(** * Round 2: the engine's lookups against the parser model *)

(** "same argument", shorts: on a level that passed [assert_app] (and whose short aliases sit on options)
    the engine's scan for a typed short flag IS the parser's key lookup *)
Theorem C18_same_short : forall c ch, assert_app c = true -> short_aliases_on_options c ->
  find_short_visible c ch = get_short c ch.
Proof. exact same_short. Qed.
Print Assumptions C18_same_short.

(** "same argument", longs: whatever the engine resolves a typed [--flag] to, the parser's key map
    resolves to the same argument ... *)
Theorem C18_same_long_found : forall c flag o, assert_app c = true ->
  find_long_visible c flag = Some o -> a_index o = None -> get_long c flag = Some o.
Proof. exact same_long_found. Qed.
Print Assumptions C18_same_long_found.

(** ... and the two lookups are equal when every argument that carries aliases has a long name *)
Theorem C18_same_long : forall c flag, assert_app c = true -> aliased_have_long c ->
  find_long_visible c flag = get_long c flag.
Proof. exact same_long. Qed.
Print Assumptions C18_same_long.

(** outside that class they differ: a visible alias of an option without long name is a key of the
    parser that the engine's scan does not see *)
Theorem C18_same_long_refuted : exists c flag,
  assert_app c = true /\ find_long_visible c flag = None /\ get_long c flag <> None.
Proof. exact same_long_refuted. Qed.
Print Assumptions C18_same_long_refuted.

(** Acceptance, parser side: the token loop standing where a new argument may start, given [--s] for
    a long name or alias [s] of option [a]: [parse_long_arg] finds [a] and its occurrence starts *)
Theorem C18_accept_long_step : forall c a s rest pos vaf st,
  assert_app c = true -> In a (c_args c) -> a_index a = None -> In s (long_names a) ->
  s <> [] -> ~ In EQ s -> utf8_valid s = true ->
  possible_subcommand c (dd ++ s) vaf = None ->
  parse_loop c ((dd ++ s) :: rest) (mkL PSValuesDone pos vaf false) st =
  after_opt c rest pos (opt_head c ILong a st).
Proof. exact accept_long_step. Qed.
Print Assumptions C18_accept_long_step.

(** ... given a cluster [-r] of known flags that take no value followed by the short name/alias of [a]
    ([cluster_ok]; a single [-x] is the one-letter case): [parse_short_arg] reacts to every flag and
    starts the occurrence of [a] *)
Theorem C18_accept_cluster_step : forall c a r rest pos vaf st,
  cluster_ok c r a -> List.hd 0 r <> Parser.DASH ->
  possible_subcommand c (Parser.DASH :: r) vaf = None -> fs_skip st = 0 ->
  (match get_pos c pos with Some p => a_negnum p | None => false end && Parser.sf_is_negative_number r) = false ->
  parse_loop c ((Parser.DASH :: r) :: rest) (mkL PSValuesDone pos vaf false) st =
  after_opt c rest pos (do x <- short_loop c (S (length r)) r PRNoArg vaf st; ROk (fst (fst x), snd (fst x)))
  /\ occ_head c a (do x <- short_loop c (S (length r)) r PRNoArg vaf st; ROk (fst (fst x), snd (fst x))).
Proof. exact accept_cluster_step_occ. Qed.
Print Assumptions C18_accept_cluster_step.

(** ... given a name or alias [n] of subcommand [sc]: [possible_subcommand] selects a name of [sc] (an
    exact name wins also under prefix inference) and the loop stops with the dispatch to it *)
Theorem C18_accept_sub_step : forall c sc n rest pos vaf st,
  assert_app c = true -> In sc (c_subs c) -> aliases_to sc n = true -> utf8_valid n = true ->
  (is_set s_args_negate_subs c && vaf) = false ->
  exists n', aliases_to sc n' = true /\ find_subcommand c n' = Some sc /\
    possible_subcommand c n vaf = Some n' /\
    parse_loop c (n :: rest) (mkL PSValuesDone pos vaf false) st =
    if beq n' s_help && negb (is_set s_disable_help_sub c) then ROk (LHelpSub rest st)
    else ROk (LSub n' false vaf st rest).
Proof. exact accept_sub_step. Qed.
Print Assumptions C18_accept_sub_step.

(** Acceptance theorem, options: every candidate with an option id that the engine offers in state
    [ValueDone] at level [cur] (typed cluster made of flags of the level) is, for the parser model at the
    same level [pc], the start of an occurrence of the argument with that id: the token loop equals
    "occurrence head [h], then the remaining tokens" ... *)
Theorem C18_option_candidate_step : forall tbl w cur pi l cd aid pc,
  assert_app pc = true -> short_aliases_on_options pc -> same_level pc cur ->
  complete_arg tbl w cur pi ValueDone = COk l -> In cd l -> cd_id cd = Some (IdArg aid) ->
  typed_known cur w ->
  exists a, In a (c_args pc) /\ a_id a = aid /\
    (a_is_positional a = false -> names_wf a ->
     forall pos vaf st, quiet_state pc (cd_value cd) pos vaf st ->
       exists h, occ_head pc a h /\
         forall rest, parse_loop pc (cd_value cd :: rest) (mkL PSValuesDone pos vaf false) st
                      = after_opt pc rest pos h).
Proof. exact option_candidate_step. Qed.
Print Assumptions C18_option_candidate_step.

(** ... hence the candidate never produces UnknownArgument / InvalidSubcommand *)
Theorem C18_option_candidate_accepted : forall tbl w cur pi l cd aid pc,
  assert_app pc = true -> short_aliases_on_options pc -> same_level pc cur ->
  complete_arg tbl w cur pi ValueDone = COk l -> In cd l -> cd_id cd = Some (IdArg aid) ->
  typed_known cur w ->
  exists a, In a (c_args pc) /\ a_id a = aid /\
    (a_is_positional a = false -> names_wf a ->
     forall pos vaf st, quiet_state pc (cd_value cd) pos vaf st -> tok_accepted pc (cd_value cd) pos vaf st).
Proof. exact option_candidate_accepted. Qed.
Print Assumptions C18_option_candidate_accepted.

(** Acceptance theorem, subcommands: every candidate with a subcommand id is a name/alias of that
    subcommand of the parser's level, [possible_subcommand] selects it and the token loop stops with the
    dispatch to it - no error at all *)
Theorem C18_subcommand_candidate_accepted : forall tbl w cur pi l cd n pc,
  assert_app pc = true -> same_level pc cur ->
  complete_arg tbl w cur pi ValueDone = COk l -> In cd l -> cd_id cd = Some (IdCmd n) ->
  exists sc, In sc (c_subs pc) /\ c_name sc = n /\ aliases_to sc (cd_value cd) = true /\
    (utf8_valid (cd_value cd) = true -> forall rest pos vaf st, (is_set s_args_negate_subs pc && vaf) = false ->
     exists n', aliases_to sc n' = true /\ find_subcommand pc n' = Some sc /\
       possible_subcommand pc (cd_value cd) vaf = Some n' /\
       parse_loop pc (cd_value cd :: rest) (mkL PSValuesDone pos vaf false) st =
       if beq n' s_help && negb (is_set s_disable_help_sub pc) then ROk (LHelpSub rest st)
       else ROk (LSub n' false vaf st rest)).
Proof. exact subcommand_candidate_accepted. Qed.
Print Assumptions C18_subcommand_candidate_accepted.

(** * Round 2: totality without a fuel gap *)

(** [Command::build] of the model never runs out of fuel: [depth c + 1] units suffice for every command
    (the expanded help tree below a level is as deep as the level itself), a fortiori [2*depth+4] *)
Theorem C18_build_full_enough : forall f c, (depth c + 1 <= f)%nat -> build_full f c <> BFuel.
Proof. exact build_full_enough. Qed.
Print Assumptions C18_build_full_enough.

Theorem C18_build_no_fuel : forall c, build_full (build_fuel c) c <> BFuel.
Proof. exact build_no_fuel. Qed.
Print Assumptions C18_build_no_fuel.

(** ... so the whole model never answers "out of fuel" (with C18_total: candidates, the plain
    "no completion" error, or a command rejected by clap's own debug assertions - nothing else) *)
Theorem C18_model_no_fuel : forall tbl c args i, complete_model tbl c args i <> CFuel.
Proof. exact model_no_fuel. Qed.
Print Assumptions C18_model_no_fuel.

(** * Round 2: completeness for short options and for possible values *)

(** every visible argument with a short name is represented (by its id, visibly) after the empty word,
    [-], and every well-formed cluster [-xyz] of flags none of which takes a value ([short_word]);
    [short_spelling a s]: [s] is the short name or a visible short alias of [a] *)
Theorem C18_complete_shorts : forall tbl w c pi l a s,
  complete_arg tbl w c pi ValueDone = COk l ->
  In a (c_args c) -> a_hide a = false -> short_spelling a s -> short_word c w ->
  exists y, In y l /\ cd_id y = Some (IdArg (a_id a)) /\ cd_hidden y = false.
Proof. exact value_done_complete_short. Qed.
Print Assumptions C18_complete_shorts.

(** an option awaits a value (state [Opt o cnt], minimum not yet reached): every candidate is a DECLARED
    possible value of [o] with its declared hidden flag, behind the already typed [a,b,] prefix, and
    extends the word *)
Theorem C18_value_candidates_sound : forall tbl w c pi o cnt l y,
  complete_arg tbl w c pi (Opt o cnt) = COk l -> (opt_min o <? cnt) = false -> In y l ->
  cd_id y = None /\ is_prefix w (cd_value y) = true /\
  exists pre v pvs, possible_values tbl o = Some (Some pvs) /\ In (v, cd_hidden y) pvs /\ cd_value y = pre ++ v.
Proof. exact opt_state_sound_values. Qed.
Print Assumptions C18_value_candidates_sound.

(** ... in any [Opt] state a candidate is a value candidate of [o] or (minimum reached) a candidate of
    the state [ValueDone] *)
Theorem C18_value_candidates_origin : forall tbl w c pi o cnt l y,
  complete_arg tbl w c pi (Opt o cnt) = COk l -> In y l ->
  (exists lv, complete_arg_value tbl w o = Some lv /\ In y lv) \/
  ((opt_min o <? cnt) = true /\ exists more, complete_arg_value_done tbl w c pi = COk more /\ In y more).
Proof. exact opt_state_sound_gen. Qed.
Print Assumptions C18_value_candidates_origin.

(** ... and every visible declared value extending the last element of the word is offered, with the
    delimiter prefix kept ([a,b,<TAB>] -> [a,b,value]) *)
Theorem C18_value_candidates_complete : forall tbl w c pi o cnt l pvs v pre v0,
  complete_arg tbl w c pi (Opt o cnt) = COk l ->
  possible_values tbl o = Some (Some pvs) -> In (v, false) pvs ->
  utf8_valid v0 = true -> is_prefix v0 v = true ->
  (pre = [] /\ v0 = w /\ rsplit_delimiter w (a_delim o) = None
   \/ rsplit_delimiter w (a_delim o) = Some (pre, v0)) ->
  In (mkCand (pre ++ v) None false) l.
Proof. exact opt_state_complete. Qed.
Print Assumptions C18_value_candidates_complete.

(** the delimiter-prefix form: the split is after the LAST delimiter - the prefix ends with it, the rest
    contains none *)
Theorem C18_delimiter_prefix : forall w d pre v0, rsplit_delimiter w (Some d) = Some (pre, v0) ->
  w = pre ++ v0 /\ exists p0, pre = p0 ++ utf8_encode d.
Proof. exact rsplit_delimiter_some. Qed.
Print Assumptions C18_delimiter_prefix.

Theorem C18_delimiter_last : forall w d pre v0, rsplit_delimiter w (Some d) = Some (pre, v0) ->
  forall x y, v0 <> x ++ utf8_encode d ++ y.
Proof. exact rsplit_delimiter_last. Qed.
Print Assumptions C18_delimiter_last.

(** the word [--flag=<word>]: the candidates are [--flag=] + the value candidates of the argument whose
    LONG NAME is [flag] (both directions) *)
Theorem C18_long_value_sound : forall tbl c flag v l y,
  flag <> [] -> ~ In EQ flag -> utf8_valid flag = true ->
  complete_option tbl (dd ++ flag ++ EQ :: v) c = COk l -> In y l ->
  exists a lv y0, List.find (has_long flag) (c_args c) = Some a /\
    complete_arg_value tbl v a = Some lv /\ In y0 lv /\ y = add_prefix (dd ++ flag ++ [EQ]) y0.
Proof. exact long_value_sound. Qed.
Print Assumptions C18_long_value_sound.

Theorem C18_long_value_complete : forall tbl c pi flag w l a pvs v pre v0,
  complete_arg tbl (dd ++ flag ++ EQ :: w) c pi ValueDone = COk l ->
  flag <> [] -> ~ In EQ flag -> utf8_valid flag = true ->
  List.find (has_long flag) (c_args c) = Some a ->
  possible_values tbl a = Some (Some pvs) -> In (v, false) pvs ->
  utf8_valid v0 = true -> is_prefix v0 v = true ->
  (pre = [] /\ v0 = w /\ rsplit_delimiter w (a_delim a) = None
   \/ rsplit_delimiter w (a_delim a) = Some (pre, v0)) ->
  In (mkCand ((dd ++ flag ++ [EQ]) ++ pre ++ v) None false) l.
Proof. exact value_done_complete_long_value. Qed.
Print Assumptions C18_long_value_complete.

(** ... long names only: behind a visible alias [--alias=<TAB>] offers nothing although [--alias <TAB>]
    offers the values (complete.rs: [a.get_long() == Some(flag)]) *)
Theorem C18_long_alias_value_refuted : exists tbl c a alias v,
    In a (c_args c) /\ In alias (vis_aliases (a_aliases a)) /\
    possible_values tbl a = Some (Some [(v, false)]) /\
    complete_arg_value_done tbl (dd ++ alias ++ [EQ]) c 1 = COk [] /\
    start_walk c [[112]; dd ++ alias; []] 2 = WAt [] c 1 (Opt a 1) false true /\
    complete_arg tbl [] c 1 (Opt a 1) = COk [mkCand v None false].
Proof. exact long_alias_value_refuted. Qed.
Print Assumptions C18_long_alias_value_refuted.

(** * Round 2: the level the engine completes at is the level the parser model reaches *)

(** [lvl_rel pc cur]: the parser's node (built lazily: [build_self] at the root, [build_subcommand] on
    dispatch) and the engine's node (a node of the tree built by [Command::build] = [build_full]) have the same
    arguments and settings and pairwise related children.  Class: no node of the user's tree is built
    already ([tree_all unb]; decidable: [unb_tree]).  The roots are related ... *)
Theorem C18_level_root : forall f c0 b, tree_all unb c0 -> build_full f c0 = BOk b -> lvl_rel (build_self c0) b.
Proof. exact level_root. Qed.
Print Assumptions C18_level_root.

(** ... related nodes are the same level in the sense of the acceptance theorems (same arguments, same
    subcommand names and aliases) and have the same settings ... *)
Theorem C18_level_same : forall pc cur, lvl_rel pc cur ->
  same_level pc cur /\ forall f, is_set f pc = is_set f cur.
Proof. exact (fun pc cur H => conj (lvl_rel_same_level pc cur H) (fun f => lvl_rel_is_set pc cur f H)). Qed.
Print Assumptions C18_level_same.

(** ... and a subcommand name or alias (of a subcommand not called [help]) typed where a new argument may
    start moves BOTH machines to related nodes: the shadow parse descends ([shadow_step]; [evaf] is the engine's
    [valid_arg_found]: on a level with [args_conflicts_with_subcommands] no argument of the level may precede),
    the parser's token loop stops with the dispatch and [build_subcommand] builds the child *)
Theorem C18_level_step_sub : forall pc cur tok sc0 pi evaf, lvl_rel pc cur -> assert_app pc = true ->
  utf8_valid tok = true -> find_subcommand pc tok = Some sc0 -> c_name sc0 <> s_help ->
  (is_set s_args_negate_subs pc && evaf) = false ->
  exists es pc', shadow_step tok cur pi false ValueDone evaf = SNext es 1 false ValueDone false /\
    build_subcommand pc (c_name sc0) = Some pc' /\ lvl_rel pc' es /\
    forall rest pos vaf st, (is_set s_args_negate_subs pc && vaf) = false ->
      exists n', aliases_to sc0 n' = true /\ find_subcommand pc n' = Some sc0 /\
        Parser.parse_loop pc (tok :: rest) (Parser.mkL Parser.PSValuesDone pos vaf false) st =
        if beq n' s_help && negb (is_set s_disable_help_sub pc) then Parser.ROk (Parser.LHelpSub rest st)
        else Parser.ROk (Parser.LSub n' false vaf st rest).
Proof. exact level_step_sub. Qed.
Print Assumptions C18_level_step_sub.

(** [build_self] does not read what [_build_subcommand] sets (bin name, display name) *)
Theorem C18_build_self_names : forall b d x, build_self (setnm b d x) = setnm b d (build_self x).
Proof. exact nm_build_self. Qed.
Print Assumptions C18_build_self_names.

(** * Round 3: state agreement along prefixes that contain options; whole lines

    [elevel pc cur]: the parser's node [pc] passed [assert_app], its short aliases sit on options, every aliased
    argument has a long name, and [lvl_rel pc cur] (same arguments and settings, related children).
    [Chain.prefix_ok pc pre F] (C09): [pre] is a list of items `--flag`, `--opt=v`, `--opt v`, `-abc`, `-ov`, `-o v`
    of the level (exact keys, one value, no [require_equals] on the separate-value forms, values not starting with
    `-` and not subcommand names); [F] is the fold of [react] it denotes.  [shadow_run] = the loop of
    [complete] as a fold of [shadow_step].  [cline root line pcf]: [line] = option prefixes separated by names/aliases
    of subcommands (not called help), every level in the class [lvl18] (decidable: [lvl18_b]); [pcf] is the parser's
    lazily built final level.  [cand_class pcf w cd] (decidable: [cand_class_b]): what is assumed of the candidate -
    option: typed cluster of known flags, the argument carrying the id has well-formed names, no subcommand name of
    the level starts with `-`, the first positional does not want negative numbers; subcommand: UTF-8 spelling. *)

(** the two models read a word identically *)
Theorem C18_lexers_agree : forall s,
  EngineModel.to_long s = Parser.to_long s /\ EngineModel.to_short s = Parser.to_short s /\
  EngineModel.is_escape s = Parser.is_escape s.
Proof. exact lexers_agree. Qed.
Print Assumptions C18_lexers_agree.

(** after an option prefix the engine is back in [ValueDone] - same level, same positional index, not escaped -
    and the parser's token loop is back in [ValuesDone] - same positional counter, `--` not seen *)
Theorem C18_state_agreement_prefix : forall pc cur pre F, elevel pc cur -> Chain.prefix_ok pc pre F ->
  (forall pi vaf, shadow_run pre cur pi false ValueDone vaf = SNext cur pi false ValueDone (vaf || negb (is_nil pre))) /\
  (forall rest pos vaf st, fs_skip st = 0 ->
     parse_loop pc (pre ++ rest) (Chain.lsV pos vaf) st =
     (do st' <- F st; parse_loop pc rest (Chain.lsV pos (vaf || negb (is_nil pre))) st')).
Proof. exact state_agreement_prefix. Qed.
Print Assumptions C18_state_agreement_prefix.

(** ... and after `--opt` / `-o` of an option that takes a value ([open_tok]) the engine stands in [Opt a 1]
    exactly where the parser stands in [PSOpt (a_id a)]: the same argument, nothing collected yet *)
Theorem C18_state_agreement_open : forall pc cur pre F tok a idn,
  elevel pc cur -> Chain.prefix_ok pc pre F -> open_tok pc tok a idn ->
  (forall pi vaf, shadow_run (pre ++ [tok]) cur pi false ValueDone vaf = SNext cur pi false (Opt a 1) true) /\
  (forall rest pos vaf st, fs_skip st = 0 ->
     parse_loop pc (pre ++ tok :: rest) (Chain.lsV pos vaf) st =
     (do st' <- F st; do st1 <- resolve_pending pc st';
      parse_loop pc rest (mkL (PSOpt (a_id a)) pos true false)
        (mkPs (Matcher.mkMatcher (Matcher.mt_args (mt st1)) (Some (Matcher.mkPending (a_id a) (Some idn) [] None)) (Matcher.mt_sub (mt st1)))
              (cur_idx st1) (fs_at st1) (fs_skip st1)))).
Proof. exact state_agreement_open. Qed.
Print Assumptions C18_state_agreement_open.

(** whole lines, engine side: with the cursor behind [line] the shadow parse of [complete] stands in [ValueDone],
    before `--`, at a level related to the level [pcf] the parser model reaches *)
Theorem C18_shadow_line : forall c0 bin line w after pcf f b,
  tree_all unb c0 -> is_set s_no_binary_name c0 = false -> N.of_nat (length line) + 2 <= usize_max ->
  build_full f c0 = BOk b -> cline (build_self (ActionsTop.with_bin c0 bin)) line pcf ->
  exists curf pif evf, start_walk b (bin :: line ++ w :: after) (N.of_nat (S (length line))) = WAt w curf pif ValueDone false evf
                   /\ lvl_rel pcf curf.
Proof. exact shadow_line. Qed.
Print Assumptions C18_shadow_line.

(** END TO END: every option / subcommand candidate the engine offers at the cursor behind such a line, put in
    place of the word, gives a line that [parse_top] does not reject with UnknownArgument / InvalidSubcommand *)
Theorem C18_candidate_accepted_line : forall tbl c0 bin line w after l cd pcf e,
  tree_all unb c0 -> is_set s_no_binary_name c0 = false ->
  N.of_nat (length line) + 2 <= usize_max ->
  cline (build_self (ActionsTop.with_bin c0 bin)) line pcf ->
  complete_model tbl c0 (bin :: line ++ w :: after) (N.of_nat (S (length line))) = COk l ->
  In cd l -> cand_class pcf w cd ->
  parse_top c0 (bin :: line ++ [cd_value cd]) = OErr e -> ~ unknown_kind (e_kind e).
Proof. exact candidate_accepted_line. Qed.
Print Assumptions C18_candidate_accepted_line.

(** the classes of the line theorem are decidable *)
Theorem C18_line_classes_decidable :
  (forall pc, lvl18_b pc = true -> lvl18 pc) /\ (forall pcf w cd, cand_class_b pcf w cd = true -> cand_class pcf w cd).
Proof. exact line_classes_decidable. Qed.
Print Assumptions C18_line_classes_decidable.

(** [require_equals], finding C18-require-equals, BEFORE / AFTER the repair (docs/pending/engine_require_equals_fix.diff):
    `p(--pf; --opt[=<v>] 0..=1 values, require_equals, possible value `va`) -> sub(--so)`.  For the parser `--opt` without `=` is a complete
    occurrence: `p --opt sub` is accepted at `sub`.  Before: the engine waited for a value behind `--opt` - `p --opt <TAB>` offered `va`
    (`p --opt va`: InvalidSubcommand) and behind `p --opt sub` it stood at `p` and offered `--pf` (`p --opt sub --pf`: UnknownArgument).
    After: [ValueDone] behind `--opt`; behind `p --opt sub` the engine is at `sub`, offers `--so`, not `--pf` (same on the real crate) *)
Theorem C18_require_equals_before_after :
  (* the parser *)
  ReqEq.chain_of (parse_top ReqEq.c0 [[112]; ReqEq.dd ReqEq.w_opt]) = Some [] /\
  ReqEq.chain_of (parse_top ReqEq.c0 [[112]; ReqEq.dd ReqEq.w_opt; ReqEq.w_sub]) = Some [ReqEq.w_sub] /\
  ReqEq.kind_of (parse_top ReqEq.c0 [[112]; ReqEq.dd ReqEq.w_opt; ReqEq.w_va]) = Some EInvalidSubcommand /\
  ReqEq.kind_of (parse_top ReqEq.c0 [[112]; ReqEq.dd ReqEq.w_opt; ReqEq.w_sub; ReqEq.dd ReqEq.w_pf]) = Some EUnknownArgument /\
  ReqEq.chain_of (parse_top ReqEq.c0 [[112]; ReqEq.dd ReqEq.w_opt; ReqEq.w_sub; ReqEq.dd ReqEq.w_so]) = Some [ReqEq.w_sub] /\
  (* before *)
  ReqEq.walk_at_before [[112]; ReqEq.dd ReqEq.w_opt; []] 2 = Some ([112], 1) /\
  ReqEq.has_cand ReqEq.w_va None (complete_model_before_reqfix ReqEq.tbl ReqEq.c0 [[112]; ReqEq.dd ReqEq.w_opt; []] 2) = true /\
  ReqEq.walk_at_before [[112]; ReqEq.dd ReqEq.w_opt; ReqEq.w_sub; [45; 45]] 3 = Some ([112], 0) /\
  ReqEq.has_cand (ReqEq.dd ReqEq.w_pf) (Some (IdArg ReqEq.w_pf))
    (complete_model_before_reqfix ReqEq.tbl ReqEq.c0 [[112]; ReqEq.dd ReqEq.w_opt; ReqEq.w_sub; [45; 45]] 3) = true /\
  (* after *)
  ReqEq.walk_at [[112]; ReqEq.dd ReqEq.w_opt; []] 2 = Some ([112], 0) /\
  ReqEq.has_cand ReqEq.w_va None (complete_model ReqEq.tbl ReqEq.c0 [[112]; ReqEq.dd ReqEq.w_opt; []] 2) = false /\
  ReqEq.has_cand ReqEq.w_sub (Some (IdCmd ReqEq.w_sub)) (complete_model ReqEq.tbl ReqEq.c0 [[112]; ReqEq.dd ReqEq.w_opt; []] 2) = true /\
  ReqEq.walk_at [[112]; ReqEq.dd ReqEq.w_opt; ReqEq.w_sub; [45; 45]] 3 = Some (ReqEq.w_sub, 0) /\
  ReqEq.has_cand (ReqEq.dd ReqEq.w_pf) (Some (IdArg ReqEq.w_pf))
    (complete_model ReqEq.tbl ReqEq.c0 [[112]; ReqEq.dd ReqEq.w_opt; ReqEq.w_sub; [45; 45]] 3) = false /\
  ReqEq.has_cand (ReqEq.dd ReqEq.w_so) (Some (IdArg ReqEq.w_so))
    (complete_model ReqEq.tbl ReqEq.c0 [[112]; ReqEq.dd ReqEq.w_opt; ReqEq.w_sub; [45; 45]] 3) = true.
Proof. exact require_equals_before_after. Qed.
Print Assumptions C18_require_equals_before_after.

(** C18_complete_options needs its hypothesis [a_long a <> None]: a VISIBLE alias of an option without long name
    (a key of the parser) extends the word `--`, yet no candidate carries the option's id
    (known finding C18-alias-without-primary: the real engine behaves the same) *)
Theorem C18_complete_options_alias_refuted : exists tbl w c pi l a s,
  assert_app c = true /\ complete_arg tbl w c pi ValueDone = COk l /\
  In a (c_args c) /\ a_hide a = false /\ In s (vis_aliases (a_aliases a)) /\
  ~ In EQ s /\ utf8_valid w = true /\ is_prefix w (EngineModel.dd ++ s) = true /\ get_long c s = Some a /\
  existsb (fun y => opt_cid_eqb (cd_id y) (Some (IdArg (a_id a)))) l = false.
Proof. exact complete_options_alias_refuted. Qed.
Print Assumptions C18_complete_options_alias_refuted.

(** * Round 3: positional value candidates, the hidden rule for values, after `--` *)

(** the hidden rule for VALUES, state [Opt]: a declared value of any visibility extending the word is offered
    unless a visible candidate is (for a visible value C18_value_candidates_complete says more) *)
Theorem C18_value_candidates_complete_any : forall tbl w c pi o cnt l pvs v h pre v0,
  complete_arg tbl w c pi (Opt o cnt) = COk l ->
  possible_values tbl o = Some (Some pvs) -> In (v, h) pvs ->
  utf8_valid v0 = true -> is_prefix v0 v = true ->
  (pre = [] /\ v0 = w /\ rsplit_delimiter w (a_delim o) = None
   \/ rsplit_delimiter w (a_delim o) = Some (pre, v0)) ->
  In (mkCand (pre ++ v) None h) l \/ exists y, In y l /\ cd_hidden y = false.
Proof. exact opt_state_complete_any. Qed.
Print Assumptions C18_value_candidates_complete_any.

(** state [ValueDone]: a candidate WITHOUT id is a value candidate of the positional at [pos_index] or comes from
    [complete_option] (the `--flag=value` / `-fvalue` forms, see C18_long_value_sound) *)
Theorem C18_noid_candidates_origin : forall tbl w c pi l y,
  complete_arg tbl w c pi ValueDone = COk l -> In y l -> cd_id y = None ->
  (exists p lv, find_pos c pi = Some p /\ complete_arg_value tbl w p = Some lv /\ In y lv)
  \/ (exists opts, complete_option tbl w c = COk opts /\ In y opts).
Proof. exact value_done_noid_origin. Qed.
Print Assumptions C18_noid_candidates_origin.

(** ... for a plain word (not starting with `-`): it is a DECLARED possible value of that positional, with its
    declared hidden flag, behind the typed delimiter prefix, and extends the word *)
Theorem C18_positional_values_sound : forall tbl b t c pi l y, b <> DASH ->
  complete_arg tbl (b :: t) c pi ValueDone = COk l -> In y l -> cd_id y = None ->
  exists p, find_pos c pi = Some p /\ is_prefix (b :: t) (cd_value y) = true /\
    exists pre v pvs, possible_values tbl p = Some (Some pvs) /\ In (v, cd_hidden y) pvs /\ cd_value y = pre ++ v.
Proof. exact positional_values_sound. Qed.
Print Assumptions C18_positional_values_sound.

(** every visible declared value of the positional at [pos_index] extending the last element of the word is offered *)
Theorem C18_positional_values_complete : forall tbl w c pi l p pvs v pre v0,
  complete_arg tbl w c pi ValueDone = COk l -> find_pos c pi = Some p ->
  possible_values tbl p = Some (Some pvs) -> In (v, false) pvs ->
  utf8_valid v0 = true -> is_prefix v0 v = true ->
  (pre = [] /\ v0 = w /\ rsplit_delimiter w (a_delim p) = None
   \/ rsplit_delimiter w (a_delim p) = Some (pre, v0)) ->
  In (mkCand (pre ++ v) None false) l.
Proof. exact positional_values_complete. Qed.
Print Assumptions C18_positional_values_complete.

(** ... and a hidden one unless a visible candidate is *)
Theorem C18_positional_values_complete_any : forall tbl w c pi l p pvs v h pre v0,
  complete_arg tbl w c pi ValueDone = COk l -> find_pos c pi = Some p ->
  possible_values tbl p = Some (Some pvs) -> In (v, h) pvs ->
  utf8_valid v0 = true -> is_prefix v0 v = true ->
  (pre = [] /\ v0 = w /\ rsplit_delimiter w (a_delim p) = None
   \/ rsplit_delimiter w (a_delim p) = Some (pre, v0)) ->
  In (mkCand (pre ++ v) None h) l \/ exists y, In y l /\ cd_hidden y = false.
Proof. exact positional_values_complete_any. Qed.
Print Assumptions C18_positional_values_complete_any.

(** state [Pos idx cnt] (a multi-value positional is being filled): candidates are values of the positional at
    [pos_index], option candidates only once its minimum number of values is reached; nothing without a positional *)
Theorem C18_pos_state_origin : forall tbl w c pi idx cnt l p y,
  complete_arg tbl w c pi (Pos idx cnt) = COk l -> find_pos c pi = Some p -> In y l ->
  (exists lv, complete_arg_value tbl w p = Some lv /\ In y lv) \/
  (pos_min_reached p cnt = true /\ exists opts, complete_option tbl w c = COk opts /\ In y opts).
Proof. exact pos_state_origin. Qed.
Print Assumptions C18_pos_state_origin.

Theorem C18_pos_state_complete : forall tbl w c pi idx cnt l p pvs v pre v0,
  complete_arg tbl w c pi (Pos idx cnt) = COk l -> find_pos c pi = Some p ->
  possible_values tbl p = Some (Some pvs) -> In (v, false) pvs ->
  utf8_valid v0 = true -> is_prefix v0 v = true ->
  (pre = [] /\ v0 = w /\ rsplit_delimiter w (a_delim p) = None
   \/ rsplit_delimiter w (a_delim p) = Some (pre, v0)) ->
  In (mkCand (pre ++ v) None false) l.
Proof. exact pos_state_complete. Qed.
Print Assumptions C18_pos_state_complete.

Theorem C18_pos_state_none : forall tbl w c pi idx cnt,
  find_pos c pi = None -> complete_arg tbl w c pi (Pos idx cnt) = COk [].
Proof. exact pos_state_none. Qed.
Print Assumptions C18_pos_state_none.

(** after `--`: one step of the shadow parse descends on a subcommand name or counts a positional value - no token
    is read as an option; the escape flag stays ... *)
Theorem C18_escaped_step : forall arg cur pi st vaf,
  shadow_step arg cur pi true st vaf =
  match (if try_sub cur st && negb (is_set s_args_negate_subs cur && vaf) && utf8_valid arg then find_subcommand cur arg else None) with
  | Some next => SNext next 1 true ValueDone false
  | None => match parse_positional cur pi true st arg with
            | Some (st', pi') => SNext cur pi' true st' true
            | None => SPanic 673
            end
  end.
Proof. exact escaped_step. Qed.
Print Assumptions C18_escaped_step.

(** ... and a counted value leaves the state [Pos], never [ValueDone] *)
Theorem C18_escaped_positional_state : forall cur pi st w st' pi',
  (match st with Opt _ _ => False | _ => True end) ->
  parse_positional cur pi true st w = Some (st', pi') -> exists i n, st' = Pos i n.
Proof. exact escaped_positional_state. Qed.
Print Assumptions C18_escaped_positional_state.

(** the planned statement "after `--` only positional values are offered" is FALSE of the model (and of the crate):
    `p -- <TAB>` offers `--opt` and `sub`, `p -- a <TAB>` offers `--opt` (outside the property: "before any `--`") *)
Theorem C18_escape_only_positionals_refuted :
  Esc.has_cand (dd ++ Esc.w_opt) (complete_model [] Esc.c0 [[112]; dd; []] 2) = true /\
  Esc.has_cand Esc.w_sub (complete_model [] Esc.c0 [[112]; dd; []] 2) = true /\
  Esc.has_cand (dd ++ Esc.w_opt) (complete_model [] Esc.c0 [[112]; dd; [97]; []] 3) = true.
Proof. exact escape_offers_options. Qed.
Print Assumptions C18_escape_only_positionals_refuted.

(** * Round 4: lines with POSITIONAL values; [args_conflicts_with_subcommands] (Complete/EngineWide.v)

    [item18]: C09's option items ([Chain.item]: `--flag`, `--opt=v`, `--opt v`, `-abc`, `-ov`, `-o v`) plus `-o=v` and
    multi-valued options `--opt v1 .. vk` / `-o v1 .. vk` with [k] = the maximum of the range, the values plain words that
    are neither subcommand names nor the option's terminator ([value_tok]), and (round 5) `--opt v1 .. vj ;` / `-o v1 .. vj ;`
    with [j] below the maximum followed by the option's value TERMINATOR, or - on a level without hyphen-accepting arguments -
    by another item ([i18_long_partial] / [i18_short_partial]: a partially filled occurrence ends at a word that looks like an
    option).  [pitems18 c pos pre F pos']: items, values
    of single-valued positionals and (round 5) the terminator of the positional at the counter, alone ([p18_term]) or behind
    [k] values of that multi-valued positional ([p18_multi_term], [k] below the engine's [eng_num_args]); [pos]/[pos'] the
    positional counter before and after.
    [body18 pc pre F pst pos est epos]: [pre] are the arguments of one level - options and values of single-valued
    positionals ([pitems18], the counter starts at 1), optionally followed by [k] values of a multi-valued
    positional [a] ([ChainWide.multi_vals], [k] below the engine's [eng_num_args a]); [F] is the parser's state
    transformer, [pst]/[pos] the parser's loop state and positional counter behind them, [est]/[epos] the engine's state and
    [pos_index]: [ValueDone] resp. [Pos pos k] at [pos], or [ValueDone] at [pos + 1] behind the last value a bounded positional admits.  [pline pc line pcf posf vf]: `body_0 n_1 body_1 ... n_k pre_k`, every [n_i] a
    subcommand name/alias read where the parser looks for one ([may_select]: between arguments, or behind the values
    of a multi-valued positional if THE LEVEL REACHED sets [subcommand_precedence_over_arg]); a level with
    [args_conflicts_with_subcommands] is left only before any of its own arguments (behind one, a subcommand NAME is a
    positional value for both machines: [p18_pos]); [posf]/[vf]: the parser's positional counter and "an argument was
    seen" flag at the final level [pcf].  [pitems18 c vaf pos pre F pos']: [vaf] is that flag before [pre]. *)

(** STATE AGREEMENT on an item of the wider class: the engine is back in [ValueDone] (same level, same index) and the
    parser's loop is the item's transformer [F], then the loop on the rest in [ValuesDone] *)
Theorem C18_state_agreement_item18 : forall pc cur toks F, elevel pc cur -> item18 pc toks F ->
  (forall pi vaf, shadow_run toks cur pi false ValueDone vaf = SNext cur pi false ValueDone true) /\
  (forall rest pos vaf st, fs_skip st = 0 ->
     parse_loop pc (toks ++ rest) (Chain.lsV pos vaf) st = (do st' <- F st; parse_loop pc rest (Chain.lsV pos true) st')).
Proof. exact state_agreement_item18. Qed.
Print Assumptions C18_state_agreement_item18.

(** ... and INSIDE a multi-valued occurrence: after `--opt v1 .. vj`, [j] below the maximum of the range, the engine stands
    in [Opt a (j+1)] where the parser stands in [PSOpt (a_id a)] with exactly [v1 .. vj] pending *)
Theorem C18_values_agree : forall pc cur tok f a r vs, elevel pc cur ->
  Chain.no_sub pc tok -> Parser.to_long tok = Some (f, true, None) -> get_long pc f = Some a -> a_takes_value a = true ->
  a_req_eq a = false -> find_arg pc (a_id a) = Some a -> a_num a = Some r ->
  N.of_nat (length vs) < vmax r -> Forall (value_tok pc a) vs ->
  (forall pi evaf, shadow_run (tok :: vs) cur pi false ValueDone evaf = SNext cur pi false (Opt a (1 + N.of_nat (length vs))) true) /\
  (forall rest pos vaf st,
     parse_loop pc (tok :: vs ++ rest) (Chain.lsV pos vaf) st =
     (do st' <- sepm_fn pc ILong a vs st; parse_loop pc rest (mkL (PSOpt (a_id a)) pos true false) st')).
Proof. exact values_agree. Qed.
Print Assumptions C18_values_agree.

(** VALUE TERMINATORS, finding C18-value-terminator, BEFORE / AFTER the repair (docs/pending/engine_value_terminator_fix.diff).
    Option, `p(--opt <v>{1..3} terminator ";") -> sub(--so)`: the parser ACCEPTS `p --opt a ; sub` and is at `sub`.  Before: the
    engine counted `;` as a value ([Opt _ 3] behind `p --opt a ;`), took `sub` for the third value, stayed at `p`, offered `--opt`
    of `p`; `p --opt a ; sub --opt` is rejected with UnknownArgument.  After: [ValueDone] at `p` behind `;`, at `sub` behind
    `sub`; `--so` is offered, `--opt` is not.  Positional, `p(--pf; <files>{1..} terminator ";") -> sub(--so)`, `p a ; sub`:
    before [Pos _ 3] at `p`, `--pf` offered (UnknownArgument); after [ValueDone] at `sub`.  Same on the real crate
    (corpus/C18/accept.value-terminator.cases) *)
Theorem C18_terminator_before_after :
  (* option: the parser *)
  Term.chain_of (parse_top Term.c0 ([112] :: Term.line)) = Some [Term.w_sub] /\
  Term.kind_of (parse_top Term.c0 ([112] :: Term.line ++ [Term.ddopt])) = Some EUnknownArgument /\
  Term.chain_of (parse_top Term.c0 ([112] :: Term.line ++ [Term.dd Term.w_so])) = Some [Term.w_sub] /\
  (* option: before *)
  Term.walk_at_before Term.c0 ([112] :: [Term.ddopt; [97]; Term.semi] ++ [[]]) 4 = Some ([112], 3) /\
  Term.walk_at_before Term.c0 ([112] :: Term.line ++ [[45; 45]]) 5 = Some ([112], 0) /\
  Term.has_cand Term.ddopt (IdArg Term.w_opt) (complete_model_before_termfix [] Term.c0 ([112] :: Term.line ++ [[45; 45]]) 5) = true /\
  (* option: after *)
  Term.walk_at Term.c0 ([112] :: [Term.ddopt; [97]; Term.semi] ++ [[]]) 4 = Some ([112], 0) /\
  Term.walk_at Term.c0 ([112] :: Term.line ++ [[45; 45]]) 5 = Some (Term.w_sub, 0) /\
  Term.has_cand Term.ddopt (IdArg Term.w_opt) (complete_model [] Term.c0 ([112] :: Term.line ++ [[45; 45]]) 5) = false /\
  Term.has_cand (Term.dd Term.w_so) (IdArg Term.w_so) (complete_model [] Term.c0 ([112] :: Term.line ++ [[45; 45]]) 5) = true /\
  (* positional: the parser *)
  Term.chain_of (parse_top Term.c1 ([112] :: Term.line1)) = Some [Term.w_sub] /\
  Term.kind_of (parse_top Term.c1 ([112] :: Term.line1 ++ [Term.dd Term.w_pf])) = Some EUnknownArgument /\
  (* positional: before *)
  Term.walk_at_before Term.c1 ([112] :: Term.line1 ++ [[45; 45]]) 4 = Some ([112], 3) /\
  Term.has_cand (Term.dd Term.w_pf) (IdArg Term.w_pf) (complete_model_before_termfix [] Term.c1 ([112] :: Term.line1 ++ [[45; 45]]) 4) = true /\
  (* positional: after *)
  Term.walk_at Term.c1 ([112] :: Term.line1 ++ [[45; 45]]) 4 = Some (Term.w_sub, 0) /\
  Term.has_cand (Term.dd Term.w_pf) (IdArg Term.w_pf) (complete_model [] Term.c1 ([112] :: Term.line1 ++ [[45; 45]]) 4) = false /\
  Term.has_cand (Term.dd Term.w_so) (IdArg Term.w_so) (complete_model [] Term.c1 ([112] :: Term.line1 ++ [[45; 45]]) 4) = true.
Proof. exact terminator_before_after. Qed.
Print Assumptions C18_terminator_before_after.

(** ONE STEP ON THE TERMINATOR, both machines (repaired engine).  (1) an option [a] pending with any number of values:
    both are back between arguments, nothing is pushed; (2) between arguments and (3) while the positional [a] at the counter
    is being filled: both move the index / counter on and are back between arguments ([term_at]: the positional at the
    counter, not [last], not [trailing_var_arg], no low-index multiples / [allow_missing_positional] on the level; [term_fn]:
    the parser flushes the pending occurrence of another argument) *)
Theorem C18_terminator_step_agreement : forall pc cur t, elevel pc cur -> ChainWide.plain_tok t ->
  (forall a j pi evaf rest pos vaf st,
     Chain.no_sub pc t -> find_arg pc (a_id a) = Some a -> check_terminator a t = true ->
     shadow_step t cur pi false (Opt a j) evaf = SNext cur pi false ValueDone evaf /\
     parse_loop pc (t :: rest) (mkL (PSOpt (a_id a)) pos vaf false) st = parse_loop pc rest (Chain.lsV pos vaf) st) /\
  (forall a pos evaf rest st,
     possible_subcommand pc t evaf = None -> term_at pc pos a t ->
     shadow_step t cur pos false ValueDone evaf = SNext cur (pos + 1) false ValueDone true /\
     parse_loop pc (t :: rest) (Chain.lsV pos evaf) st =
     (do st' <- term_fn pc a st; parse_loop pc rest (Chain.lsV (pos + 1) true) st')) /\
  (forall a pos k evaf rest st,
     (is_set s_sub_precedence pc = true -> Chain.no_sub pc t) -> term_at pc pos a t ->
     shadow_step t cur pos false (Pos pos k) evaf = SNext cur (pos + 1) false ValueDone true /\
     parse_loop pc (t :: rest) (mkL (PSPos (a_id a)) pos evaf false) st =
     (do st' <- term_fn pc a st; parse_loop pc rest (Chain.lsV (pos + 1) true) st')).
Proof. exact terminator_step_agreement. Qed.
Print Assumptions C18_terminator_step_agreement.

(** A WORD THAT LOOKS LIKE AN OPTION WHILE AN OPTION IS STILL COLLECTING VALUES (partially filled occurrence): both machines
    stand in "option [a] pending" with any number of values; no argument of the level accepts hyphen values or negative
    numbers ([hyphen_free]); the word is lexed as an exact long key or as a non-empty short cluster ([dash_tok]).  BOTH handle it
    exactly as between arguments - the pending occurrence ends.  (Whether it had its minimum is decided by the parser's flush in
    the next [react]: TooFewValues-class errors, never an "unknown" one; [EngineTerm.PartialLine].)  With it the class [item18]
    contains `--opt v1 .. vj <item>` / `-o v1 .. vj <item>` for [j] below the maximum ([i18_long_partial], [i18_short_partial]). *)
Theorem C18_pending_option_dash_agreement : forall pc cur tok a, elevel pc cur -> hyphen_free pc ->
  find_arg pc (a_id a) = Some a -> dash_tok pc tok ->
  (forall k pi evaf, shadow_step tok cur pi false (Opt a k) evaf = shadow_step tok cur pi false ValueDone evaf) /\
  (forall rest pos vaf st, fs_skip st = 0 ->
     parse_loop pc (tok :: rest) (mkL (PSOpt (a_id a)) pos vaf false) st = parse_loop pc (tok :: rest) (Chain.lsV pos vaf) st).
Proof. exact pending_option_dash_agreement. Qed.
Print Assumptions C18_pending_option_dash_agreement.

(** KNOWN FINDING C18-low-index-multiples (found in round 5, not repaired): the engine has no counterpart of the parser's
    "low index multiples" correction of the positional counter.  `p(--pf; <files>.. required; <dst> required) -> sub(--so)`: the
    parser accepts `p a b sub` (files = [a], dst = b, dispatch to `sub`: at the second-to-last counter it peeks at the next word);
    the engine keeps filling `files` ([Pos 1 3] at `p`), offers `--pf` of `p`, and `p a b sub --pf` is UnknownArgument.  The
    class [ChainWide.pos_plain] (no low-index multiples) of the state-agreement theorems is necessary.  Same on the real crate *)
Theorem C18_low_index_multiples_refuted :
  LowIndex.chain_of (parse_top LowIndex.c0 ([112] :: LowIndex.line)) = Some [LowIndex.w_sub] /\
  LowIndex.stands LowIndex.c0 ([112] :: LowIndex.line ++ [[45; 45]]) 4 = Some ([112], 1, 3) /\
  LowIndex.has_cand (LowIndex.ddw LowIndex.w_pf) (IdArg LowIndex.w_pf)
    (complete_model [] LowIndex.c0 ([112] :: LowIndex.line ++ [[45; 45]]) 4) = true /\
  LowIndex.kind_of (parse_top LowIndex.c0 ([112] :: LowIndex.line ++ [LowIndex.ddw LowIndex.w_pf])) = Some EUnknownArgument.
Proof. exact low_index_multiples_refuted. Qed.
Print Assumptions C18_low_index_multiples_refuted.

(** KNOWN FINDINGS C18-infer-subcommands / C18-infer-long-args (found in round 5, not repaired): the engine knows neither
    [Command::infer_subcommands] nor [Command::infer_long_args].  (1) `p(--pf; infer_subcommands) -> sub(--so)`: the parser reads `su` as
    `sub` and accepts `p su`; the engine stays at `p`, offers `--pf`; `p su --pf` is UnknownArgument.  (2) `p(--pf; --option <v>;
    infer_long_args) -> sub(--so)`: the parser reads `--opti` as `--option` with the value `sub` (`p --opti sub` accepted at `p`); the
    engine does not recognise `--opti`, descends on `sub`, offers `--so`; `p --opti sub --so` is UnknownArgument.  Same on the real crate *)
Theorem C18_inferred_names_refuted :
  Infer.chain_of (parse_top Infer.c1 [[112]; Infer.su]) = Some [Infer.w_sub] /\
  Infer.level_at Infer.c1 [[112]; Infer.su; [45; 45]] 2 = Some [112] /\
  Infer.has_cand (Infer.ddw Infer.w_pf) (IdArg Infer.w_pf) (complete_model [] Infer.c1 [[112]; Infer.su; [45; 45]] 2) = true /\
  Infer.kind_of (parse_top Infer.c1 [[112]; Infer.su; Infer.ddw Infer.w_pf]) = Some EUnknownArgument /\
  Infer.chain_of (parse_top Infer.c2 [[112]; Infer.opti; Infer.w_sub]) = Some [] /\
  Infer.level_at Infer.c2 [[112]; Infer.opti; Infer.w_sub; [45; 45]] 3 = Some Infer.w_sub /\
  Infer.has_cand (Infer.ddw Infer.w_so) (IdArg Infer.w_so) (complete_model [] Infer.c2 [[112]; Infer.opti; Infer.w_sub; [45; 45]] 3) = true /\
  Infer.kind_of (parse_top Infer.c2 [[112]; Infer.opti; Infer.w_sub; Infer.ddw Infer.w_so]) = Some EUnknownArgument.
Proof. exact inferred_names_refuted. Qed.
Print Assumptions C18_inferred_names_refuted.

(** KNOWN FINDING C18-flag-subcommands (an observation since round 1; by the letter of the property a violation; not repaired): the engine
    does not know flag-subcommands.  `p(--pf) -> sync(long_flag sync, short_flag S; --so)`: the parser accepts `p --sync` and `p -S`
    (dispatch to `sync`); the engine skips the unknown flag, stays at `p`, offers `--pf`; `p --sync --pf` and `p -S --pf` are
    UnknownArgument (same on the real crate) *)
Theorem C18_flag_subcommands_refuted :
  FlagSub.chain_of (parse_top FlagSub.c0 [[112]; FlagSub.ddw FlagSub.w_sync]) = Some [FlagSub.w_sync] /\
  FlagSub.chain_of (parse_top FlagSub.c0 [[112]; [45; 83]]) = Some [FlagSub.w_sync] /\
  FlagSub.level_at [[112]; FlagSub.ddw FlagSub.w_sync; [45; 45]] 2 = Some [112] /\
  FlagSub.level_at [[112]; [45; 83]; [45; 45]] 2 = Some [112] /\
  FlagSub.has_cand (FlagSub.ddw FlagSub.w_pf) (IdArg FlagSub.w_pf) (complete_model [] FlagSub.c0 [[112]; FlagSub.ddw FlagSub.w_sync; [45; 45]] 2) = true /\
  FlagSub.has_cand (FlagSub.ddw FlagSub.w_pf) (IdArg FlagSub.w_pf) (complete_model [] FlagSub.c0 [[112]; [45; 83]; [45; 45]] 2) = true /\
  FlagSub.kind_of (parse_top FlagSub.c0 [[112]; FlagSub.ddw FlagSub.w_sync; FlagSub.ddw FlagSub.w_pf]) = Some EUnknownArgument /\
  FlagSub.kind_of (parse_top FlagSub.c0 [[112]; [45; 83]; FlagSub.ddw FlagSub.w_pf]) = Some EUnknownArgument.
Proof. exact flag_subcommands_refuted. Qed.
Print Assumptions C18_flag_subcommands_refuted.

(** * Round 5: lines with the ESCAPE `--` (Complete/EngineEscape.v) - beyond the letter of the property, whose acceptance clause
      speaks of positions "before any `--`"

    [esc_level c]: no low-index multiples, no [allow_missing_positional], no [last(true)] argument.  [room c toks pos]: every word
    of [toks] finds a positional, the counter starting at [pos] (the trailing-mode loop: the terminator of the positional at the
    counter and a value of a single-valued positional move it on, a value of a multi-valued positional does not).
    [escvals c pos vals pos']: values (or the terminator) of single-valued positionals, then optionally values of a multi-valued
    positional below the engine's [num_args]; none is a subcommand name (the ENGINE still looks words up as subcommands behind
    `--`; the parser does not). *)

(** the two machines behind `--`, side by side *)
Theorem C18_escaped_agreement : forall pc cur pos vals pos' vaf, elevel pc cur -> esc_level pc ->
  possible_subcommand pc ESC vaf = None -> escvals pc pos vals pos' ->
  (exists est', shadow_run (ESC :: vals) cur pos false ValueDone vaf = SNext cur pos' true est' (vaf || negb (is_nil vals)) /\
                (vals = [] -> est' = ValueDone) /\ (vals <> [] -> exists p n, est' = Pos p n)) /\
  (forall tail st, room pc tail pos' ->
     parse_loop pc (ESC :: vals ++ tail) (Chain.lsV pos vaf) st =
     parse_loop pc (vals ++ tail) (mkL PSValuesDone pos vaf true) (esc_state st) /\
     (forall e s, parse_loop pc (ESC :: vals ++ tail) (Chain.lsV pos vaf) st = RErr e s -> reaction_error pc e) /\
     (forall lr, parse_loop pc (ESC :: vals ++ tail) (Chain.lsV pos vaf) st = ROk lr -> exists st', lr = LDone st')).
Proof. exact escaped_agreement. Qed.
Print Assumptions C18_escaped_agreement.

(** END TO END, parser: a line of the class [pline], then `--`, then words that all find a positional at the final level: the
    completed line is never rejected with UnknownArgument / InvalidSubcommand - whatever the words look like *)
Theorem C18_escaped_accepted : forall c0 bin line pcf posf vf toks e,
  is_set s_no_binary_name c0 = false ->
  pline (build_self (ActionsTop.with_bin c0 bin)) line pcf posf vf ->
  esc_level pcf -> possible_subcommand pcf ESC vf = None -> room pcf toks posf ->
  parse_top c0 (bin :: line ++ ESC :: toks) = OErr e -> ~ unknown_kind (e_kind e).
Proof. exact escaped_accepted. Qed.
Print Assumptions C18_escaped_accepted.

(** END TO END with an escape, `line -- v1 .. vk <TAB>`: EVERY candidate the engine offers behind at least one escaped value stands
    where a positional is left (otherwise the engine offers nothing: [C18_pos_state_none]), so the completed line is never rejected
    as "unknown"; directly behind `--` (state [ValueDone]) that needs a positional at the counter *)
Theorem C18_candidate_accepted_escaped : forall tbl c0 bin line vals w after l cd pcf posf vf pos' e,
  tree_all unb c0 -> is_set s_no_binary_name c0 = false ->
  N.of_nat (length (line ++ ESC :: vals)) + 2 <= usize_max ->
  pline (build_self (ActionsTop.with_bin c0 bin)) line pcf posf vf ->
  esc_level pcf -> possible_subcommand pcf ESC vf = None ->
  escvals pcf posf vals pos' -> (vals = [] -> get_pos pcf posf <> None) ->
  complete_model tbl c0 (bin :: (line ++ ESC :: vals) ++ w :: after) (N.of_nat (S (length (line ++ ESC :: vals)))) = COk l ->
  In cd l ->
  parse_top c0 (bin :: line ++ ESC :: vals ++ [cd_value cd]) = OErr e -> ~ unknown_kind (e_kind e).
Proof. exact candidate_accepted_escaped. Qed.
Print Assumptions C18_candidate_accepted_escaped.

(** the class boundary: `p(--opt <v>) -> sub` has no positional; directly behind `--` the engine still offers `--opt` and `sub`;
    `p -- --opt` -> InvalidSubcommand, `p -- sub` -> UnknownArgument (same on the real crate; outside the property) *)
Theorem C18_escape_no_positional_refuted :
  EscLine.has_cand (EscLine.ddw EscLine.w_opt) (IdArg EscLine.w_opt) (complete_model [] EscLine.ext0 [[112]; ESC; []] 2) = true /\
  EscLine.has_cand EscLine.w_sub (IdCmd EscLine.w_sub) (complete_model [] EscLine.ext0 [[112]; ESC; []] 2) = true /\
  EscLine.kind_of (parse_top EscLine.ext0 [[112]; ESC; EscLine.ddw EscLine.w_opt]) = Some EInvalidSubcommand /\
  EscLine.kind_of (parse_top EscLine.ext0 [[112]; ESC; EscLine.w_sub]) = Some EUnknownArgument.
Proof. exact escape_no_positional_refuted. Qed.
Print Assumptions C18_escape_no_positional_refuted.

(** the engine's positional lookup IS the parser's key-map lookup *)
Theorem C18_find_pos_is_get_pos : forall c n, assert_app c = true -> find_pos c n = get_pos c n.
Proof. exact find_pos_get_pos. Qed.
Print Assumptions C18_find_pos_is_get_pos.

(** STATE AND POS_INDEX AGREEMENT on one level: behind the arguments of a level the engine stands in [est] at
    [pos_index = epos] where the parser's token loop stands in [pst] at the positional counter [pos];
    [ValueDone]/[PSValuesDone] at the same index, or [Pos pos k]/[PSPos (a_id a)] for the same positional [a], or (round 5:
    [b18_multi_max], a BOUNDED multi-valued positional with ALL the values the engine's [num_args] admits) [ValueDone] at
    [pos + 1] where the parser is still in [PSPos (a_id a)] at [pos] *)
Theorem C18_state_agreement_positionals : forall pc cur pre F pst pos est epos, elevel pc cur -> body18 pc pre F pst pos est epos ->
  shadow_run pre cur 1 false ValueDone false = SNext cur epos false est (negb (is_nil pre)) /\
  (forall rest st, fs_skip st = 0 ->
     parse_loop pc (pre ++ rest) (Chain.lsV 1 false) st =
     (do st' <- F st; parse_loop pc rest (mkL pst pos (negb (is_nil pre)) false) st')) /\
  match est with
  | ValueDone => (pst = PSValuesDone /\ epos = pos) \/
                 (epos = pos + 1 /\ exists a, pst = PSPos (a_id a) /\ find_pos cur pos = Some a /\ get_pos pc pos = Some a /\
                    a_is_multiple a = true)
  | Pos i k => i = pos /\ epos = pos /\ exists a, pst = PSPos (a_id a) /\ find_pos cur pos = Some a /\ get_pos pc pos = Some a /\
                 a_is_multiple a = true /\ k < eng_num_args a
  | Opt _ _ => False
  end.
Proof. exact state_agreement_positionals. Qed.
Print Assumptions C18_state_agreement_positionals.

(** whole lines, engine side: [ValueDone], before `--`, at a level related to the parser's final level, the
    engine's [pos_index] IS the parser's positional counter [posf] and its [valid_arg_found] the parser's flag [vf] *)
Theorem C18_shadow_pline : forall c0 bin line w after pcf posf vf f b,
  tree_all unb c0 -> is_set s_no_binary_name c0 = false -> N.of_nat (length line) + 2 <= usize_max ->
  build_full f c0 = BOk b -> pline (build_self (ActionsTop.with_bin c0 bin)) line pcf posf vf ->
  exists curf, start_walk b (bin :: line ++ w :: after) (N.of_nat (S (length line))) = WAt w curf posf ValueDone false vf
               /\ lvl_rel pcf curf.
Proof. exact shadow_pline. Qed.
Print Assumptions C18_shadow_pline.

(** ... and the engine's per-level [valid_arg_found] IS the parser's flag [vf] at the final level *)
Theorem C18_flag_agreement : forall c0 bin line pcf posf vf f b,
  tree_all unb c0 -> build_full f c0 = BOk b -> pline (build_self (ActionsTop.with_bin c0 bin)) line pcf posf vf ->
  exists curf, shadow_run line b 1 false ValueDone false = SNext curf posf false ValueDone vf /\ lvl_rel pcf curf.
Proof. exact flag_agreement. Qed.
Print Assumptions C18_flag_agreement.

(** END TO END for lines with positional values: every option / subcommand candidate of the class, put in place of the
    word, gives a line that [parse_top] does not reject with UnknownArgument / InvalidSubcommand.  A subcommand
    candidate is in the class only where the parser still looks for subcommands ([cand_classw]: the final level
    does not set [args_conflicts_with_subcommands], or [vf = false]) *)
Theorem C18_candidate_accepted_pline : forall tbl c0 bin line w after l cd pcf posf vf e,
  tree_all unb c0 -> is_set s_no_binary_name c0 = false ->
  N.of_nat (length line) + 2 <= usize_max ->
  pline (build_self (ActionsTop.with_bin c0 bin)) line pcf posf vf ->
  complete_model tbl c0 (bin :: line ++ w :: after) (N.of_nat (S (length line))) = COk l ->
  In cd l -> cand_classw pcf posf vf w cd ->
  parse_top c0 (bin :: line ++ [cd_value cd]) = OErr e -> ~ unknown_kind (e_kind e).
Proof. exact candidate_accepted_pline. Qed.
Print Assumptions C18_candidate_accepted_pline.

(** the round-3 class [cline] is a special case (counter 1 at the end, no [args_conflicts_with_subcommands]) *)
Theorem C18_cline_is_pline : forall pc line pcf, cline pc line pcf -> exists vf, pline pc line pcf 1 vf.
Proof. exact cline_pline. Qed.
Print Assumptions C18_cline_is_pline.

Theorem C18_wide_classes_decidable :
  (forall pc, lvlw_b pc = true -> lvlw pc) /\
  (forall pcf posf vf w cd, cand_classw_b pcf posf vf w cd = true -> cand_classw pcf posf vf w cd).
Proof. exact wide_classes_decidable. Qed.
Print Assumptions C18_wide_classes_decidable.

(** [args_conflicts_with_subcommands] (repaired engine: it keeps the parser's per-level flag [valid_arg_found]).
    On a level [pc] that sets it, behind arguments [pre] of the level, at a word [tok] naming the subcommand [sc0]:
    (1) [pre = []]: the engine descends and the parser dispatches to the same child; (2) [pre <> []]: NEITHER machine
    reads [tok] as a subcommand - the engine counts a positional value and stays at the level; the parser, with a
    positional left at the counter, takes [tok] as its value and stays at [pc], with none left it rejects the line
    with ArgumentConflict *)
Theorem C18_args_conflict_levels : forall pc cur pre F pos tok sc0,
  lvlw pc -> lvl_rel pc cur -> is_set s_args_negate_subs pc = true ->
  pitems18 pc false 1 pre F pos -> utf8_valid tok = true -> find_subcommand pc tok = Some sc0 -> aliases_to sc0 s_help = false ->
  (pre = [] ->
     (exists es pc', shadow_step tok cur 1 false ValueDone false = SNext es 1 false ValueDone false /\
                     build_subcommand pc (c_name sc0) = Some pc' /\ lvl_rel pc' es) /\
     forall rest st, exists n', find_subcommand pc n' = Some sc0 /\
       parse_loop pc (tok :: rest) (Chain.lsV 1 false) st = ROk (LSub n' false false st rest)) /\
  (pre <> [] -> ChainWide.plain_tok tok ->
     shadow_run (pre ++ [tok]) cur 1 false ValueDone false =
       match parse_positional cur pos false ValueDone tok with
       | Some (st, pi) => SNext cur pi false st true
       | None => SPanic 673
       end /\
     forall rest st, fs_skip st = 0 ->
     (forall a, ChainWide.takes_at pc pos a tok ->
        parse_loop pc (pre ++ tok :: rest) (Chain.lsV 1 false) st =
        (do st' <- F st; do st'' <- ChainWide.pos_push pc a tok st'; parse_loop pc rest (ChainWide.after_pos a pos) st'')) /\
     (ChainWide.pos_plain pc -> get_pos pc pos = None -> is_set s_allow_external pc = false ->
        parse_loop pc (pre ++ tok :: rest) (Chain.lsV 1 false) st =
        (do st' <- F st; do st1 <- resolve_pending_ignore pc st'; RErr (match_arg_error pc tok true false) st1) /\
        e_kind (match_arg_error pc tok true false) = EArgumentConflict)).
Proof. exact args_conflict_levels. Qed.
Print Assumptions C18_args_conflict_levels.

(** BEFORE / AFTER the repair (finding C18-args-conflict; corpus/C18/accept.args-conflict.cases).  W2,
    `p(-f; <file>; args_conflicts) -> sub(--opt)`: the parser ACCEPTS `p -f sub` (`sub` is the value of <file>) and rejects
    `p -f sub --opt` with UnknownArgument; BEFORE the repair the engine ([complete_model_before_fix]) stood at `sub` and
    offered `--opt` (id arg::opt); AFTER it stands at `p` and does not.  W1 (no positional): BEFORE, `p -f <TAB>` offered
    the subcommand `sub`, which the parser rejects with ArgumentConflict; AFTER ([complete_arg] is told the flag) it does not *)
Theorem C18_args_conflict_before_after :
  Conflict.accepted (parse_top Conflict.c2 [[112]; Conflict.f; Conflict.w_sub]) = true /\
  Conflict.kind_of (parse_top Conflict.c2 [[112]; Conflict.f; Conflict.w_sub; 45 :: 45 :: Conflict.w_opt]) = Some EUnknownArgument /\
  Conflict.level_at_before_fix Conflict.c2 [[112]; Conflict.f; Conflict.w_sub; [45; 45]] 3 = Some Conflict.w_sub /\
  Conflict.has_cand (45 :: 45 :: Conflict.w_opt) (IdArg Conflict.w_opt)
    (complete_model_before_fix [] Conflict.c2 [[112]; Conflict.f; Conflict.w_sub; [45; 45]] 3) = true /\
  Conflict.level_at Conflict.c2 [[112]; Conflict.f; Conflict.w_sub; [45; 45]] 3 = Some [112] /\
  Conflict.has_cand (45 :: 45 :: Conflict.w_opt) (IdArg Conflict.w_opt)
    (complete_model [] Conflict.c2 [[112]; Conflict.f; Conflict.w_sub; [45; 45]] 3) = false /\
  Conflict.has_cand Conflict.w_sub (IdCmd Conflict.w_sub) (complete_model_before_fix [] Conflict.c1 [[112]; Conflict.f; []] 2) = true /\
  Conflict.has_cand Conflict.w_sub (IdCmd Conflict.w_sub) (complete_model [] Conflict.c1 [[112]; Conflict.f; []] 2) = false /\
  Conflict.kind_of (parse_top Conflict.c1 [[112]; Conflict.f; Conflict.w_sub]) = Some EArgumentConflict /\
  Conflict.level_at_before_fix Conflict.c1 [[112]; Conflict.f; Conflict.w_sub; []] 3 = Some Conflict.w_sub /\
  Conflict.level_at Conflict.c1 [[112]; Conflict.f; Conflict.w_sub; []] 3 = Some [112].
Proof. exact args_conflict_before_after. Qed.
Print Assumptions C18_args_conflict_before_after.

(** * The hide flag is the DEFINITIONAL one (Complete/EngineHidden.v)
    [def_flag c cd h]: by the definition of the level [c] the spelling [cd_value cd] of the argument / subcommand whose id
    [cd] carries is hidden ([h = true]: the argument / subcommand is hidden, or the spelling is an alias that is not a
    visible alias - a hidden alias of a VISIBLE option is a hidden spelling) or visible ([h = false]) *)
Theorem C18_hide_flag_definitional : forall tbl w c pi st l x,
  complete_arg tbl w c pi st = COk l -> In x l -> cd_id x <> None -> def_flag c x (cd_hidden x).
Proof. exact hide_flag_definitional. Qed.
Print Assumptions C18_hide_flag_definitional.

(** ... hence the rule of the property read off the definition: beside a candidate shown as visible, every option /
    subcommand candidate has a spelling that is visible by definition *)
Theorem C18_hidden_rule_definitional : forall tbl w c pi st l x y,
  complete_arg tbl w c pi st = COk l -> In x l -> cd_hidden x = false -> In y l -> cd_id y <> None -> def_flag c y false.
Proof. exact hidden_rule_definitional. Qed.
Print Assumptions C18_hidden_rule_definitional.

(** * The ORDER of the candidates (Complete/EngineOrder.v)
    [kcand] = a candidate with its sort data (tag, display order); [sort_final l] = the last statement of [complete_arg]:
    [tags_of l []] are the tags in order of first appearance, the sort key of a candidate is (position of its tag,
    display order) with the derived order of [(Option<usize>, Option<usize>)] ([skey_le]); the sort is stable.
    [complete_arg_ord] / [complete_model_ord] = the engine with that sort (extracted; compared with the real crate AS A
    LIST in stream `order`). *)
Theorem C18_sort_final_spec : forall l,
  Permutation (sort_final l) l /\
  StronglySorted (kle (sort_key (tags_of l []))) (sort_final l) /\
  forall k, filter (same_key (sort_key (tags_of l [])) k) (sort_final l) = filter (same_key (sort_key (tags_of l [])) k) l.
Proof. exact sort_final_spec. Qed.
Print Assumptions C18_sort_final_spec.

(** the ordered result is a permutation of the unordered model's result, in EVERY state (every theorem about membership in
    [complete_arg]'s list therefore speaks about the ordered list too).  In state [Opt] beyond the minimum the recursive
    call's list is sorted before it is appended and de-duplicated again: its ids are pairwise different, the second
    de-duplication removes nothing *)
Theorem C18_order_is_permutation : forall ot tbl w c pi st l',
  complete_arg_ord ot tbl w c pi st = COk l' ->
  exists l, complete_arg tbl w c pi st = COk l /\ Permutation l' l.
Proof. exact complete_arg_ord_perm_all. Qed.
Print Assumptions C18_order_is_permutation.

(** ... and of the engine's [complete_arg] with [valid_arg_found] ([complete_arg_v]; [complete_arg_ord_v] is what
    [complete_model_ord] calls) *)
Theorem C18_order_is_permutation_v : forall ot tbl w c pi st vaf l',
  complete_arg_ord_v ot tbl w c pi st vaf = COk l' ->
  exists l, complete_arg_v tbl w c pi st vaf = COk l /\ Permutation l' l.
Proof. exact complete_arg_ord_v_perm. Qed.
Print Assumptions C18_order_is_permutation_v.

(** [complete_arg_v] (the engine's [complete_arg] with [valid_arg_found]) through [complete_arg]: every theorem stated for
    [complete_arg tbl w c ..] holds for [complete_arg_v tbl w c .. vaf] with [c] replaced by [sub_cut c vaf] - [c] itself
    unless an argument of [c] was seen and [c] sets [args_conflicts_with_subcommands], then [c] without its subcommands *)
Theorem C18_complete_arg_v_cut : forall tbl w c pi st vaf,
  complete_arg_v tbl w c pi st vaf = complete_arg tbl w (sub_cut c vaf) pi st.
Proof. exact complete_arg_v_cut. Qed.
Print Assumptions C18_complete_arg_v_cut.

Theorem C18_complete_arg_v_flag_off : forall tbl w c pi st vaf, (is_set s_args_negate_subs c && vaf) = false ->
  complete_arg_v tbl w c pi st vaf = complete_arg tbl w c pi st.
Proof. exact complete_arg_v_flag_off. Qed.
Print Assumptions C18_complete_arg_v_flag_off.

(** behind an argument of a command whose arguments conflict with subcommands no subcommand candidate is offered *)
Theorem C18_no_subcommand_candidates_behind_args : forall tbl w c pi st vaf l cd n,
  (is_set s_args_negate_subs c && vaf) = true ->
  complete_arg_v tbl w c pi st vaf = COk l -> In cd l -> cd_id cd <> Some (IdCmd n).
Proof. exact no_subcommand_candidates_behind_args. Qed.
Print Assumptions C18_no_subcommand_candidates_behind_args.
