(** Property C18: the dynamic completion engine never fails and only offers valid continuations.
    This file contains only the pinned statements; proofs live in Complete/EngineProofs.v. *)
From ClapModel Require Import Base.Bytes Base.Machine Base.Utf8.
From ClapModel Require Import Parse.Cmd Parse.Build Parse.Valid Complete.EngineModel Complete.EngineProofs.
From Coq Require Import ZArith.
Open Scope N_scope.
