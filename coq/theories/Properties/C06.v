(** Property C06: command line beats environment beats default, and sources are reported honestly.
    This file contains only the pinned statements; proofs live in ParseProofs/Sources.v. *)
From ClapModel Require Import Base.Bytes Base.Machine.
From ClapModel Require Import Parse.Cmd Parse.Build Parse.Matcher Parse.Errors Parse.Validator Parse.Parser.
From ClapModel Require Import Sources.Present ParseProofs.Sources.
From Coq Require Import ZArith.
Open Scope N_scope.

(** [set_source] only raises: the new label is the maximum of the old one and the requested one *)
Theorem C06_source_max : forall s m,
  opt_src_rank (m_source m) <= opt_src_rank (m_source (set_source s m))
  /\ 1 + src_rank s <= opt_src_rank (m_source (set_source s m)).
Proof. exact set_source_monotone. Qed.
Print Assumptions C06_source_max.

Theorem C06_cmdline_sticky : forall s m,
  m_source m = Some SCmdLine -> m_source (set_source s m) = Some SCmdLine.
Proof. exact set_source_cmdline_sticky. Qed.
Print Assumptions C06_cmdline_sticky.

(** the missing-value default is injected precisely for an occurrence without values *)
Theorem C06_default_missing : forall a raw ti,
  (raw = [] /\ a_default_missing a <> [] -> react_vals a raw ti = (a_default_missing a, None))
  /\ (raw <> [] \/ a_default_missing a = [] -> react_vals a raw ti = (raw, ti))
  /\ (fst (react_vals a raw ti) <> raw <-> raw = [] /\ a_default_missing a <> []).
Proof. exact default_missing_iff. Qed.
Print Assumptions C06_default_missing.
