(** Property C06: command line beats environment beats default, and sources are reported honestly.
    This file contains only the pinned statements; proofs live in ParseProofs/Sources.v. *)
From ClapModel Require Import Base.Bytes Base.Machine.
From ClapModel Require Import Parse.Cmd Parse.Build Parse.Valid Parse.Matcher Parse.Errors Parse.Validator Parse.Parser.
From ClapModel Require Import Sources.Present ParseProofs.Sources Gen.ActionDefaults.
From Coq Require Import ZArith.
Open Scope N_scope.

(** phase order: on success, [get_matches_with] = validate ∘ add_defaults ∘ add_env ∘ resolve_pending ∘ command line *)
Theorem C06_phases : forall fuel' c toks st0 st,
  get_matches_with (S fuel') c toks st0 = ROk st ->
  exists st_c st1 st2,
    cmdline_phase fuel' c toks st0 = ROk st_c
    /\ resolve_pending c st_c = ROk st1 /\ mt_pending (mt st1) = None
    /\ add_env c st1 = ROk st2 /\ mt_pending (mt st2) = None
    /\ add_defaults c st2 = ROk st
    /\ validate c (mt st) = VOk /\ validate c (mt st2) = VOk.
Proof. exact phase_order. Qed.
Print Assumptions C06_phases.

(** the precedence lattice per argument: command-line entry untouched; else the environment value,
    labelled EnvVariable; else the default chosen by [default_choice], labelled DefaultValue; else absent *)
Theorem C06_precedence : forall fuel' c toks st0 st,
  ids_distinct c ->
  get_matches_with (S fuel') c toks st0 = ROk st ->
  exists st_c st1 st2,
    cmdline_phase fuel' c toks st0 = ROk st_c /\ resolve_pending c st_c = ROk st1
    /\ add_env c st1 = ROk st2 /\ add_defaults c st2 = ROk st
    /\ forall pre a post, c_args c = pre ++ a :: post ->
       match fm_get (a_id a) (mt_args (mt st1)) with
       | Some m => fm_get (a_id a) (mt_args (mt st)) = Some m
       | None =>
           match a_env a with
           | Some v => exists vs e, delimit c a [v] None = Some vs /\ vs <> []
                         /\ fm_get (a_id a) (mt_args (mt st)) = Some e
                         /\ m_source e = Some SEnv /\ m_raw e = [vs]
           | None => exists st_a ch,
                       fold_left (defaults_step c) pre (ROk st2) = ROk st_a
                       /\ default_choice a (mt st_a) ch
                       /\ match ch with
                          | None => fm_get (a_id a) (mt_args (mt st)) = None
                          | Some raw => exists vs e, delimit c a raw None = Some vs /\ vs <> []
                                          /\ fm_get (a_id a) (mt_args (mt st)) = Some e
                                          /\ m_source e = Some SDefault /\ m_raw e = [vs]
                          end
           end
       end.
Proof. exact precedence. Qed.
Print Assumptions C06_precedence.

(** the environment phase never touches an entry that exists, labels what it creates EnvVariable
    with exactly the variable's (delimited) value, gives every argument with a set variable an entry,
    and leaves the others without *)
Theorem C06_env_frame : forall c st st',
  mt_pending (mt st) = None -> add_env c st = ROk st' ->
  mt_pending (mt st') = None /\ mt_sub (mt st') = mt_sub (mt st)
  /\ (forall j m, find_group c j = None -> fm_get j (mt_args (mt st)) = Some m ->
        fm_get j (mt_args (mt st')) = Some m)
  /\ (forall j m', find_group c j = None -> fm_get j (mt_args (mt st)) = None ->
        fm_get j (mt_args (mt st')) = Some m' ->
        m_source m' = Some SEnv /\ m_is_group m' = false
        /\ exists a v vs, In a (c_args c) /\ a_id a = j /\ a_env a = Some v
                          /\ delimit c a [v] None = Some vs /\ vs <> [] /\ m_raw m' = [vs])
  /\ (forall a v, In a (c_args c) -> a_env a = Some v -> find_group c (a_id a) = None ->
        fm_get (a_id a) (mt_args (mt st')) <> None)
  /\ (forall j, find_group c j = None -> fm_get j (mt_args (mt st)) = None ->
        (forall a, In a (c_args c) -> a_id a = j -> a_env a = None) ->
        fm_get j (mt_args (mt st')) = None).
Proof. exact add_env_frame. Qed.
Print Assumptions C06_env_frame.

(** the defaults phase only appends entries labelled DefaultValue, for arguments without an entry *)
Theorem C06_defaults_frame : forall c st st',
  mt_pending (mt st) = None -> add_defaults c st = ROk st' ->
  mt_pending (mt st') = None /\ mt_sub (mt st') = mt_sub (mt st)
  /\ (exists news, mt_args (mt st') = mt_args (mt st) ++ news
                   /\ Forall (default_entry c (c_args c) (mt_args (mt st))) news)
  /\ (forall j m, fm_get j (mt_args (mt st)) = Some m -> fm_get j (mt_args (mt st')) = Some m)
  /\ (forall j m', fm_get j (mt_args (mt st)) = None -> fm_get j (mt_args (mt st')) = Some m' ->
        m_source m' = Some SDefault).
Proof. exact add_defaults_frame. Qed.
Print Assumptions C06_defaults_frame.

(** one argument's default: first conditional rule that holds decides (None = no default), else the plain default *)
Theorem C06_default_value : forall c a st st',
  mt_pending (mt st) = None -> add_default_value c a st = ROk st' ->
  (fm_get (a_id a) (mt_args (mt st)) <> None -> st' = st)
  /\ (fm_get (a_id a) (mt_args (mt st)) = None ->
      exists ch, default_choice a (mt st) ch /\
        match ch with
        | None => st' = st
        | Some raw => default_added c a raw st st'
        end).
Proof. exact add_default_value_spec. Qed.
Print Assumptions C06_default_value.

(** values that came from defaults are invisible to the validator and to args_present *)
Theorem C06_defaults_inert : forall c st st',
  mt_pending (mt st) = None -> add_defaults c st = ROk st' ->
  validate c (mt st') = validate c (mt st)
  /\ explicit_entries (mt st') = explicit_entries (mt st)
  /\ (forall i p, check_explicit (mt st') i p = check_explicit (mt st) i p).
Proof. exact defaults_inert. Qed.
Print Assumptions C06_defaults_inert.

Theorem C06_validate_drop_defaults : forall c m,
  NoDup (map fst (mt_args m)) -> validate c (drop_defaults m) = validate c m.
Proof. exact validate_drop_defaults. Qed.
Print Assumptions C06_validate_drop_defaults.

Theorem C06_args_present : forall c st st',
  mt_pending (mt st) = None -> add_defaults c st = ROk st' ->
  args_present (into_inner (mt st')) = args_present (into_inner (mt st)).
Proof. exact args_present_ignores_defaults. Qed.
Print Assumptions C06_args_present.

(** a default never starts a group and never removes an override *)
Theorem C06_default_no_side_effects : forall c a m,
  start_custom_arg c a SDefault m = ROk (start_custom_arg_m m a SDefault).
Proof. exact start_custom_arg_default. Qed.
Print Assumptions C06_default_no_side_effects.

(** [set_source] only raises: the new label is the maximum of the old one and the requested one *)
Theorem C06_source_max : forall s m,
  opt_src_rank (m_source m) <= opt_src_rank (m_source (set_source s m))
  /\ 1 + src_rank s <= opt_src_rank (m_source (set_source s m)).
Proof. exact set_source_monotone. Qed.
Print Assumptions C06_source_max.

Theorem C06_cmdline_sticky : forall s m,
  m_source m = Some SCmdLine -> m_source (set_source s m) = Some SCmdLine.
Proof. exact set_source_cmdline_sticky. Qed.
Print Assumptions C06_cmdline_sticky.

(** the missing-value default is injected precisely for an occurrence without values *)
Theorem C06_default_missing : forall a raw ti,
  (raw = [] /\ a_default_missing a <> [] -> react_vals a raw ti = (a_default_missing a, None))
  /\ (raw <> [] \/ a_default_missing a = [] -> react_vals a raw ti = (raw, ti))
  /\ (fst (react_vals a raw ti) <> raw <-> raw = [] /\ a_default_missing a <> []).
Proof. exact default_missing_iff. Qed.
Print Assumptions C06_default_missing.

Theorem C06_react_unfold : forall c idn s a raw ti st,
  react_core c idn s a raw ti st =
  do _ <- (if is_cmdline s then verify_num_args c a raw st else ROk tt);
  react_tail c idn s a (fst (react_vals a raw ti)) (snd (react_vals a raw ti)) st.
Proof. exact react_core_unfold. Qed.
Print Assumptions C06_react_unfold.

(** after the command-line phase every entry is labelled CommandLine *)
Theorem C06_cmdline_labelled : forall fuel' c toks st0 st_c st1,
  mt_args (mt st0) = [] ->
  cmdline_phase fuel' c toks st0 = ROk st_c -> resolve_pending c st_c = ROk st1 ->
  all_cl (mt st1).
Proof. exact cmdline_phase_all_cl. Qed.
Print Assumptions C06_cmdline_labelled.

(** the reported value source names the origin of the values *)
Theorem C06_source_honest : forall fuel' c toks st0 st,
  ids_distinct c -> mt_args (mt st0) = [] ->
  get_matches_with (S fuel') c toks st0 = ROk st ->
  exists st_c st1,
    cmdline_phase fuel' c toks st0 = ROk st_c /\ resolve_pending c st_c = ROk st1
    /\ forall a e, In a (c_args c) -> fm_get (a_id a) (mt_args (mt st)) = Some e ->
       match m_source e with
       | Some SCmdLine => fm_get (a_id a) (mt_args (mt st1)) = Some e
       | Some SEnv => fm_get (a_id a) (mt_args (mt st1)) = None
                      /\ exists v vs, a_env a = Some v /\ delimit c a [v] None = Some vs /\ m_raw e = [vs]
       | Some SDefault => fm_get (a_id a) (mt_args (mt st1)) = None /\ a_env a = None
       | None => False
       end.
Proof. exact source_honest. Qed.
Print Assumptions C06_source_honest.

(** a command-line occurrence of a Set/Append argument stores what [react_vals] selected *)
Theorem C06_cmdline_occurrence : forall c idn a raw ti st st' pr,
  find_group c (a_id a) = None ->
  a_get_action a = ASet \/ a_get_action a = AAppend ->
  react_core c idn SCmdLine a raw ti st = ROk (st', pr) ->
  exists e vs, fm_get (a_id a) (mt_args (mt st')) = Some e /\ m_source e = Some SCmdLine
    /\ delimit c a (fst (react_vals a raw ti)) (snd (react_vals a raw ti)) = Some vs
    /\ last (m_raw e) [] = vs.
Proof. exact react_cmdline_values. Qed.
Print Assumptions C06_cmdline_occurrence.

(** DESIGN 7-P: conditional defaults depend on the definition order (a default of an earlier
    argument triggers the rule of a later one, not vice versa) *)
Theorem C06_conditional_default_order_dependent :
  entry_summary (get_matches_with 2 (ex_cmd [ex_a; ex_b]) [] ps_new) [98] = Some (Some SDefault, [[[120]]])
  /\ entry_summary (get_matches_with 2 (ex_cmd [ex_b; ex_a]) [] ps_new) [98] = None.
Proof. exact (conj ex_default_triggers_later_rule ex_default_does_not_trigger_earlier_rule). Qed.
Print Assumptions C06_conditional_default_order_dependent.

(** the constant tables of the model are the ones found in the source on this run *)
Theorem C06_tables_match_source :
  Gen.ActionDefaults.action_default_value_rows = map (fun a => (action_name a, action_default_value a)) all_actions
  /\ Gen.ActionDefaults.action_default_missing_value_rows = map (fun a => (action_name a, action_default_missing_value a)) all_actions
  /\ Gen.ActionDefaults.value_source_variants = map src_name_bytes [SDefault; SEnv; SCmdLine]
  /\ (forall s, nth_error Gen.ActionDefaults.value_source_variants (N.to_nat (src_rank s)) = Some (src_name_bytes s))
  /\ (forall s, src_explicit s = negb (beq (src_name_bytes s) Gen.ActionDefaults.value_source_not_explicit)).
Proof. exact tables_match_source. Qed.
Print Assumptions C06_tables_match_source.

(** phase order on the error paths: the first failing phase decides; the validator's error is the one
    computed on the matcher *before* defaults *)
Theorem C06_phases_errors : forall fuel' c toks st0,
  is_set s_ignore_errors c = false ->
  (forall e s, cmdline_phase fuel' c toks st0 = RErr e s -> get_matches_with (S fuel') c toks st0 = RErr e s)
  /\ (forall st_c e s, cmdline_phase fuel' c toks st0 = ROk st_c -> resolve_pending c st_c = RErr e s ->
        get_matches_with (S fuel') c toks st0 = RErr e s)
  /\ (forall st_c st1 e s, cmdline_phase fuel' c toks st0 = ROk st_c -> resolve_pending c st_c = ROk st1 ->
        add_env c st1 = RErr e s -> get_matches_with (S fuel') c toks st0 = RErr e s)
  /\ (forall st_c st1 st2 e s, cmdline_phase fuel' c toks st0 = ROk st_c -> resolve_pending c st_c = ROk st1 ->
        add_env c st1 = ROk st2 -> add_defaults c st2 = RErr e s ->
        get_matches_with (S fuel') c toks st0 = RErr e s)
  /\ (forall st_c st1 st2 st3 k a, cmdline_phase fuel' c toks st0 = ROk st_c -> resolve_pending c st_c = ROk st1 ->
        add_env c st1 = ROk st2 -> add_defaults c st2 = ROk st3 -> validate c (mt st2) = VErr k a ->
        get_matches_with (S fuel') c toks st0 = RErr (mkerr c k a) st3).
Proof. exact phase_order_errors. Qed.
Print Assumptions C06_phases_errors.

(** the distinctness hypothesis of the per-argument theorems holds for every level the parser reaches:
    the root passes [valid] (= [assert_app] of the built command and of every built subcommand), and
    [get_matches_with] re-checks [assert_app] before descending *)
Theorem C06_valid_ids_distinct :
  (forall c, assert_app c = true -> ids_distinct c)
  /\ (forall c0, valid c0 = true -> ids_distinct (build_self c0)).
Proof. exact (conj assert_app_ids_distinct (fun c0 H => assert_app_ids_distinct _ (valid_assert_app c0 H))). Qed.
Print Assumptions C06_valid_ids_distinct.
