(** Property C06: command line beats environment beats default, and sources are reported honestly.
    This file contains only the pinned statements; proofs live in ParseProofs/Sources.v. *)
From ClapModel Require Import Base.Bytes Base.Machine.
From ClapModel Require Import Parse.Cmd Parse.Build Parse.Valid Parse.Matcher Parse.Errors Parse.Validator Parse.Parser.
From ClapModel Require Import ParseProofs.Totality ParseProofs.Actions ParseProofs.Unparse ParseProofs.UnparseTop ParseProofs.UnparseTrail
                              ParseProofs.UnparseTree ParseProofs.KindSound ParseProofs.SourcesLine ParseProofs.SourcesDefaults ParseProofs.Globals ParseProofs.SourcesLineGlobals ParseProofs.SourcesLineExamples.
From ClapModel Require Import Sources.Present ParseProofs.Sources Gen.ActionDefaults.
From ClapModel Require Import ParseProofs.PendingFlush ParseProofs.SourcesPending.
From Coq Require Import ZArith List.
From RecordUpdate Require Import RecordSet.
Import RecordSetNotations.
Import ListNotations.
Open Scope N_scope.

(** phase order: on success, [get_matches_with] = validate ∘ add_defaults ∘ add_env ∘ resolve_pending ∘ command line *)
Theorem C06_phases : forall fuel' c toks st0 st,
  get_matches_with (S fuel') c toks st0 = ROk st ->
  exists st_c st1 st2,
    cmdline_phase fuel' c toks st0 = ROk st_c
    /\ resolve_pending c st_c = ROk st1 /\ mt_pending (mt st1) = None
    /\ add_env c st1 = ROk st2 /\ mt_pending (mt st2) = None
    /\ add_defaults c st2 = ROk st
    /\ validate c (mt st) = VOk /\ validate c (mt st2) = VOk.
Proof. exact phase_order. Qed.
Print Assumptions C06_phases.

(** the precedence lattice per argument: command-line entry untouched; else the environment value,
    labelled EnvVariable; else the default chosen by [default_choice], labelled DefaultValue; else absent *)
Theorem C06_precedence : forall fuel' c toks st0 st,
  ids_distinct c ->
  get_matches_with (S fuel') c toks st0 = ROk st ->
  exists st_c st1 st2,
    cmdline_phase fuel' c toks st0 = ROk st_c /\ resolve_pending c st_c = ROk st1
    /\ add_env c st1 = ROk st2 /\ add_defaults c st2 = ROk st
    /\ forall pre a post, c_args c = pre ++ a :: post ->
       match fm_get (a_id a) (mt_args (mt st1)) with
       | Some m => fm_get (a_id a) (mt_args (mt st)) = Some m
       | None =>
           match a_env a with
           | Some v => exists vs e, delimit c a [v] None = Some vs /\ vs <> []
                         /\ fm_get (a_id a) (mt_args (mt st)) = Some e
                         /\ m_source e = Some SEnv /\ m_raw e = [vs]
           | None => exists st_a ch,
                       fold_left (defaults_step c) pre (ROk st2) = ROk st_a
                       /\ default_choice a (mt st_a) ch
                       /\ match ch with
                          | None => fm_get (a_id a) (mt_args (mt st)) = None
                          | Some raw => exists vs e, delimit c a raw None = Some vs /\ vs <> []
                                          /\ fm_get (a_id a) (mt_args (mt st)) = Some e
                                          /\ m_source e = Some SDefault /\ m_raw e = [vs]
                          end
           end
       end.
Proof. exact precedence. Qed.
Print Assumptions C06_precedence.

(** the environment phase never touches an entry that exists, labels what it creates EnvVariable
    with exactly the variable's (delimited) value, gives every argument with a set variable an entry,
    and leaves the others without *)
Theorem C06_env_frame : forall c st st',
  mt_pending (mt st) = None -> add_env c st = ROk st' ->
  mt_pending (mt st') = None /\ mt_sub (mt st') = mt_sub (mt st)
  /\ (forall j m, find_group c j = None -> fm_get j (mt_args (mt st)) = Some m ->
        fm_get j (mt_args (mt st')) = Some m)
  /\ (forall j m', find_group c j = None -> fm_get j (mt_args (mt st)) = None ->
        fm_get j (mt_args (mt st')) = Some m' ->
        m_source m' = Some SEnv /\ m_is_group m' = false
        /\ exists a v vs, In a (c_args c) /\ a_id a = j /\ a_env a = Some v
                          /\ delimit c a [v] None = Some vs /\ vs <> [] /\ m_raw m' = [vs])
  /\ (forall a v, In a (c_args c) -> a_env a = Some v -> find_group c (a_id a) = None ->
        fm_get (a_id a) (mt_args (mt st')) <> None)
  /\ (forall j, find_group c j = None -> fm_get j (mt_args (mt st)) = None ->
        (forall a, In a (c_args c) -> a_id a = j -> a_env a = None) ->
        fm_get j (mt_args (mt st')) = None).
Proof. exact add_env_frame. Qed.
Print Assumptions C06_env_frame.

(** the defaults phase only appends entries labelled DefaultValue, for arguments without an entry *)
Theorem C06_defaults_frame : forall c st st',
  mt_pending (mt st) = None -> add_defaults c st = ROk st' ->
  mt_pending (mt st') = None /\ mt_sub (mt st') = mt_sub (mt st)
  /\ (exists news, mt_args (mt st') = mt_args (mt st) ++ news
                   /\ Forall (default_entry c (c_args c) (mt_args (mt st))) news)
  /\ (forall j m, fm_get j (mt_args (mt st)) = Some m -> fm_get j (mt_args (mt st')) = Some m)
  /\ (forall j m', fm_get j (mt_args (mt st)) = None -> fm_get j (mt_args (mt st')) = Some m' ->
        m_source m' = Some SDefault).
Proof. exact add_defaults_frame. Qed.
Print Assumptions C06_defaults_frame.

(** one argument's default: first conditional rule that holds decides (None = no default), else the plain default *)
Theorem C06_default_value : forall c a st st',
  mt_pending (mt st) = None -> add_default_value c a st = ROk st' ->
  (fm_get (a_id a) (mt_args (mt st)) <> None -> st' = st)
  /\ (fm_get (a_id a) (mt_args (mt st)) = None ->
      exists ch, default_choice a (mt st) ch /\
        match ch with
        | None => st' = st
        | Some raw => default_added c a raw st st'
        end).
Proof. exact add_default_value_spec. Qed.
Print Assumptions C06_default_value.

(** values that came from defaults are invisible to the validator and to args_present *)
Theorem C06_defaults_inert : forall c st st',
  mt_pending (mt st) = None -> add_defaults c st = ROk st' ->
  validate c (mt st') = validate c (mt st)
  /\ explicit_entries (mt st') = explicit_entries (mt st)
  /\ (forall i p, check_explicit (mt st') i p = check_explicit (mt st) i p).
Proof. exact defaults_inert. Qed.
Print Assumptions C06_defaults_inert.

Theorem C06_validate_drop_defaults : forall c m,
  NoDup (map fst (mt_args m)) -> validate c (drop_defaults m) = validate c m.
Proof. exact validate_drop_defaults. Qed.
Print Assumptions C06_validate_drop_defaults.

Theorem C06_args_present : forall c st st',
  mt_pending (mt st) = None -> add_defaults c st = ROk st' ->
  args_present (into_inner (mt st')) = args_present (into_inner (mt st)).
Proof. exact args_present_ignores_defaults. Qed.
Print Assumptions C06_args_present.

(** a default never starts a group and never removes an override *)
Theorem C06_default_no_side_effects : forall c a m,
  start_custom_arg c a SDefault m = ROk (start_custom_arg_m m a SDefault).
Proof. exact start_custom_arg_default. Qed.
Print Assumptions C06_default_no_side_effects.

(** [set_source] only raises: the new label is the maximum of the old one and the requested one *)
Theorem C06_source_max : forall s m,
  opt_src_rank (m_source m) <= opt_src_rank (m_source (set_source s m))
  /\ 1 + src_rank s <= opt_src_rank (m_source (set_source s m)).
Proof. exact set_source_monotone. Qed.
Print Assumptions C06_source_max.

Theorem C06_cmdline_sticky : forall s m,
  m_source m = Some SCmdLine -> m_source (set_source s m) = Some SCmdLine.
Proof. exact set_source_cmdline_sticky. Qed.
Print Assumptions C06_cmdline_sticky.

(** the missing-value default is injected precisely for an occurrence without values *)
Theorem C06_default_missing : forall a raw ti,
  (raw = [] /\ a_default_missing a <> [] -> react_vals a raw ti = (a_default_missing a, None))
  /\ (raw <> [] \/ a_default_missing a = [] -> react_vals a raw ti = (raw, ti))
  /\ (fst (react_vals a raw ti) <> raw <-> raw = [] /\ a_default_missing a <> []).
Proof. exact default_missing_iff. Qed.
Print Assumptions C06_default_missing.

Theorem C06_react_unfold : forall c idn s a raw ti st,
  react_core c idn s a raw ti st =
  do _ <- (if is_cmdline s then verify_num_args c a raw st else ROk tt);
  react_tail c idn s a (fst (react_vals a raw ti)) (snd (react_vals a raw ti)) st.
Proof. exact Sources.react_core_unfold. Qed.
Print Assumptions C06_react_unfold.

(** after the command-line phase every entry is labelled CommandLine *)
Theorem C06_cmdline_labelled : forall fuel' c toks st0 st_c st1,
  mt_args (mt st0) = [] ->
  cmdline_phase fuel' c toks st0 = ROk st_c -> resolve_pending c st_c = ROk st1 ->
  all_cl (mt st1).
Proof. exact cmdline_phase_all_cl. Qed.
Print Assumptions C06_cmdline_labelled.

(** the reported value source names the origin of the values *)
Theorem C06_source_honest : forall fuel' c toks st0 st,
  ids_distinct c -> mt_args (mt st0) = [] ->
  get_matches_with (S fuel') c toks st0 = ROk st ->
  exists st_c st1,
    cmdline_phase fuel' c toks st0 = ROk st_c /\ resolve_pending c st_c = ROk st1
    /\ forall a e, In a (c_args c) -> fm_get (a_id a) (mt_args (mt st)) = Some e ->
       match m_source e with
       | Some SCmdLine => fm_get (a_id a) (mt_args (mt st1)) = Some e
       | Some SEnv => fm_get (a_id a) (mt_args (mt st1)) = None
                      /\ exists v vs, a_env a = Some v /\ delimit c a [v] None = Some vs /\ m_raw e = [vs]
       | Some SDefault => fm_get (a_id a) (mt_args (mt st1)) = None /\ a_env a = None
       | None => False
       end.
Proof. exact source_honest. Qed.
Print Assumptions C06_source_honest.

(** a command-line occurrence of a Set/Append argument stores what [react_vals] selected *)
Theorem C06_cmdline_occurrence : forall c idn a raw ti st st' pr,
  find_group c (a_id a) = None ->
  a_get_action a = ASet \/ a_get_action a = AAppend ->
  react_core c idn SCmdLine a raw ti st = ROk (st', pr) ->
  exists e vs, fm_get (a_id a) (mt_args (mt st')) = Some e /\ m_source e = Some SCmdLine
    /\ delimit c a (fst (react_vals a raw ti)) (snd (react_vals a raw ti)) = Some vs
    /\ last (m_raw e) [] = vs.
Proof. exact react_cmdline_values. Qed.
Print Assumptions C06_cmdline_occurrence.

(** DESIGN 7-P: conditional defaults depend on the definition order (a default of an earlier
    argument triggers the rule of a later one, not vice versa) *)
Theorem C06_conditional_default_order_dependent :
  entry_summary (get_matches_with 2 (ex_cmd [ex_a; ex_b]) [] ps_new) [98] = Some (Some SDefault, [[[120]]])
  /\ entry_summary (get_matches_with 2 (ex_cmd [ex_b; ex_a]) [] ps_new) [98] = None.
Proof. exact (conj ex_default_triggers_later_rule ex_default_does_not_trigger_earlier_rule). Qed.
Print Assumptions C06_conditional_default_order_dependent.

(** the constant tables of the model are the ones found in the source on this run *)
Theorem C06_tables_match_source :
  Gen.ActionDefaults.action_default_value_rows = map (fun a => (action_name a, action_default_value a)) all_actions
  /\ Gen.ActionDefaults.action_default_missing_value_rows = map (fun a => (action_name a, action_default_missing_value a)) all_actions
  /\ Gen.ActionDefaults.value_source_variants = map src_name_bytes [SDefault; SEnv; SCmdLine]
  /\ (forall s, nth_error Gen.ActionDefaults.value_source_variants (N.to_nat (src_rank s)) = Some (src_name_bytes s))
  /\ (forall s, src_explicit s = negb (beq (src_name_bytes s) Gen.ActionDefaults.value_source_not_explicit)).
Proof. exact tables_match_source. Qed.
Print Assumptions C06_tables_match_source.

(** phase order on the error paths: the first failing phase decides; the validator's error is the one
    computed on the matcher *before* defaults *)
Theorem C06_phases_errors : forall fuel' c toks st0,
  is_set s_ignore_errors c = false ->
  (forall e s, cmdline_phase fuel' c toks st0 = RErr e s -> get_matches_with (S fuel') c toks st0 = RErr e s)
  /\ (forall st_c e s, cmdline_phase fuel' c toks st0 = ROk st_c -> resolve_pending c st_c = RErr e s ->
        get_matches_with (S fuel') c toks st0 = RErr e s)
  /\ (forall st_c st1 e s, cmdline_phase fuel' c toks st0 = ROk st_c -> resolve_pending c st_c = ROk st1 ->
        add_env c st1 = RErr e s -> get_matches_with (S fuel') c toks st0 = RErr e s)
  /\ (forall st_c st1 st2 e s, cmdline_phase fuel' c toks st0 = ROk st_c -> resolve_pending c st_c = ROk st1 ->
        add_env c st1 = ROk st2 -> add_defaults c st2 = RErr e s ->
        get_matches_with (S fuel') c toks st0 = RErr e s)
  /\ (forall st_c st1 st2 st3 k a, cmdline_phase fuel' c toks st0 = ROk st_c -> resolve_pending c st_c = ROk st1 ->
        add_env c st1 = ROk st2 -> add_defaults c st2 = ROk st3 -> validate c (mt st2) = VErr k a ->
        get_matches_with (S fuel') c toks st0 = RErr (mkerr c k a) st3).
Proof. exact phase_order_errors. Qed.
Print Assumptions C06_phases_errors.

(** the distinctness hypothesis of the per-argument theorems holds for every level the parser reaches:
    the root passes [valid] (= [assert_app] of the built command and of every built subcommand), and
    [get_matches_with] re-checks [assert_app] before descending *)
Theorem C06_valid_ids_distinct :
  (forall c, assert_app c = true -> ids_distinct c)
  /\ (forall c0, valid c0 = true -> ids_distinct (build_self c0)).
Proof. exact (conj assert_app_ids_distinct (fun c0 H => assert_app_ids_distinct _ (valid_assert_app c0 H))). Qed.
Print Assumptions C06_valid_ids_distinct.

(** * Round 2: the property stated against the LINE (ParseProofs/SourcesLine.v)

    Class of C02's un-parser theorem: a rendered invocation tree [i] that is well formed for the
    built command ([wf_inv]: every level [conv], no [ignore_errors], items [wf_items], ...).
    [inv_occs c i] are the occurrences of the root level of the tree, computed from the invocation
    alone; [named_alive c id os] is the boolean "the line names the argument by an occurrence that
    survives the overrides": a left-to-right state machine, see [C06_named_alive_spec]. *)

(** "named and surviving", declaratively: the last occurrence of the argument is followed only by
    occurrences that neither are the argument nor override it; and it is exactly "the line denotes
    some groups for the argument" (C02's [denote_os], C07's abstract fold) *)
Theorem C06_named_alive_spec : forall c i os,
  (named_alive c i os = true <->
   exists os1 o os2, os = os1 ++ o :: os2 /\ a_id (o_arg o) = i /\ Forall (quiet c i) os2)
  /\ (all_cmdline os -> is_some (denote_os c i os) = named_alive c i os).
Proof. exact (fun c i os => conj (named_alive_iff c i os) (denote_alive c i os)). Qed.
Print Assumptions C06_named_alive_spec.

(** (1) THE REPORTED SOURCE IS CommandLine IFF THE LINE NAMES THE ARGUMENT (surviving occurrence), at
    the root of any tree (by [C02_unparse_tree] every level is the root of its subtree); an
    argument without entry is not named; a named argument holds exactly the groups the line denotes *)
Theorem C06_cmdline_iff_named : forall i c f st, valid_tree (S f) c = true -> wf_inv c i = true ->
  get_matches_with (S f) c (render_inv i) ps_new = ROk st ->
  forall a, In a (c_args c) ->
    (forall e, fm_get (a_id a) (mt_args (mt st)) = Some e ->
       (m_source e = Some SCmdLine <-> named_alive c (a_id a) (inv_occs c i) = true))
    /\ (fm_get (a_id a) (mt_args (mt st)) = None -> named_alive c (a_id a) (inv_occs c i) = false)
    /\ (named_alive c (a_id a) (inv_occs c i) = true ->
        exists e, fm_get (a_id a) (mt_args (mt st)) = Some e /\ m_source e = Some SCmdLine
                  /\ denote_os c (a_id a) (inv_occs c i) = Some (m_raw e)).
Proof. exact gmw_cmdline_iff_named. Qed.
Print Assumptions C06_cmdline_iff_named.

(** ... and at [parse_top], for every level the reported matches reach ([at_level]: the invocation
    tree and the [ArgMatches] walked down in step), for trees without global arguments *)
Theorem C06_cmdline_iff_named_top : forall c0 bin i m, is_set s_no_binary_name c0 = false ->
  valid (with_bin c0 bin) = true -> wf_inv (build_self (with_bin c0 bin)) i = true ->
  no_globals (build_recursive (S (S (depth (build_self (with_bin c0 bin))))) (with_bin c0 bin)) = true ->
  parse_top c0 (bin :: render_inv i) = OOk m ->
  forall c' i' m', at_level (build_self (with_bin c0 bin)) i m c' i' m' ->
  forall a, In a (c_args c') ->
    (forall e, fm_get (a_id a) (ms_args m') = Some e ->
       (m_source e = Some SCmdLine <-> named_alive c' (a_id a) (inv_occs c' i') = true))
    /\ (fm_get (a_id a) (ms_args m') = None -> named_alive c' (a_id a) (inv_occs c' i') = false)
    /\ (named_alive c' (a_id a) (inv_occs c' i') = true ->
        exists e, fm_get (a_id a) (ms_args m') = Some e /\ m_source e = Some SCmdLine
                  /\ denote_os c' (a_id a) (inv_occs c' i') = Some (m_raw e)).
Proof. exact parse_top_cmdline_iff_named. Qed.
Print Assumptions C06_cmdline_iff_named_top.

(** (1, all lines) every valid definition without short flag subcommands, EVERY token list, any
    level of the recursion: a CommandLine label implies that a token of that level's line names the
    argument ([occurs], C10's vocabulary) *)
Theorem C06_cmdline_named_any_line : forall fuel c toks st0 st, tree_ok fuel c -> K c toks st0 ->
  get_matches_with fuel c toks st0 = ROk st ->
  forall a e, In a (c_args c) -> fm_get (a_id a) (mt_args (mt st)) = Some e ->
    m_source e = Some SCmdLine -> occurs c toks a.
Proof. exact level_cmdline_named. Qed.
Print Assumptions C06_cmdline_named_any_line.

(** ... at the root, with what the other labels imply: EnvVariable => the variable is set and the
    entry holds its value split at the delimiter; DefaultValue => no variable is set.
    (NOT: "EnvVariable => no token names the argument", see [C06_env_named_refuted].) *)
Theorem C06_source_accounted_any_line : forall c0 toks st, plain c0 = true -> valid c0 = true ->
  get_matches_with (S (S (depth (build_self c0)))) (build_self c0) toks ps_new = ROk st ->
  forall a e, In a (c_args (build_self c0)) -> fm_get (a_id a) (mt_args (mt st)) = Some e ->
    match m_source e with
    | Some SCmdLine => occurs (build_self c0) toks a
    | Some SEnv => exists v vs, a_env a = Some v /\ delimit (build_self c0) a [v] None = Some vs /\ m_raw e = [vs]
    | Some SDefault => a_env a = None
    | None => False
    end.
Proof. exact plain_source_accounted. Qed.
Print Assumptions C06_source_accounted_any_line.

(** REFUTED reading: "EnvVariable implies that no token names the argument".  [prog --aa=V --gg --hh]
    ([gg] overrides [aa], [hh] overrides [gg], [aa] has a set variable): accepted, [aa] is labelled
    EnvVariable, the token [--aa=V] names it.  The implementation agrees (corpus/C06/sources.line-origin.cases). *)
Theorem C06_env_named_refuted : exists c0 bin i ms a0 e0 tok,
  valid (with_bin c0 bin) = true /\ plain (with_bin c0 bin) = true /\ wf_inv (build_self (with_bin c0 bin)) i = true /\
  parse_top c0 (bin :: render_inv i) = OOk ms /\
  In a0 (c_args (build_self (with_bin c0 bin))) /\ fm_get (a_id a0) (ms_args ms) = Some e0 /\
  m_source e0 = Some SEnv /\ In tok (render_inv i) /\ token_names (build_self (with_bin c0 bin)) tok a0.
Proof. exact SrcEx.env_named_refuted. Qed.
Print Assumptions C06_env_named_refuted.

(** (2) THE ORIGIN THEOREM.  [level_origin c os st]: there is a state [st2] (before the defaults
    phase) with [add_defaults c st2 = ROk st], the validator accepts, and for every argument [a] of
    the level ([pre] = the arguments defined before it) exactly one branch of [origin_of] holds:
      named_alive      -> entry labelled CommandLine, values = the groups the line denotes;
      else env set     -> entry labelled EnvVariable, values = [[the variable's value split at the delimiter]];
      else default_choice a (matcher at a's turn) (Some raw)
                       -> entry labelled DefaultValue, values = [[raw split at the delimiter]];
      else (default_choice .. None) -> no entry.
    The definitions are pinned by [C06_origin_spec]; [default_choice] is functional
    ([C06_default_choice_functional]), so the last two branches exclude each other. *)
Theorem C06_origin_spec : forall c os st2 st pre a,
  (origin_of c os st2 st pre a <->
   if named_alive c (a_id a) os
   then exists gs e, denote_os c (a_id a) os = Some gs /\ fm_get (a_id a) (mt_args (mt st)) = Some e
                     /\ m_source e = Some SCmdLine /\ m_raw e = gs
   else match a_env a with
        | Some v => exists vs e, delimit c a [v] None = Some vs /\ vs <> []
                      /\ fm_get (a_id a) (mt_args (mt st)) = Some e
                      /\ m_source e = Some SEnv /\ m_raw e = [vs]
        | None => exists st_a ch,
                    fold_left (defaults_step c) pre (ROk st2) = ROk st_a
                    /\ default_choice a (mt st_a) ch
                    /\ match ch with
                       | None => fm_get (a_id a) (mt_args (mt st)) = None
                       | Some raw => exists vs e, delimit c a raw None = Some vs /\ vs <> []
                                       /\ fm_get (a_id a) (mt_args (mt st)) = Some e
                                       /\ m_source e = Some SDefault /\ m_raw e = [vs]
                       end
        end)
  /\ (level_origin c os st <->
      exists st2', add_defaults c st2' = ROk st /\ validate c (mt st) = VOk
        /\ forall pre' a' post, c_args c = pre' ++ a' :: post -> origin_of c os st2' st pre' a').
Proof. intros. split; split; intros H; exact H. Qed.
Print Assumptions C06_origin_spec.

Theorem C06_default_choice_functional : forall a m x y, default_choice a m x -> default_choice a m y -> x = y.
Proof. exact default_choice_det. Qed.
Print Assumptions C06_default_choice_functional.

(** one level (the root of any tree) *)
Theorem C06_origin_level : forall i c f st, valid_tree (S f) c = true -> wf_inv c i = true ->
  get_matches_with (S f) c (render_inv i) ps_new = ROk st ->
  level_origin c (inv_occs c i) st.
Proof. exact gmw_origin. Qed.
Print Assumptions C06_origin_level.

(** every argument of every level of a successful [parse_top] (trees without global arguments) *)
Theorem C06_origin : forall c0 bin i m, is_set s_no_binary_name c0 = false ->
  valid (with_bin c0 bin) = true -> wf_inv (build_self (with_bin c0 bin)) i = true ->
  no_globals (build_recursive (S (S (depth (build_self (with_bin c0 bin))))) (with_bin c0 bin)) = true ->
  parse_top c0 (bin :: render_inv i) = OOk m ->
  forall c' i' m', at_level (build_self (with_bin c0 bin)) i m c' i' m' ->
  exists st', m' = into_inner (mt st') /\ level_origin c' (inv_occs c' i') st'.
Proof. exact parse_top_origin. Qed.
Print Assumptions C06_origin.

(** (3) A MISSING-VALUE DEFAULT APPLIES PRECISELY WHEN THE OPTION IS PRESENT WITHOUT A VALUE, on the
    rendered line: [it] is an item of the level whose last occurrence [o] is the option's
    ([--o], [--o=v], [--o v1..vk], [-abo], [-abov], [-abo=v], [-abo v1..vk]: [item_occs]), nothing later on
    the line names the argument again or overrides it.  The last value group of the entry is the
    declared missing-value default iff the item carries no value for the option; an item with at
    least one value stores exactly its values (split at the delimiter), never the default. *)
Theorem C06_missing_value_line : forall c i st its1 it its2 pre_o o, wf_inv c i = true -> run_inv c i = ROk st ->
  inv_items i = its1 ++ it :: its2 ->
  item_occs c (items_pos c 1 its1) it = pre_o ++ [o] ->
  Forall (quiet c (a_id (o_arg o))) (occs c (items_pos c 1 (its1 ++ [it])) its2 ++ trail_part c i) ->
  a_get_action (o_arg o) = ASet \/ a_get_action (o_arg o) = AAppend ->
  exists e, fm_get (a_id (o_arg o)) (mt_args (mt st)) = Some e /\ m_source e = Some SCmdLine
    /\ (o_raw o = [] -> a_default_missing (o_arg o) <> [] ->
          last (m_raw e) [] = opt_default [] (delimit c (o_arg o) (a_default_missing (o_arg o)) None))
    /\ (o_raw o <> [] -> last (m_raw e) [] = opt_default [] (delimit c (o_arg o) (o_raw o) (o_ti o)))
    /\ (o_raw o = [] -> a_default_missing (o_arg o) = [] -> last (m_raw e) [] = []).
Proof. exact missing_value_line. Qed.
Print Assumptions C06_missing_value_line.

(** the same for any decomposition of the level's occurrences (also after [--]) *)
Theorem C06_last_occurrence_line : forall c i st os1 o os2, wf_inv c i = true -> run_inv c i = ROk st ->
  inv_occs c i = os1 ++ o :: os2 -> Forall (quiet c (a_id (o_arg o))) os2 ->
  a_get_action (o_arg o) = ASet \/ a_get_action (o_arg o) = AAppend ->
  exists e, fm_get (a_id (o_arg o)) (mt_args (mt st)) = Some e /\ m_source e = Some SCmdLine
    /\ last (m_raw e) [] = o_vals c o.
Proof. exact run_inv_last_occurrence. Qed.
Print Assumptions C06_last_occurrence_line.

(** Non-vacuity: one command, one line [prog --kk=V --mm --ff run --zz] with every origin
    (named with the missing-value default, named flag, environment, environment split at ',',
    conditional default triggered by an environment entry, NAMED BUT OVERRIDDEN -> plain default,
    implicit flag defaults, absent) and a subcommand level; the hypotheses of the theorems above hold. *)
Theorem C06_line_nonvacuous :
  is_set s_no_binary_name SrcEx.t0 = false /\ valid (with_bin SrcEx.t0 SrcEx.tbin) = true /\
  plain (with_bin SrcEx.t0 SrcEx.tbin) = true /\ wf_inv SrcEx.cb SrcEx.tinv = true /\
  no_globals (build_recursive (S (S (depth SrcEx.cb))) (with_bin SrcEx.t0 SrcEx.tbin)) = true /\
  render_inv SrcEx.tinv = [[45;45;107;107;61;86]; [45;45;109;109]; [45;45;102;102]; [114;117;110]; [45;45;122;122]] /\
  (exists ms sm,
    parse_top SrcEx.t0 (SrcEx.tbin :: render_inv SrcEx.tinv) = OOk ms /\ ms_sub ms = Some ([114;117;110], sm) /\
    SrcEx.summary ms = [([109], Some SCmdLine, [[[77]]]); ([102], Some SCmdLine, [[s_true]]);
                        ([97], Some SEnv, [[[69;49]]]); ([101], Some SEnv, [[[69;50]; [51]]]);
                        ([98], Some SDefault, [[[120]]]); ([103], Some SDefault, [[s_false]]);
                        ([104], Some SDefault, [[s_false]]); ([107], Some SDefault, [[[107]]])] /\
    SrcEx.summary sm = [([122], Some SCmdLine, [[s_true]]); ([120], Some SDefault, [[[113]]])]) /\
  map (fun a => (a_id a, named_alive SrcEx.cb (a_id a) (inv_occs SrcEx.cb SrcEx.tinv))) (c_args SrcEx.cb) =
    [([97], false); ([98], false); ([109], true); ([102], true); ([103], false); ([104], false);
     ([107], false); ([110], false); ([101], false); ([104; 101; 108; 112], false)] /\
  at_level SrcEx.cb SrcEx.tinv SrcEx.ms0 SrcEx.scb SrcEx.sinv SrcEx.sm0.
Proof.
  split; [exact SrcEx.ex_nobin|]. split; [exact SrcEx.ex_valid|]. split; [exact SrcEx.ex_plain|].
  split; [exact SrcEx.ex_wf|]. split; [exact SrcEx.ex_no_globals|]. split; [exact (proj1 SrcEx.ex_render)|].
  split; [exact SrcEx.ex_parse|]. split; [exact SrcEx.ex_named|]. exact (proj1 (proj2 SrcEx.ex_at_level)).
Qed.
Print Assumptions C06_line_nonvacuous.

(** (4) VALUES THAT CAME FROM DEFAULTS NEVER TRIGGER CONFLICTS, REQUIREMENTS OR ARGUMENTS-PRESENT LOGIC,
    as a non-interference theorem between two commands (ParseProofs/SourcesDefaults.v).
    [with_defaults f c]: every argument [a] of the level gets the plain defaults [f a]; nothing else changes. *)
Theorem C06_with_defaults_spec : forall f c,
  with_defaults f c = c <| c_args := map (fun a => a <| a_default := f a |>) (c_args c) |>
  /\ c_groups (with_defaults f c) = c_groups c /\ c_subs (with_defaults f c) = c_subs c
  /\ c_set (with_defaults f c) = c_set c /\ c_gset (with_defaults f c) = c_gset c.
Proof. intros. repeat split. Qed.
Print Assumptions C06_with_defaults_spec.

(** the command-line phase, the environment phase and the validator cannot read a default value:
    the occurrences of the line are the same up to the argument records, the fold of [react] over
    them, [add_env] and [validate] are EQUAL functions for both commands *)
Theorem C06_phases_ignore_defaults : forall f c,
  (forall i, inv_occs (with_defaults f c) i = map (omap f) (inv_occs c i))
  /\ (forall os st, react_all (with_defaults f c) (map (omap f) os) st = react_all c os st)
  /\ (forall st, add_env (with_defaults f c) st = add_env c st)
  /\ (forall m, validate (with_defaults f c) m = validate c m).
Proof. exact (fun f c => conj (ni_inv_occs f c) (conj (ni_react_all f c) (conj (ni_add_env f c) (ni_validate f c)))). Qed.
Print Assumptions C06_phases_ignore_defaults.

(** [pre_defaults c i st2]: [st2] is the level's state after the command line (the fold of [react]
    over the invocation's occurrences), the subcommand's matches and the environment phase *)
Theorem C06_pre_defaults_spec : forall c i st2,
  pre_defaults c i st2 <->
  exists st1 st1', react_all c (inv_occs c i) ps_new = ROk st1 /\ with_sub c i st1 = Some st1' /\ add_env c st1' = ROk st2.
Proof. intros. split; intros H; exact H. Qed.
Print Assumptions C06_pre_defaults_spec.

(** NON-INTERFERENCE: the same rendered invocation, well formed for [c] and for [with_defaults f c]:
    (1) the state before the defaults phase is the same; (2) each parse succeeds iff that state
    exists, the validator accepts IT (no default value is in it) and its own defaults phase succeeds;
    (3) when both succeed the results are that state followed by entries labelled DefaultValue only:
    explicit entries, [check_explicit], subcommand matches and [args_present] agree.
    (No restriction on [default_value_if] / [required_if_eq]: a changed default can only change
    other DefaultValue entries.) *)
Theorem C06_defaults_noninterference : forall f c i, wf_inv c i = true -> wf_inv (with_defaults f c) i = true ->
  (forall st2, pre_defaults (with_defaults f c) i st2 <-> pre_defaults c i st2)
  /\ (forall st, run_inv c i = ROk st <->
        exists st2, pre_defaults c i st2 /\ validate c (mt st2) = VOk /\ add_defaults c st2 = ROk st)
  /\ (forall st', run_inv (with_defaults f c) i = ROk st' <->
        exists st2, pre_defaults c i st2 /\ validate c (mt st2) = VOk /\ add_defaults (with_defaults f c) st2 = ROk st')
  /\ (forall st st', run_inv c i = ROk st -> run_inv (with_defaults f c) i = ROk st' ->
        explicit_entries (mt st') = explicit_entries (mt st) /\ mt_sub (mt st') = mt_sub (mt st)
        /\ args_present (into_inner (mt st')) = args_present (into_inner (mt st))
        /\ (forall j p, check_explicit (mt st') j p = check_explicit (mt st) j p)
        /\ exists st2 news news', pre_defaults c i st2
             /\ mt_args (mt st) = mt_args (mt st2) ++ news /\ mt_args (mt st') = mt_args (mt st2) ++ news'
             /\ Forall is_default news /\ Forall is_default news').
Proof. exact defaults_noninterference. Qed.
Print Assumptions C06_defaults_noninterference.

(** ... for [get_matches_with] at the root of any tree, and at [parse_top] for two definitions whose
    built forms differ only in plain default values (trees without global arguments) *)
Theorem C06_defaults_noninterference_level : forall f c i fu st st',
  valid_tree (S fu) c = true -> valid_tree (S fu) (with_defaults f c) = true ->
  wf_inv c i = true -> wf_inv (with_defaults f c) i = true ->
  get_matches_with (S fu) c (render_inv i) ps_new = ROk st ->
  get_matches_with (S fu) (with_defaults f c) (render_inv i) ps_new = ROk st' ->
  explicit_entries (mt st') = explicit_entries (mt st) /\ mt_sub (mt st') = mt_sub (mt st)
  /\ args_present (into_inner (mt st')) = args_present (into_inner (mt st))
  /\ (forall j p, check_explicit (mt st') j p = check_explicit (mt st) j p).
Proof. exact gmw_defaults_ni. Qed.
Print Assumptions C06_defaults_noninterference_level.

Theorem C06_defaults_noninterference_top : forall c0 c0' bin f i m m',
  is_set s_no_binary_name c0 = false -> is_set s_no_binary_name c0' = false ->
  valid (with_bin c0 bin) = true -> valid (with_bin c0' bin) = true ->
  build_self (with_bin c0' bin) = with_defaults f (build_self (with_bin c0 bin)) ->
  wf_inv (build_self (with_bin c0 bin)) i = true -> wf_inv (with_defaults f (build_self (with_bin c0 bin))) i = true ->
  no_globals (build_recursive (S (S (depth (build_self (with_bin c0 bin))))) (with_bin c0 bin)) = true ->
  no_globals (build_recursive (S (S (depth (build_self (with_bin c0' bin))))) (with_bin c0' bin)) = true ->
  parse_top c0 (bin :: render_inv i) = OOk m -> parse_top c0' (bin :: render_inv i) = OOk m' ->
  explicit_of m' = explicit_of m /\ ms_sub m' = ms_sub m /\ args_present m' = args_present m.
Proof. exact parse_top_defaults_ni. Qed.
Print Assumptions C06_defaults_noninterference_top.

(** Non-vacuity: the example command with other defaults for four arguments ([kk] "Z" for "k", [aa]
    none, [nn] "N", [bb] "w"), the same line: all hypotheses hold, both parses succeed, the results
    differ in the DefaultValue entries of [kk] and [nn] only. *)
Theorem C06_defaults_noninterference_nonvacuous :
  is_set s_no_binary_name SrcEx.t2 = false /\ valid (with_bin SrcEx.t2 SrcEx.tbin) = true /\
  build_self (with_bin SrcEx.t2 SrcEx.tbin) = with_defaults SrcEx.f2 SrcEx.cb /\
  wf_inv (with_defaults SrcEx.f2 SrcEx.cb) SrcEx.tinv = true /\
  no_globals (build_recursive (S (S (depth (build_self (with_bin SrcEx.t2 SrcEx.tbin))))) (with_bin SrcEx.t2 SrcEx.tbin)) = true /\
  exists ms2, parse_top SrcEx.t2 (SrcEx.tbin :: render_inv SrcEx.tinv) = OOk ms2 /\
    SrcEx.summary ms2 = [([109], Some SCmdLine, [[[77]]]); ([102], Some SCmdLine, [[s_true]]);
                         ([97], Some SEnv, [[[69;49]]]); ([101], Some SEnv, [[[69;50]; [51]]]);
                         ([98], Some SDefault, [[[120]]]); ([103], Some SDefault, [[s_false]]);
                         ([104], Some SDefault, [[s_false]]); ([107], Some SDefault, [[[90]]]); ([110], Some SDefault, [[[78]]])].
Proof.
  destruct SrcEx.ex_ni_hyps as [H1 [H2 [H3 [H4 H5]]]].
  split; [exact H1|]. split; [exact H2|]. split; [exact H3|]. split; [exact H4|]. split; [exact H5|]. exact SrcEx.ex_ni_parse.
Qed.
Print Assumptions C06_defaults_noninterference_nonvacuous.

(** (2, with global arguments) THE ORIGIN THEOREM at [parse_top] for ANY well-formed tree.  [_do_parse]
    ends with the merge of global values (C09): there is one final map [vmF], with pairwise distinct
    keys that are all ids of global arguments used on the chain, such that at every level reached
    ([at_level2]: the invocation, the parser's matches [m'] and the reported matches [p'] walked in
    step) the parser's own matches have the origin [level_origin] prescribes and the reported
    entry of an id is [vmF]'s entry if it is a key, otherwise exactly the parser's entry.
    (Which entry [vmF] holds: C09_globals -- the most explicit, deepest of the chain's own entries.) *)
Theorem C06_origin_globals : forall c0 bin i mp, is_set s_no_binary_name c0 = false ->
  valid (with_bin c0 bin) = true -> wf_inv (build_self (with_bin c0 bin)) i = true ->
  parse_top c0 (bin :: render_inv i) = OOk mp ->
  exists st vmF, run_inv (build_self (with_bin c0 bin)) i = ROk st /\ NoDup (map fst vmF)
    /\ (forall g, mem_id g (used_global_args (S (matches_depth (into_inner (mt st))))
                              (build_recursive (S (S (depth (build_self (with_bin c0 bin))))) (with_bin c0 bin))
                              (into_inner (mt st))) = false -> fm_get g vmF = None)
    /\ forall c' i' m' p', at_level2 (build_self (with_bin c0 bin)) i (into_inner (mt st)) mp c' i' m' p' ->
         (exists st', m' = into_inner (mt st') /\ level_origin c' (inv_occs c' i') st')
         /\ (forall k, fm_get k (ms_args p') = match fm_get k vmF with Some e => Some e | None => fm_get k (ms_args m') end).
Proof. exact parse_top_origin_globals. Qed.
Print Assumptions C06_origin_globals.

(** Non-vacuity: a tree with a global argument, [prog --nn=V run --gl=S --zz]: the parser stores
    [gl] = "0" (DefaultValue) at the root, the reported root entry is the subcommand's CommandLine "S". *)
Theorem C06_origin_globals_nonvacuous :
  valid (with_bin SrcEx.t3 SrcEx.tbin) = true /\ wf_inv SrcEx.cb3 SrcEx.ginv = true /\
  no_globals (build_recursive (S (S (depth SrcEx.cb3))) (with_bin SrcEx.t3 SrcEx.tbin)) = false /\
  parse_top SrcEx.t3 (SrcEx.tbin :: render_inv SrcEx.ginv) = OOk SrcEx.gmp /\ run_inv SrcEx.cb3 SrcEx.ginv = ROk SrcEx.gst /\
  SrcEx.summary (into_inner (mt SrcEx.gst)) = [([110], Some SCmdLine, [[[86]]]); ([97], Some SEnv, [[[69;49]]]); ([103;108], Some SDefault, [[[48]]])] /\
  SrcEx.summary SrcEx.gmp = [([110], Some SCmdLine, [[[86]]]); ([97], Some SEnv, [[[69;49]]]); ([103;108], Some SCmdLine, [[[83]]])] /\
  at_level2 SrcEx.cb3 SrcEx.ginv (into_inner (mt SrcEx.gst)) SrcEx.gmp SrcEx.cb3 SrcEx.ginv (into_inner (mt SrcEx.gst)) SrcEx.gmp.
Proof. exact SrcEx.ex_globals. Qed.
Print Assumptions C06_origin_globals_nonvacuous.

(** (4, second part) THE ARGUMENTS WHOSE DEFAULTS WERE KEPT.  Class [difs_avoid_b f c] (boolean): no
    [default_value_if] rule of any argument of the level reads an argument whose plain defaults [f]
    changes.  Then every argument whose defaults were kept reports the same source and the same
    values in both results ([view] = (source, raw values); the indices of DefaultValue entries can
    differ, the index counter also runs over the changed defaults). *)
Theorem C06_unchanged_class_spec : forall f c,
  (difs_avoid_b f c =
   forallb (fun b => forallb (fun r => negb (existsb (fun a => beq (a_id a) (fst (fst r)) && changed_b f a) (c_args c)))
                             (a_default_ifs b)) (c_args c))
  /\ (forall a, changed_b f a = negb (lbeq (f a) (a_default a)))
  /\ (forall x y, lbeq x y = true -> x = y)
  /\ (forall e, view e = (m_source e, m_raw e))
  /\ (forall i, changed_id f c i <-> exists a, In a (c_args c) /\ a_id a = i /\ f a <> a_default a).
Proof. intros. split; [reflexivity|]. split; [reflexivity|]. split; [exact lbeq_eq|]. split; [reflexivity|]. intros; split; intros H; exact H. Qed.
Print Assumptions C06_unchanged_class_spec.

Theorem C06_defaults_unchanged_args : forall f c i st st', wf_inv c i = true -> wf_inv (with_defaults f c) i = true ->
  difs_avoid_b f c = true ->
  run_inv c i = ROk st -> run_inv (with_defaults f c) i = ROk st' ->
  forall a, In a (c_args c) -> f a = a_default a ->
    opt_map view (fm_get (a_id a) (mt_args (mt st'))) = opt_map view (fm_get (a_id a) (mt_args (mt st))).
Proof. exact defaults_unchanged_args. Qed.
Print Assumptions C06_defaults_unchanged_args.

(** ... for every id that is not a changed argument (group ids included) *)
Theorem C06_defaults_unchanged_ids : forall f c i st st', wf_inv c i = true -> wf_inv (with_defaults f c) i = true ->
  difs_avoid_changed f c ->
  run_inv c i = ROk st -> run_inv (with_defaults f c) i = ROk st' ->
  forall j, ~ changed_id f c j ->
    opt_map view (fm_get j (mt_args (mt st'))) = opt_map view (fm_get j (mt_args (mt st))).
Proof. exact defaults_unchanged_agree. Qed.
Print Assumptions C06_defaults_unchanged_ids.

(** Non-vacuity: changing only [kk] and [nn] satisfies the class, the hypotheses hold, both parses
    succeed; the change [f2] of the earlier example is outside the class ([bb]'s rule reads [aa]). *)
Theorem C06_defaults_unchanged_nonvacuous :
  difs_avoid_b SrcEx.f3 SrcEx.cb = true /\ difs_avoid_b SrcEx.f2 SrcEx.cb = false /\
  wf_inv (with_defaults SrcEx.f3 SrcEx.cb) SrcEx.tinv = true /\
  run_inv SrcEx.cb SrcEx.tinv = ROk (SrcEx.st_of (run_inv SrcEx.cb SrcEx.tinv)) /\
  run_inv (with_defaults SrcEx.f3 SrcEx.cb) SrcEx.tinv = ROk (SrcEx.st_of (run_inv (with_defaults SrcEx.f3 SrcEx.cb) SrcEx.tinv)) /\
  SrcEx.summary (into_inner (mt (SrcEx.st_of (run_inv (with_defaults SrcEx.f3 SrcEx.cb) SrcEx.tinv)))) =
    [([109], Some SCmdLine, [[[77]]]); ([102], Some SCmdLine, [[s_true]]);
     ([97], Some SEnv, [[[69;49]]]); ([101], Some SEnv, [[[69;50]; [51]]]);
     ([98], Some SDefault, [[[120]]]); ([103], Some SDefault, [[s_false]]);
     ([104], Some SDefault, [[s_false]]); ([107], Some SDefault, [[[90]]]); ([110], Some SDefault, [[[78]]])].
Proof. exact SrcEx.ex_unchanged. Qed.
Print Assumptions C06_defaults_unchanged_nonvacuous.

(** ** the occurrence still being collected when an error is raised, under [ignore_errors]
    (repaired statement order of [Parser::get_matches_with]: [resolve_pending], [add_env], [add_defaults],
    each result dropped; proofs in ParseProofs/SourcesPending.v, pre-repair function in ParseProofs/PendingFlush.v) *)

(** For EVERY command, token list and start state: the state handed back with an error under [ignore_errors]
    has no pending occurrence, and differs from a state [s1] without pending occurrence only by entries the
    defaults phase APPENDED -- each labelled DefaultValue, not a group, for an argument of the level that had no
    entry in [s1]; every entry of [s1] (command line, environment, groups) is handed back exactly as it was.
    [s1] is what the command line and the environment left: either the error is the command line's and the
    three dropped phases ran in the repaired order (pending occurrence first), each from the state the previous
    one left, or the command line was accepted and the error is that of the first later phase that failed.
    Hence no value that came from a default sits in an entry labelled CommandLine or EnvVariable. *)
Theorem C06_ignore_errors_pending_flushed : forall fuel' c toks st0 e st,
  is_set s_ignore_errors c = true ->
  get_matches_with (S fuel') c toks st0 = RErr e st ->
  mt_pending (mt st) = None
  /\ exists s1, mt_pending (mt s1) = None
     /\ ((exists news, mt_args (mt st) = mt_args (mt s1) ++ news
             /\ Forall (fun p => m_source (snd p) = Some SDefault /\ m_is_group (snd p) = false
                                 /\ fm_get (fst p) (mt_args (mt s1)) = None
                                 /\ exists a, In a (c_args c) /\ a_id a = fst p) news)
         /\ (forall j m, fm_get j (mt_args (mt s1)) = Some m -> fm_get j (mt_args (mt st)) = Some m)
         /\ (forall j m', fm_get j (mt_args (mt s1)) = None -> fm_get j (mt_args (mt st)) = Some m' ->
               m_source m' = Some SDefault /\ m_is_group m' = false))
     /\ ((exists st_c s0, cmdline_phase fuel' c toks st0 = RErr e st_c
            /\ (resolve_pending c st_c = ROk s0 \/ exists e0, resolve_pending c st_c = RErr e0 s0)
            /\ mt_pending (mt s0) = None
            /\ (add_env c s0 = ROk s1 \/ exists e1, add_env c s0 = RErr e1 s1)
            /\ (add_defaults c s1 = ROk st \/ exists e2, add_defaults c s1 = RErr e2 st))
         \/ (exists st_c, cmdline_phase fuel' c toks st0 = ROk st_c
            /\ ((resolve_pending c st_c = RErr e st /\ s1 = st)
                \/ exists s0, resolve_pending c st_c = ROk s0
                     /\ ((add_env c s0 = RErr e st /\ s1 = st)
                         \/ (add_env c s0 = ROk s1
                             /\ (add_defaults c s1 = RErr e st
                                 \/ (add_defaults c s1 = ROk st /\ validate c (mt st) <> VOk))))))).
Proof. exact ignore_errors_pending_flushed. Qed.
Print Assumptions C06_ignore_errors_pending_flushed.

(** Non-vacuity: `p s help E` on [p] = [num_args(1..)] + [default_value("pd")] with [subcommand_precedence_over_arg]
    and [ignore_errors]: the occurrence of [p] IS pending when `help E` fails, nothing is pending in the state handed
    back, and its only entry is the command-line occurrence. *)
Theorem C06_ignore_errors_pending_flushed_nonvacuous :
  let c := build_self (flush_cmd1 <| c_bin_name := Some [112] |>) in
  is_set s_ignore_errors c = true
  /\ exists e st_c st,
       get_matches_with (S (S (depth c))) c (tl flush_line1) ps_new = RErr e st
       /\ cmdline_phase (S (depth c)) c (tl flush_line1) ps_new = RErr e st_c
       /\ mt_pending (mt st_c) <> None /\ mt_pending (mt st) = None
       /\ map (fun p => (fst p, m_source (snd p), m_raw (snd p))) (mt_args (mt st))
          = [([112], Some SCmdLine, [[[115]]])].
Proof. exact ignore_errors_pending_flushed_witness. Qed.
Print Assumptions C06_ignore_errors_pending_flushed_nonvacuous.

(** The finding, about the kept PRE-repair function ([get_matches_with_before_fix] = the error branch without the
    leading [resolve_pending]):
    (1) `p s help E` ([flush_cmd1]: positional [p] = [num_args(1..)], [default_value("pd")]; [ignore_errors],
        [subcommand_precedence_over_arg], subcommand [a]) reported [p] = CommandLine with the occurrence groups
        ["s"] and ["pd"] and a command-line index for the default value;
    (2) `p a help x` ([flush_cmd2]: single-valued positional [p] with [default_value("d")] and an environment
        variable set to "e"; [ignore_errors], subcommand [t]) reported [p] = DefaultValue ["d"]: the command-line
        value "a" was lost.  The real crate answered the same before the repair (corpus/C06, corpus/C02). *)
Theorem C06_pending_default_before_fix :
  entry_view (parse_top_before_fix flush_cmd1 flush_line1) [112]
    = Some (Some SCmdLine, [1; 2], [[[115]]; [[112; 100]]])
  /\ entry_view (parse_top_before_fix flush_cmd2 flush_line2) [112]
    = Some (Some SDefault, [2], [[[100]]]).
Proof. exact pending_default_before_fix. Qed.
Print Assumptions C06_pending_default_before_fix.

(** The same inputs on the repaired model: exactly the command-line occurrence, labelled CommandLine. *)
Theorem C06_pending_default_fixed :
  entry_view (parse_top flush_cmd1 flush_line1) [112] = Some (Some SCmdLine, [1], [[[115]]])
  /\ entry_view (parse_top flush_cmd2 flush_line2) [112] = Some (Some SCmdLine, [1], [[[97]]]).
Proof. exact pending_default_fixed. Qed.
Print Assumptions C06_pending_default_fixed.
