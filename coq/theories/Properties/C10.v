(** Property C10: rejections are justified, correctly classified, and carry the CLI exit contract.
    This file contains only the pinned statements; proofs live in Errors/KindTable.v,
    Errors/Suggest.v, ParseProofs/ErrorSound.v, ParseProofs/KindSound.v (round 2) and ParseProofs/RequiresChain.v
    (the repair of unroll_arg_requires: kept pre-repair function, witnesses, monotonicity). *)
From ClapModel Require Import Base.Bytes Base.Machine Base.Utf8.
From ClapModel Require Import Parse.Cmd Parse.Build Parse.Valid Parse.Matcher Parse.Errors Parse.Validator Parse.Parser.
From ClapModel Require Import Gen.ErrorTables Errors.KindTable Errors.Suggest ParseProofs.ErrorSound.
From ClapModel Require Import ParseProofs.Totality ParseProofs.Provenance ParseProofs.KindSound ParseProofs.RequiresChain.
From ClapModel Require Import ParseProofs.Actions ParseProofs.Relations ParseProofs.RelationsComplete ParseProofs.Unparse ParseProofs.UnparseTop ParseProofs.UnparseSub
                              ParseProofs.UnparseTree ParseProofs.UnparseX ParseProofs.UnparseXTree ParseProofs.UnparseLift
                              ParseProofs.NoSpurious ParseProofs.NoSpuriousTree ParseProofs.NoSpuriousCheck ParseProofs.NoSpuriousExamples.
From ClapModel Require Gen.SettingsTables ParseProofs.TablesSettings ParseProofs.TablesSettingsTree.
From Coq Require Import ZArith QArith String List.
From RecordUpdate Require Import RecordSet.
Import RecordSetNotations.
Import ListNotations.
Open Scope N_scope.

(** ** exit contract *)
(** the model's table is the one the source declares today (variant list in order, stream,
    use_stderr, exit code of every variant) *)
Theorem C10_table_matches_source :
  map kind_name all_kinds = gen_kind_names /\
  forall k, to_gstream (kind_stream k) = gen_stream (kind_name k) /\
            use_stderr k = gen_use_stderr (kind_name k) /\
            exit_code k = gen_exit_code (kind_name k).
Proof. exact table_matches_source. Qed.
Print Assumptions C10_table_matches_source.

Theorem C10_exit_contract : forall k,
  (exit_code k = 0%Z <-> k = EDisplayHelp \/ k = EDisplayVersion) /\
  (exit_code k = 0%Z \/ exit_code k = 2%Z) /\
  (use_stderr k = false <-> k = EDisplayHelp \/ k = EDisplayVersion) /\
  (kind_stream k = Stdout <-> k = EDisplayHelp \/ k = EDisplayVersion) /\
  (exit_code k = 0%Z <-> use_stderr k = false).
Proof. exact exit_contract. Qed.
Print Assumptions C10_exit_contract.

(** the same contract stated directly on the data read from kind.rs / mod.rs / util/mod.rs *)
Theorem C10_exit_contract_source : forall n, In n gen_kind_names ->
  (gen_exit_code n = 0%Z <-> n = "DisplayHelp"%string \/ n = "DisplayVersion"%string) /\
  (gen_exit_code n = 0%Z \/ gen_exit_code n = 2%Z) /\
  (gen_use_stderr n = false <-> n = "DisplayHelp"%string \/ n = "DisplayVersion"%string) /\
  (gen_stream n = GStdout <-> n = "DisplayHelp"%string \/ n = "DisplayVersion"%string).
Proof. exact exit_contract_source. Qed.
Print Assumptions C10_exit_contract_source.

(** ** value count per occurrence *)
Theorem C10_count_sound : forall c a raw st e st',
  verify_num_args c a raw st = RErr e st' ->
  exists r, a_num a = Some r /\ st' = st /\ e_arg e = a_id a /\ is_set s_ignore_errors c = false /\
            In (e_kind e) [EInvalidValue; EWrongNumberOfValues; ETooFewValues; ETooManyValues] /\
            count_breaks (e_kind e) r (N.of_nat (length raw)).
Proof. exact verify_num_args_sound. Qed.
Print Assumptions C10_count_sound.

Theorem C10_count_justified : forall c a raw st e st' r,
  verify_num_args c a raw st = RErr e st' -> a_num a = Some r ->
  ~ count_in_range r (N.of_nat (length raw)).
Proof. exact verify_num_args_justified. Qed.
Print Assumptions C10_count_justified.

Theorem C10_count_no_spurious_reject : forall c a raw st r,
  a_num a = Some r -> count_in_range r (N.of_nat (length raw)) -> verify_num_args c a raw st = ROk tt.
Proof. exact verify_num_args_complete. Qed.
Print Assumptions C10_count_no_spurious_reject.

(** ** value language *)
Theorem C10_value_accepted_iff_in_language : forall v s, vp_parse v s = None <-> in_lang v s.
Proof. exact vp_parse_accepts_iff. Qed.
Print Assumptions C10_value_accepted_iff_in_language.

Theorem C10_value_reject_sound : forall v s k,
  vp_parse v s = Some k ->
  ~ in_lang v s /\ In k [EInvalidUtf8; EInvalidValue; EValueValidation] /\
  (k = EInvalidUtf8 -> utf8_valid s = false).
Proof. exact vp_parse_reject_sound. Qed.
Print Assumptions C10_value_reject_sound.

Theorem C10_push_values_sound : forall c a raw st e st',
  push_arg_values c a raw st = RErr e st' ->
  exists vp v, a_vp a = Some vp /\ In v raw /\ vp_parse vp v = Some (e_kind e) /\
               ~ in_lang vp v /\ e_arg e = a_id a.
Proof. exact push_arg_values_sound. Qed.
Print Assumptions C10_push_values_sound.

(** ** suggestions only name things that exist, for every similarity function *)
Theorem C10_suggestions_subset : forall (sim : bytes -> bytes -> Q) v cands p,
  In p (did_you_mean sim v cands) -> In p cands.
Proof. exact dym_subset. Qed.
Print Assumptions C10_suggestions_subset.

Theorem C10_suggestions_exact : forall (sim : bytes -> bytes -> Q) v cands p,
  In p (did_you_mean sim v cands) <-> In p cands /\ q_gt (sim v p) threshold = true.
Proof. exact dym_iff. Qed.
Print Assumptions C10_suggestions_exact.

Theorem C10_flag_suggestion_exists : forall (sim : bytes -> bytes -> Q) c arg rem f o,
  flag_suggestion sim c arg rem = Some (f, o) ->
  match o with
  | None => exists a, In a (c_args c) /\ arg_has_long a f
  | Some n => In n rem /\
              exists s, In s (c_subs c) /\ c_name s = n /\
                        exists a, In a (c_args (build_self s)) /\ arg_has_long a f
  end.
Proof. exact flag_suggestion_exists. Qed.
Print Assumptions C10_flag_suggestion_exists.

Theorem C10_subcommand_suggestions_exist : forall (sim : bytes -> bytes -> Q) c tok n,
  In n (subcommand_suggestions sim c tok) -> exists s, In s (c_subs c) /\ aliases_to s n = true.
Proof. exact subcommand_suggestions_exist. Qed.
Print Assumptions C10_subcommand_suggestions_exist.

Theorem C10_value_suggestion_exists : forall (sim : bytes -> bytes -> Q) bad good s,
  value_suggestion sim bad good = Some s -> In s good.
Proof. exact value_suggestion_exists. Qed.
Print Assumptions C10_value_suggestion_exists.

(** ** the reaction to one occurrence: every error it raises has one of five justified causes *)
Theorem C10_react_sound : forall c idn s a raw ti st e st',
  react_core c idn s a raw ti st = RErr e st' -> react_cause c a s raw st e.
Proof. exact react_core_err_sound. Qed.
Print Assumptions C10_react_sound.

Theorem C10_pending_sound : forall c st e st',
  resolve_pending c st = RErr e st' ->
  exists p a, mt_pending (mt st) = Some p /\ find_arg c (p_id p) = Some a /\
              react_cause c a SCmdLine (p_raw p) (st <| mt := (mt st) <| mt_pending := None |> |>) e.
Proof. exact resolve_pending_err_sound. Qed.
Print Assumptions C10_pending_sound.

(** ** the validator *)
Theorem C10_conflict_sound : forall c m n,
  validate c m = VErr EArgumentConflict n ->
  explicit_id m n /\ is_some (find_arg c n) = true /\
  ((exists a, find_arg c n = Some a /\ a_exclusive a = true /\
              (2 <= length (filter (fun p => is_some (find_arg c (fst p))) (explicit_entries m)))%nat)
   \/ exists other, explicit_id m other /\ other <> n /\
                    (directly_conflicts c n other \/ directly_conflicts c other n)).
Proof. exact validate_conflict_sound. Qed.
Print Assumptions C10_conflict_sound.

Theorem C10_direct_conflicts_declared : forall c a l y,
  gather_arg_direct_conflicts c a = Some l -> In y l ->
  In y (a_blacklist a) \/ In y (a_overrides a) \/
  exists gid g, In gid (groups_for_arg c (a_id a)) /\ find_group c gid = Some g /\
                (In y (g_conflicts g) \/ (g_multiple g = false /\ In y (g_args g) /\ y <> a_id a)).
Proof. exact gather_arg_direct_conflicts_in. Qed.
Print Assumptions C10_direct_conflicts_declared.

Theorem C10_missing_sound : forall c m x,
  validate c m = VErr EMissingRequiredArgument x ->
  exists req, gather_requires c m (required_graph c) = Some req /\ missing_cause c m req x.
Proof. exact validate_missing_sound. Qed.
Print Assumptions C10_missing_sound.

Theorem C10_required_graph_declared : forall c x,
  In x (required_graph c) ->
  (exists a, In a (c_args c) /\ a_required a = true /\ a_id a = x) \/
  (exists g, In g (c_groups c) /\ g_required g = true /\ (g_id g = x \/ In x (g_requires g))).
Proof. exact required_graph_in. Qed.
Print Assumptions C10_required_graph_declared.

Theorem C10_requirement_set_declared : forall c m base req x,
  gather_requires c m base = Some req -> In x req ->
  In x base \/
  exists p, In p (explicit_entries m) /\
    ((exists a rs, find_arg c (fst p) = Some a /\
                   unroll_arg_requires c (fun r => if check_explicit_m (fst r) (snd p) then Some (snd r) else None) (a_id a)
                   = Some rs /\ In x rs)
     \/ (exists g, find_arg c (fst p) = None /\ find_group c (fst p) = Some g /\ In x (g_requires g))).
Proof. exact gather_requires_in. Qed.
Print Assumptions C10_requirement_set_declared.

(** ** unknown-token triage *)
Theorem C10_unknown_long_sound : forall c flag ok value pst pc vaf st st1 a vaf1,
  parse_long_arg c flag ok value pst pc vaf st = ROk (st1, PRNoMatchingArg a, vaf1) ->
  a = flag /\ st1 = st /\
  (ok = false \/ (get_long c flag = None /\ possible_long_flag_subcommand c flag = None)).
Proof. exact parse_long_no_match_sound. Qed.
Print Assumptions C10_unknown_long_sound.

Theorem C10_unknown_short_sound : forall c fuel r ret vaf st st1 a vaf1,
  not_no_match ret ->
  short_loop c fuel r ret vaf st = ROk (st1, PRNoMatchingArg a, vaf1) ->
  (exists ch, a = DASH :: encode_utf8 ch /\ get_short c ch = None /\ find_short_subcmd c ch = None)
  \/ (exists r' rest, sf_next r' = Some (inr rest, []) /\ a = DASH :: rest).
Proof. exact short_loop_no_match_sound. Qed.
Print Assumptions C10_unknown_short_sound.

Theorem C10_match_arg_error_kinds : forall c tok vaf trailing,
  let e := match_arg_error c tok vaf trailing in
  e_arg e = tok /\
  (e_kind e = EUnknownArgument
   \/ (e_kind e = EInvalidSubcommand /\ has_subcommands c = true)
   \/ (e_kind e = EArgumentConflict /\ has_subcommands c = true /\ is_set s_args_negate_subs c = true /\ vaf = true)).
Proof. exact match_arg_error_kinds. Qed.
Print Assumptions C10_match_arg_error_kinds.

(** every error raised while a flag token is processed is a justified reaction error, and those
    never carry an "unknown token" kind *)
Theorem C10_reaction_error_kinds : forall c e,
  reaction_error c e ->
  In (e_kind e) [EInvalidValue; EWrongNumberOfValues; ETooFewValues; ETooManyValues; EArgumentConflict;
                 EInvalidUtf8; EValueValidation; EDisplayHelp; EDisplayVersion].
Proof. exact reaction_error_kinds. Qed.
Print Assumptions C10_reaction_error_kinds.

Theorem C10_long_flag_errors_are_reactions : forall c flag ok value pst pc vaf st e st',
  parse_long_arg c flag ok value pst pc vaf st = RErr e st' -> reaction_error c e.
Proof. exact parse_long_arg_err. Qed.
Print Assumptions C10_long_flag_errors_are_reactions.

Theorem C10_short_flag_errors_are_reactions : forall c r pst pc vaf st e st',
  parse_short_arg c r pst pc vaf st = RErr e st' -> reaction_error c e.
Proof. exact parse_short_arg_err. Qed.
Print Assumptions C10_short_flag_errors_are_reactions.

(** ** the whole token loop of one command level: an UnknownArgument / InvalidSubcommand error names
    a token of the line that matches no key of the command -- an unknown long flag, an unknown short
    flag, a word where only a [last] positional (before `--`) or no positional at all is left *)
Theorem C10_unknown_token_sound : forall c toks ls st e st',
  parse_loop c toks ls st = RErr e st' -> unknown_kind (e_kind e) ->
  exists tok, In tok toks /\ unknown_cause c tok e.
Proof. exact parse_loop_unknown_sound. Qed.
Print Assumptions C10_unknown_token_sound.

(** ** the whole parse (all levels, [help] subcommand, env/defaults, validation): an UnknownArgument /
    InvalidSubcommand rejection is the token-loop error of some level (an unmatched token of that
    level's line) or the error of the [help] subcommand walk *)
Theorem C10_unknown_rejection_sound : forall c0 argv e,
  parse_top c0 argv = OErr e -> unknown_kind (e_kind e) ->
  (exists c' toks' tok, In tok toks' /\ unknown_cause c' tok e) \/ (exists sc names, e = help_walk sc names).
Proof. exact parse_top_unknown_sound. Qed.
Print Assumptions C10_unknown_rejection_sound.

Theorem C10_help_walk_sound : forall names sc,
  let e := help_walk sc names in
  e_kind e = EDisplayHelp \/
  (e_kind e = EInvalidSubcommand /\ In (e_arg e) names /\
   exists sc', find_subcommand sc' (e_arg e) = None \/
               (exists s, find_subcommand sc' (e_arg e) = Some s /\ build_subcommand sc' (c_name s) = None)).
Proof. exact help_walk_sound. Qed.
Print Assumptions C10_help_walk_sound.

Theorem C10_validate_kinds : forall c m k a,
  validate c m = VErr k a ->
  In k [EDisplayHelpOnMissing; EMissingSubcommand; EArgumentConflict; EMissingRequiredArgument].
Proof. exact validate_kinds. Qed.
Print Assumptions C10_validate_kinds.

(** ** round 2: whole-parse soundness of EVERY error kind, for all inputs of class [plain]
    (valid definitions without short flag subcommands).  Vocabulary (ParseProofs/KindSound.v): [occurs c T a] -- a
    token of the line [T] names the argument [a]; [faithful c T m] -- every explicit entry of the matcher [m] is
    accounted for by the line or the environment; [origin c T v] (Provenance.v) -- [v] is a piece of a token of [T],
    of a declared value or an action literal; [reach c T c' T'] -- [c'] is a level of the subcommand chain below [c]
    and parses the tail [T'] of [T]. *)

(** the vocabulary, spelled out *)
Theorem C10_occurs_spec : forall c T a, occurs c T a <->
  exists tok, In tok T /\
    ((exists f ok v, to_long tok = Some (f, ok, v) /\ long_selects c f a)
     \/ (exists r, to_short tok = Some r /\
                   exists n ch r', sf_next (skipn n r) = Some (inl ch, r') /\ get_short c ch = Some a)
     \/ a_index a <> None).
Proof. exact occurs_spec. Qed.
Print Assumptions C10_occurs_spec.

Theorem C10_long_selects_spec : forall c f a, long_selects c f a <->
  (get_long c f = Some a
   \/ (is_set s_infer_long c = true /\ In a (c_args c) /\ a_is_positional a = false /\
       ((exists l, a_long a = Some l /\ is_prefix f l = true)
        \/ existsb (fun p => is_prefix f (fst p)) (a_aliases a) = true))).
Proof. exact long_selects_spec. Qed.
Print Assumptions C10_long_selects_spec.

Theorem C10_selId_spec : forall c T i, selId c T i <->
  exists a, (In a (c_args c) /\ occurs c T a) /\ (a_id a = i \/ In i (groups_for_arg c (a_id a))).
Proof. exact selId_spec. Qed.
Print Assumptions C10_selId_spec.

Theorem C10_envId_spec : forall c i, envId c i <->
  exists a, In a (c_args c) /\ a_env a <> None /\ (a_id a = i \/ In i (groups_for_arg c (a_id a))).
Proof. exact envId_spec. Qed.
Print Assumptions C10_envId_spec.

Theorem C10_faithful_spec : forall c T m, faithful c T m <->
  forall i ma, In (i, ma) (explicit_entries m) ->
    (m_source ma = Some SCmdLine /\ selId c T i) \/ (m_source ma = Some SEnv /\ (selId c T i \/ envId c i)).
Proof. exact faithful_spec. Qed.
Print Assumptions C10_faithful_spec.

Theorem C10_Breaks_spec : forall c0 argv e, Breaks c0 argv e <->
  exists b T c' T', suffix_of T argv /\ reach (build_self (c0 <| c_bin_name := b |>)) T c' T' /\ kind_justified c' T' e.
Proof. exact Breaks_spec. Qed.
Print Assumptions C10_Breaks_spec.

(** the invariant of the token loop (every loop and matcher state): the matcher stays faithful to the line, and an
    error is a classified reaction error, an unknown token, NoEquals / "flag given a value" of a named token, or a
    non-UTF-8 external subcommand *)
Theorem C10_loop_invariant : forall c T,
  (forall a, In a (c_args c) -> find_arg c (a_id a) = Some a) ->
  forall toks ls st, suffix_of toks T -> K c T st -> LI' (l_pst ls) st ->
  okE (lr_post c T) (loop_cause c T) (parse_loop c toks ls st).
Proof. exact parse_loop_K. Qed.
Print Assumptions C10_loop_invariant.

(** every level of the subcommand recursion: success leaves a faithful matcher, an error is a classified error of
    this level or of a level below *)
Theorem C10_level_sites : forall fuel c toks st0, tree_ok fuel c -> K c toks st0 ->
  okE (K c toks) (breaks c toks) (get_matches_with fuel c toks st0).
Proof. exact gmw_breaks. Qed.
Print Assumptions C10_level_sites.

Theorem C10_rejection_sites : forall c0 toks e, plain c0 = true -> valid c0 = true ->
  do_parse c0 toks = OErr e -> breaks (build_self c0) toks e.
Proof. exact do_parse_breaks. Qed.
Print Assumptions C10_rejection_sites.

Theorem C10_accepted_faithful : forall c0 toks st, plain c0 = true -> valid c0 = true ->
  get_matches_with (S (S (depth (build_self c0)))) (build_self c0) toks ps_new = ROk st ->
  faithful (build_self c0) toks (mt st).
Proof. exact accepted_faithful. Qed.
Print Assumptions C10_accepted_faithful.

Theorem C10_level_justified : forall c T e, level_breaks c T e -> kind_justified c T e.
Proof. exact level_breaks_justified. Qed.
Print Assumptions C10_level_justified.

(** THE theorem: a rejection of the whole parse breaks, at some level of the subcommand chain, the rule its kind names *)
Theorem C10_kind_sound : forall c0 argv e, plain c0 = true ->
  (forall b, valid (c0 <| c_bin_name := b |>) = true) -> valid c0 = true ->
  parse_top c0 argv = OErr e -> Breaks c0 argv e.
Proof. exact kind_sound. Qed.
Print Assumptions C10_kind_sound.

(** what [kind_justified] says, kind by kind *)
Theorem C10_missing_justified : forall c T e, kind_justified c T e -> e_kind e = EMissingRequiredArgument ->
  exists m, faithful c T m /\ check_explicit m (e_arg e) PIsPresent = false /\
    (rule_requires c m (e_arg e)
     \/ (exists a, In a (c_args c) /\ a_id a = e_arg e /\ ErrorSound.cond_required m a)
     \/ (exists p, In p (positionals c) /\ a_id p = e_arg e /\ is_set s_allow_missing_pos c = false)).
Proof. exact justified_missing. Qed.
Print Assumptions C10_missing_justified.

(** "a rule asks for x", declaratively: a required argument / group, what a required or present group requires, or
    [req_by]: the [requires] / [requires_if] rules of an explicitly present argument that hold of ITS explicit
    occurrence, closed transitively under UNCONDITIONAL [requires] rules (a conditional rule counts only when the
    argument that carries it is itself explicitly present with a matching value) *)
Theorem C10_rule_requires_spec : forall c mt x, rule_requires c mt x <->
  (exists a, In a (c_args c) /\ a_required a = true /\ a_id a = x)
  \/ (exists g, In g (c_groups c) /\ g_required g = true /\ (g_id g = x \/ In x (g_requires g)))
  \/ (exists i ma g, In (i, ma) (explicit_entries mt) /\ find_arg c i = None /\ find_group c i = Some g /\ In x (g_requires g))
  \/ (exists i ma, In (i, ma) (explicit_entries mt) /\ req_by c ma i x).
Proof. exact rule_requires_spec. Qed.
Print Assumptions C10_rule_requires_spec.

Theorem C10_req_by_spec : forall c m root y, req_by c m root y <->
  (exists a p, find_arg c root = Some a /\ In (p, y) (a_requires a) /\ Relations.holds p m)
  \/ (exists x b, req_by c m root x /\ find_arg c x = Some b /\ In (PIsPresent, y) (a_requires b)).
Proof. exact req_by_spec. Qed.
Print Assumptions C10_req_by_spec.

(** C10's [req_by] and C03's [Relations.ReqBy] (written independently) are the same relation *)
Theorem C10_req_by_is_C03_ReqBy : forall c m root y, req_by c m root y <-> Relations.ReqBy c root m y.
Proof. exact req_by_ReqBy. Qed.
Print Assumptions C10_req_by_is_C03_ReqBy.

(** the requirement set the validator computes contains only ids a rule asks for (converse of C03's direction) *)
Theorem C10_requirement_set_sound : forall c mt req x,
  gather_requires c mt (required_graph c) = Some req -> In x req -> rule_requires c mt x.
Proof. exact requirement_set_sound. Qed.
Print Assumptions C10_requirement_set_sound.

(** with the repaired [unroll_arg_requires] the two inclusions meet: the requirement set the validator computes IS
    the set of ids a declarative rule asks for, for every command and matcher; and it always exists *)
Theorem C10_requirement_set_exact : forall c mt req,
  gather_requires c mt (required_graph c) = Some req -> forall x, In x req <-> rule_requires c mt x.
Proof. exact requirement_set_exact. Qed.
Print Assumptions C10_requirement_set_exact.

Theorem C10_requirement_set_exists_exact : forall c mt,
  exists req, gather_requires c mt (required_graph c) = Some req /\ forall x, In x req <-> rule_requires c mt x.
Proof. exact requirement_set_exists_exact. Qed.
Print Assumptions C10_requirement_set_exists_exact.

Theorem C10_missing_rule_sound : forall c mt x,
  validate c mt = VErr EMissingRequiredArgument x ->
  check_explicit mt x PIsPresent = false /\
  (rule_requires c mt x
   \/ (exists a, In a (c_args c) /\ a_id a = x /\ ErrorSound.cond_required mt a)
   \/ (exists p, In p (positionals c) /\ a_id p = x /\ is_set s_allow_missing_pos c = false)).
Proof. exact missing_rule_sound. Qed.
Print Assumptions C10_missing_rule_sound.

Theorem C10_conflict_justified : forall c T e, kind_justified c T e -> e_kind e = EArgumentConflict ->
  (accounted c T (e_arg e) /\ is_some (find_arg c (e_arg e)) = true /\
   exists other, accounted c T other /\ other <> e_arg e /\
                 (Relations.declares c (e_arg e) other \/ Relations.declares c other (e_arg e)))
  \/ (accounted c T (e_arg e) /\
      exists a m, find_arg c (e_arg e) = Some a /\ a_exclusive a = true /\ faithful c T m /\
                  (2 <= length (filter (fun p => is_some (find_arg c (fst p))) (explicit_entries m)))%nat)
  \/ (exists a s st, In a (c_args c) /\ srcOKarg c T a s /\ e_arg e = a_id a /\ K c T st /\
                     mt_contains (mt st) (a_id a) = true /\
                     (is_set s_args_override_self c || mem_id (a_id a) (a_overrides a)) = false /\
                     In (a_get_action a) [ASet; ASetTrue; ASetFalse])
  \/ (exists tok, In tok T /\ unknown_cause c tok e)
  \/ is_set s_args_negate_subs c = true.
Proof. exact justified_conflict. Qed.
Print Assumptions C10_conflict_justified.

Theorem C10_count_kind_justified : forall c T e, kind_justified c T e ->
  In (e_kind e) [ETooManyValues; ETooFewValues; EWrongNumberOfValues] ->
  (exists a raw r, In a (c_args c) /\ occurs c T a /\ Forall (origin c T) raw /\ a_num a = Some r /\
                   e_arg e = a_id a /\ count_breaks (e_kind e) r (N.of_nat (length raw)))
  \/ (e_kind e = ETooManyValues /\ exists tok, In tok T /\ unneeded_cause c tok (e_arg e)).
Proof. exact justified_count. Qed.
Print Assumptions C10_count_kind_justified.

Theorem C10_noequals_justified : forall c T e, kind_justified c T e -> e_kind e = ENoEquals ->
  exists tok, In tok T /\ noeq_cause c tok (e_arg e).
Proof. exact justified_noeq. Qed.
Print Assumptions C10_noequals_justified.

Theorem C10_value_kind_justified : forall c T e, kind_justified c T e ->
  In (e_kind e) [EInvalidValue; EValueValidation; EInvalidUtf8] ->
  (exists a s vp v, In a (c_args c) /\ srcOKarg c T a s /\ a_vp a = Some vp /\ origin c T v /\
                    vp_parse vp v = Some (e_kind e) /\ ~ in_lang vp v /\ e_arg e = a_id a)
  \/ (exists v, In v T /\ is_set s_allow_external c = true /\
                vp_parse (opt_default VPOsString (c_ext_vp c)) v = Some (e_kind e) /\
                ~ in_lang (opt_default VPOsString (c_ext_vp c)) v)
  \/ (e_kind e = EInvalidValue /\
      exists a raw r, In a (c_args c) /\ occurs c T a /\ Forall (origin c T) raw /\ a_num a = Some r /\
                      e_arg e = a_id a /\ count_breaks (e_kind e) r (N.of_nat (length raw)))
  \/ (e_kind e = EInvalidUtf8 /\ exists tok, In tok T /\ utf8_valid tok = false /\ is_set s_allow_external c = true).
Proof. exact justified_value. Qed.
Print Assumptions C10_value_kind_justified.

Theorem C10_unknown_kind_justified : forall c T e, kind_justified c T e -> unknown_kind (e_kind e) ->
  (exists tok, In tok T /\ unknown_cause c tok e) \/ (exists names, suffix_of names T /\ e = help_walk c names).
Proof. exact justified_unknown. Qed.
Print Assumptions C10_unknown_kind_justified.

(** non-vacuity: the hypotheses of [C10_kind_sound] hold of a command with a required option, a ranged integer
    option, conflicting flags, a require-equals option and a two-valued option; twelve lines, eleven kinds *)
Theorem C10_kind_sound_nonvacuous :
  plain ex_cmd = true /\ valid ex_cmd = true /\ (forall b, valid (ex_cmd <| c_bin_name := b |>) = true)
  /\ map ex_kind
       [ [];
         [ex_dd [110;97]; [120]];
         [ex_dd [110;97]; [120]; ex_dd [102;102]; ex_dd [111;111]];
         [ex_dd [110;97]; [120]; ex_dd [110;97]; [121]];
         [ex_dd [110;97]; [120]; ex_dd [107;107]; [57;57;57]];
         [ex_dd [110;97]; [120]; ex_dd [113;113]; [118]];
         [ex_dd [110;97]; [120]; ex_dd [102;102;61;120]];
         [ex_dd [110;97]; [120]; ex_dd [119;119]; [118]];
         [ex_dd [110;97]; [120]; ex_dd [122;122]];
         [ex_dd [110;97]; [255]];
         [ex_dd [104;101;108;112]];
         [ex_dd [110;97]] ]
     = [Some EMissingRequiredArgument; None; Some EArgumentConflict; Some EArgumentConflict; Some EValueValidation;
        Some ENoEquals; Some ETooManyValues; Some EWrongNumberOfValues; Some EUnknownArgument; Some EInvalidUtf8;
        Some EDisplayHelp; Some EInvalidValue].
Proof. exact kind_sound_nonvacuous. Qed.
Print Assumptions C10_kind_sound_nonvacuous.

(** no spurious rejection in contrapositive form (with C01's totality): a line for which no error is justified at
    any level of the chain is accepted *)
Theorem C10_unbroken_accepted : forall c0 argv, plain c0 = true ->
  (forall b, valid (c0 <| c_bin_name := b |>) = true) -> valid c0 = true ->
  (forall e, ~ Breaks c0 argv e) -> exists m, parse_top c0 argv = OOk m.
Proof. exact unbroken_accepted. Qed.
Print Assumptions C10_unbroken_accepted.

(** the finding of round 2, repaired: a conditional [requires_if] rule met along a [requires] chain used to be tested
    against the value of the ROOT argument.  Witness about the kept PRE-repair function
    ([unroll_arg_requires_before_fix], ParseProofs/RequiresChain.v): with [a.requires(b)], [b.requires_if("v", y)] and
    the occurrences the line `--aa v --bb w` produces ([a] = "v", [b] = "w": [b]'s rule does not hold of [b]) it
    demanded [y]; the repaired function demands [b] only, and [b] as a root demands nothing *)
Theorem C10_requires_if_chain_before_fix :
  exists ma mb,
    entry_of (parse_top quirk_cmd (quirk_line [118] [119])) [97] = Some ma /\
    entry_of (parse_top quirk_cmd (quirk_line [118] [119])) [98] = Some mb /\
    check_explicit_m (PEquals [118]) ma = true /\ check_explicit_m (PEquals [118]) mb = false /\
    unroll_arg_requires_before_fix quirk_cmd (Relations.is_relevant ma) [97] = Some [[98]; [121]] /\
    unroll_arg_requires quirk_cmd (Relations.is_relevant ma) [97] = Some [[98]] /\
    unroll_arg_requires quirk_cmd (Relations.is_relevant mb) [98] = Some [].
Proof. exact requires_if_chain_before_fix. Qed.
Print Assumptions C10_requires_if_chain_before_fix.

(** the repair only removes demands: whatever the repaired unrolling returns the pre-repair one returned too, for every
    command, predicate test and root -- the repaired validator never asks for an id the unrepaired one did not *)
Theorem C10_unroll_fixed_incl_before_fix : forall c func root out out0,
  unroll_arg_requires c func root = Some out ->
  unroll_arg_requires_before_fix c func root = Some out0 ->
  incl out out0.
Proof. exact unroll_fixed_incl_before_fix. Qed.
Print Assumptions C10_unroll_fixed_incl_before_fix.

(** the same inputs on the repaired model: `--aa v --bb w` accepted, `--aa z --bb w` accepted,
    `--aa z --bb v` MissingRequiredArgument(y) (the documented behaviour of [requires_if]) *)
Theorem C10_requires_if_chain_fixed :
  plain quirk_cmd = true /\ valid quirk_cmd = true /\
  (exists m, parse_top quirk_cmd (quirk_line [118] [119]) = OOk m) /\
  (exists m, parse_top quirk_cmd (quirk_line [122] [119]) = OOk m) /\
  (exists e, parse_top quirk_cmd (quirk_line [122] [118]) = OErr e
             /\ e_kind e = EMissingRequiredArgument /\ e_arg e = [121]).
Proof. exact requires_if_chain_fixed. Qed.
Print Assumptions C10_requires_if_chain_fixed.

(** ---------------------------------------------------------------------------------------
    FOURTH PASS: "inputs that break no rule are not rejected" as an INDEPENDENT statement
    (ParseProofs/NoSpurious.v: one level; NoSpuriousTree.v: trees, [parse_top], the converse; NoSpuriousCheck.v /
    NoSpuriousExamples.v: non-vacuity and necessity witnesses).

    The rules are stated on what a rendered invocation DENOTES (C02: [inv], [render_inv], [inv_occs]; C07: the
    abstract fold [step_abs] behind [denote_os]); no function of the parser occurs in a rule:
      (a) [count_ok_occ]  the number of values of every occurrence is inside the argument's range;
      (b) [values_ok]     every value an occurrence stores -- the pieces of each raw value at the argument's
                          delimiter ([pieces_of] = C14's [SplitSpec]), the default-missing values of an empty
                          occurrence, the literal of a flag -- is in the parser's language ([in_lang]);
      (h) [storing]       the action of the argument stores (not a help / version request);
      (d) [no_repeat]     a Set-like argument without self-override occurs only while C07's fold over the
                          occurrences before it holds nothing for it;
      (e) [defaults_ok]   the default values the definition declares are in the language (configuration rule);
      (c) [relations_rule], [shape_rule]  EVERY matcher that reports the denotation ([reports]: per argument the
                          groups of C07's fold, explicit, with the argument's case-folding flag; a group id only if a
                          member occurred) satisfies C03's declarative [Relations]; a level that selects no
                          subcommand is not [subcommand_required] and not empty under [arg_required_else_help].
    Class (boolean): C02's lifted class [wfx_inv] (exact keys; flags, clusters, all option spellings incl.
    [require_equals], terminators, hyphen / negative-number values of options, delimiters, positional runs,
    subcommand trees, global arguments) and [lvl_class]: no level declares an environment value, positionals
    are indexed. *)

(** the vocabulary, spelled out (by conversion: changing a definition changes these statements) *)
Theorem C10_occ_rules_spec : forall o,
  occ_rules o <->
  (match a_get_action (o_arg o) with ASet | AAppend | ASetTrue | ASetFalse | ACount => true | _ => false end = true
   /\ (exists r, a_num (o_arg o) = Some r /\ count_in_range r (N.of_nat (length (o_raw o))))
   /\ exists vp, a_vp (o_arg o) = Some vp /\
        forall pss,
          Forall2 (fun v ps => match a_delim (o_arg o) with
                               | Some d => pieces_of (encode_utf8 d) v ps
                               | None => ps = [v] end)
                  (match o_raw o with [] => a_default_missing (o_arg o) | _ => o_raw o end) pss ->
          Forall (in_lang vp) (pushed (o_arg o) (concat pss))
          /\ (a_get_action (o_arg o) = ACount -> concat pss = [] -> vp = VPCount)).
Proof. exact occ_rules_spec. Qed.
Print Assumptions C10_occ_rules_spec.

Theorem C10_level_rules_spec : forall c os sub,
  level_rules c os sub <->
  (Forall occ_rules os
   /\ (forall os1 o os2, os = os1 ++ o :: os2 -> set_family (o_arg o) = true -> self_override c (o_arg o) = false ->
         fold_left (step_abs c (a_id (o_arg o))) os1 None = None)
   /\ (forall a raw, In a (c_args c) ->
         ((raw = a_default a /\ raw <> []) \/ (exists i p d, In (i, p, Some d) (a_default_ifs a) /\ raw = [d])) ->
         storing a = true /\ values_ok a raw)
   /\ (forall m, reports c os sub m -> Relations c m)
   /\ (sub = true \/ (is_set s_sub_required c = false /\ (is_set s_arg_required_else_help c = false \/ os <> [])))).
Proof. exact level_rules_spec. Qed.
Print Assumptions C10_level_rules_spec.

Theorem C10_reports_spec : forall c os sub m,
  reports c os sub m <->
  ((forall a, In a (c_args c) ->
      match fold_left (step_abs c (a_id a)) os None with
      | Some gs => exists e, fm_get (a_id a) (mt_args m) = Some e /\ m_source e <> Some SDefault /\ m_raw e = gs
                             /\ m_ignore_case e = a_ignore_case a
      | None => ~ (exists e, fm_get (a_id a) (mt_args m) = Some e /\ m_source e <> Some SDefault)
      end)
   /\ (forall k, (exists e, fm_get k (mt_args m) = Some e /\ m_source e <> Some SDefault) ->
         (forall a, In a (c_args c) -> a_id a <> k) ->
         exists o, In o os /\ In (o_arg o) (c_args c) /\ In k (groups_for_arg c (a_id (o_arg o))))
   /\ is_some (mt_sub m) = sub).
Proof. exact reports_spec. Qed.
Print Assumptions C10_reports_spec.

Theorem C10_inv_rules_spec : forall c i,
  (inv_rules c i <->
   level_rules c (inv_occs c i) (match i with ISub _ _ _ => true | _ => false end) /\
   match i with
   | ISub _ name j => match child c name with Some scb => inv_rules scb j | None => False end
   | _ => True
   end)
  /\ (lvl_class c i =
      forallb (fun a => negb (is_some (a_env a))) (c_args c) && forallb (fun p => is_some (a_index p)) (positionals c) &&
      match i with
      | ISub _ name j => match child c name with Some scb => lvl_class scb j | None => false end
      | _ => true
      end).
Proof. exact inv_rules_spec. Qed.
Print Assumptions C10_inv_rules_spec.

(** ONE OCCURRENCE is stored, whatever its source: count inside the range (command line), values in the language,
    a storing action, a Set-like argument absent or self-overriding (any command, any state with unique keys) *)
Theorem C10_occurrence_accepted : forall c idn s a raw st,
  wf_m (mt st) -> ~ In (a_id a) (groups_for_arg c (a_id a)) ->
  (s = SCmdLine -> count_ok_occ a raw) -> storing a = true -> values_ok a raw ->
  (set_family a = true -> mt_contains (mt st) (a_id a) = false \/ self_override c a = true) ->
  exists st', react_core c idn s a raw None st = ROk (st', PRValuesDone).
Proof. exact react_core_succeeds. Qed.
Print Assumptions C10_occurrence_accepted.

(** ... and conversely, by kind: a rejected command-line occurrence breaks the rule its kind names -- a count kind: (a);
    ArgumentConflict: the argument is Set-like, does not override itself and is already stored, (d); a value kind: (b);
    DisplayHelp / DisplayVersion: the action does not store, (h) *)
Theorem C10_occurrence_rejection_names_rule : forall c idn a raw st e st',
  wf_m (mt st) -> react_core c idn SCmdLine a raw None st = RErr e st' ->
  (In (e_kind e) [EInvalidValue; EWrongNumberOfValues; ETooFewValues; ETooManyValues] /\ ~ count_ok_occ a raw)
  \/ (e_kind e = EArgumentConflict /\ set_family a = true /\ self_override c a = false /\ mt_contains (mt st) (a_id a) = true)
  \/ (In (e_kind e) [EInvalidUtf8; EInvalidValue; EValueValidation] /\ ~ values_ok a raw)
  \/ (In (e_kind e) [EDisplayHelp; EDisplayVersion] /\ storing a = false).
Proof. exact react_core_rejection_names_rule. Qed.
Print Assumptions C10_occurrence_rejection_names_rule.

(** ONE LEVEL: the fold of [react] over the occurrences succeeds, and so do the environment / default / validation
    phases, with anything ([x]) in the subcommand slot *)
Theorem C10_level_accepted : forall c os x, assert_app c = true -> no_env c = true -> pos_indexed_b c = true ->
  Forall (line_occ c) os -> level_rules c os (is_some x) ->
  exists st1 st, react_all c os ps_new = ROk st1 /\ post_loop c (ssub x st1) = ROk st /\ mt_sub (mt st1) = None.
Proof. exact level_accepts. Qed.
Print Assumptions C10_level_accepted.

(** THE DENOTATION of a tree that breaks no rule succeeds ... *)
Theorem C10_denotation_accepted : forall i c, wfx_inv c i = true -> lvl_class c i = true -> inv_rules c i ->
  exists st, run_inv c i = ROk st.
Proof. exact run_inv_ok. Qed.
Print Assumptions C10_denotation_accepted.

(** ... and so does the parse of the rendered line: INPUTS THAT BREAK NO RULE ARE NOT REJECTED *)
Theorem C10_no_spurious_reject : forall c0 bin i, is_set s_no_binary_name c0 = false ->
  valid (with_bin c0 bin) = true -> wfx_inv (build_self (with_bin c0 bin)) i = true ->
  lvl_class (build_self (with_bin c0 bin)) i = true -> inv_rules (build_self (with_bin c0 bin)) i ->
  exists m, parse_top c0 (bin :: render_inv i) = OOk m.
Proof. exact no_spurious_reject. Qed.
Print Assumptions C10_no_spurious_reject.

(** the converse packaging: a rejected rendered line breaks a rule ... *)
Theorem C10_rejected_breaks_rule : forall c0 bin i e, is_set s_no_binary_name c0 = false ->
  valid (with_bin c0 bin) = true -> wfx_inv (build_self (with_bin c0 bin)) i = true ->
  lvl_class (build_self (with_bin c0 bin)) i = true ->
  parse_top c0 (bin :: render_inv i) = OErr e -> ~ inv_rules (build_self (with_bin c0 bin)) i.
Proof. exact rejected_breaks_rule. Qed.
Print Assumptions C10_rejected_breaks_rule.

(** ... and the kind says which: when the occurrence rules (a) (b) (d) (h) and the default rule (e) hold at every
    level ([inv_rules_nc] = [inv_rules] without (c)), the error has a validator kind -- it names rule (c); hence an
    error of any other kind means that one of (a) (b) (d) (h) (e) fails at some level *)
Theorem C10_rejection_names_relations : forall c0 bin i e, is_set s_no_binary_name c0 = false ->
  valid (with_bin c0 bin) = true -> wfx_inv (build_self (with_bin c0 bin)) i = true ->
  lvl_class (build_self (with_bin c0 bin)) i = true -> inv_rules_nc (build_self (with_bin c0 bin)) i ->
  parse_top c0 (bin :: render_inv i) = OErr e ->
  In (e_kind e) [EDisplayHelpOnMissing; EMissingSubcommand; EArgumentConflict; EMissingRequiredArgument].
Proof. exact rejection_names_relations. Qed.
Print Assumptions C10_rejection_names_relations.

Theorem C10_inv_rules_nc_spec : forall c i,
  (inv_rules_nc c i <->
   (Forall occ_rules (inv_occs c i) /\ no_repeat c (inv_occs c i) /\ defaults_ok c) /\
   match i with
   | ISub _ name j => match child c name with Some scb => inv_rules_nc scb j | None => False end
   | _ => True
   end)
  /\ (inv_rules c i -> inv_rules_nc c i).
Proof. exact inv_rules_nc_spec. Qed.
Print Assumptions C10_inv_rules_nc_spec.

(** the level-by-level form of the denotation's outcome under the rules without (c) *)
Theorem C10_denotation_rejection_kinds : forall i c, wfx_inv c i = true -> lvl_class c i = true -> inv_rules_nc c i ->
  (exists st, run_inv c i = ROk st) \/
  (exists e st, run_inv c i = RErr e st /\
     In (e_kind e) [EDisplayHelpOnMissing; EMissingSubcommand; EArgumentConflict; EMissingRequiredArgument]).
Proof. exact run_inv_nc. Qed.
Print Assumptions C10_denotation_rejection_kinds.

(** what C03's [Relations] reads of a matcher: of an explicit entry its values and its case-folding flag ... *)
Theorem C10_relations_read : forall c mt mt',
  (forall i, cview mt i = cview mt' i) -> is_some (mt_sub mt) = is_some (mt_sub mt') ->
  Relations c mt -> Relations c mt'.
Proof. exact Relations_cview. Qed.
Print Assumptions C10_relations_read.

(** ... which, on a level without groups, the denotation determines; so rule (c) is decided by the validator's
    answer on the matcher the denotation ends in, both ways *)
Theorem C10_reports_determine : forall c os sub m m', c_groups c = [] ->
  reports c os sub m -> reports c os sub m' -> forall i, cview m i = cview m' i.
Proof. exact reports_determine. Qed.
Print Assumptions C10_reports_determine.

Theorem C10_relations_rule_decide : forall c os x, assert_app c = true -> c_groups c = [] ->
  Forall (line_occ c) os -> Forall occ_rules os -> no_repeat c os -> defaults_ok c ->
  (forall st1 st3, react_all c os ps_new = ROk st1 -> add_defaults c (ssub x st1) = ROk st3 ->
                   validate c (mt st3) = VOk) ->
  relations_rule c os (is_some x).
Proof. exact relations_rule_decide. Qed.
Print Assumptions C10_relations_rule_decide.

Theorem C10_relations_rule_refute : forall c os x, assert_app c = true -> no_env c = true -> pos_indexed_b c = true ->
  Forall (line_occ c) os -> Forall occ_rules os -> no_repeat c os -> defaults_ok c -> shape_rule c os (is_some x) ->
  (forall st1 st, react_all c os ps_new = ROk st1 -> post_loop c (ssub x st1) <> ROk st) ->
  ~ relations_rule c os (is_some x).
Proof. exact relations_rule_refute. Qed.
Print Assumptions C10_relations_rule_refute.

(** the matcher a level ends in REPORTS its denotation (what rule (c) quantifies over is what the parser builds) *)
Theorem C10_final_matcher_reports : forall c os x st1 st3, assert_app c = true ->
  Forall (line_occ c) os -> Forall occ_rules os -> no_repeat c os ->
  react_all c os ps_new = ROk st1 -> add_defaults c (ssub x st1) = ROk st3 ->
  reports c os (is_some x) (mt st3).
Proof. exact final_matcher_reports. Qed.
Print Assumptions C10_final_matcher_reports.

(** NON-VACUITY: [prog --req A -n 300 -vv --mu a,b c -x F run --key=K] for
    prog -r/--req <v> (required)  -n/--num <i64 in -5..=300>  -q/--quiet (conflicts_with verbose)  -v/--verbose (Count)
         -m/--mu <v>{1..3} (Append, delimiter ",")  -x/--ex (requires num)  -d/--def <i64 in 0..=9> (default "7")
         -p/--pair <v>{2}  <f>   subcommand run: -k/--key <v> (required):
    the class and every rule hold at both levels; the parse reports the denoted values *)
Theorem C10_no_spurious_reject_nonvacuous :
  (is_set s_no_binary_name NsrEx.c0 = false /\ valid (with_bin NsrEx.c0 NsrEx.bin) = true /\
   wfx_inv NsrEx.c NsrEx.ninv = true /\ lvl_class NsrEx.c NsrEx.ninv = true /\
   render_inv NsrEx.ninv =
     [[45; 45; 114; 101; 113]; [65]; [45; 110]; [51; 48; 48]; [45; 118; 118]; [45; 45; 109; 117]; [97; 44; 98]; [99];
      [45; 120]; [70]; [114; 117; 110]; [45; 45; 107; 101; 121; 61; 75]]) /\
  inv_rules NsrEx.c NsrEx.ninv /\
  exists mm sm,
    parse_top NsrEx.c0 (NsrEx.bin :: render_inv NsrEx.ninv) = OOk mm /\ ms_sub mm = Some (NsrEx.s_run, sm) /\
    NsrEx.raw_of [114] mm = Some [[[65]]] /\ NsrEx.raw_of [110] mm = Some [[[51; 48; 48]]] /\ NsrEx.raw_of [118] mm = Some [[[50]]] /\
    NsrEx.raw_of [109] mm = Some [[[97]; [98]; [99]]] /\ NsrEx.raw_of [120] mm = Some [[s_true]] /\ NsrEx.raw_of [100] mm = Some [[[55]]] /\
    NsrEx.raw_of [102] mm = Some [[[70]]] /\ NsrEx.raw_of [107] sm = Some [[[75]]].
Proof. split; [exact NsrEx.ex_class|]. split; [exact NsrEx.ex_rules|exact NsrEx.ex_parse]. Qed.
Print Assumptions C10_no_spurious_reject_nonvacuous.

(** EACH RULE IS NECESSARY: lines of the class (same program) on which the rule named fails while the others
    hold, rejected with the kind that names the rule *)
(** (a) [prog --req A --pair B]: one value for an option declared with two -> WrongNumberOfValues(pair) *)
Theorem C10_rule_count_necessary :
  NsrEx.in_class NsrEx.c0 NsrEx.ia /\
  Forall (fun o => storing (o_arg o) = true /\ values_ok (o_arg o) (o_raw o)) (inv_occs NsrEx.c NsrEx.ia) /\
  no_repeat NsrEx.c (inv_occs NsrEx.c NsrEx.ia) /\ defaults_ok NsrEx.c /\
  ~ Forall (fun o => count_ok_occ (o_arg o) (o_raw o)) (inv_occs NsrEx.c NsrEx.ia) /\
  NsrEx.rejected NsrEx.c0 NsrEx.ia EWrongNumberOfValues [112].
Proof. exact NsrEx.need_count. Qed.
Print Assumptions C10_rule_count_necessary.

(** (b) [prog --req A -n 301]: outside -5..=300 -> ValueValidation(num) *)
Theorem C10_rule_language_necessary :
  NsrEx.in_class NsrEx.c0 NsrEx.ib /\
  Forall (fun o => storing (o_arg o) = true /\ count_ok_occ (o_arg o) (o_raw o)) (inv_occs NsrEx.c NsrEx.ib) /\
  no_repeat NsrEx.c (inv_occs NsrEx.c NsrEx.ib) /\ defaults_ok NsrEx.c /\
  ~ Forall (fun o => values_ok (o_arg o) (o_raw o)) (inv_occs NsrEx.c NsrEx.ib) /\
  NsrEx.rejected NsrEx.c0 NsrEx.ib EValueValidation [110].
Proof. exact NsrEx.need_language. Qed.
Print Assumptions C10_rule_language_necessary.

(** (h) [prog --req A --help] -> DisplayHelp *)
Theorem C10_rule_storing_necessary :
  NsrEx.in_class NsrEx.c0 NsrEx.ih /\ ~ Forall (fun o => storing (o_arg o) = true) (inv_occs NsrEx.c NsrEx.ih) /\
  NsrEx.rejected NsrEx.c0 NsrEx.ih EDisplayHelp [].
Proof. exact NsrEx.need_storing. Qed.
Print Assumptions C10_rule_storing_necessary.

(** (d) [prog --req A --req B] -> ArgumentConflict(req) *)
Theorem C10_rule_no_repeat_necessary :
  NsrEx.in_class NsrEx.c0 NsrEx.id_ /\ Forall occ_rules (inv_occs NsrEx.c NsrEx.id_) /\ defaults_ok NsrEx.c /\
  ~ no_repeat NsrEx.c (inv_occs NsrEx.c NsrEx.id_) /\ NsrEx.rejected NsrEx.c0 NsrEx.id_ EArgumentConflict [114].
Proof. exact NsrEx.need_no_repeat. Qed.
Print Assumptions C10_rule_no_repeat_necessary.

(** (c) [prog -n 3] -> MissingRequiredArgument(req); [prog --req A -q -v] -> ArgumentConflict(quiet);
        [prog --req A -x] -> MissingRequiredArgument(num) *)
Theorem C10_rule_relations_necessary :
  (NsrEx.in_class NsrEx.c0 NsrEx.ic1 /\ Forall occ_rules (inv_occs NsrEx.c NsrEx.ic1) /\ no_repeat NsrEx.c (inv_occs NsrEx.c NsrEx.ic1) /\
   defaults_ok NsrEx.c /\ shape_rule NsrEx.c (inv_occs NsrEx.c NsrEx.ic1) false /\
   ~ relations_rule NsrEx.c (inv_occs NsrEx.c NsrEx.ic1) false /\ NsrEx.rejected NsrEx.c0 NsrEx.ic1 EMissingRequiredArgument [114]) /\
  (NsrEx.in_class NsrEx.c0 NsrEx.ic2 /\ Forall occ_rules (inv_occs NsrEx.c NsrEx.ic2) /\ no_repeat NsrEx.c (inv_occs NsrEx.c NsrEx.ic2) /\
   defaults_ok NsrEx.c /\ shape_rule NsrEx.c (inv_occs NsrEx.c NsrEx.ic2) false /\
   ~ relations_rule NsrEx.c (inv_occs NsrEx.c NsrEx.ic2) false /\ NsrEx.rejected NsrEx.c0 NsrEx.ic2 EArgumentConflict [113]) /\
  (NsrEx.in_class NsrEx.c0 NsrEx.ic3 /\ Forall occ_rules (inv_occs NsrEx.c NsrEx.ic3) /\ no_repeat NsrEx.c (inv_occs NsrEx.c NsrEx.ic3) /\
   defaults_ok NsrEx.c /\ shape_rule NsrEx.c (inv_occs NsrEx.c NsrEx.ic3) false /\
   ~ relations_rule NsrEx.c (inv_occs NsrEx.c NsrEx.ic3) false /\ NsrEx.rejected NsrEx.c0 NsrEx.ic3 EMissingRequiredArgument [110]).
Proof. exact (conj NsrEx.need_relations_required (conj NsrEx.need_relations_conflict NsrEx.need_relations_requires)). Qed.
Print Assumptions C10_rule_relations_necessary.

(** (e) the same program with [default_value("77")] on --def (i64 in 0..=9), line [prog --req A] -> ValueValidation(def) *)
Theorem C10_rule_defaults_necessary :
  NsrEx.in_class NsrEx.c0e NsrEx.ie /\ Forall occ_rules (inv_occs NsrEx.ce NsrEx.ie) /\ no_repeat NsrEx.ce (inv_occs NsrEx.ce NsrEx.ie) /\
  ~ defaults_ok NsrEx.ce /\ NsrEx.rejected NsrEx.c0e NsrEx.ie EValueValidation [100].
Proof. exact NsrEx.need_defaults. Qed.
Print Assumptions C10_rule_defaults_necessary.

Theorem C10_necessity_vocabulary : forall k0 i k a,
  (NsrEx.in_class k0 i <->
   is_set s_no_binary_name k0 = false /\ valid (with_bin k0 NsrEx.bin) = true /\
   wfx_inv (build_self (with_bin k0 NsrEx.bin)) i = true /\ lvl_class (build_self (with_bin k0 NsrEx.bin)) i = true) /\
  (NsrEx.rejected k0 i k a <->
   exists e, parse_top k0 (NsrEx.bin :: render_inv i) = OErr e /\ e_kind e = k /\ e_arg e = a) /\
  NsrEx.c = build_self (with_bin NsrEx.c0 NsrEx.bin) /\ NsrEx.ce = build_self (with_bin NsrEx.c0e NsrEx.bin).
Proof. exact necessity_vocabulary. Qed.
Print Assumptions C10_necessity_vocabulary.

(** ** round 5: which settings are global, and how they travel -- tied to the source by translation
    [Gen.SettingsTables] is regenerated on every run from clap_builder/src/builder/{app_settings,command}.rs (and, for the
    two spec readers, from ocaml/common_parse/spec.ml and harness/src/modes/parse.rs).  Vocabulary
    (ParseProofs/TablesSettings.v): [spec_apply n c] = what the model-side reader does to the model command for the
    setter name [n]; [src_apply n c] = what the source's `Command::n(true)` does (variant and AppFlags fields read off
    the setter body and off setting/global_setting); [find_setter n] = (variant, through global_setting?);
    [propagate_chain p scs] = the leaf of a chain of subcommands below [p], each level propagated from the one above. *)
Theorem C10_settings_reader_matches_source :
  Forall (fun n => forall c, exists c', TablesSettings.spec_apply n c = Some c' /\ TablesSettings.src_apply n c = Some c')
         TablesSettings.spec_names
  /\ Forall (fun n => exists v g, TablesSettings.find_setter n = Some (v, g) /\ TablesSettings.spec_is_global n = Some g)
            TablesSettings.spec_names
  /\ Forall (fun p => fst p = snd p) SettingsTables.gen_harness_settings
  /\ map fst SettingsTables.gen_harness_settings = TablesSettings.spec_names.
Proof.
  exact (conj TablesSettings.spec_reader_matches_source (conj TablesSettings.spec_reader_globals_match_source
          TablesSettings.harness_calls_named_method)).
Qed.
Print Assumptions C10_settings_reader_matches_source.

(** the setters of the source the parser model does not represent are exactly the listed ones *)
Theorem C10_settings_unmodelled :
  TablesSettings.unmodelled true = TablesSettings.known_unmodelled_global
  /\ TablesSettings.unmodelled false = TablesSettings.known_unmodelled_local.
Proof. exact TablesSettings.unmodelled_setters. Qed.
Print Assumptions C10_settings_unmodelled.

(** `_propagate_subcommand` of the model IS the function the source's table defines *)
Theorem C10_settings_propagate_table : forall p sc,
  TablesSettings.tbl_propagate p sc = Some (propagate_subcommand p sc).
Proof. exact TablesSettings.propagate_table. Qed.
Print Assumptions C10_settings_propagate_table.

(** a setter the source routes through `global_setting` holds at EVERY level below the command it was called on *)
Theorem C10_global_setter_reaches_every_level : forall n v f,
  In n TablesSettings.spec_names -> TablesSettings.find_setter n = Some (v, true) -> TablesSettings.field_by_variant v = Some f ->
  forall p p' scs, TablesSettings.spec_apply n p = Some p' -> scs <> [] ->
  is_set (TablesSettings.sf_get f) p' = true /\ is_set (TablesSettings.sf_get f) (TablesSettings.propagate_chain p' scs) = true.
Proof. exact TablesSettings.global_setter_reaches_every_level. Qed.
Print Assumptions C10_global_setter_reaches_every_level.

(** ... and one routed through `setting` changes nothing below *)
Theorem C10_local_setter_stays : forall n v,
  In n TablesSettings.spec_names -> TablesSettings.find_setter n = Some (v, false) ->
  forall p p' sc, TablesSettings.spec_apply n p = Some p' ->
  c_gset p' = c_gset p
  /\ c_set (propagate_subcommand p' sc) = c_set (propagate_subcommand p sc)
  /\ c_gset (propagate_subcommand p' sc) = c_gset (propagate_subcommand p sc).
Proof. exact TablesSettings.local_setter_stays. Qed.
Print Assumptions C10_local_setter_stays.

(** per setting, one propagation step: what the subcommand sees and what it hands on *)
Theorem C10_propagate_is_set : forall f, In f TablesSettings.all_sfields -> forall p sc,
  is_set (TablesSettings.sf_get f) (propagate_subcommand p sc)
    = is_set (TablesSettings.sf_get f) sc || TablesSettings.sf_get f (c_gset p)
  /\ TablesSettings.sf_get f (c_gset (propagate_subcommand p sc))
    = TablesSettings.sf_get f (c_gset sc) || TablesSettings.sf_get f (c_gset p).
Proof. exact TablesSettings.propagate_is_set. Qed.
Print Assumptions C10_propagate_is_set.

(** the settings block of `_build_self` and the finishing of the generated `help` subcommand, from the table *)
Theorem C10_build_self_settings_table : forall c, is_set s_multicall c = false ->
  TablesSettings.tbl_bs_settings c = Some (bs_settings c).
Proof. exact TablesSettings.bs_settings_table. Qed.
Print Assumptions C10_build_self_settings_table.

Theorem C10_help_subcommand_table : forall p,
  TablesSettings.tbl_help_subcommand p = Some (fix_help_unset (help_subcommand p)).
Proof. exact TablesSettings.help_subcommand_table. Qed.
Print Assumptions C10_help_subcommand_table.

(** ... and in the REAL build order: a setting in the global record of the root of an unbuilt tree (class [plain]: nothing
    built yet, no short-flag subcommands -- C01's class) is set at every level the parser can descend into
    ([build_self], then [build_subcommand] repeatedly), to any depth; PropagateVersion is excluded because the generated
    `help` subcommand clears it in its own global record ([pv_free_fields] = the 23 other model fields) *)
Theorem C10_global_setting_set_at_every_built_level : forall f, In f TablesSettingsTree.pv_free_fields ->
  forall fuel x, plain x = true -> TablesSettings.sf_get f (c_gset x) = true ->
  TablesSettingsTree.set_all (TablesSettings.sf_get f) fuel (build_self x).
Proof. exact TablesSettingsTree.global_setting_set_at_every_built_level. Qed.
Print Assumptions C10_global_setting_set_at_every_built_level.

Theorem C10_global_setter_set_at_every_built_level : forall n v f,
  In n TablesSettings.spec_names -> TablesSettings.find_setter n = Some (v, true) ->
  TablesSettings.field_by_variant v = Some f -> In f TablesSettingsTree.pv_free_fields ->
  forall fuel x x', TablesSettings.spec_apply n x = Some x' -> plain x' = true ->
  TablesSettingsTree.set_all (TablesSettings.sf_get f) fuel (build_self x').
Proof. exact TablesSettingsTree.global_setter_set_at_every_built_level. Qed.
Print Assumptions C10_global_setter_set_at_every_built_level.
