(** Property C10: rejections are justified, correctly classified, and carry the CLI exit contract.
    This file contains only the pinned statements; proofs live in Errors/KindTable.v,
    Errors/Suggest.v and ParseProofs/ErrorSound.v. *)
From ClapModel Require Import Base.Bytes Base.Machine Base.Utf8.
From ClapModel Require Import Parse.Cmd Parse.Build Parse.Matcher Parse.Errors Parse.Validator Parse.Parser.
From ClapModel Require Import Gen.ErrorTables Errors.KindTable Errors.Suggest ParseProofs.ErrorSound.
From Coq Require Import ZArith QArith String List.
From RecordUpdate Require Import RecordSet.
Import RecordSetNotations.
Import ListNotations.
Open Scope N_scope.

(** ** exit contract *)
(** the model's table is the one the source declares today (variant list in order, stream,
    use_stderr, exit code of every variant) *)
Theorem C10_table_matches_source :
  map kind_name all_kinds = gen_kind_names /\
  forall k, to_gstream (kind_stream k) = gen_stream (kind_name k) /\
            use_stderr k = gen_use_stderr (kind_name k) /\
            exit_code k = gen_exit_code (kind_name k).
Proof. exact table_matches_source. Qed.
Print Assumptions C10_table_matches_source.

Theorem C10_exit_contract : forall k,
  (exit_code k = 0%Z <-> k = EDisplayHelp \/ k = EDisplayVersion) /\
  (exit_code k = 0%Z \/ exit_code k = 2%Z) /\
  (use_stderr k = false <-> k = EDisplayHelp \/ k = EDisplayVersion) /\
  (kind_stream k = Stdout <-> k = EDisplayHelp \/ k = EDisplayVersion) /\
  (exit_code k = 0%Z <-> use_stderr k = false).
Proof. exact exit_contract. Qed.
Print Assumptions C10_exit_contract.

(** the same contract stated directly on the data read from kind.rs / mod.rs / util/mod.rs *)
Theorem C10_exit_contract_source : forall n, In n gen_kind_names ->
  (gen_exit_code n = 0%Z <-> n = "DisplayHelp"%string \/ n = "DisplayVersion"%string) /\
  (gen_exit_code n = 0%Z \/ gen_exit_code n = 2%Z) /\
  (gen_use_stderr n = false <-> n = "DisplayHelp"%string \/ n = "DisplayVersion"%string) /\
  (gen_stream n = GStdout <-> n = "DisplayHelp"%string \/ n = "DisplayVersion"%string).
Proof. exact exit_contract_source. Qed.
Print Assumptions C10_exit_contract_source.

(** ** value count per occurrence *)
Theorem C10_count_sound : forall c a raw st e st',
  verify_num_args c a raw st = RErr e st' ->
  exists r, a_num a = Some r /\ st' = st /\ e_arg e = a_id a /\ is_set s_ignore_errors c = false /\
            In (e_kind e) [EInvalidValue; EWrongNumberOfValues; ETooFewValues; ETooManyValues] /\
            count_breaks (e_kind e) r (N.of_nat (length raw)).
Proof. exact verify_num_args_sound. Qed.
Print Assumptions C10_count_sound.

Theorem C10_count_justified : forall c a raw st e st' r,
  verify_num_args c a raw st = RErr e st' -> a_num a = Some r ->
  ~ count_in_range r (N.of_nat (length raw)).
Proof. exact verify_num_args_justified. Qed.
Print Assumptions C10_count_justified.

Theorem C10_count_no_spurious_reject : forall c a raw st r,
  a_num a = Some r -> count_in_range r (N.of_nat (length raw)) -> verify_num_args c a raw st = ROk tt.
Proof. exact verify_num_args_complete. Qed.
Print Assumptions C10_count_no_spurious_reject.

(** ** value language *)
Theorem C10_value_accepted_iff_in_language : forall v s, vp_parse v s = None <-> in_lang v s.
Proof. exact vp_parse_accepts_iff. Qed.
Print Assumptions C10_value_accepted_iff_in_language.

Theorem C10_value_reject_sound : forall v s k,
  vp_parse v s = Some k ->
  ~ in_lang v s /\ In k [EInvalidUtf8; EInvalidValue; EValueValidation] /\
  (k = EInvalidUtf8 -> utf8_valid s = false).
Proof. exact vp_parse_reject_sound. Qed.
Print Assumptions C10_value_reject_sound.

Theorem C10_push_values_sound : forall c a raw st e st',
  push_arg_values c a raw st = RErr e st' ->
  exists vp v, a_vp a = Some vp /\ In v raw /\ vp_parse vp v = Some (e_kind e) /\
               ~ in_lang vp v /\ e_arg e = a_id a.
Proof. exact push_arg_values_sound. Qed.
Print Assumptions C10_push_values_sound.

(** ** suggestions only name things that exist, for every similarity function *)
Theorem C10_suggestions_subset : forall (sim : bytes -> bytes -> Q) v cands p,
  In p (did_you_mean sim v cands) -> In p cands.
Proof. exact dym_subset. Qed.
Print Assumptions C10_suggestions_subset.

Theorem C10_suggestions_exact : forall (sim : bytes -> bytes -> Q) v cands p,
  In p (did_you_mean sim v cands) <-> In p cands /\ q_gt (sim v p) threshold = true.
Proof. exact dym_iff. Qed.
Print Assumptions C10_suggestions_exact.

Theorem C10_flag_suggestion_exists : forall (sim : bytes -> bytes -> Q) c arg rem f o,
  flag_suggestion sim c arg rem = Some (f, o) ->
  match o with
  | None => exists a, In a (c_args c) /\ arg_has_long a f
  | Some n => In n rem /\
              exists s, In s (c_subs c) /\ c_name s = n /\
                        exists a, In a (c_args (build_self s)) /\ arg_has_long a f
  end.
Proof. exact flag_suggestion_exists. Qed.
Print Assumptions C10_flag_suggestion_exists.

Theorem C10_subcommand_suggestions_exist : forall (sim : bytes -> bytes -> Q) c tok n,
  In n (subcommand_suggestions sim c tok) -> exists s, In s (c_subs c) /\ aliases_to s n = true.
Proof. exact subcommand_suggestions_exist. Qed.
Print Assumptions C10_subcommand_suggestions_exist.

Theorem C10_value_suggestion_exists : forall (sim : bytes -> bytes -> Q) bad good s,
  value_suggestion sim bad good = Some s -> In s good.
Proof. exact value_suggestion_exists. Qed.
Print Assumptions C10_value_suggestion_exists.

(** ** the reaction to one occurrence: every error it raises has one of five justified causes *)
Theorem C10_react_sound : forall c idn s a raw ti st e st',
  react_core c idn s a raw ti st = RErr e st' -> react_cause c a s raw st e.
Proof. exact react_core_err_sound. Qed.
Print Assumptions C10_react_sound.

Theorem C10_pending_sound : forall c st e st',
  resolve_pending c st = RErr e st' ->
  exists p a, mt_pending (mt st) = Some p /\ find_arg c (p_id p) = Some a /\
              react_cause c a SCmdLine (p_raw p) (st <| mt := (mt st) <| mt_pending := None |> |>) e.
Proof. exact resolve_pending_err_sound. Qed.
Print Assumptions C10_pending_sound.

(** ** the validator *)
Theorem C10_conflict_sound : forall c m n,
  validate c m = VErr EArgumentConflict n ->
  explicit_id m n /\ is_some (find_arg c n) = true /\
  ((exists a, find_arg c n = Some a /\ a_exclusive a = true /\
              (2 <= length (filter (fun p => is_some (find_arg c (fst p))) (explicit_entries m)))%nat)
   \/ exists other, explicit_id m other /\ other <> n /\
                    (directly_conflicts c n other \/ directly_conflicts c other n)).
Proof. exact validate_conflict_sound. Qed.
Print Assumptions C10_conflict_sound.

Theorem C10_direct_conflicts_declared : forall c a l y,
  gather_arg_direct_conflicts c a = Some l -> In y l ->
  In y (a_blacklist a) \/ In y (a_overrides a) \/
  exists gid g, In gid (groups_for_arg c (a_id a)) /\ find_group c gid = Some g /\
                (In y (g_conflicts g) \/ (g_multiple g = false /\ In y (g_args g) /\ y <> a_id a)).
Proof. exact gather_arg_direct_conflicts_in. Qed.
Print Assumptions C10_direct_conflicts_declared.

Theorem C10_missing_sound : forall c m x,
  validate c m = VErr EMissingRequiredArgument x ->
  exists req, gather_requires c m (required_graph c) = Some req /\ missing_cause c m req x.
Proof. exact validate_missing_sound. Qed.
Print Assumptions C10_missing_sound.

Theorem C10_required_graph_declared : forall c x,
  In x (required_graph c) ->
  (exists a, In a (c_args c) /\ a_required a = true /\ a_id a = x) \/
  (exists g, In g (c_groups c) /\ g_required g = true /\ (g_id g = x \/ In x (g_requires g))).
Proof. exact required_graph_in. Qed.
Print Assumptions C10_required_graph_declared.

Theorem C10_requirement_set_declared : forall c m base req x,
  gather_requires c m base = Some req -> In x req ->
  In x base \/
  exists p, In p (explicit_entries m) /\
    ((exists a rs, find_arg c (fst p) = Some a /\
                   unroll_arg_requires c (fun r => if check_explicit_m (fst r) (snd p) then Some (snd r) else None) (a_id a)
                   = Some rs /\ In x rs)
     \/ (exists g, find_arg c (fst p) = None /\ find_group c (fst p) = Some g /\ In x (g_requires g))).
Proof. exact gather_requires_in. Qed.
Print Assumptions C10_requirement_set_declared.

(** ** unknown-token triage *)
Theorem C10_unknown_long_sound : forall c flag ok value pst pc vaf st st1 a vaf1,
  parse_long_arg c flag ok value pst pc vaf st = ROk (st1, PRNoMatchingArg a, vaf1) ->
  a = flag /\ st1 = st /\
  (ok = false \/ (get_long c flag = None /\ possible_long_flag_subcommand c flag = None)).
Proof. exact parse_long_no_match_sound. Qed.
Print Assumptions C10_unknown_long_sound.

Theorem C10_unknown_short_sound : forall c fuel r ret vaf st st1 a vaf1,
  not_no_match ret ->
  short_loop c fuel r ret vaf st = ROk (st1, PRNoMatchingArg a, vaf1) ->
  (exists ch, a = DASH :: encode_utf8 ch /\ get_short c ch = None /\ find_short_subcmd c ch = None)
  \/ (exists r' rest, sf_next r' = Some (inr rest, []) /\ a = DASH :: rest).
Proof. exact short_loop_no_match_sound. Qed.
Print Assumptions C10_unknown_short_sound.

Theorem C10_match_arg_error_kinds : forall c tok vaf trailing,
  let e := match_arg_error c tok vaf trailing in
  e_arg e = tok /\
  (e_kind e = EUnknownArgument
   \/ (e_kind e = EInvalidSubcommand /\ has_subcommands c = true)
   \/ (e_kind e = EArgumentConflict /\ has_subcommands c = true /\ is_set s_args_negate_subs c = true /\ vaf = true)).
Proof. exact match_arg_error_kinds. Qed.
Print Assumptions C10_match_arg_error_kinds.

(** every error raised while a flag token is processed is a justified reaction error, and those
    never carry an "unknown token" kind *)
Theorem C10_reaction_error_kinds : forall c e,
  reaction_error c e ->
  In (e_kind e) [EInvalidValue; EWrongNumberOfValues; ETooFewValues; ETooManyValues; EArgumentConflict;
                 EInvalidUtf8; EValueValidation; EDisplayHelp; EDisplayVersion].
Proof. exact reaction_error_kinds. Qed.
Print Assumptions C10_reaction_error_kinds.

Theorem C10_long_flag_errors_are_reactions : forall c flag ok value pst pc vaf st e st',
  parse_long_arg c flag ok value pst pc vaf st = RErr e st' -> reaction_error c e.
Proof. exact parse_long_arg_err. Qed.
Print Assumptions C10_long_flag_errors_are_reactions.

Theorem C10_short_flag_errors_are_reactions : forall c r pst pc vaf st e st',
  parse_short_arg c r pst pc vaf st = RErr e st' -> reaction_error c e.
Proof. exact parse_short_arg_err. Qed.
Print Assumptions C10_short_flag_errors_are_reactions.

(** ** the whole token loop of one command level: an UnknownArgument / InvalidSubcommand error names
    a token of the line that matches no key of the command -- an unknown long flag, an unknown short
    flag, a word where only a [last] positional (before `--`) or no positional at all is left *)
Theorem C10_unknown_token_sound : forall c toks ls st e st',
  parse_loop c toks ls st = RErr e st' -> unknown_kind (e_kind e) ->
  exists tok, In tok toks /\ unknown_cause c tok e.
Proof. exact parse_loop_unknown_sound. Qed.
Print Assumptions C10_unknown_token_sound.

(** ** the whole parse (all levels, [help] subcommand, env/defaults, validation): an UnknownArgument /
    InvalidSubcommand rejection is the token-loop error of some level (an unmatched token of that
    level's line) or the error of the [help] subcommand walk *)
Theorem C10_unknown_rejection_sound : forall c0 argv e,
  parse_top c0 argv = OErr e -> unknown_kind (e_kind e) ->
  (exists c' toks' tok, In tok toks' /\ unknown_cause c' tok e) \/ (exists sc names, e = help_walk sc names).
Proof. exact parse_top_unknown_sound. Qed.
Print Assumptions C10_unknown_rejection_sound.

Theorem C10_help_walk_sound : forall names sc,
  let e := help_walk sc names in
  e_kind e = EDisplayHelp \/
  (e_kind e = EInvalidSubcommand /\ In (e_arg e) names /\
   exists sc', find_subcommand sc' (e_arg e) = None \/
               (exists s, find_subcommand sc' (e_arg e) = Some s /\ build_subcommand sc' (c_name s) = None)).
Proof. exact help_walk_sound. Qed.
Print Assumptions C10_help_walk_sound.

Theorem C10_validate_kinds : forall c m k a,
  validate c m = VErr k a ->
  In k [EDisplayHelpOnMissing; EMissingSubcommand; EArgumentConflict; EMissingRequiredArgument].
Proof. exact validate_kinds. Qed.
Print Assumptions C10_validate_kinds.
