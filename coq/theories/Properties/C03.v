(** Property C03: a successful parse satisfies every declared relation between arguments.
    This file contains only the pinned statements; the specification ([Relations], [RelationsM],
    [present], [declares], [Required], [excused], [cond_required], ...) and the proofs live in
    ParseProofs/Relations.v. *)
From Coq Require Import ZArith List Bool.
Import ListNotations.
From ClapModel Require Import Base.Bytes Base.Machine.
From ClapModel Require Import Parse.Cmd Parse.Build Parse.Valid Parse.Matcher Parse.Errors Parse.Validator Parse.Parser.
From ClapModel Require Import ParseProofs.Relations.
Open Scope N_scope.

(** (R4) presence is "the entry's source is not DefaultValue" -- what [check_explicit] tests *)
Theorem C03_presence_is_explicit : forall mt i,
  check_explicit mt i PIsPresent = true <->
  exists m, fm_get i (mt_args mt) = Some m /\ m_source m <> Some SDefault.
Proof. exact present_spec. Qed.
Print Assumptions C03_presence_is_explicit.

(** the id-resolution facts used by the soundness proof follow from the debug assertions *)
Theorem C03_assert_app_ids : forall c, assert_app c = true -> rel_wf c = true.
Proof. exact assert_app_rel_wf. Qed.
Print Assumptions C03_assert_app_ids.

(** soundness of the validator for the declarative relations (R1)-(R3), any relation graph *)
Theorem C03_validate_sound : forall c mt,
  assert_app c = true -> fm_wf mt -> validate c mt = VOk -> Relations c mt.
Proof. exact validate_sound. Qed.
Print Assumptions C03_validate_sound.

(** a non-multiple group has at most one present member (instance of (R1)) *)
Theorem C03_group_single : forall c mt g i j a,
  Relations c mt -> In g (c_groups c) -> g_multiple g = false ->
  In i (g_args g) -> In j (g_args g) -> arg_of c i a -> present mt i -> present mt j -> i = j.
Proof. exact group_single. Qed.
Print Assumptions C03_group_single.

(** with member-based presence of groups, on coherent matchers *)
Theorem C03_validate_sound_members : forall c mt,
  assert_app c = true -> fm_wf mt -> coherent_b c mt = true -> validate c mt = VOk -> RelationsM c mt.
Proof. exact validate_sound_members. Qed.
Print Assumptions C03_validate_sound_members.

(** every successful [get_matches_with] (any level, any depth, any initial state): the level's
    own matcher at validation time satisfies the relations *)
Theorem C03_level_sound : forall fuel c toks st0 st,
  assert_app c = true -> get_matches_with fuel c toks st0 = ROk st -> fm_wf (mt st) ->
  Relations c (mt st).
Proof. exact gmw_sound. Qed.
Print Assumptions C03_level_sound.

(** the whole parse without error-ignoring: what is reported is the validated root matcher
    plus the propagation of global values *)
Theorem C03_parse_sound_partial : forall c0 toks m,
  do_parse c0 toks = OOk m -> is_set s_ignore_errors (build_self c0) = false ->
  exists st, run_level c0 toks = ROk st /\ m = reported c0 st
             /\ (fm_wf (mt st) -> Relations (build_self c0) (mt st)).
Proof. exact do_parse_sound. Qed.
Print Assumptions C03_parse_sound_partial.

(** findings: the matcher is not coherent on two input families, and the member-based
    relations fail there (witnesses replayed on the implementation by corpus/C03) *)
Theorem C03_group_coherence_refuted_f1 :
  valid f1_cmd = true /\
  exists st, run_level f1_cmd f1_toks = ROk st
             /\ coherent_b (build_self f1_cmd) (mt st) = false
             /\ check_explicit (mt st) i_b PIsPresent = true
             /\ check_explicit (mt st) i_c PIsPresent = true
             /\ check_explicit (mt st) i_g PIsPresent = false.
Proof. exact coherence_refuted_f1. Qed.
Print Assumptions C03_group_coherence_refuted_f1.

Theorem C03_group_coherence_refuted_f2 :
  valid f2_cmd = true /\
  exists st, run_level f2_cmd f2_toks = ROk st
             /\ coherent_b (build_self f2_cmd) (mt st) = false
             /\ check_explicit (mt st) i_g PIsPresent = true
             /\ check_explicit (mt st) i_a PIsPresent = false
             /\ check_explicit (mt st) i_x PIsPresent = false
  /\ (exists e st', run_level f2_cmd [dd [99;99]] = RErr e st' /\ e_kind e = EMissingRequiredArgument).
Proof. exact coherence_refuted_f2. Qed.
Print Assumptions C03_group_coherence_refuted_f2.

Theorem C03_members_refuted_f1 :
  exists st, run_level f1_cmd f1_toks = ROk st /\ ~ RelationsM (build_self f1_cmd) (mt st).
Proof. exact relationsM_refuted_f1. Qed.
Print Assumptions C03_members_refuted_f1.

(** non-vacuity of the hypotheses of the soundness theorems *)
Theorem C03_nonvacuous :
  exists st, valid f2_cmd = true /\ run_level f2_cmd [dd [97;97]] = ROk st
             /\ fm_wf_b (mt st) = true /\ coherent_b (build_self f2_cmd) (mt st) = true
             /\ check_explicit (mt st) i_g PIsPresent = true.
Proof. exact sound_nonvacuous. Qed.
Print Assumptions C03_nonvacuous.
