(** Property C03: a successful parse satisfies every declared relation between arguments.
    This file contains only the pinned statements; the specification ([Relations], [RelationsM],
    [present], [declares], [Required], [excused], [cond_required], ...) and the proofs live in
    ParseProofs/Relations.v. *)
From Coq Require Import ZArith List Bool Relations.Relation_Operators.
Import ListNotations.
From ClapModel Require Import Base.Bytes Base.Machine.
From ClapModel Require Import Parse.Cmd Parse.Build Parse.Valid Parse.Matcher Parse.Errors Parse.Validator Parse.Parser.
From ClapModel Require Import ParseProofs.Relations ParseProofs.RelationsTree ParseProofs.RelationsClauses ParseProofs.RelationsComplete ParseProofs.RelationsFamilies ParseProofs.RelationsCoherent ParseProofs.RelationsLoop ParseProofs.RelationsCompleteAll ParseProofs.RelationsClauses3.
From ClapModel Require Import ParseProofs.ValidateTotal.
From ClapModel Require Import ParseProofs.Safe ParseProofs.Invariant ParseProofs.Totality ParseProofs.TotalityMain ParseProofs.IndexInv.
From ClapModel Require Import ParseProofs.Globals.
From ClapModel Require ParseProofs.RequiresChain.
From RecordUpdate Require Import RecordSet.
Import RecordSetNotations.
Open Scope N_scope.

(** (R4) presence is "the entry's source is not DefaultValue" -- what [check_explicit] tests *)
Theorem C03_presence_is_explicit : forall mt i,
  check_explicit mt i PIsPresent = true <->
  exists m, fm_get i (mt_args mt) = Some m /\ m_source m <> Some SDefault.
Proof. exact present_spec. Qed.
Print Assumptions C03_presence_is_explicit.

(** the id-resolution facts used by the soundness proof follow from the debug assertions *)
Theorem C03_assert_app_ids : forall c, assert_app c = true -> rel_wf c = true.
Proof. exact assert_app_rel_wf. Qed.
Print Assumptions C03_assert_app_ids.

(** soundness of the validator for the declarative relations (R1)-(R3), any relation graph *)
Theorem C03_validate_sound : forall c mt,
  assert_app c = true -> fm_wf mt -> validate c mt = VOk -> Relations c mt.
Proof. exact validate_sound. Qed.
Print Assumptions C03_validate_sound.

(** a non-multiple group has at most one present member (instance of (R1)) *)
Theorem C03_group_single : forall c mt g i j a,
  Relations c mt -> In g (c_groups c) -> g_multiple g = false ->
  In i (g_args g) -> In j (g_args g) -> arg_of c i a -> present mt i -> present mt j -> i = j.
Proof. exact group_single. Qed.
Print Assumptions C03_group_single.

(** with member-based presence of groups, on coherent matchers *)
Theorem C03_validate_sound_members : forall c mt,
  assert_app c = true -> fm_wf mt -> coherent_b c mt = true -> validate c mt = VOk -> RelationsM c mt.
Proof. exact validate_sound_members. Qed.
Print Assumptions C03_validate_sound_members.

(** every successful [get_matches_with] (any level, any depth, any initial state): the level's
    own matcher at validation time satisfies the relations *)
Theorem C03_level_sound : forall fuel c toks st0 st,
  assert_app c = true -> get_matches_with fuel c toks st0 = ROk st -> fm_wf (mt st) ->
  Relations c (mt st).
Proof. exact gmw_sound. Qed.
Print Assumptions C03_level_sound.

(** the whole parse without error-ignoring: what is reported is the validated root matcher
    plus the propagation of global values *)
Theorem C03_parse_sound_partial : forall c0 toks m,
  do_parse c0 toks = OOk m -> is_set s_ignore_errors (build_self c0) = false ->
  exists st, run_level c0 toks = ROk st /\ m = reported c0 st
             /\ (fm_wf (mt st) -> Relations (build_self c0) (mt st)).
Proof. exact do_parse_sound. Qed.
Print Assumptions C03_parse_sound_partial.

(** findings: the matcher is not coherent on two input families, and the member-based
    relations fail there (witnesses replayed on the implementation by corpus/C03) *)
Theorem C03_group_coherence_refuted_f1 :
  valid f1_cmd = true /\
  exists st, run_level f1_cmd f1_toks = ROk st
             /\ coherent_b (build_self f1_cmd) (mt st) = false
             /\ check_explicit (mt st) i_b PIsPresent = true
             /\ check_explicit (mt st) i_c PIsPresent = true
             /\ check_explicit (mt st) i_g PIsPresent = false.
Proof. exact coherence_refuted_f1. Qed.
Print Assumptions C03_group_coherence_refuted_f1.

Theorem C03_group_coherence_refuted_f2 :
  valid f2_cmd = true /\
  exists st, run_level f2_cmd f2_toks = ROk st
             /\ coherent_b (build_self f2_cmd) (mt st) = false
             /\ check_explicit (mt st) i_g PIsPresent = true
             /\ check_explicit (mt st) i_a PIsPresent = false
             /\ check_explicit (mt st) i_x PIsPresent = false
  /\ (exists e st', run_level f2_cmd [dd [99;99]] = RErr e st' /\ e_kind e = EMissingRequiredArgument).
Proof. exact coherence_refuted_f2. Qed.
Print Assumptions C03_group_coherence_refuted_f2.

Theorem C03_members_refuted_f1 :
  exists st, run_level f1_cmd f1_toks = ROk st /\ ~ RelationsM (build_self f1_cmd) (mt st).
Proof. exact relationsM_refuted_f1. Qed.
Print Assumptions C03_members_refuted_f1.

(** non-vacuity of the hypotheses of the soundness theorems *)
Theorem C03_nonvacuous :
  exists st, valid f2_cmd = true /\ run_level f2_cmd [dd [97;97]] = ROk st
             /\ fm_wf_b (mt st) = true /\ coherent_b (build_self f2_cmd) (mt st) = true
             /\ check_explicit (mt st) i_g PIsPresent = true.
Proof. exact sound_nonvacuous. Qed.
Print Assumptions C03_nonvacuous.

(** CLOSED FORM (the key-uniqueness hypothesis discharged by the parse-loop invariant,
    ParseProofs/IndexInv.v): for every valid definition a user can write (class [plain]: no short
    flag-subcommands) and every token list, a successful parse without error-ignoring reports the
    validated root matcher (plus the copy of global values), and that matcher satisfies every
    declared relation. *)
Theorem C03_parse_sound : forall c0 toks m,
  plain c0 = true -> valid c0 = true ->
  do_parse c0 toks = OOk m -> is_set s_ignore_errors (build_self c0) = false ->
  exists st, run_level c0 toks = ROk st /\ m = reported c0 st /\ Relations (build_self c0) (mt st).
Proof. exact parse_relations. Qed.
Print Assumptions C03_parse_sound.

(** the same at every level of the recursion, any depth *)
Theorem C03_level_sound_closed : forall fuel c toks st0 st,
  tree_ok fuel c -> G c idx_inv trivV st0 -> get_matches_with fuel c toks st0 = ROk st ->
  Relations c (mt st).
Proof. exact level_relations. Qed.
Print Assumptions C03_level_sound_closed.

(** ---------------------------------------------------------------------------------------
    EVERY LEVEL OF THE CHAIN (round 2; definitions and proofs in ParseProofs/RelationsTree.v).
    [validated_chain c m]: read from the root downwards, the reported matches [m] are at every
    level of the recorded subcommand chain a matcher that satisfies [Relations] against that
    level's own definition (the child the parser builds when it descends); the chain ends at a
    level without subcommand or at an external subcommand. *)

(** the token loop never touches the recorded subcommand, and hands over an external subcommand
    only where the definition allows one (every command, every state, every token list) *)
Theorem C03_loop_keeps_sub : forall c s toks ls st,
  mt_sub (mt st) = s ->
  match parse_loop c toks ls st with
  | ROk lr => mt_sub (mt (lr_st lr)) = s
              /\ match lr with LExternal _ _ _ => is_set s_allow_external c = true | _ => True end
  | RErr _ st' => mt_sub (mt st') = s
  | RPanic _ => True
  end.
Proof. exact parse_loop_sub. Qed.
Print Assumptions C03_loop_keeps_sub.

(** any level of the recursion, any depth: a successful [get_matches_with] of a tree in which no
    level ignores errors returns a validated chain *)
Theorem C03_level_sound_tree : forall fuel c toks st0 st,
  tree_ok fuel c -> strict_tree fuel c -> G c idx_inv trivV st0 -> mt_sub (mt st0) = None ->
  get_matches_with fuel c toks st0 = ROk st ->
  validated_chain c (into_inner (mt st)).
Proof. exact gmw_chain. Qed.
Print Assumptions C03_level_sound_tree.

(** the class: [no_ignore] (no node sets [ignore_errors]) is inherited by every command the
    parser builds on the way down *)
Theorem C03_no_ignore_inherited : forall f x,
  plain x = true -> no_ignore x = true -> strict_tree f (build_self x).
Proof. exact strict_tree_of. Qed.
Print Assumptions C03_no_ignore_inherited.

(** the whole parse: for every valid [plain] definition in which no node ignores errors and every
    token list, a successful parse reports (up to the copy of global values, which keeps the
    chain of names) a chain that was validated at EVERY level *)
Theorem C03_parse_sound_tree : forall c0 toks m,
  plain c0 = true -> no_ignore c0 = true -> valid c0 = true ->
  do_parse c0 toks = OOk m ->
  exists st, run_level c0 toks = ROk st /\ m = reported c0 st
             /\ validated_chain (build_self c0) (into_inner (mt st))
             /\ Globals.chain m = Globals.chain (into_inner (mt st)).
Proof. exact parse_sound_tree. Qed.
Print Assumptions C03_parse_sound_tree.

Theorem C03_parse_top_sound_tree : forall c0 argv m,
  plain c0 = true -> no_ignore c0 = true ->
  (forall b, valid (c0 <| c_bin_name := b |>) = true) -> valid c0 = true ->
  parse_top c0 argv = OOk m ->
  exists c1 toks st,
    (c1 = c0 \/ exists b, c1 = c0 <| c_bin_name := Some b |>)
    /\ run_level c1 toks = ROk st /\ m = reported c1 st
    /\ validated_chain (build_self c1) (into_inner (mt st))
    /\ Globals.chain m = Globals.chain (into_inner (mt st)).
Proof. exact parse_top_sound_tree. Qed.
Print Assumptions C03_parse_top_sound_tree.

(** non-vacuity: a two-level definition with live relations at both levels; an argv that reaches
    the child, one that ends in an external subcommand, one rejected at the child level *)
Theorem C03_tree_nonvacuous :
  plain t_cmd = true /\ no_ignore t_cmd = true /\ valid t_cmd = true
  /\ (exists m, do_parse t_cmd t_toks = OOk m /\ Globals.chain m = [[115]])
  /\ (exists m, do_parse t_cmd [dd [120;120]; [122]; [121]] = OOk m /\ Globals.chain m = [[122]])
  /\ (exists e, do_parse t_cmd [dd [120;120]; [115]; dd [97;97]] = OErr e /\ e_kind e = EMissingRequiredArgument).
Proof. exact parse_sound_tree_nonvacuous. Qed.
Print Assumptions C03_tree_nonvacuous.

(** ---------------------------------------------------------------------------------------
    CLAUSE BY CLAUSE (round 2; ParseProofs/RelationsClauses.v): every sentence of the property
    text as its own consequence of [Relations], for ALL relation graphs and all matchers.
    Together with [C03_parse_sound_tree] each of them holds at every level of every successful
    parse of the class. *)

(** (R1) [conflicts_with]; [overrides_with] ("overrides are implicitly conflicts"); a conflict
    declared by a group holds for its members; a group's conflict against a present arg; an arg
    naming a group *)
Theorem C03_clause_conflicts_with : forall c mt, Relations c mt -> forall i a y,
  arg_of c i a -> In y (a_blacklist a) -> y <> i -> present mt i -> present mt y -> False.
Proof. exact clause_conflicts_with. Qed.
Print Assumptions C03_clause_conflicts_with.

Theorem C03_clause_overrides_conflict : forall c mt, Relations c mt -> forall i a y,
  arg_of c i a -> In y (a_overrides a) -> y <> i -> present mt i -> present mt y -> False.
Proof. exact clause_overrides_conflict. Qed.
Print Assumptions C03_clause_overrides_conflict.

Theorem C03_clause_group_conflict_member : forall c mt, Relations c mt -> forall i a g y,
  arg_of c i a -> member c i g -> In y (g_conflicts g) -> y <> i -> present mt i -> present mt y -> False.
Proof. exact clause_group_conflict_member. Qed.
Print Assumptions C03_clause_group_conflict_member.

Theorem C03_clause_group_conflicts_with : forall c mt, Relations c mt -> forall x g y b,
  group_of c x g -> In y (g_conflicts g) -> arg_of c y b -> present mt x -> present mt y -> False.
Proof. exact clause_group_conflicts_with. Qed.
Print Assumptions C03_clause_group_conflicts_with.

Theorem C03_clause_conflicts_with_group : forall c mt, Relations c mt -> forall i a x g,
  arg_of c i a -> In x (a_blacklist a) -> group_of c x g -> present mt i -> present mt x -> False.
Proof. exact clause_conflicts_with_group. Qed.
Print Assumptions C03_clause_conflicts_with_group.

(** (R2) an exclusive argument is present alone *)
Theorem C03_clause_exclusive : forall c mt, Relations c mt -> forall i a j b,
  arg_of c i a -> a_exclusive a = true -> present mt i -> arg_of c j b -> present mt j -> j = i.
Proof. exact clause_exclusive. Qed.
Print Assumptions C03_clause_exclusive.

(** (R3) required: statically; through a fired [requires]/[requires_if] (arg or group target);
    through chains of [requires] (transitive closure, by induction on the chain); where no
    exemption applies the whole closure is present; a fired [requires_if] followed by a chain;
    required groups, what they require, what a present group requires.
    [arg_satisfied]: present, or an exclusive arg is present, or [excused] (something present
    conflicts with it -- the documented exemptions, exactly as [is_missing_required_ok] grants
    them); [group_satisfied]: the group's entry or a member is present (no exemption). *)
Theorem C03_clause_required_static : forall c mt, Relations c mt -> negates_reqs c mt = false ->
  forall i a, arg_of c i a -> a_required a = true -> arg_satisfied c mt i.
Proof. exact clause_required_static. Qed.
Print Assumptions C03_clause_required_static.

Theorem C03_clause_requires_arg : forall c mt, Relations c mt -> negates_reqs c mt = false ->
  forall i a m p y b,
  arg_of c i a -> fm_get i (mt_args mt) = Some m -> In (p, y) (a_requires a) -> Relations.holds p m ->
  arg_of c y b -> arg_satisfied c mt y.
Proof. exact clause_requires_arg. Qed.
Print Assumptions C03_clause_requires_arg.

Theorem C03_clause_requires_group : forall c mt, Relations c mt -> negates_reqs c mt = false ->
  forall i a m p y g,
  arg_of c i a -> fm_get i (mt_args mt) = Some m -> In (p, y) (a_requires a) -> Relations.holds p m ->
  group_of c y g -> group_satisfied mt y g.
Proof. exact clause_requires_group. Qed.
Print Assumptions C03_clause_requires_group.

Theorem C03_clause_requires_chain : forall c mt, Relations c mt -> negates_reqs c mt = false ->
  forall root y b,
  present mt root -> clos_trans_1n id (requires_edge c) root y -> arg_of c y b -> arg_satisfied c mt y.
Proof. exact clause_requires_chain. Qed.
Print Assumptions C03_clause_requires_chain.

Theorem C03_clause_requires_chain_present : forall c mt, Relations c mt -> negates_reqs c mt = false ->
  forall root y b,
  ~ exclusive_present c (present mt) -> ~ excused c (present mt) y ->
  present mt root -> clos_trans_1n id (requires_edge c) root y -> arg_of c y b -> present mt y.
Proof. exact clause_requires_chain_present. Qed.
Print Assumptions C03_clause_requires_chain_present.

Theorem C03_clause_requires_if_then_chain : forall c mt, Relations c mt -> negates_reqs c mt = false ->
  forall i a m p x y b,
  arg_of c i a -> fm_get i (mt_args mt) = Some m -> In (p, x) (a_requires a) -> Relations.holds p m ->
  clos_trans_1n id (requires_edge c) x y -> arg_of c y b -> arg_satisfied c mt y.
Proof. exact clause_requires_if_then_chain. Qed.
Print Assumptions C03_clause_requires_if_then_chain.

Theorem C03_clause_required_group : forall c mt, Relations c mt -> negates_reqs c mt = false ->
  forall g, In g (c_groups c) -> g_required g = true -> group_of c (g_id g) g -> group_satisfied mt (g_id g) g.
Proof. exact clause_required_group. Qed.
Print Assumptions C03_clause_required_group.

Theorem C03_clause_required_group_requires : forall c mt, Relations c mt -> negates_reqs c mt = false ->
  forall g y b, In g (c_groups c) -> g_required g = true -> In y (g_requires g) -> arg_of c y b -> arg_satisfied c mt y.
Proof. exact clause_required_group_requires. Qed.
Print Assumptions C03_clause_required_group_requires.

Theorem C03_clause_present_group_requires : forall c mt, Relations c mt -> negates_reqs c mt = false ->
  forall x g y b, group_of c x g -> present mt x -> In y (g_requires g) -> arg_of c y b -> arg_satisfied c mt y.
Proof. exact clause_present_group_requires. Qed.
Print Assumptions C03_clause_present_group_requires.

(** the conditional rules: [required_if_eq], [required_if_eq_all], [required_unless_present(_any)],
    [required_unless_present_all], both lists; the only exemption the code grants is a present
    exclusive argument (no conflict exemption: see [C03_exemptions_granted]) *)
Theorem C03_clause_required_if_eq : forall c mt, Relations c mt -> negates_reqs c mt = false ->
  forall a o v, In a (c_args c) -> In (o, v) (a_r_ifs a) -> has_value mt o v ->
  present mt (a_id a) \/ exclusive_present c (present mt).
Proof. exact clause_required_if_eq. Qed.
Print Assumptions C03_clause_required_if_eq.

Theorem C03_clause_required_if_eq_all : forall c mt, Relations c mt -> negates_reqs c mt = false ->
  forall a, In a (c_args c) -> a_r_ifs_all a <> [] -> (forall o v, In (o, v) (a_r_ifs_all a) -> has_value mt o v) ->
  present mt (a_id a) \/ exclusive_present c (present mt).
Proof. exact clause_required_if_eq_all. Qed.
Print Assumptions C03_clause_required_if_eq_all.

Theorem C03_clause_required_unless_present_any : forall c mt, Relations c mt -> negates_reqs c mt = false ->
  forall a, In a (c_args c) -> a_r_unless a <> [] -> a_r_unless_all a = [] ->
  (forall o, In o (a_r_unless a) -> ~ present mt o) -> present mt (a_id a) \/ exclusive_present c (present mt).
Proof. exact clause_required_unless_present_any. Qed.
Print Assumptions C03_clause_required_unless_present_any.

Theorem C03_clause_required_unless_present_all : forall c mt, Relations c mt -> negates_reqs c mt = false ->
  forall a o, In a (c_args c) -> a_r_unless a = [] -> In o (a_r_unless_all a) -> ~ present mt o ->
  present mt (a_id a) \/ exclusive_present c (present mt).
Proof. exact clause_required_unless_present_all. Qed.
Print Assumptions C03_clause_required_unless_present_all.

Theorem C03_clause_required_unless_both : forall c mt, Relations c mt -> negates_reqs c mt = false ->
  forall a o, In a (c_args c) -> (forall o', In o' (a_r_unless a) -> ~ present mt o') ->
  In o (a_r_unless_all a) -> ~ present mt o -> present mt (a_id a) \/ exclusive_present c (present mt).
Proof. exact clause_required_unless_both. Qed.
Print Assumptions C03_clause_required_unless_both.

(** (R4) defaults never count as presence, for every rule at once: [Relations] is a function of
    the explicit entries ([explicit_view]: an entry whose source is [DefaultValue] reads as no
    entry) and of "a subcommand was used" *)
Theorem C03_defaults_inert : forall c mt mt',
  (forall i, explicit_view mt i = explicit_view mt' i) -> is_some (mt_sub mt) = is_some (mt_sub mt') ->
  Relations c mt -> Relations c mt'.
Proof. exact Relations_defaults_inert. Qed.
Print Assumptions C03_defaults_inert.

Theorem C03_default_invisible : forall mt i m,
  fm_get i (mt_args mt) = Some m -> m_source m = Some SDefault ->
  explicit_view mt i = None /\ ~ present mt i /\ forall p, ~ Relations.holds p m.
Proof. exact default_entry_invisible. Qed.
Print Assumptions C03_default_invisible.

(** witnesses: the hypotheses of the clause theorems are satisfiable (a chain of [requires], all
    present; rejected without its end); each exemption is really granted (conflict, exclusive,
    subcommand-negates-requirements) and a conditional rule has NO conflict exemption; a default
    entry exists next to the explicit ones and is invisible *)
Theorem C03_clauses_nonvacuous :
  valid e_cmd = true
  /\ ok_with e_cmd [dd [97;97]; dd [98;98]; dd [99;99]; dd [114;114]] [i_a; i_b; i_c; i_r] [i_k; i_e; i_x]
  /\ clos_trans_1n id (requires_edge (build_self e_cmd)) i_a i_c
  /\ rejected_with e_cmd [dd [97;97]; dd [98;98]; dd [114;114]] EMissingRequiredArgument.
Proof. exact clauses_nonvacuous. Qed.
Print Assumptions C03_clauses_nonvacuous.

Theorem C03_exemptions_granted :
  ok_with e_cmd [dd [107;107]; dd [97;97]; dd [98;98]; dd [99;99]] [i_k; i_a] [i_r]
  /\ ok_with e_cmd [dd [101;101]] [i_e] [i_r; i_x]
  /\ valid e_sub_cmd = true /\ ok_with e_sub_cmd [[115]] [] [i_r]
  /\ rejected_with e_sub_cmd [] EMissingRequiredArgument
  /\ rejected_with e_cmd [dd [107;107]] EMissingRequiredArgument.
Proof. exact exemptions_granted. Qed.
Print Assumptions C03_exemptions_granted.

Theorem C03_defaults_nonvacuous :
  exists st m, run_level e_cmd [dd [101;101]] = ROk st
    /\ fm_get i_c (mt_args (mt st)) = Some m /\ m_source m = Some SDefault
    /\ explicit_view (mt st) i_c = None /\ explicit_view (mt st) i_e <> None.
Proof. exact defaults_nonvacuous. Qed.
Print Assumptions C03_defaults_nonvacuous.

(** ---------------------------------------------------------------------------------------
    THE CONVERSE DIRECTION for two rule families (round 2; ParseProofs/RelationsComplete.v):
    a matcher that breaks no rule is not rejected by the validator. *)

(** conflicts, ALL relation graphs: if the conflict clauses (R1), (R2) hold then
    [validate_conflicts] accepts ... *)
Theorem C03_conflicts_complete : forall c, rel_wf c = true -> forall mt potential,
  fm_wf mt -> conflicts_with_args c mt = Some potential -> R1 c mt -> R2 c mt ->
  validate_conflicts c mt potential = VOk.
Proof. exact validate_conflicts_complete. Qed.
Print Assumptions C03_conflicts_complete.

(** ... and [validate] never answers ArgumentConflict *)
Theorem C03_no_false_conflict : forall c, rel_wf c = true -> forall mt,
  fm_wf mt -> keys_ok c (mt_args mt) -> R1 c mt -> R2 c mt ->
  forall a, validate c mt <> VErr EArgumentConflict a.
Proof. exact validate_no_conflict_error. Qed.
Print Assumptions C03_no_false_conflict.

(** statically required arguments, class [static_only] (no [requires], no conditional rule, no
    required group; conflicts / overrides / groups / exclusive arbitrary): if every statically
    required arg is present or excused exactly as the specification says, nothing is missing *)
Theorem C03_required_static_complete : forall c, rel_wf c = true -> static_only c = true ->
  assert_app c = true -> forall mt potential,
  conflicts_with_args c mt = Some potential ->
  (forall p, In p (positionals c) -> a_index p <> None) ->
  R3s c mt -> missing_required c mt potential = Some [].
Proof. exact missing_required_complete_static. Qed.
Print Assumptions C03_required_static_complete.

(** on that class the validator IS the specification (the two checks that are not relations --
    help-on-empty-argv and subcommand-required -- set aside) *)
Theorem C03_validate_iff_static : forall c mt,
  assert_app c = true -> static_only c = true -> fm_wf mt -> keys_ok c (mt_args mt) ->
  (forall p, In p (positionals c) -> a_index p <> None) ->
  negb (is_some (mt_sub mt)) && is_set s_arg_required_else_help c && is_nil (explicit_entries mt) = false ->
  negb (is_some (mt_sub mt)) && is_set s_sub_required c = false ->
  (validate c mt = VOk <-> Relations c mt).
Proof. exact validate_iff_static. Qed.
Print Assumptions C03_validate_iff_static.

Theorem C03_static_nonvacuous :
  valid s_cmd = true /\ static_only (build_self s_cmd) = true /\ pos_indexed_b (build_self s_cmd) = true
  /\ (exists st, run_level s_cmd [dd [107;107]; dd [99;99]] = ROk st
                 /\ fm_wf_b (mt st) = true /\ keys_ok_b (build_self s_cmd) (mt st) = true
                 /\ validate (build_self s_cmd) (mt st) = VOk)
  /\ (exists e st, run_level s_cmd [dd [97;97]; dd [98;98]; dd [114;114]] = RErr e st
                 /\ fm_wf_b (mt st) = true /\ keys_ok_b (build_self s_cmd) (mt st) = true
                 /\ validate (build_self s_cmd) (mt st) = VErr EArgumentConflict i_a)
  /\ (exists e st, run_level s_cmd [dd [97;97]] = RErr e st
                 /\ validate (build_self s_cmd) (mt st) = VErr EMissingRequiredArgument i_r).
Proof. exact static_nonvacuous. Qed.
Print Assumptions C03_static_nonvacuous.

(** ---------------------------------------------------------------------------------------
    THE TWO FINDINGS AS FAMILIES OF DEFINITIONS (round 2; ParseProofs/RelationsFamilies.v).
    [f1_family c]: some [overrides_with] list names a group id.
    [f2_family c]: some arg overrides ANOTHER arg and one of the two belongs to a group.
    [group_safe c] = neither.  Both findings go through one function, [Parser::remove_overrides].

    FULL STATEMENT (round 2 kept it visible; PROVED in round 3: [C03_parse_sound_members] and
    [C03_level_coherent] below, traversal in ParseProofs/RelationsLoop.v):
      forall c0 toks st, plain c0 = true -> valid c0 = true ->
        (every level of the built tree is [group_safe]) -> run_level c0 toks = ROk st ->
        coherent_b (build_self c0) (mt st) = true            (hence [RelationsM], by
                                                              [C03_validate_sound_members])
    Proved here (_partial = the step that both findings go through): which entries
    [remove_overrides] can remove at all (every command); outside the two families it removes
    neither a group's own entry nor the entry of another arg that belongs to a group, so it
    preserves the coherence of every group not containing the occurring arg (whose own entry
    and groups are rebuilt by [start_custom_arg] right after); and the whole step [start_custom_arg]
    with an explicit source re-establishes the coherence of EVERY group ([C03_start_custom_arg_
    coherent_partial]).  Missing for the full statement: the traversal (coherence threaded through
    [react]'s own-entry removal, the default-source calls and the token loop). *)
Theorem C03_remove_overrides_frame : forall c a m k,
  ~ In k (a_overrides a) ->
  (forall ov, find_arg c k = Some ov -> ~ In (a_id a) (a_overrides ov)) ->
  fm_get k (mt_args (remove_overrides c a m)) = fm_get k (mt_args m).
Proof. exact remove_overrides_frame. Qed.
Print Assumptions C03_remove_overrides_frame.

Theorem C03_group_safe_keeps_group_partial : forall c, group_safe c = true -> forall a m x g,
  In a (c_args c) -> group_of c x g ->
  fm_get x (mt_args (remove_overrides c a m)) = fm_get x (mt_args m).
Proof. exact remove_overrides_keeps_group. Qed.
Print Assumptions C03_group_safe_keeps_group_partial.

Theorem C03_group_safe_keeps_member_partial : forall c, group_safe c = true -> forall a m k,
  find_arg c (a_id a) = Some a -> k <> a_id a -> is_some (find_arg c k) = true -> in_some_group c k = true ->
  fm_get k (mt_args (remove_overrides c a m)) = fm_get k (mt_args m).
Proof. exact remove_overrides_keeps_member. Qed.
Print Assumptions C03_group_safe_keeps_member_partial.

Theorem C03_group_safe_coherent_partial : forall c, group_safe c = true -> forall a m g,
  rel_wf c = true -> find_arg c (a_id a) = Some a -> In g (c_groups c) -> find_arg c (g_id g) = None ->
  ~ In (a_id a) (g_args g) ->
  (present m (g_id g) <-> present_members m g) ->
  (present (remove_overrides c a m) (g_id g) <-> present_members (remove_overrides c a m) g).
Proof. exact remove_overrides_coherent. Qed.
Print Assumptions C03_group_safe_coherent_partial.

(** the refutation witnesses stand: each lies in exactly its own family, and its incoherence is
    produced by that single call of [remove_overrides] on a coherent matcher; a definition with an
    override that fires AND a group, outside both families, stays coherent *)
Theorem C03_families_witnesses :
  f1_family (build_self f1_cmd) = true /\ f2_family (build_self f1_cmd) = false
  /\ (let m := entry [(i_b, flag_entry SCmdLine); (i_g, group_entry i_b)] in
      coherent_b (build_self f1_cmd) m = true
      /\ coherent_b (build_self f1_cmd) (remove_overrides (build_self f1_cmd) (built_arg f1_cmd i_a) m) = false)
  /\ f2_family (build_self f2_cmd) = true /\ f1_family (build_self f2_cmd) = false
  /\ (let m := entry [(i_a, flag_entry SCmdLine); (i_g, group_entry i_a)] in
      coherent_b (build_self f2_cmd) m = true
      /\ coherent_b (build_self f2_cmd) (remove_overrides (build_self f2_cmd) (built_arg f2_cmd i_c) m) = false)
  /\ valid gs_cmd = true /\ group_safe (build_self gs_cmd) = true
  /\ (exists st, run_level gs_cmd [dd [97;97]; dd [100;100]; dd [99;99]] = ROk st
                 /\ coherent_b (build_self gs_cmd) (mt st) = true
                 /\ check_explicit (mt st) i_g PIsPresent = true
                 /\ check_explicit (mt st) i_d PIsPresent = false
                 /\ check_explicit (mt st) i_c PIsPresent = true).
Proof. exact families_witnesses. Qed.
Print Assumptions C03_families_witnesses.

(** the group-handling step: closed form of the explicit ids after [start_custom_arg] with an
    explicit source (every command), and coherence of every group afterwards outside the families *)
Theorem C03_start_custom_arg_explicit : forall c a s m m', src_explicit s = true ->
  start_custom_arg c a s m = ROk m' ->
  forall i, ex m' i =
    if mem_id i (groups_for_arg c (a_id a)) then true
    else if beq i (a_id a) then true
    else ex (match s with SCmdLine => remove_overrides c a m | _ => m end) i.
Proof. exact start_custom_arg_explicit. Qed.
Print Assumptions C03_start_custom_arg_explicit.

Theorem C03_start_custom_arg_coherent_partial : forall c a s m m',
  rel_wf c = true -> group_safe c = true -> find_arg c (a_id a) = Some a ->
  (forall g, In g (c_groups c) -> find_arg c (g_id g) = None) ->
  src_explicit s = true ->
  (forall g, In g (c_groups c) -> ~ In (a_id a) (g_args g) -> cohg m g) ->
  start_custom_arg c a s m = ROk m' ->
  forall g, In g (c_groups c) -> cohg m' g.
Proof. exact start_custom_arg_coherent. Qed.
Print Assumptions C03_start_custom_arg_coherent_partial.

Theorem C03_start_custom_arg_coherent_nonvacuous :
  let c := build_self gs_cmd in
  let a := built_arg gs_cmd i_a in
  rel_wf c = true /\ group_safe c = true /\ find_arg c (a_id a) = Some a
  /\ forallb (fun g => negb (is_some (find_arg c (g_id g)))) (c_groups c) = true
  /\ exists m', start_custom_arg c a SCmdLine (entry [(i_d, flag_entry SCmdLine)]) = ROk m'
                /\ coherent_b c m' = true /\ ex m' i_g = true /\ ex m' i_a = true /\ ex m' i_d = true.
Proof. exact start_custom_arg_coherent_nonvacuous. Qed.
Print Assumptions C03_start_custom_arg_coherent_nonvacuous.

(** ** after the repair of [Command::unroll_arg_requires] (conditional rules behind a [requires] chain are no longer
    judged against the root's values; docs/notes/C10.md): the requirement set [validate] works from IS the set
    [Required] of the specification -- [gather_requires_spec] gave "⊇" (what soundness needs), the repaired code
    gives "⊆" as well (proof: ParseProofs/RequiresChain.v through C10's [requirement_set_exact]) *)
Theorem C03_required_set_exact : forall c mt required, fm_wf mt ->
  gather_requires c mt (required_graph c) = Some required ->
  forall x, In x required <-> Required c mt (present mt) x.
Proof. exact RequiresChain.required_set_exact. Qed.
Print Assumptions C03_required_set_exact.

(** ---------------------------------------------------------------------------------------
    ROUND 3 (ParseProofs/RelationsLoop.v): coherence of the group entries carried through the whole
    level by a dedicated traversal, and the chain theorem with hypotheses only ALONG the reported
    chain (a sibling that the parse did not descend into may ignore errors / lie in a family). *)

(** the traversal: a state predicate that reads only the entries of the matcher and is preserved
    by one whole command-line occurrence ([react]) and by [resolve_pending] is preserved by the
    token loop -- for predicates that are NOT closed under removal of arbitrary entries
    (partial correctness; error states unconstrained) *)
Theorem C03_loop_carries : forall (c : cmd) (J : ps -> Prop),
  (forall st st', mt_args (mt st') = mt_args (mt st) -> J st -> J st') ->
  (forall idn a raw ti st, In a (c_args c) -> J st ->
     Dispatch.holds (fun x => J (fst x)) anyE (react c idn SCmdLine a raw ti st)) ->
  (forall st, J st -> Dispatch.holds J anyE (resolve_pending c st)) ->
  forall toks ls st, J st -> Dispatch.holds (fun lr => J (lr_st lr)) anyE (parse_loop c toks ls st).
Proof. exact parse_loop_J. Qed.
Print Assumptions C03_loop_carries.

(** one whole occurrence, any source: outside the two families every group is coherent afterwards
    if it was before ([src_ok]: the default source is only used for an absent id) *)
Theorem C03_occurrence_coherent : forall c,
  (forall a, In a (c_args c) -> find_arg c (a_id a) = Some a) -> rel_wf c = true -> group_safe c = true ->
  (forall g, In g (c_groups c) -> find_arg c (g_id g) = None) ->
  forall idn s a raw ti st st' pr, In a (c_args c) -> src_ok s a (mt st) -> Coh c (mt st) ->
  react_core c idn s a raw ti st = ROk (st', pr) -> Coh c (mt st').
Proof. exact react_core_coh. Qed.
Print Assumptions C03_occurrence_coherent.

(** any level of the recursion, any depth, with or without [ignore_errors]: outside the families a
    successful level that starts from a coherent matcher ends in a coherent matcher ... *)
Theorem C03_level_coherent : forall fuel c toks st0 st,
  tree_ok fuel c -> group_safe c = true -> coherent_b c (mt st0) = true ->
  get_matches_with fuel c toks st0 = ROk st -> coherent_b c (mt st) = true.
Proof. exact level_coherent_b. Qed.
Print Assumptions C03_level_coherent.

(** ... and satisfies the member-based reading of the property *)
Theorem C03_level_members : forall fuel c toks st0 st,
  tree_ok fuel c -> group_safe c = true -> G c idx_inv trivV st0 -> Coh c (mt st0) ->
  get_matches_with fuel c toks st0 = ROk st -> RelationsM c (mt st).
Proof. exact level_members. Qed.
Print Assumptions C03_level_members.

(** the statement left visible in round 2: for every valid [plain] definition whose built root is
    outside the two families and every token list, a successful parse without error-ignoring ends
    in a coherent matcher, which satisfies [RelationsM] *)
Theorem C03_parse_sound_members : forall c0 toks m,
  plain c0 = true -> valid c0 = true -> group_safe (build_self c0) = true ->
  do_parse c0 toks = OOk m -> is_set s_ignore_errors (build_self c0) = false ->
  exists st, run_level c0 toks = ROk st /\ m = reported c0 st
             /\ coherent_b (build_self c0) (mt st) = true /\ RelationsM (build_self c0) (mt st).
Proof. exact parse_members. Qed.
Print Assumptions C03_parse_sound_members.

(** every level of the chain, hypotheses along the reported chain only: [strict_chain_b c m] -- every
    level of the chain recorded in [m] that recorded a subcommand does not ignore errors;
    [safe_chain_b c m] -- every level of that chain is outside the two families.  Siblings the
    parse did not descend into are unconstrained (they may set [ignore_errors]). *)
Theorem C03_level_chain_along : forall fuel c toks st0 st,
  tree_ok fuel c -> G c idx_inv trivV st0 -> mt_sub (mt st0) = None ->
  get_matches_with fuel c toks st0 = ROk st ->
  strict_chain_b c (into_inner (mt st)) = true ->
  validated_chain c (into_inner (mt st))
  /\ (Coh c (mt st0) -> safe_chain_b c (into_inner (mt st)) = true -> members_chain c (into_inner (mt st))).
Proof. exact gmw_chain_along. Qed.
Print Assumptions C03_level_chain_along.

Theorem C03_parse_sound_along : forall c0 toks m,
  plain c0 = true -> valid c0 = true -> is_set s_ignore_errors (build_self c0) = false ->
  do_parse c0 toks = OOk m -> strict_chain_b (build_self c0) m = true ->
  exists st, run_level c0 toks = ROk st /\ m = reported c0 st
             /\ validated_chain (build_self c0) (into_inner (mt st))
             /\ Globals.chain m = Globals.chain (into_inner (mt st))
             /\ (safe_chain_b (build_self c0) m = true -> members_chain (build_self c0) (into_inner (mt st))).
Proof. exact parse_sound_along. Qed.
Print Assumptions C03_parse_sound_along.

Theorem C03_parse_top_sound_along : forall c0 argv m,
  plain c0 = true -> (forall b, valid (c0 <| c_bin_name := b |>) = true) -> valid c0 = true ->
  is_set s_ignore_errors (build_self c0) = false ->
  parse_top c0 argv = OOk m ->
  exists c1 toks,
    (c1 = c0 \/ exists b, c1 = c0 <| c_bin_name := Some b |>)
    /\ (strict_chain_b (build_self c1) m = true ->
        exists st, run_level c1 toks = ROk st /\ m = reported c1 st
          /\ validated_chain (build_self c1) (into_inner (mt st))
          /\ Globals.chain m = Globals.chain (into_inner (mt st))
          /\ (safe_chain_b (build_self c1) m = true -> members_chain (build_self c1) (into_inner (mt st)))).
Proof. exact parse_top_sound_along. Qed.
Print Assumptions C03_parse_top_sound_along.

(** non-vacuity: a definition with a sibling that ignores errors ([no_ignore] fails), groups and a
    firing override outside both families at the root, a non-multiple group at the child level *)
Theorem C03_along_nonvacuous :
  plain al_cmd = true /\ valid al_cmd = true /\ no_ignore al_cmd = false
  /\ is_set s_ignore_errors (build_self al_cmd) = false
  /\ group_safe (build_self al_cmd) = true
  /\ (exists m, do_parse al_cmd al_toks = OOk m /\ Globals.chain m = [[115]]
                /\ strict_chain_b (build_self al_cmd) m = true /\ safe_chain_b (build_self al_cmd) m = true)
  /\ out_kind (do_parse al_cmd [[115]; dd [97;97]; dd [99;99]]) = Some EArgumentConflict
  /\ out_kind (do_parse al_cmd [[115]; dd [97;97]; dd [98;98]]) = Some EArgumentConflict
  /\ out_kind (do_parse al_cmd [[116]]) = Some EMissingRequiredArgument.
Proof. exact along_nonvacuous. Qed.
Print Assumptions C03_along_nonvacuous.

(** ---------------------------------------------------------------------------------------
    ROUND 3, COMPLETENESS FOR EVERY RELATION GRAPH (ParseProofs/RelationsCompleteAll.v): [requires] /
    [requires_if] chains (through the exact requirement set), required groups, group [requires], the
    [requires] of a present group and all conditional rule families.  No class restriction on the
    definition any more ([static_only] is gone). *)

(** if (R3) holds as the specification states it, [validate_required] finds nothing missing *)
Theorem C03_missing_required_complete : forall c, rel_wf c = true -> forall mt potential,
  fm_wf mt -> conflicts_with_args c mt = Some potential ->
  (forall p, In p (positionals c) -> a_index p <> None) ->
  (forall x, Required c mt (present mt) x -> satisfied c (present mt) x) ->
  (forall a, In a (c_args c) -> cond_required mt (present mt) a ->
             present mt (a_id a) \/ exclusive_present c (present mt)) ->
  missing_required c mt potential = Some [].
Proof. exact missing_required_complete. Qed.
Print Assumptions C03_missing_required_complete.

(** the validator accepts every matcher that satisfies the specification ... *)
Theorem C03_validate_complete : forall c, rel_wf c = true -> forall mt,
  fm_wf mt -> keys_ok c (mt_args mt) ->
  (forall p, In p (positionals c) -> a_index p <> None) ->
  negb (is_some (mt_sub mt)) && is_set s_arg_required_else_help c && is_nil (explicit_entries mt) = false ->
  negb (is_some (mt_sub mt)) && is_set s_sub_required c = false ->
  Relations c mt -> validate c mt = VOk.
Proof. exact validate_complete. Qed.
Print Assumptions C03_validate_complete.

(** ... never answers MissingRequiredArgument for it ([C03_no_false_conflict] is the other kind) ... *)
Theorem C03_no_false_missing : forall c, rel_wf c = true -> forall mt,
  fm_wf mt -> keys_ok c (mt_args mt) -> (forall p, In p (positionals c) -> a_index p <> None) ->
  Relations c mt -> forall a, validate c mt <> VErr EMissingRequiredArgument a.
Proof. exact validate_no_missing_error. Qed.
Print Assumptions C03_no_false_missing.

(** ... and IS the specification: any graph, any well-formed matcher (the two checks that are not
    relations -- help-on-empty-argv, subcommand-required -- set aside) *)
Theorem C03_validate_iff : forall c mt,
  assert_app c = true -> fm_wf mt -> keys_ok c (mt_args mt) ->
  (forall p, In p (positionals c) -> a_index p <> None) ->
  negb (is_some (mt_sub mt)) && is_set s_arg_required_else_help c && is_nil (explicit_entries mt) = false ->
  negb (is_some (mt_sub mt)) && is_set s_sub_required c = false ->
  (validate c mt = VOk <-> Relations c mt).
Proof. exact validate_iff. Qed.
Print Assumptions C03_validate_iff.

(** the same for the member-based reading on coherent matchers *)
Theorem C03_validate_iff_members : forall c mt,
  assert_app c = true -> fm_wf mt -> keys_ok c (mt_args mt) ->
  (forall p, In p (positionals c) -> a_index p <> None) ->
  negb (is_some (mt_sub mt)) && is_set s_arg_required_else_help c && is_nil (explicit_entries mt) = false ->
  negb (is_some (mt_sub mt)) && is_set s_sub_required c = false ->
  coherent_b c mt = true ->
  (validate c mt = VOk <-> RelationsM c mt).
Proof. exact validate_iff_members. Qed.
Print Assumptions C03_validate_iff_members.

(** on the parser's own states the side conditions are discharged by the loop invariant *)
Theorem C03_validate_iff_invariant : forall c st,
  wfc c -> assert_app c = true -> G c idx_inv trivV st ->
  negb (is_some (mt_sub (mt st))) && is_set s_arg_required_else_help c && is_nil (explicit_entries (mt st)) = false ->
  negb (is_some (mt_sub (mt st))) && is_set s_sub_required c = false ->
  (validate c (mt st) = VOk <-> Relations c (mt st)).
Proof. exact validate_iff_invariant. Qed.
Print Assumptions C03_validate_iff_invariant.

(** ---------------------------------------------------------------------------------------
    ROUND 3, THREE CLAUSES MADE EXPLICIT (ParseProofs/RelationsClauses3.v) *)

(** (a) a conflict declared by a group against another GROUP reaches the members of both, for
    [multiple] groups too: member-based reading, the matcher's own entries, and the code fact *)
Theorem C03_clause_group_conflicts_group_members : forall c mt,
  RelationsM c mt -> forall i a g h gh j,
  arg_of c i a -> member c i g -> In h (g_conflicts g) -> group_of c h gh -> In j (g_args gh) ->
  present mt i -> present mt j -> False.
Proof. exact clause_group_conflicts_group_members. Qed.
Print Assumptions C03_clause_group_conflicts_group_members.

Theorem C03_clause_group_conflicts_group_entry : forall c mt,
  Relations c mt -> forall i a g h gh,
  arg_of c i a -> member c i g -> In h (g_conflicts g) -> group_of c h gh ->
  present mt i -> present mt h -> False.
Proof. exact clause_group_conflicts_group_entry. Qed.
Print Assumptions C03_clause_group_conflicts_group_entry.

Theorem C03_direct_conflicts_multiple_group : forall c, rel_wf c = true -> forall i a g h conf,
  arg_of c i a -> member c i g -> g_multiple g = true -> In h (g_conflicts g) ->
  gather_direct_conflicts c i = Some conf -> In h conf.
Proof. exact direct_conflicts_multiple_group. Qed.
Print Assumptions C03_direct_conflicts_multiple_group.

(** (b) [required_if_eq*] and [required_unless_present*] on one argument: either family demands it *)
Theorem C03_clause_required_if_unless_union : forall c mt, Relations c mt -> negates_reqs c mt = false ->
  forall a, In a (c_args c) -> if_fires mt a \/ unless_fires mt a ->
  present mt (a_id a) \/ exclusive_present c (present mt).
Proof. exact clause_required_if_unless_union. Qed.
Print Assumptions C03_clause_required_if_unless_union.

Theorem C03_clause_required_if_despite_unless : forall c mt, Relations c mt -> negates_reqs c mt = false ->
  forall a o v u, In a (c_args c) -> In (o, v) (a_r_ifs a) -> has_value mt o v ->
  In u (a_r_unless a) -> present mt u ->
  present mt (a_id a) \/ exclusive_present c (present mt).
Proof. exact clause_required_if_despite_unless. Qed.
Print Assumptions C03_clause_required_if_despite_unless.

Theorem C03_clause_required_unless_despite_if : forall c mt, Relations c mt -> negates_reqs c mt = false ->
  forall a, In a (c_args c) -> a_r_unless a <> [] -> a_r_unless_all a = [] ->
  (forall o, In o (a_r_unless a) -> ~ present mt o) ->
  (forall o v, In (o, v) (a_r_ifs a) -> ~ has_value mt o v) ->
  present mt (a_id a) \/ exclusive_present c (present mt).
Proof. exact clause_required_unless_despite_if. Qed.
Print Assumptions C03_clause_required_unless_despite_if.

(** the boolean the validator computes for the conditional rules is exactly that union *)
Theorem C03_conditional_union_exact : forall mt a,
  cond_b mt a = true <-> if_fires mt a \/ unless_fires mt a.
Proof. exact cond_b_is_union. Qed.
Print Assumptions C03_conditional_union_exact.

(** (c) [Equals] reads every stored occurrence of the condition argument *)
Theorem C03_clause_required_if_eq_any_occurrence : forall c mt, Relations c mt -> negates_reqs c mt = false ->
  forall a o v m grp, In a (c_args c) -> In (o, v) (a_r_ifs a) ->
  fm_get o (mt_args mt) = Some m -> m_source m <> Some SDefault -> m_ignore_case m = false ->
  In grp (m_raw m) -> In v grp ->
  present mt (a_id a) \/ exclusive_present c (present mt).
Proof. exact clause_required_if_eq_any_occurrence. Qed.
Print Assumptions C03_clause_required_if_eq_any_occurrence.

Theorem C03_clause_requires_if_any_occurrence : forall c mt, Relations c mt -> negates_reqs c mt = false ->
  forall i a m v y b grp, arg_of c i a -> fm_get i (mt_args mt) = Some m -> In (PEquals v, y) (a_requires a) ->
  m_source m <> Some SDefault -> m_ignore_case m = false -> In grp (m_raw m) -> In v grp ->
  arg_of c y b -> arg_satisfied c mt y.
Proof. exact clause_requires_if_any_occurrence. Qed.
Print Assumptions C03_clause_requires_if_any_occurrence.

(** witnesses (replayed on the real crate: corpus/C03/relgraph.round3-witnesses.cases): a definition
    outside [static_only] with every rule family; accepted and rejected lines for each of them *)
Theorem C03_complete_all_witnesses :
  valid ca_cmd = true /\ static_only (build_self ca_cmd) = false /\ pos_indexed_b (build_self ca_cmd) = true
  /\ lvl_wf ca_cmd [mm; dd [112;112]; dd [117;117]] = true
  /\ lvl_verdict ca_cmd [mm; dd [112;112]; dd [117;117]] = Some VOk
  /\ lvl_wf ca_cmd full_line = true /\ lvl_verdict ca_cmd full_line = Some VOk
  /\ lvl_verdict ca_cmd [mm; dd [97;97]; dd [98;98]; ww; dd [121;121]; dd [111;111]; vv]
     = Some (VErr EMissingRequiredArgument j_p)
  /\ lvl_verdict ca_cmd [mm; dd [117;117]] = Some (VErr EMissingRequiredArgument j_p)
  /\ lvl_verdict ca_cmd [mm; dd [97;97]; dd [98;98]; xx; dd [121;121]; dd [111;111]; vv; dd [111;111]; xx]
     = Some (VErr EMissingRequiredArgument j_p)
  /\ lvl_verdict ca_cmd [mm; dd [97;97]; dd [98;98]; ww; dd [121;121]; dd [111;111]; vv; dd [112;112]]
     = Some (VErr EMissingRequiredArgument j_q)
  /\ lvl_verdict ca_cmd [mm; dd [97;97]; dd [98;98]; vv; dd [111;111]; xx]
     = Some (VErr EMissingRequiredArgument j_y)
  /\ lvl_verdict ca_cmd [dd [112;112]; dd [117;117]] = Some (VErr EMissingRequiredArgument j_G)
  /\ lvl_verdict ca_cmd [mm; dd [112;112]; dd [117;117]; dd [107;107]] = Some (VErr EMissingRequiredArgument j_y)
  /\ lvl_verdict ca_cmd [mm; dd [112;112]; dd [117;117]; dd [121;121]; dd [107;107]; dd [110;110]]
     = Some (VErr EArgumentConflict j_k).
Proof. exact complete_all_witnesses. Qed.
Print Assumptions C03_complete_all_witnesses.

(** completeness used backwards: the matcher of a line the validator rejects does NOT satisfy the
    specification *)
Theorem C03_union_line_breaks_relations :
  exists e st, run_level ca_cmd [mm; dd [97;97]; dd [98;98]; ww; dd [121;121]; dd [111;111]; vv] = RErr e st
    /\ ~ Relations (build_self ca_cmd) (mt st).
Proof. exact union_line_breaks_relations. Qed.
Print Assumptions C03_union_line_breaks_relations.

(** the hypothesis [strict_chain_b] is needed: a level ON the chain that ignores errors records the
    unvalidated matcher of its child (root -> s (ignore_errors) -> t (a required argument), line `s t`) *)
Theorem C03_strict_chain_needed :
  plain ig_root = true /\ valid ig_root = true /\ is_set s_ignore_errors (build_self ig_root) = false
  /\ exists m sm, do_parse ig_root [[115]; [116]] = OOk m /\ Globals.chain m = [[115]; [116]]
       /\ strict_chain_b (build_self ig_root) m = false
       /\ match sub_matches m with Some m1 => sub_matches m1 | None => None end = Some sm
       /\ ~ Relations (built_sub (built_sub (build_self ig_root) [115]) [116]) (level_matcher sm).
Proof. exact strict_chain_needed. Qed.
Print Assumptions C03_strict_chain_needed.

(** ---------- round 4: definitions WITH short flag-subcommands (class [flag_sub_class], see Properties/C01.v) ----------
    the closed form of soundness: the key-uniqueness hypothesis is discharged by the parse-loop invariant generalised
    over the resume state of short flag-subcommands (ParseProofs/FsInvariant.v, FsTotality.v, FsIndex.v) *)
From ClapModel Require Import ParseProofs.FlagSubClass ParseProofs.FsInvariant ParseProofs.FsTotality ParseProofs.FsIndex.

Theorem C03_parse_sound_flag_subs : forall c0 toks m,
  flag_sub_class c0 = true -> valid c0 = true ->
  do_parse c0 toks = OOk m -> is_set s_ignore_errors (build_self c0) = false ->
  exists st, run_level c0 toks = ROk st /\ m = reported c0 st /\ Relations (build_self c0) (mt st).
Proof. exact parse_relations_fs. Qed.
Print Assumptions C03_parse_sound_flag_subs.

(** at every level of the recursion, whichever way it was entered (by name / long flag, or by re-reading a cluster) *)
Theorem C03_level_sound_closed_flag_subs : forall fuel c toks st0 st,
  tree_ok_fs fuel c -> idx_entry c toks st0 -> get_matches_with fuel c toks st0 = ROk st ->
  Relations c (mt st).
Proof. exact level_relations_fs. Qed.
Print Assumptions C03_level_sound_closed_flag_subs.
