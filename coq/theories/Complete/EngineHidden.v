(** Property C18, round 4: the candidate's hide flag is the DEFINITIONAL one.

    "Hidden ones being offered only when nothing visible matches" is about spellings that are hidden BY DEFINITION:
    every spelling of a hidden argument / subcommand, and an alias that is not a visible alias (a hidden alias of a
    visible option is a hidden spelling).  The engine's rule ([hide_filter]) reads the candidate's own flag; here: for
    every candidate with an id, in every state, that flag is the definitional one ([def_flag]).  (A seeded change
    built the hidden-alias candidates with the argument's own visibility: [df_long_hidden] then fails.) *)
From ClapModel Require Import Base.Bytes Base.Machine Base.Utf8.
From ClapModel Require Import Parse.Cmd Parse.Build Parse.Valid Complete.EngineModel Complete.EngineProofs.
From ClapModel Require Import Complete.EngineAccept.
From Coq Require Import ZArith Lia List Bool.
From RecordUpdate Require Import RecordSet.
Import RecordSetNotations. Import ListNotations.
Open Scope N_scope.

(** [def_flag c cd h]: by the DEFINITION of the level [c], the spelling [cd_value cd] of the argument / subcommand
    whose id [cd] carries is hidden ([h = true]) or visible ([h = false]) *)
Inductive def_flag (c : cmd) (cd : cand) : bool -> Prop :=
| df_long a s : In a (c_args c) -> cd_id cd = Some (IdArg (a_id a)) -> cd_value cd = dd ++ s ->
    (a_long a = Some s \/ In s (vis_aliases (a_aliases a))) -> def_flag c cd (a_hide a)
| df_long_hidden a s : In a (c_args c) -> cd_id cd = Some (IdArg (a_id a)) -> cd_value cd = dd ++ s ->
    In s (hid_aliases (a_aliases a)) -> def_flag c cd true
| df_short a lead s : In a (c_args c) -> cd_id cd = Some (IdArg (a_id a)) -> cd_value cd = [DASH] ++ lead ++ utf8_encode s ->
    (a_short a = Some s \/ In s (vis_aliases (a_short_aliases a))) -> def_flag c cd (a_hide a)
| df_sub sc : In sc (c_subs c) -> cd_id cd = Some (IdCmd (c_name sc)) ->
    (cd_value cd = c_name sc \/ In (cd_value cd) (vis_aliases (c_aliases sc))) -> def_flag c cd (is_hide_set sc)
| df_sub_hidden sc : In sc (c_subs c) -> cd_id cd = Some (IdCmd (c_name sc)) ->
    In (cd_value cd) (hid_aliases (c_aliases sc)) -> def_flag c cd true.

Lemma longs_flag c x : In x (longs_and_visible_aliases c) -> def_flag c x (cd_hidden x).
Proof.
  unfold longs_and_visible_aliases. intros H. apply in_flat_map in H. destruct H as [a [Ha Hx]].
  unfold get_long_and_visible_aliases in Hx. destruct (a_long a) as [l|] eqn:El; [|destruct Hx].
  apply in_map_iff in Hx. destruct Hx as [s [<- Hs]]. cbn [populate_arg_candidate cd_hidden].
  apply (df_long c _ a s); [exact Ha|reflexivity|reflexivity|].
  destruct Hs as [->|Hs]; [left; exact El|right; exact Hs].
Qed.

Lemma hidden_longs_flag c x : In x (hidden_longs_aliases c) -> def_flag c x (cd_hidden x).
Proof.
  unfold hidden_longs_aliases. intros H. apply in_flat_map in H. destruct H as [a [Ha Hx]].
  unfold get_aliases in Hx. destruct (is_nil (a_aliases a)); [destruct Hx|].
  apply in_map_iff in Hx. destruct Hx as [s [<- Hs]]. cbn [hide populate_arg_candidate cd_hidden cd_value cd_id].
  apply (df_long_hidden c _ a s); [exact Ha|reflexivity|reflexivity|exact Hs].
Qed.

Lemma shorts_flag c y lead : In y (shorts_and_visible_aliases c) ->
  def_flag c (add_prefix ([DASH] ++ lead) y) (cd_hidden (add_prefix ([DASH] ++ lead) y)).
Proof.
  unfold shorts_and_visible_aliases. intros H. apply in_flat_map in H. destruct H as [a [Ha Hx]].
  unfold get_short_and_visible_aliases in Hx. destruct (a_short a) as [l|] eqn:El; [|destruct Hx].
  apply in_map_iff in Hx. destruct Hx as [s [<- Hs]]. cbn [add_prefix populate_arg_candidate cd_hidden cd_value cd_id].
  apply (df_short c _ a lead s); [exact Ha|reflexivity|cbn [cd_value app]; reflexivity|].
  destruct Hs as [->|Hs]; [left; exact El|right; exact Hs].
Qed.

Lemma subcommands_flag c x : In x (subcommands c) -> def_flag c x (cd_hidden x).
Proof.
  unfold subcommands. intros H. apply in_flat_map in H. destruct H as [sc [Hsc Hx]].
  apply in_app_or in Hx. destruct Hx as [Hx|Hx]; apply in_map_iff in Hx; destruct Hx as [n [<- Hn]].
  - cbn [populate_command_candidate cd_hidden]. apply (df_sub c _ sc); [exact Hsc|reflexivity|]. cbn [cd_value].
    destruct Hn as [<-|Hn]; [left; reflexivity|right; exact Hn].
  - cbn [hide populate_command_candidate cd_hidden cd_value cd_id].
    apply (df_sub_hidden c _ sc); [exact Hsc|reflexivity|exact Hn].
Qed.

Lemma complete_option_flag tbl w c l x : complete_option tbl w c = COk l -> In x l -> cd_id x <> None ->
  def_flag c x (cd_hidden x).
Proof.
  intros H Hx Hid. destruct (complete_option_shape tbl w c l x H Hx Hid) as [[Hl|Hl]|[y [lead [Hy [-> _]]]]].
  - exact (longs_flag c x Hl).
  - exact (hidden_longs_flag c x Hl).
  - exact (shorts_flag c y lead Hy).
Qed.

Lemma complete_subcommand_flag w c x : In x (complete_subcommand w c) -> def_flag c x (cd_hidden x).
Proof.
  unfold complete_subcommand. rewrite dedup_adjacent_in, sort_cands_in, filter_In. intros [H _].
  exact (subcommands_flag c x H).
Qed.

Lemma value_done_flag tbl w c pi l x : complete_arg_value_done tbl w c pi = COk l -> In x l -> cd_id x <> None ->
  def_flag c x (cd_hidden x).
Proof.
  intros H Hx Hid. destruct (value_done_inv _ _ _ _ _ H) as [posv [opts [Hpos [Ho ->]]]].
  apply finish_incl in Hx. apply in_app_or in Hx. destruct Hx as [Hx|Hx].
  - destruct (utf8_valid w); [exact (complete_subcommand_flag w c x Hx)|destruct Hx].
  - apply in_app_or in Hx. destruct Hx as [Hx|Hx]; [exfalso; exact (Hid (Hpos x Hx))|].
    exact (complete_option_flag tbl w c opts x Ho Hx Hid).
Qed.

(** THE HIDE FLAG IS DEFINITIONAL, in every state of the shadow parse *)
Theorem hide_flag_definitional tbl w c pi st l x : complete_arg tbl w c pi st = COk l -> In x l -> cd_id x <> None ->
  def_flag c x (cd_hidden x).
Proof.
  destruct st as [|idx cnt|o cnt]; cbn [complete_arg].
  - apply value_done_flag.
  - destruct (find_pos c pi) as [p|]; [|intros H Hx; inversion H; subst; destruct Hx].
    intros H Hx Hid. apply cbind_ok_inv in H. destruct H as [posv [Hp H]].
    apply cbind_ok_inv in H. destruct H as [opts [Ho H]]. inversion H; subst; clear H.
    apply finish_incl in Hx. apply in_app_or in Hx. destruct Hx as [Hx|Hx].
    + exfalso. apply Hid. destruct (complete_arg_value tbl w p) as [l0|] eqn:Ev; [|discriminate].
      cbn [of_opt] in Hp. inversion Hp; subst. eapply complete_arg_value_ids; eauto.
    + destruct (match a_num p with Some r => vmin r <=? cnt | None => false end).
      * exact (complete_option_flag tbl w c opts x Ho Hx Hid).
      * inversion Ho; subst. destruct Hx.
  - intros H Hx Hid. apply cbind_ok_inv in H. destruct H as [optv [Hp H]].
    apply cbind_ok_inv in H. destruct H as [more [Hm H]]. inversion H; subst; clear H.
    apply finish_incl in Hx. apply in_app_or in Hx. destruct Hx as [Hx|Hx].
    + exfalso. apply Hid. destruct (complete_arg_value tbl w o) as [l0|] eqn:Ev; [|discriminate].
      cbn [of_opt] in Hp. inversion Hp; subst. eapply complete_arg_value_ids; eauto.
    + destruct (match a_num o with Some r => vmin r | None => 0 end <? cnt).
      * exact (value_done_flag tbl w c pi more x Hm Hx Hid).
      * inversion Hm; subst. destruct Hx.
Qed.

(** ... hence the rule of the property, read off the definition: beside a candidate the engine shows as visible every
    candidate with an id has a spelling that is VISIBLE BY DEFINITION *)
Theorem hidden_rule_definitional tbl w c pi st l x y : complete_arg tbl w c pi st = COk l ->
  In x l -> cd_hidden x = false -> In y l -> cd_id y <> None -> def_flag c y false.
Proof.
  intros H Hx Hv Hy Hid. rewrite <- (hidden_only_if_no_visible tbl w c pi st l H x Hx Hv y Hy).
  exact (hide_flag_definitional tbl w c pi st l y H Hy Hid).
Qed.

(** * Non-vacuity: a VISIBLE option `--alpha` with the hidden alias `--alt`, a visible `--all`; the word `--alt` is
    extended by the hidden alias alone: it is offered, flagged hidden although the option is visible; the word `--al`
    gets the two visible spellings and not the alias *)
Module HiddenExample.
Definition w_alpha : bytes := [97; 108; 112; 104; 97].
Definition w_alt : bytes := [97; 108; 116].
Definition w_all : bytes := [97; 108; 108].
Definition c0 : cmd :=
  (cmd_new [112])
    <| c_args := [ (arg_new w_alpha) <| a_long := Some w_alpha |> <| a_aliases := [(w_alt, false)] |> <| a_action := Some ASetTrue |>;
                   (arg_new w_all) <| a_long := Some w_all |> <| a_action := Some ASetTrue |> ] |>.
Definition show (r : cres) : list (bytes * bool) :=
  match r with COk l => map (fun cd => (cd_value cd, cd_hidden cd)) l | _ => [] end.
End HiddenExample.

Example ex_hidden_alias :
  HiddenExample.show (complete_model [] HiddenExample.c0 [[112]; dd ++ HiddenExample.w_alt] 1) = [(dd ++ HiddenExample.w_alt, true)] /\
  HiddenExample.show (complete_model [] HiddenExample.c0 [[112]; dd ++ [97; 108]] 1)
    = [(dd ++ HiddenExample.w_alpha, false); (dd ++ HiddenExample.w_all, false)].
Proof. vm_compute. split; reflexivity. Qed.

(** * [valid_arg_found]: behind an argument of a command whose arguments conflict with subcommands NO subcommand
    candidate is offered, in any state (repair of finding C18-args-conflict, second half) *)
Theorem no_subcommand_candidates_behind_args tbl w c pi st vaf l cd n :
  (is_set s_args_negate_subs c && vaf) = true ->
  complete_arg_v tbl w c pi st vaf = COk l -> In cd l -> cd_id cd <> Some (IdCmd n).
Proof.
  intros Hng H Hin Hid. rewrite complete_arg_v_cut in H.
  assert (Hnn : cd_id cd <> None) by (rewrite Hid; discriminate).
  pose proof (hide_flag_definitional tbl w (sub_cut c vaf) pi st l cd H Hin Hnn) as Hd.
  assert (Hs : c_subs (sub_cut c vaf) = []) by (unfold sub_cut; rewrite Hng; destruct c; reflexivity).
  inversion Hd as [a s Ha Hi _ _|a s Ha Hi _ _|a lead s Ha Hi _ _|sc Hsc _ _|sc Hsc _ _]; try congruence;
    rewrite Hs in Hsc; destruct Hsc.
Qed.

(** ... and with the flag off (or without the setting) [complete_arg_v] IS [complete_arg] *)
Theorem complete_arg_v_flag_off tbl w c pi st vaf : (is_set s_args_negate_subs c && vaf) = false ->
  complete_arg_v tbl w c pi st vaf = complete_arg tbl w c pi st.
Proof. intros H. rewrite complete_arg_v_cut. unfold sub_cut. rewrite H. reflexivity. Qed.
