(** C16/C17: clap_complete/src/aot/shells/powershell.rs, byte for byte.
    One Gallina function per Rust function ([escape_string], [escape_help], [generate_inner],
    [generate_aliases], [PowerShell::generate]).  Strings are lists of Unicode scalar values (see
    ElvishModel.v).  [char::is_uppercase] (Rust std, Unicode property Uppercase) is not clap code:
    it is a parameter [is_uppercase] of the model (the driver supplies it; every theorem holds
    for any such function).
    Panic sites are visible: [None] = [expect] on a missing bin name / the index [aliases[0]]. *)
From ClapModel Require Import Base.Bytes Complete.AotTree Complete.TextTree Escape.EscapeModel Gen.EscapeTables.
From Coq Require Import String.
Open Scope N_scope.
Open Scope list_scope.

Definition nl : bytes := [10].

(** [escape_string]: the chain is regenerated from the source ([Gen/EscapeTables.v]) *)
Definition escape_string (s : str) : str := powershell_escape_string s.

(** [escape_help(help, data)]: a present, non-empty help is flattened and escaped; otherwise [data] *)
Definition escape_help (help : option str) (data : bytes) : bytes :=
  match help with
  | Some help_str =>
      if negb (is_nil help_str) then escape_string (apply_chain powershell_escape_help_pre help_str)
      else data
  | None => data
  end.

(** [let preamble = String::from("\n            [CompletionResult]::new(")] *)
Definition preamble : bytes := nl ++ lit "            [CompletionResult]::new(".

(** [v[0]] *)
Definition idx0 (l : list bytes) : option bytes := match l with x :: _ => Some x | [] => None end.

Section Model.
  Variable is_uppercase : N -> bool.

  (** [alias.is_uppercase()] of a [char] (a one-element string here) *)
  Definition char_is_uppercase (alias : bytes) : bool :=
    match alias with c :: _ => is_uppercase c | [] => false end.

  (** [generate_aliases] *)
  Definition short_lines (o : option (list bytes)) (help : option str) : option bytes :=
    match o with
    | None => Some []
    | Some aliases =>
        match idx0 aliases with
        | None => None
        | Some a0 =>
            let tooltip := escape_help help a0 in
            Some (List.concat (map (fun alias =>
                    preamble ++ lit "'-" ++ alias ++ lit "', '-" ++ alias ++
                    (if char_is_uppercase alias then lit " " else []) ++
                    lit "', [CompletionResultType]::ParameterName, '" ++ tooltip ++ lit "')") aliases))
        end
    end.
  Definition long_lines (o : option (list bytes)) (help : option str) : option bytes :=
    match o with
    | None => Some []
    | Some aliases =>
        match idx0 aliases with
        | None => None
        | Some a0 =>
            let tooltip := escape_help help a0 in
            Some (List.concat (map (fun alias =>
                    preamble ++ lit "'--" ++ alias ++ lit "', '--" ++ alias ++
                    lit "', [CompletionResultType]::ParameterName, '" ++ tooltip ++ lit "')") aliases))
        end
    end.
  Definition generate_aliases (p : arg * atext) : option bytes :=
    match short_lines (get_short_and_visible_aliases (fst p)) (at_help (snd p)),
          long_lines (get_long_and_visible_aliases (fst p)) (at_help (snd p)) with
    | Some a, Some b => Some (a ++ b)
    | _, _ => None
    end.

  (** one iteration of [for subcommand in p.get_subcommands()] *)
  Definition sub_lines (p : cmd * ttree) : bytes :=
    List.concat (map (fun name =>
        preamble ++ lit "'" ++ name ++ lit "', '" ++ name ++
        lit "', [CompletionResultType]::ParameterValue, '" ++ escape_help (tt_about (snd p)) name ++ lit "')")
      (get_name_and_visible_aliases (fst p))).

  (** [format!(r"\n        '{command_name}' {{{completions}\n            break\n        }}")] *)
  Definition case_block (command_name completions : bytes) : bytes :=
    nl ++ lit "        '" ++ command_name ++ lit "' {" ++ completions ++ nl ++
    lit "            break" ++ nl ++ lit "        }".

  (** [command_names] *)
  Definition command_names (p : cmd) (previous_command_name : bytes) : option (list bytes) :=
    if is_nil previous_command_name then
      match c_bin p with Some b => Some [b] | None => None end      (* expect(INTERNAL_ERROR_MSG) *)
    else Some (map (fun name => previous_command_name ++ lit ";" ++ name) (get_name_and_visible_aliases p)).

  Fixpoint generate_inner (p : cmd) (t : ttree) (previous_command_name : bytes) : option bytes :=
    match p with
    | mkCmd _ _ _ subs _ _ _ _ _ =>
        match command_names p previous_command_name with
        | None => None
        | Some names =>
            match map_opt generate_aliases (get_opts_t p t), map_opt generate_aliases (flags_t p t) with
            | Some lo, Some lf =>
                let completions := List.concat lo ++ List.concat lf ++ List.concat (map sub_lines (zsubs p t)) in
                let subcommands_cases := List.concat (map (fun cn => case_block cn completions) names) in
                match (fix go (l : list cmd) (ts : list ttree) : option bytes :=
                         match l with
                         | [] => Some []
                         | sc :: l' =>
                             match map_opt (fun cn => generate_inner sc (hd tt_none ts) cn) names, go l' (tl ts) with
                             | Some a, Some b => Some (List.concat a ++ b)
                             | _, _ => None
                             end
                         end) subs (tt_subs t) with
                | Some rest => Some (subcommands_cases ++ rest)
                | None => None
                end
            | _, _ => None
            end
        end
    end.

  (** the text around the table: the [write!] of [PowerShell::generate] *)
  Definition head1 : bytes :=
    nl ++ lit "using namespace System.Management.Automation" ++ nl ++
    lit "using namespace System.Management.Automation.Language" ++ nl ++ nl ++
    lit "Register-ArgumentCompleter -Native -CommandName ".
  Definition head2 : bytes :=
    lit " -ScriptBlock {" ++ nl ++
    lit "    param($wordToComplete, $commandAst, $cursorPosition)" ++ nl ++ nl ++
    lit "    $commandElements = $commandAst.CommandElements" ++ nl ++
    lit "    $command = @(" ++ nl ++
    lit "        ".
  Definition head3 : bytes :=
    nl ++
    lit "        for ($i = 1; $i -lt $commandElements.Count; $i++) {" ++ nl ++
    lit "            $element = $commandElements[$i]" ++ nl ++
    lit "            if ($element -isnot [StringConstantExpressionAst] -or" ++ nl ++
    lit "                $element.StringConstantType -ne [StringConstantType]::BareWord -or" ++ nl ++
    lit "                $element.Value.StartsWith('-') -or" ++ nl ++
    lit "                $element.Value -eq $wordToComplete) {" ++ nl ++
    lit "                break" ++ nl ++
    lit "        }" ++ nl ++
    lit "        $element.Value" ++ nl ++
    lit "    }) -join ';'" ++ nl ++ nl ++
    lit "    $completions = @(switch ($command) {".
  Definition tail1 : bytes :=
    nl ++ lit "    })" ++ nl ++ nl ++
    lit "    $completions.Where{ $_.CompletionText -like ""$wordToComplete*"" } |" ++ nl ++
    lit "        Sort-Object -Property ListItemText" ++ nl ++
    lit "}" ++ nl.

  Definition render (bin_name subcommands_cases : bytes) : bytes :=
    head1 ++ lit "'" ++ bin_name ++ lit "'" ++ head2 ++ lit "'" ++ bin_name ++ lit "'" ++ head3 ++
    subcommands_cases ++ tail1.

  (** [PowerShell::generate] on the built command *)
  Definition generate (c : cmd) (t : ttree) : option bytes :=
    match c_bin c with
    | None => None                         (* expect("crate::generate should have set the bin_name") *)
    | Some bin_name =>
        match generate_inner c t [] with
        | Some cases => Some (render bin_name cases)
        | None => None
        end
    end.

  (** [clap_complete::aot::generate(PowerShell, cmd, bin_name, buf)] *)
  Definition generate_powershell (c : cmd) (t : ttree) (bin : bytes) : option bytes :=
    match build (set_bin_name c bin), tbuild (set_bin_name c bin) t with
    | Some b, Some tb => generate b tb
    | _, _ => None
    end.
End Model.
