(** C17 through the generator: whole-script structure invariance for the path-table generators
    (PowerShell, elvish), generic in the lexer machine.

    [sim x y]: read from ANY "outer" lexer state (between words, in a bare word, just after a
    closing quote) the two strings leave the machine in the same outer state and produce the same
    token skeleton.  [sim] is a congruence for concatenation, holds between two quoted literals
    whose bodies are literal payload only ([body], what the per-slot theorems of EscapeProofs.v
    give for every escaped text), and is reflexive on text that keeps the machine outside
    literals -- fixed template text (checked by computation on the three outer states) and names
    without quote / comment characters ([plain]).  Composing these facts along the recursion of
    [PathTable.gi] gives: the table of a command tree has the same skeleton for ANY two
    assignments of description texts. *)
From ClapModel Require Import Base.Bytes Complete.AotTree Complete.TextTree Complete.BashModel Complete.AotProofs
  Complete.BashProofs Escape.EscapeModel Escape.ShellLex Escape.EscapeProofs Complete.PathTable.
Open Scope N_scope.
Open Scope list_scope.

Section Sim.
  Context {S : Type}.
  Variable step : S -> N -> S * list ev.
  Variable outer : S -> bool.      (* the states outside every literal and comment *)
  Variable SQ : S.                 (* inside a single-quoted literal *)
  Variable q : N.                  (* the quote the generator writes *)
  Variable plain : N -> bool.      (* characters that neither open a literal nor a comment *)

  Hypothesis Hopen : forall st, outer st = true -> fst (step st q) = SQ.
  Hypothesis Hclose : outer (fst (step SQ q)) = true.
  Hypothesis Hplain_outer : forall st c, outer st = true -> plain c = true -> outer (fst (step st c)) = true.
  Hypothesis Hplain_sq : forall c, plain c = true -> step SQ c = (SQ, [Lit c]).

  Definition sim (x y : list N) : Prop :=
    forall st, outer st = true ->
      outer (final step st x) = true /\ final step st x = final step st y /\
      skeleton (events step st x) = skeleton (events step st y).

  (** literal payload only, back in the literal: what [transparent step SQ x _] gives *)
  Definition body (x : list N) : Prop := final step SQ x = SQ /\ skeleton (events step SQ x) = [].

  Definition plainl (x : list N) : bool := forallb plain x.

  Lemma sim_nil : sim [] [].
  Proof. intros st Hst. cbn [final events]. auto. Qed.

  Lemma sim_app x1 y1 x2 y2 : sim x1 y1 -> sim x2 y2 -> sim (x1 ++ x2) (y1 ++ y2).
  Proof.
    intros H1 H2 st Hst. destruct (H1 st Hst) as (O1 & F1 & K1).
    destruct (H2 _ O1) as (O2 & F2 & K2).
    rewrite !final_app, !events_app, !skeleton_app, <- F1, K1.
    split; [exact O2|]. split; [exact F2|]. now rewrite K2.
  Qed.

  Lemma sim_refl_of x : (forall st, outer st = true -> outer (final step st x) = true) -> sim x x.
  Proof. intros H st Hst. auto. Qed.

  Lemma sim_outer x y : sim x y -> sim x x.
  Proof. intros H st Hst. destruct (H st Hst) as (O & _ & _). auto. Qed.

  Lemma sim_concat_map {A} (f g : A -> list N) (l : list A) :
    (forall a, In a l -> sim (f a) (g a)) -> sim (List.concat (map f l)) (List.concat (map g l)).
  Proof.
    induction l as [|a l IH]; intros H; [apply sim_nil|].
    cbn [map List.concat]. apply sim_app; [apply H; now left|apply IH; intros b Hb; apply H; now right].
  Qed.

  (** the same list of items with two different text columns, filtered on the item *)
  Lemma sim_zip_filter {A B} (P : A -> bool) (f : A * B -> list N) (d : B) (l : list A) :
    (forall a b1 b2, In a l -> sim (f (a, b1)) (f (a, b2))) ->
    forall t1 t2,
      sim (List.concat (map f (filter (fun x : A * B => P (fst x)) (zip_pad l t1 d))))
          (List.concat (map f (filter (fun x : A * B => P (fst x)) (zip_pad l t2 d)))).
  Proof.
    induction l as [|a l IH]; intros H t1 t2; [apply sim_nil|].
    cbn [zip_pad filter fst]. destruct (P a).
    - cbn [map List.concat]. apply sim_app; [apply H; now left|].
      apply IH. intros a' b1 b2 Ha'. apply H. now right.
    - apply IH. intros a' b1 b2 Ha'. apply H. now right.
  Qed.

  Lemma sim_zip {A B} (f : A * B -> list N) (d : B) (l : list A) :
    (forall a b1 b2, In a l -> sim (f (a, b1)) (f (a, b2))) ->
    forall t1 t2,
      sim (List.concat (map f (zip_pad l t1 d))) (List.concat (map f (zip_pad l t2 d))).
  Proof.
    induction l as [|a l IH]; intros H t1 t2; [apply sim_nil|].
    cbn [zip_pad map List.concat]. apply sim_app; [apply H; now left|].
    apply IH. intros a' b1 b2 Ha'. apply H. now right.
  Qed.

  (** names *)
  Lemma sim_plain x : plainl x = true -> sim x x.
  Proof.
    intros Hp. apply sim_refl_of. induction x as [|c x IH]; intros st Hst; [exact Hst|].
    cbn [plainl forallb] in Hp. apply andb_true_iff in Hp. destruct Hp as [Hc Hx].
    cbn [final]. apply IH; [exact Hx|]. apply Hplain_outer; assumption.
  Qed.

  Lemma body_plain x : plainl x = true -> body x.
  Proof.
    induction x as [|c x IH]; intros Hp; [split; reflexivity|].
    cbn [plainl forallb] in Hp. apply andb_true_iff in Hp. destruct Hp as [Hc Hx].
    destruct (IH Hx) as [F E]. unfold body. cbn [final events]. rewrite (Hplain_sq c Hc). cbn [fst snd].
    split; [exact F|]. rewrite skeleton_app, E. reflexivity.
  Qed.

  Lemma body_transparent x p : transparent step SQ x p -> body x.
  Proof.
    intros [F E]. split; [exact F|]. rewrite E. apply skeleton_data, data_map_Lit.
  Qed.

  (** two quoted literals *)
  Lemma sim_quote x y : body x -> body y -> sim (q :: x ++ [q]) (q :: y ++ [q]).
  Proof.
    intros [Fx Ex] [Fy Ey] st Hst.
    cbn [final events]. rewrite (Hopen st Hst).
    rewrite !final_app, !events_app, Fx, Fy. cbn [final events]. rewrite app_nil_r.
    split; [exact Hclose|]. split; [reflexivity|].
    rewrite !skeleton_app, Ex, Ey. reflexivity.
  Qed.

  Lemma sim_quoted_plain x : plainl x = true -> sim (q :: x ++ [q]) (q :: x ++ [q]).
  Proof. intros H. apply sim_quote; apply body_plain, H. Qed.

  (** ---- the class of trees: every string the generator writes outside a text slot is [plain] ---- *)
  Definition opt_plain (o : option bytes) : bool := match o with Some x => plainl x | None => true end.
  Definition arg_plain (a : arg) : bool :=
    opt_plain (a_short a) && opt_plain (a_long a) &&
    forallb (fun p : bytes * bool => plainl (fst p)) (a_short_aliases a) &&
    forallb (fun p : bytes * bool => plainl (fst p)) (a_aliases a).
  Fixpoint cmd_plain (c : cmd) : bool :=
    match c with
    | mkCmd n al args subs bin _ _ _ _ =>
        plainl n && forallb (fun p : bytes * bool => plainl (fst p)) al && forallb arg_plain args &&
        opt_plain bin &&
        (fix go (l : list cmd) : bool := match l with [] => true | s :: l' => cmd_plain s && go l' end) subs
    end.

  Lemma cmd_plain_unfold c :
    cmd_plain c = plainl (c_name c) && forallb (fun p : bytes * bool => plainl (fst p)) (c_aliases c) &&
                  forallb arg_plain (c_args c) && opt_plain (c_bin c) && forallb cmd_plain (c_subs c).
  Proof.
    destruct c as [n al args subs bin h v s g]. cbn [cmd_plain c_name c_aliases c_args c_bin c_subs].
    reflexivity.
  Qed.

  Lemma visible_plain l x : forallb (fun p : bytes * bool => plainl (fst p)) l = true -> In x (visible l) -> plainl x = true.
  Proof.
    intros H Hx. apply visible_in in Hx. rewrite forallb_forall in H. exact (H _ Hx).
  Qed.

  Lemma short_names_plain a names : arg_plain a = true -> get_short_and_visible_aliases a = Some names ->
    forall n, In n names -> plainl n = true.
  Proof.
    unfold arg_plain. rewrite !andb_true_iff. intros [[[Hs _] Hsa] _] Hn n Hin.
    unfold get_short_and_visible_aliases in Hn. destruct (a_short a) as [s|]; [|discriminate].
    inversion Hn; subst names; clear Hn. destruct Hin as [<-|Hin]; [exact Hs|].
    unfold get_visible_short_aliases in Hin. destruct (is_nil (a_short_aliases a)); [destruct Hin|].
    eapply visible_plain; eauto.
  Qed.

  Lemma long_names_plain a names : arg_plain a = true -> get_long_and_visible_aliases a = Some names ->
    forall n, In n names -> plainl n = true.
  Proof.
    unfold arg_plain. rewrite !andb_true_iff. intros [[[_ Hl] _] Hla] Hn n Hin.
    unfold get_long_and_visible_aliases in Hn. destruct (a_long a) as [s|]; [|discriminate].
    inversion Hn; subst names; clear Hn. destruct Hin as [<-|Hin]; [exact Hl|].
    unfold get_visible_aliases in Hin. destruct (is_nil (a_aliases a)); [destruct Hin|].
    eapply visible_plain; eauto.
  Qed.

  Lemma hd_plain (names : list bytes) : (forall n, In n names -> plainl n = true) -> plainl (hd [] names) = true.
  Proof. destruct names as [|x l]; intros H; [reflexivity|apply H; now left]. Qed.

  (** ---- the table ---- *)
  Variable F : fmt.
  Hypothesis Hsemi : plain 59 = true.
  Hypothesis Htip : forall h data, plainl data = true -> body (f_tip F h data).
  Hypothesis Hshort : forall n t1 t2, plainl n = true -> body t1 -> body t2 -> sim (f_short F n t1) (f_short F n t2).
  Hypothesis Hlong : forall n t1 t2, plainl n = true -> body t1 -> body t2 -> sim (f_long F n t1) (f_long F n t2).
  Hypothesis Hsub : forall n t1 t2, plainl n = true -> body t1 -> body t2 -> sim (f_sub F n t1) (f_sub F n t2).
  Hypothesis Hblock : forall k x y, plainl k = true -> sim x y -> sim (f_block F k x) (f_block F k y).

  Lemma sim_spell_entries mk o h1 h2 :
    (forall n t1 t2, plainl n = true -> body t1 -> body t2 -> sim (mk n t1) (mk n t2)) ->
    (forall names, o = Some names -> forall n, In n names -> plainl n = true) ->
    sim (spell_entries F mk o h1) (spell_entries F mk o h2).
  Proof.
    intros Hmk Hp. unfold spell_entries. destruct o as [names|]; [|apply sim_nil].
    pose proof (Hp names eq_refl) as Hn.
    apply sim_concat_map. intros n Hin.
    apply Hmk; [apply Hn, Hin|apply Htip, hd_plain, Hn|apply Htip, hd_plain, Hn].
  Qed.

  Lemma sim_arg_entries a h1 h2 : arg_plain a = true -> sim (arg_entries F (a, h1)) (arg_entries F (a, h2)).
  Proof.
    intros Ha. unfold arg_entries. cbn [fst snd]. apply sim_app; apply sim_spell_entries; auto.
    - intros names Hn. exact (short_names_plain a names Ha Hn).
    - intros names Hn. exact (long_names_plain a names Ha Hn).
  Qed.

  Lemma sub_names_plain sc : cmd_plain sc = true -> forall n, In n (get_name_and_visible_aliases sc) -> plainl n = true.
  Proof.
    rewrite cmd_plain_unfold, !andb_true_iff. intros [[[[Hn Hal] _] _] _] n Hin.
    destruct Hin as [<-|Hin]; [exact Hn|]. eapply visible_plain; eauto.
  Qed.

  Lemma sim_sub_entries sc t1 t2 : cmd_plain sc = true -> sim (sub_entries F (sc, t1)) (sub_entries F (sc, t2)).
  Proof.
    intros Hsc. unfold sub_entries. cbn [fst snd]. apply sim_concat_map. intros n Hin.
    pose proof (sub_names_plain sc Hsc n Hin) as Hn. apply Hsub; [exact Hn|apply Htip, Hn|apply Htip, Hn].
  Qed.

  Lemma sim_entries p t1 t2 : cmd_plain p = true -> sim (entries F p t1) (entries F p t2).
  Proof.
    rewrite cmd_plain_unfold, !andb_true_iff. intros [[[[_ _] Hargs] _] Hsubs].
    rewrite forallb_forall in Hargs, Hsubs.
    unfold entries, get_opts_t, flags_t, zargs, zsubs. apply sim_app; [|apply sim_app].
    - apply (sim_zip_filter (fun a => a_takes_values a && negb (a_is_positional a)) (arg_entries F)).
      intros a b1 b2 Ha. apply sim_arg_entries, Hargs, Ha.
    - apply (sim_zip_filter (fun a => negb (a_takes_values a) && negb (a_is_positional a)) (arg_entries F)).
      intros a b1 b2 Ha. apply sim_arg_entries, Hargs, Ha.
    - apply sim_zip. intros sc b1 b2 Hsc. apply sim_sub_entries, Hsubs, Hsc.
  Qed.

  Lemma plainl_app x y : plainl (x ++ y) = plainl x && plainl y.
  Proof. apply forallb_app. Qed.

  Lemma cnames_plain p prev : cmd_plain p = true -> plainl prev = true ->
    forall cn, In cn (cnames p prev) -> plainl cn = true.
  Proof.
    intros Hp Hprev cn Hin. unfold cnames in Hin. destruct (is_nil prev).
    - destruct Hin as [<-|[]]. rewrite cmd_plain_unfold, !andb_true_iff in Hp.
      destruct Hp as [[[_ _] Hb] _]. destruct (c_bin p); [exact Hb|reflexivity].
    - apply in_map_iff in Hin. destruct Hin as (n & <- & Hn).
      rewrite !plainl_app, Hprev, (sub_names_plain p Hp n Hn). cbn [plainl forallb]. now rewrite Hsemi.
  Qed.

  (** the whole table: any two assignments of texts *)
  Theorem sim_gi : forall p, cmd_plain p = true ->
    forall t1 t2 prev, plainl prev = true -> sim (gi F p t1 prev) (gi F p t2 prev).
  Proof.
    induction p as [n al args subs bin h v s g IH] using cmd_ind'. intros Hp t1 t2 prev Hprev.
    set (p := mkCmd n al args subs bin h v s g) in *.
    rewrite (gi_unfold F p t1 prev), (gi_unfold F p t2 prev).
    pose proof (cnames_plain p prev Hp Hprev) as Hcn.
    apply sim_app.
    - apply sim_concat_map. intros cn Hin. apply Hblock; [apply Hcn, Hin|apply sim_entries, Hp].
    - unfold zsubs. apply sim_zip. intros sc b1 b2 Hsc. cbn [fst snd].
      apply sim_concat_map. intros cn Hin.
      rewrite Forall_forall in IH. apply (IH sc Hsc); [|apply Hcn, Hin].
      rewrite cmd_plain_unfold, !andb_true_iff in Hp. destruct Hp as [_ Hsubs].
      rewrite forallb_forall in Hsubs. apply Hsubs, Hsc.
  Qed.
End Sim.
