(** Property C18, round 3: positional value candidates, the hidden rule for values, and what the
    shadow parse does after `--`.

    A  state [ValueDone]: the candidates WITHOUT id are the possible values of the positional at
       [pos_index] (or the `--flag=value` / `-fvalue` forms of [complete_option]); for a plain word (not
       starting with `-`) they are exactly declared values of that positional; every visible declared
       value extending the word (behind the delimiter prefix) is offered; a hidden one unless a visible
       candidate is.
    B  state [Pos idx cnt] (a multi-value positional is being filled): the same for the positional at
       [pos_index]; option candidates only once the minimum number of values is reached.
    C  after `--`: a step of the shadow parse never reads a token as an option - it descends on a
       subcommand name or counts a positional value; the state is never [ValueDone] again after a counted
       value.  The candidates, however, are NOT restricted to positionals: witness [escape_offers_options]. *)
From ClapModel Require Import Base.Bytes Base.Machine Base.Utf8.
From ClapModel Require Import Parse.Cmd Parse.Build Parse.Valid Complete.EngineModel Complete.EngineProofs Complete.EngineComplete.
From Coq Require Import ZArith Lia Bool List.
From RecordUpdate Require Import RecordSet.
Import RecordSetNotations. Import ListNotations.
Open Scope N_scope.

(** * A. state [ValueDone] *)
Definition pos_values (tbl : pvtable) (w : bytes) (c : cmd) (pi : N) : option (list cand) :=
  match find_pos c pi with Some p => complete_arg_value tbl w p | None => Some [] end.

Lemma value_done_inv_pos tbl w c pi l : complete_arg_value_done tbl w c pi = COk l ->
  exists posv opts, pos_values tbl w c pi = Some posv /\ complete_option tbl w c = COk opts /\
    l = finish ((if utf8_valid w then complete_subcommand w c else []) ++ posv ++ opts).
Proof.
  unfold complete_arg_value_done, pos_values. intros H.
  destruct (find_pos c pi) as [p|].
  - destruct (complete_arg_value tbl w p) as [l0|]; [|discriminate]. cbn [of_opt cbind] in H.
    destruct (complete_option tbl w c) as [| |opts| |]; try discriminate. cbn [cbind] in H. inversion H; subst.
    exists l0, opts. auto.
  - cbn [cbind] in H. destruct (complete_option tbl w c) as [| |opts| |]; try discriminate. cbn [cbind] in H.
    inversion H; subst. exists [], opts. auto.
Qed.

(** where a candidate without id comes from *)
Theorem value_done_noid_origin tbl w c pi l y :
  complete_arg tbl w c pi ValueDone = COk l -> In y l -> cd_id y = None ->
  (exists p lv, find_pos c pi = Some p /\ complete_arg_value tbl w p = Some lv /\ In y lv)
  \/ (exists opts, complete_option tbl w c = COk opts /\ In y opts).
Proof.
  cbn [complete_arg]. intros H Hy Hn.
  destruct (value_done_inv_pos _ _ _ _ _ H) as [posv [opts [Hp [Ho ->]]]].
  apply finish_incl in Hy. apply in_app_or in Hy. destruct Hy as [Hy|Hy].
  - exfalso. destruct (utf8_valid w); [|destruct Hy].
    unfold complete_subcommand in Hy. rewrite dedup_adjacent_in, sort_cands_in, filter_In in Hy.
    destruct Hy as [Hy _]. destruct (subcommands_in c y Hy) as [sc [n [_ [_ [Hi _]]]]]. congruence.
  - apply in_app_or in Hy. destruct Hy as [Hy|Hy]; [left|right; eauto].
    unfold pos_values in Hp. destruct (find_pos c pi) as [p|]; [|inversion Hp; subst; destruct Hy].
    exists p, posv. auto.
Qed.

(** a plain word (non-empty, not starting with `-`) gets no candidate from [complete_option] *)
Lemma complete_option_plain tbl b t c : b <> DASH -> complete_option tbl (b :: t) c = COk [].
Proof.
  intros Hb. unfold complete_option. cbn [is_empty].
  assert (Eb : (b =? DASH) = false) by (apply N.eqb_neq; exact Hb).
  assert (E1 : is_stdio (b :: t) = false) by (unfold is_stdio; destruct t; [exact Eb|reflexivity]).
  assert (E2 : is_escape (b :: t) = false).
  { unfold is_escape. destruct t as [|b2 [|b3 t3]]; try reflexivity. rewrite Eb. reflexivity. }
  assert (E3 : to_long (b :: t) = None).
  { unfold to_long. destruct t as [|b2 r]; [reflexivity|]. rewrite Eb. reflexivity. }
  assert (E4 : to_short (b :: t) = None) by (unfold to_short; rewrite Eb; reflexivity).
  rewrite E1, E2, E3, E4. reflexivity.
Qed.

(** SOUNDNESS, plain word: every candidate without id is a DECLARED possible value of the positional at
    [pos_index], with its declared hidden flag, behind the typed delimiter prefix, and extends the word *)
Theorem positional_values_sound tbl b t c pi l y : b <> DASH ->
  complete_arg tbl (b :: t) c pi ValueDone = COk l -> In y l -> cd_id y = None ->
  exists p, find_pos c pi = Some p /\ is_prefix (b :: t) (cd_value y) = true /\
    exists pre v pvs, possible_values tbl p = Some (Some pvs) /\ In (v, cd_hidden y) pvs /\ cd_value y = pre ++ v.
Proof.
  intros Hb H Hy Hn.
  destruct (value_done_noid_origin _ _ _ _ _ _ H Hy Hn) as [[p [lv [Hp [Hv Hin]]]]|[opts [Ho Hin]]].
  - exists p. split; [exact Hp|]. split; [eapply complete_arg_value_extends; eauto|eapply complete_arg_value_declared; eauto].
  - rewrite (complete_option_plain tbl b t c Hb) in Ho. inversion Ho; subst. destruct Hin.
Qed.

(** COMPLETENESS: every visible declared value of the positional at [pos_index] that extends the last element
    of the word is offered, with the delimiter prefix kept *)
Theorem positional_values_complete tbl w c pi l p pvs v pre v0 :
  complete_arg tbl w c pi ValueDone = COk l -> find_pos c pi = Some p ->
  possible_values tbl p = Some (Some pvs) -> In (v, false) pvs ->
  utf8_valid v0 = true -> is_prefix v0 v = true ->
  (pre = [] /\ v0 = w /\ rsplit_delimiter w (a_delim p) = None
   \/ rsplit_delimiter w (a_delim p) = Some (pre, v0)) ->
  In (mkCand (pre ++ v) None false) l.
Proof.
  cbn [complete_arg]. intros H Hp Hpv Hin Ev Hpre Hr.
  destruct (value_done_inv_pos _ _ _ _ _ H) as [posv [opts [Hpos [_ ->]]]].
  unfold pos_values in Hpos. rewrite Hp in Hpos.
  destruct (complete_arg_value_complete tbl w p pvs v false pre v0 Hpv Hin Ev Hpre Hr) as [l' [Hv' Hin']].
  rewrite Hpos in Hv'. inversion Hv'; subst l'.
  apply finish_keeps; [apply in_or_app; right; apply in_or_app; left; assumption|reflexivity|reflexivity].
Qed.

(** THE HIDDEN RULE FOR VALUES: a declared value of any visibility is offered unless a visible candidate is *)
Theorem positional_values_complete_any tbl w c pi l p pvs v h pre v0 :
  complete_arg tbl w c pi ValueDone = COk l -> find_pos c pi = Some p ->
  possible_values tbl p = Some (Some pvs) -> In (v, h) pvs ->
  utf8_valid v0 = true -> is_prefix v0 v = true ->
  (pre = [] /\ v0 = w /\ rsplit_delimiter w (a_delim p) = None
   \/ rsplit_delimiter w (a_delim p) = Some (pre, v0)) ->
  In (mkCand (pre ++ v) None h) l \/ exists y, In y l /\ cd_hidden y = false.
Proof.
  cbn [complete_arg]. intros H Hp Hpv Hin Ev Hpre Hr.
  destruct (value_done_inv_pos _ _ _ _ _ H) as [posv [opts [Hpos [_ ->]]]].
  unfold pos_values in Hpos. rewrite Hp in Hpos.
  destruct (complete_arg_value_complete tbl w p pvs v h pre v0 Hpv Hin Ev Hpre Hr) as [l' [Hv' Hin']].
  rewrite Hpos in Hv'. inversion Hv'; subst l'.
  apply finish_keeps_or; [apply in_or_app; right; apply in_or_app; left; assumption|reflexivity].
Qed.

(** * B. state [Pos idx cnt] *)
Definition pos_min (p : arg) : N := match a_num p with Some r => vmin r | None => 0 end.
Definition pos_min_reached (p : arg) (cnt : N) : bool := match a_num p with Some r => vmin r <=? cnt | None => false end.

Lemma pos_state_inv tbl w c pi idx cnt l p : complete_arg tbl w c pi (Pos idx cnt) = COk l -> find_pos c pi = Some p ->
  exists posv opts, complete_arg_value tbl w p = Some posv /\
    (if pos_min_reached p cnt then complete_option tbl w c else COk []) = COk opts /\ l = finish (posv ++ opts).
Proof.
  cbn [complete_arg]. intros H Hp. rewrite Hp in H. apply cbind_ok_inv in H. destruct H as [posv [H1 H]].
  cbv beta in H. apply cbind_ok_inv in H. destruct H as [opts [H2 H]]. cbv beta in H. inversion H; subst l; clear H.
  destruct (complete_arg_value tbl w p) as [l0|]; [|discriminate]. cbn [of_opt] in H1. inversion H1; subst l0.
  exists posv, opts. split; [reflexivity|]. split; [exact H2|reflexivity].
Qed.

(** no positional left: nothing is offered *)
Theorem pos_state_none tbl w c pi idx cnt : find_pos c pi = None -> complete_arg tbl w c pi (Pos idx cnt) = COk [].
Proof. cbn [complete_arg]. intros ->. reflexivity. Qed.

Theorem pos_state_origin tbl w c pi idx cnt l p y :
  complete_arg tbl w c pi (Pos idx cnt) = COk l -> find_pos c pi = Some p -> In y l ->
  (exists lv, complete_arg_value tbl w p = Some lv /\ In y lv) \/
  (pos_min_reached p cnt = true /\ exists opts, complete_option tbl w c = COk opts /\ In y opts).
Proof.
  intros H Hp Hy. destruct (pos_state_inv _ _ _ _ _ _ _ _ H Hp) as [posv [opts [Hv [Ho ->]]]].
  apply finish_incl in Hy. apply in_app_or in Hy. destruct Hy as [Hy|Hy]; [left; eauto|right].
  destruct (pos_min_reached p cnt); [split; [reflexivity|eauto]|]. inversion Ho; subst. destruct Hy.
Qed.

Theorem pos_state_complete tbl w c pi idx cnt l p pvs v pre v0 :
  complete_arg tbl w c pi (Pos idx cnt) = COk l -> find_pos c pi = Some p ->
  possible_values tbl p = Some (Some pvs) -> In (v, false) pvs ->
  utf8_valid v0 = true -> is_prefix v0 v = true ->
  (pre = [] /\ v0 = w /\ rsplit_delimiter w (a_delim p) = None
   \/ rsplit_delimiter w (a_delim p) = Some (pre, v0)) ->
  In (mkCand (pre ++ v) None false) l.
Proof.
  intros H Hp Hpv Hin Ev Hpre Hr. destruct (pos_state_inv _ _ _ _ _ _ _ _ H Hp) as [posv [opts [Hv [_ ->]]]].
  destruct (complete_arg_value_complete tbl w p pvs v false pre v0 Hpv Hin Ev Hpre Hr) as [l' [Hv' Hin']].
  rewrite Hv in Hv'. inversion Hv'; subst l'.
  apply finish_keeps; [apply in_or_app; left; assumption|reflexivity|reflexivity].
Qed.

(** * C. after `--` *)
Definition try_sub (cur : cmd) (st : pstate) : bool :=
  is_set s_sub_precedence cur || negb (match st with Opt _ _ | Pos _ _ => true | ValueDone => false end).

(** one step of the escaped shadow parse: descent on a subcommand name, otherwise a positional value is counted -
    no token is read as an option, [--] or anything else; the escape flag stays *)
Theorem escaped_step arg cur pi st vaf :
  shadow_step arg cur pi true st vaf =
  match (if try_sub cur st && negb (is_set s_args_negate_subs cur && vaf) && utf8_valid arg then find_subcommand cur arg else None) with
  | Some next => SNext next 1 true ValueDone false
  | None => match parse_positional cur pi true st arg with
            | Some (st', pi') => SNext cur pi' true st' true
            | None => SPanic 673
            end
  end.
Proof. reflexivity. Qed.

(** counting an escaped value never returns to [ValueDone] (from [ValueDone] or [Pos]) *)
Theorem escaped_positional_state cur pi st w st' pi' :
  (match st with Opt _ _ => False | _ => True end) ->
  parse_positional cur pi true st w = Some (st', pi') -> exists i n, st' = Pos i n.
Proof.
  intros Hst H. unfold parse_positional in H.
  destruct (negb _ && _). { inversion H; eauto. }
  destruct st as [|ppi n|o k]; [| |contradiction].
  - match type of H with Some (if ?b then _ else _) = _ => destruct b end; inversion H; eauto.
  - destruct (ppi =? pi).
    + match type of H with (if ?b then _ else _) = _ => destruct b end; inversion H; eauto.
    + match type of H with Some (if ?b then _ else _) = _ => destruct b end; inversion H; eauto.
Qed.

(** ... but the candidates after `--` are NOT restricted to positional values: right behind `--` the state is
    [ValueDone] (subcommands and options are offered), and in [Pos] options are offered once the minimum is
    reached.  `p -- <TAB>` and `p -- a <TAB>` (the real crate answers the same, see docs/notes/C18.md) *)
Module Esc.
Definition w_opt : bytes := [111; 112; 116].
Definition w_sub : bytes := [115; 117; 98].
Definition c0 : cmd :=
  (cmd_new [112])
    <| c_args := [ (arg_new w_opt) <| a_long := Some w_opt |> <| a_action := Some ASet |>; arg_new [49]; arg_new [50] ] |>
    <| c_subs := [ cmd_new w_sub ] |>.
Definition has_cand (v : bytes) (r : cres) : bool :=
  match r with COk l => existsb (fun y => beq (cd_value y) v) l | _ => false end.
End Esc.
Theorem escape_offers_options :
  Esc.has_cand (dd ++ Esc.w_opt) (complete_model [] Esc.c0 [[112]; dd; []] 2) = true /\
  Esc.has_cand Esc.w_sub (complete_model [] Esc.c0 [[112]; dd; []] 2) = true /\
  Esc.has_cand (dd ++ Esc.w_opt) (complete_model [] Esc.c0 [[112]; dd; [97]; []] 3) = true.
Proof. vm_compute. repeat split; reflexivity. Qed.

(** * Non-vacuity: `p(<color: red|rose|grey(hidden)>)`: `p r<TAB>`, `p g<TAB>` *)
Definition a_pcolor : arg := (arg_new s_color) <| a_index := Some 1 |> <| a_num := Some r_single |> <| a_action := Some ASet |>.
Definition ppv_cmd : cmd := (cmd_new [112]) <| c_args := [a_pcolor] |>.
Example ex_positional_values_hyps :
  find_pos ppv_cmd 1 = Some a_pcolor /\
  possible_values pv_tbl a_pcolor = Some (Some [(s_red, false); (s_rose, false); (s_grey, true)]) /\
  complete_arg pv_tbl [114] ppv_cmd 1 ValueDone = COk [mkCand s_red None false; mkCand s_rose None false] /\
  complete_arg pv_tbl [103] ppv_cmd 1 ValueDone = COk [mkCand s_grey None true] /\
  rsplit_delimiter [114] (a_delim a_pcolor) = None.
Proof. vm_compute. repeat split; reflexivity. Qed.
