(** C16 / C17: clap_complete/src/aot/shells/zsh.rs, all of it, over the built tree of [AotTree.v].

    One Gallina function per Rust function: [generate], [subcommand_details], [subcommands_of],
    [get_subcommands_of], [parser_of], [get_args_of], [value_completion], [write_opts_of],
    [arg_conflicts], [write_flags_of], [write_positionals_of] (a [z] prefix where another generator
    model already uses the name: [zsubcommand_details], [zvalue_completion], [zhint_completion],
    [zflag_line], [zcase_block], [znl]); the escape functions are the chains
    of [Escape/EscapeModel.v] (regenerated from the source on every run).  Every [expect] is a
    visible [None]:
      - the bin name of the root / of a parent ([crate::generate should have set the bin_name]),
      - [utils::subcommands]' [get_bin_name().unwrap()],
      - [parser_of(..).expect(INTERNAL_ERROR_MSG)]: the lookup BY BIN NAME is modelled as the code
        does it, a depth-first search that can fail.
    [get_subcommands_of] recurses into what [parser_of] returns, which is not structural: the
    recursion carries fuel (the depth of the command); exhausted fuel is [None] too (in Rust: the
    lookup returned the parent itself and the recursion does not end).

    The descriptive texts live in the decoration [cdesc] of [FishModel.v] (parallel to the tree;
    [dbuild] = what [Command::build] does to them).  The script is a list of PIECES: [Zx b] is
    text the generator writes itself, [Zh t] a text written through [escape_help] (help of an
    option or flag inside [...], about of a subcommand in a [_describe] item, tooltip of a
    possible value inside "..."), [Zp t] the help of a positional written through the in-line
    replace chain of [write_positionals_of] after " -- " was prefixed.

    Round 4: [AotTree.arg] carries [value_names], [value_terminator], [last], the blacklist ([conflicts_with*]) and the
    groups an argument names ([Arg::group(s)]; [_build_self] makes the [ArgGroup]s from them), so the former parameter
    [bl] is gone: [vn] of an option spec, [arg_is_last] / [arg_terminator] of [write_positionals_of], and
    [Command::get_arg_conflicts_with] -- blacklist entries that name a GROUP expand to its members; an entry that cannot be
    resolved is the [panic!] of the Rust code, a visible [None] ([arg_conflicts_opt]; [get_args_of] returns
    [None] when any option or flag of the command has such an entry).  The global branch follows the REPAIRED code (finding
    zsh-global-conflicts-group: it used to consult arguments only and [expect]): it falls back to the groups of the command and of the subcommands
    that contain the argument.  Outside the model: explicit [ArgGroup] declarations
    ([Command::group]: nested groups, member order other than argument order) -- no spec format expresses them. *)
From ClapModel Require Import Base.Bytes Complete.AotTree Complete.BashModel Complete.FishModel Escape.EscapeModel.
From Coq Require Import String.
Open Scope N_scope.
Open Scope list_scope.

(** ---- pieces ---- *)
Inductive zpiece := Zx (b : bytes) | Zh (t : bytes) | Zp (t : bytes).
Definition zrender1 (p : zpiece) : bytes :=
  match p with
  | Zx b => b
  | Zh t => zsh_escape_help t
  | Zp t => zsh_positional_help (lit " -- " ++ t)      (* .map(|v| " -- ".to_owned() + &v) ... .replace(..) *)
  end.
Definition zrender (l : list zpiece) : bytes := flat_map zrender1 l.

(** [Vec<String>::join(sep)] *)
Fixpoint zjoin (sep : list zpiece) (l : list (list zpiece)) : list zpiece :=
  match l with
  | [] => []
  | x :: t => match t with [] => x | _ :: _ => x ++ sep ++ zjoin sep t end
  end.
Definition znl : list zpiece := [Zx lf].
Definition text_or_default (o : option bytes) : bytes := match o with Some t => t | None => [] end.

(** ---- parser_of ---- *)
(** [bin_name == parent.get_bin_name().unwrap_or_default()], then the subcommands in order *)
Fixpoint parser_of (c : cmd) (bin_name : bytes) {struct c} : option cmd :=
  match c with
  | mkCmd _ _ _ subs bin _ _ _ _ =>
      if beq bin_name (match bin with Some b => b | None => [] end) then Some c
      else (fix go (l : list cmd) : option cmd :=
              match l with
              | [] => None
              | s :: t => match parser_of s bin_name with Some r => Some r | None => go t end
              end) subs
  end.

(** the decoration of the command [parser_of] returns: the same search on the pair *)
Fixpoint parser_of_d (c : cmd) (d : cdesc) (bin_name : bytes) {struct c} : option (cmd * cdesc) :=
  match c with
  | mkCmd _ _ _ subs bin _ _ _ _ =>
      if beq bin_name (match bin with Some b => b | None => [] end) then Some (c, d)
      else (fix go (l : list cmd) (dl : list cdesc) {struct l} : option (cmd * cdesc) :=
              match l with
              | [] => None
              | s :: t => match parser_of_d s (hd cd0 dl) bin_name with Some r => Some r | None => go t (tl dl) end
              end) subs (cd_subs d)
  end.

(** ---- zvalue_completion ---- *)
Definition pv_shown (q : pval * option bytes) : bool := negb (pv_hide (fst q)).
(** [r#"{name}\:"{tooltip}""#] *)
Definition tip_entry (q : pval * option bytes) : list zpiece :=
  [Zx (zsh_escape_value (pv_name (fst q)) ++ lit "\:"""); Zh (text_or_default (snd q)); Zx (lit """")].
Definition zhint_completion (h : hint) : option bytes :=
  match h with
  | HUnknown => Some (lit "_default")
  | HOther => Some []
  | HAnyPath => Some (lit "_files")
  | HFilePath => Some (lit "_files")
  | HDirPath => Some (lit "_files -/")
  | HExecutablePath => Some (lit "_absolute_command_paths")
  | HCommandName => Some (lit "_command_names -e")
  | HCommandString => Some (lit "_cmdstring")
  | HCommandWithArguments => Some (lit "_cmdambivalent")
  | HUsername => Some (lit "_users")
  | HHostname => Some (lit "_hosts")
  | HUrl => Some (lit "_urls")
  | HEmailAddress => Some (lit "_email_addresses")
  end.
Definition zvalue_completion (p : arg * adesc) : option (list zpiece) :=
  match possible_values (fst p) with
  | Some values =>
      let vs := zipd None values (ad_pvh (snd p)) in
      if existsb (fun q : pval * option bytes => pv_shown q && is_some (snd q)) vs
      then Some ([Zx (lit "((")] ++ zjoin znl (map tip_entry (filter pv_shown vs)) ++ [Zx (lit "))")])
      else Some [Zx (lit "(" ++ intercalate (lit " ") (map pv_name (filter (fun pv => negb (pv_hide pv)) values))
                     ++ lit ")")]
  | None => match zhint_completion (a_get_hint (fst p)) with
            | Some s => Some [Zx s]
            | None => None
            end
  end.

(** ---- arg_conflicts ---- *)
(** [Command::get_subcommands_containing] *)
Fixpoint subcommands_containing (c : cmd) (id : bytes) {struct c} : list cmd :=
  match c with
  | mkCmd _ _ _ subs _ _ _ _ _ =>
      flat_map (fun s => if existsb (fun a => beq (a_id a) id) (c_args s) then s :: subcommands_containing s id else []) subs
  end.
(** [Command::find_group] on the groups [_build_self] makes from [Arg::group(s)]: the group exists iff an argument names it *)
Definition in_group (g : bytes) (a : arg) : bool := existsb (beq g) (a_groups a).
Definition find_group (x : cmd) (id : bytes) : bool := existsb (in_group id) (c_args x).
(** [ArgGroup::args] of that group: [_build_self] walks the arguments in order and pushes the argument's id once per
    mention of the group in [a.groups] *)
Definition group_members (x : cmd) (g : bytes) : list bytes :=
  flat_map (fun a => map (fun _ : bytes => a_id a) (filter (beq g) (a_groups a))) (c_args x).
(** [Command::unroll_args_in_group]: [if !args.contains(n) { if self.find(n).is_some() { args.push(n) } else { g_vec.push(n) } }];
    a member that is no argument is a nested group, looked up with [expect(INTERNAL_ERROR_MSG)]: with groups made from
    [Arg::group] every member is an argument of [x] ([unroll_total] in ZshProofs.v), the branch is kept visible *)
Definition unroll_args_in_group (x : cmd) (g : bytes) : option (list bytes) :=
  fold_left (fun acc n =>
               match acc with
               | None => None
               | Some l => if existsb (beq n) l then Some l
                           else if is_some (find_arg x n) then Some (l ++ [n])
                           else None
               end) (group_members x g) (Some []).
(** one blacklist entry of a non-global argument: the argument of that id, else the members of the group of that id
    ([self.find(id).expect(INTERNAL_ERROR_MSG)] each), else
    [panic!("Command::get_arg_conflicts_with: The passed arg conflicts with an arg unknown to the cmd")] *)
Definition conflict_targets (x : cmd) (id : bytes) : option (list arg) :=
  match find_arg x id with
  | Some y => Some [y]
  | None =>
      if find_group x id then
        match unroll_args_in_group x id with
        | Some ids => map_opt (find_arg x) ids
        | None => None
        end
      else None
  end.
(** [Command::get_global_arg_conflicts_with] (after the repair of finding zsh-global-conflicts-group): every entry is
    looked up among the ARGUMENTS of the command and of the subcommands that contain the argument; if there is none, the
    first of these commands -- [once(self).chain(get_subcommands_containing(arg))] -- that has a GROUP of that id expands
    it to its members ([cmd.find(id).expect(INTERNAL_ERROR_MSG)] each), as the non-global branch does for the command; else
    [panic!("Command::get_arg_conflicts_with: The passed arg conflicts with an arg unknown to the cmd")] *)
Definition group_targets (x : cmd) (id : bytes) : option (list arg) :=
  match unroll_args_in_group x id with
  | Some ids => map_opt (find_arg x) ids
  | None => None
  end.
Definition global_conflict_targets (x : cmd) (a : arg) (id : bytes) : option (list arg) :=
  match find (fun y => beq (a_id y) id) (c_args x ++ flat_map c_args (subcommands_containing x (a_id a))) with
  | Some y => Some [y]
  | None =>
      match find (fun c => find_group c id) (x :: subcommands_containing x (a_id a)) with
      | Some c => group_targets c id
      | None => None
      end
  end.
Definition get_global_arg_conflicts_with (x : cmd) (a : arg) : option (list arg) :=
  match map_opt (global_conflict_targets x a) (a_blacklist a) with
  | Some ls => Some (List.concat ls)
  | None => None
  end.
(** [Command::get_arg_conflicts_with]; [None] = the Rust code panics *)
Definition get_arg_conflicts_with (x : cmd) (a : arg) : option (list arg) :=
  if a_global a then get_global_arg_conflicts_with x a
  else match map_opt (conflict_targets x) (a_blacklist a) with
       | Some ls => Some (List.concat ls)
       | None => None
       end.
Definition push_conflicts (conflicts : list arg) : list bytes :=
  flat_map (fun x => (match a_short x with Some s => [lit "-" ++ s] | None => [] end)
                     ++ (match a_long x with Some l => [lit "--" ++ l] | None => [] end)) conflicts.
(** [c] is the command being written; it owns [a] *)
Definition arg_conflicts_opt (c : cmd) (a : arg) (app_global : option cmd) : option bytes :=
  match (match app_global, a_global a with
         | Some x, true => get_arg_conflicts_with x a
         | _, _ => get_arg_conflicts_with c a
         end) with
  | None => None
  | Some conflicts =>
      Some (if is_nil conflicts then [] else lit "(" ++ intercalate (lit " ") (push_conflicts conflicts) ++ lit ")")
  end.
(** the string [arg_conflicts] returns when it returns; the panic is hoisted into [get_args_of] ([conflicts_resolve]):
    [write_opts_of] and [write_flags_of] call [arg_conflicts] for exactly the non-positional arguments of the command *)
Definition arg_conflicts (c : cmd) (a : arg) (app_global : option cmd) : bytes :=
  match arg_conflicts_opt c a app_global with Some b => b | None => [] end.
Definition conflicts_resolve (c : cmd) (app_global : option cmd) : bool :=
  forallb (fun a => is_some (arg_conflicts_opt c a app_global)) (filter (fun a => negb (a_is_positional a)) (c_args c)).

Definition multiple_of (a : arg) : bytes :=
  match a_action a with ACount | AAppend => lit "*" | _ => [] end.

(** ---- write_opts_of ---- *)
(** [Command::get_opts] / [utils::flags] on the decorated arguments: [FishModel.is_opt], [FishModel.is_flag] *)

(** [vn]: [" "] without value names, else the first one, written as it is *)
Definition value_name (a : arg) : bytes := match a_value_names a with [] => lit " " | v :: _ => v end.
(** [vc.repeat(o.get_num_args().expect("built").min_values())] *)
Definition opt_vc (p : arg * adesc) : list zpiece :=
  let vn := value_name (fst p) in
  let vc := match zvalue_completion p with
            | Some val => Zx (lit ":" ++ vn ++ lit ":") :: val
            | None => [Zx (lit ":" ++ vn ++ lit ": ")]
            end in
  List.concat (repeat vc (N.to_nat (a_min_values (fst p)))).

Definition opt_short_line (c : cmd) (g : option cmd) (p : arg * adesc) (short : bytes) : list zpiece :=
  [Zx (lit "'" ++ arg_conflicts c (fst p) g ++ multiple_of (fst p) ++ lit "-" ++ short ++ lit "+[");
   Zh (text_or_default (ad_help (snd p))); Zx (lit "]")] ++ opt_vc p ++ [Zx (lit "' \")].
Definition opt_long_line (c : cmd) (g : option cmd) (p : arg * adesc) (long : bytes) : list zpiece :=
  [Zx (lit "'" ++ arg_conflicts c (fst p) g ++ multiple_of (fst p) ++ lit "--" ++ long ++ lit "=[");
   Zh (text_or_default (ad_help (snd p))); Zx (lit "]")] ++ opt_vc p ++ [Zx (lit "' \")].
Definition opt_lines (c : cmd) (g : option cmd) (p : arg * adesc) : list (list zpiece) :=
  (match get_short_and_visible_aliases (fst p) with
   | Some shorts => map (opt_short_line c g p) shorts
   | None => [] end)
  ++ (match get_long_and_visible_aliases (fst p) with
      | Some longs => map (opt_long_line c g p) longs
      | None => [] end).
Definition write_opts_of (c : cmd) (d : cdesc) (g : option cmd) : list zpiece :=
  zjoin znl (flat_map (opt_lines c g) (filter is_opt (zipd ad0 (c_args c) (cd_args d)))).

(** ---- write_flags_of ---- *)
Definition zflag_line (c : cmd) (g : option cmd) (p : arg * adesc) (dashes name : bytes) : list zpiece :=
  [Zx (lit "'" ++ arg_conflicts c (fst p) g ++ multiple_of (fst p) ++ dashes ++ name ++ lit "[");
   Zh (text_or_default (ad_help (snd p))); Zx (lit "]' \")].
Definition flag_lines (c : cmd) (g : option cmd) (p : arg * adesc) : list (list zpiece) :=
  (match a_short (fst p) with
   | Some short =>
       zflag_line c g p (lit "-") short
       :: (match get_visible_short_aliases (fst p) with
           | Some al => map (zflag_line c g p (lit "-")) al
           | None => [] end)
   | None => [] end)
  ++ (match a_long (fst p) with
      | Some long =>
          zflag_line c g p (lit "--") long
          :: (match get_visible_aliases (fst p) with
              | Some al => map (zflag_line c g p (lit "--")) al
              | None => [] end)
      | None => [] end).
Definition write_flags_of (c : cmd) (d : cdesc) (g : option cmd) : list zpiece :=
  zjoin znl (flat_map (flag_lines c g) (filter is_flag (zipd ad0 (c_args c) (cd_args d)))).

(** ---- write_positionals_of ---- *)
(** [Arg::is_last_set] / [get_value_terminator] *)
Definition arg_is_last (a : arg) : bool := a_last a.
Definition arg_terminator (a : arg) : option bytes := a_terminator a.

Definition positional_line (cardinality : bytes) (p : arg * adesc) : list zpiece :=
  [Zx (lit "'" ++ cardinality ++ lit ":" ++ a_id (fst p))]
  ++ (match ad_help (snd p) with Some t => [Zp t] | None => [] end)
  ++ [Zx (lit ":")]
  ++ (match zvalue_completion p with Some v => v | None => [] end)      (* unwrap_or_default *)
  ++ [Zx (lit "' \")].

(** the loop, [catch_all_emitted] threaded through *)
Fixpoint positional_lines (has_subs : bool) (catch_all_emitted : bool) (l : list (arg * adesc))
  : list (list zpiece) :=
  match l with
  | [] => []
  | p :: t =>
      let is_multi_valued := 1 <? a_max_values (fst p) in
      if catch_all_emitted && (arg_is_last (fst p) || is_multi_valued) then positional_lines has_subs catch_all_emitted t
      else
        if is_multi_valued && negb has_subs then
          match arg_terminator (fst p) with
          | Some terminator =>
              positional_line (lit "*" ++ zsh_escape_value terminator ++ lit ":") p
              :: positional_lines has_subs catch_all_emitted t
          | None => positional_line (lit "*:") p :: positional_lines has_subs true t
          end
        else if negb (a_required (fst p)) then positional_line (lit ":") p :: positional_lines has_subs catch_all_emitted t
        else positional_line [] p :: positional_lines has_subs catch_all_emitted t
  end.
Definition is_pos (p : arg * adesc) : bool := a_is_positional (fst p).
Definition write_positionals_of (c : cmd) (d : cdesc) : list zpiece :=
  zjoin znl (positional_lines (has_subcommands c) false (filter is_pos (zipd ad0 (c_args c) (cd_args d)))).

(** ---- get_args_of ---- *)
Definition args_header : list zpiece := [Zx (lit "_arguments ""${_arguments_options[@]}"" : \")].
(** what [get_args_of] returns when no [arg_conflicts] call panics *)
Definition args_body (c : cmd) (d : cdesc) (p_global : option cmd) : option (list zpiece) :=
  let opts := write_opts_of c d p_global in
  let flags := write_flags_of c d p_global in
  let positionals := write_positionals_of c d in
  let segments := [args_header]
                  ++ (if negb (is_nil opts) then [opts] else [])
                  ++ (if negb (is_nil flags) then [flags] else [])
                  ++ (if negb (is_nil positionals) then [positionals] else []) in
  if has_subcommands c then
    match c_bin c with
    | None => None              (* expect("crate::generate should have set the bin_name") *)
    | Some parent_bin_name =>
        Some (zjoin znl (segments
                        ++ [[Zx (lit """:: :_" ++ space_to_dd parent_bin_name ++ lit "_commands"" \")];
                            [Zx (lit """*::: :->" ++ c_name c ++ lit """ \")];
                            [Zx (lit "&& ret=0")]]))
    end
  else Some (zjoin znl (segments ++ [[Zx (lit "&& ret=0")]])).
Definition get_args_of (c : cmd) (d : cdesc) (p_global : option cmd) : option (list zpiece) :=
  if negb (conflicts_resolve c p_global) then None   (* the [panic!] / [expect] of [get_arg_conflicts_with] in [arg_conflicts] *)
  else args_body c d p_global.

(** ---- get_subcommands_of ---- *)
Definition space_to_hyphen : bytes -> bytes := replace_byte 32 [45].
Definition zcase_block (name name_hyphen pos : bytes) (subcommands : list zpiece) : list zpiece :=
  [Zx (lf ++ lit "    case $state in" ++ lf ++
       lit "    (" ++ name ++ lit ")" ++ lf ++
       lit "        words=($line[" ++ pos ++ lit "] ""${words[@]}"")" ++ lf ++
       lit "        (( CURRENT += 1 ))" ++ lf ++
       lit "        curcontext=""${curcontext%:*:*}:" ++ name_hyphen ++ lit "-command-$line[" ++ pos ++ lit "]:""" ++ lf ++
       lit "        case $line[" ++ pos ++ lit "] in" ++ lf ++
       lit "            ")]
  ++ subcommands
  ++ [Zx (lf ++ lit "        esac" ++ lf ++ lit "    ;;" ++ lf ++ lit "esac")].

Fixpoint get_subcommands_of (fuel : nat) (parent : cmd) (d : cdesc) : option (list zpiece) :=
  if negb (has_subcommands parent) then Some []
  else
    match fuel with
    | O => None                                   (* the lookup returned the parent itself: no end in Rust *)
    | S f =>
        match subcommands parent with
        | None => None                            (* sc.get_bin_name().unwrap() *)
        | Some subcommand_names =>
            match map_opt (fun nb : bytes * bytes =>
                     match parser_of_d parent d (snd nb) with
                     | None => None               (* parser_of(parent, bin_name).expect(INTERNAL_ERROR_MSG) *)
                     | Some (m, md) =>
                         match get_args_of m md (Some parent), get_subcommands_of f m md with
                         | Some subcommand_args, Some children =>
                             Some (zjoin znl ([[Zx (lit "(" ++ fst nb ++ lit ")")]]
                                             ++ (if negb (is_nil subcommand_args) then [subcommand_args] else [])
                                             ++ (if negb (is_nil children) then [children] else [])
                                             ++ [[Zx (lit ";;")]]))
                         | _, _ => None
                         end
                     end) subcommand_names with
            | None => None
            | Some all_subcommands =>
                match c_bin parent with
                | None => None                    (* expect("crate::generate should have set the bin_name") *)
                | Some parent_bin_name =>
                    Some (zcase_block (c_name parent) (space_to_hyphen parent_bin_name)
                                     (dec (N.of_nat (List.length (get_positionals parent)) + 1))
                                     (zjoin znl all_subcommands))
                end
            end
        end
    end.

(** ---- subcommands_of / zsubcommand_details ---- *)
(** the inner [add_subcommands]: ['{name}:{help}' \] *)
Definition describe_entry (about : option bytes) (name : bytes) : list zpiece :=
  [Zx (lit "'" ++ name ++ lit ":"); Zh (text_or_default about); Zx (lit "' \")].
Definition subcommands_of (p : cmd) (d : cdesc) : list zpiece :=
  let segments := flat_map (fun q : cmd * cdesc =>
                              map (describe_entry (cd_about (snd q))) (get_name_and_visible_aliases (fst q)))
                           (zipd cd0 (c_subs p) (cd_subs d)) in
  if negb (is_nil segments) then zjoin znl ([[]] ++ segments ++ [[Zx (lit "    ")]]) else zjoin znl segments.

Definition commands_function (bin_name : bytes) (subcommands_and_args : list zpiece) : list zpiece :=
  [Zx (lit "(( $+functions[_" ++ space_to_dd bin_name ++ lit "_commands] )) ||" ++ lf ++
       lit "_" ++ space_to_dd bin_name ++ lit "_commands() {" ++ lf ++
       lit "    local commands; commands=(")]
  ++ subcommands_and_args
  ++ [Zx (lit ")" ++ lf ++
          lit "    _describe -t commands '" ++ bin_name ++ lit " commands' commands ""$@""" ++ lf ++
          lit "}")].

Definition zsubcommand_details (p : cmd) (d : cdesc) : option (list zpiece) :=
  match c_bin p with
  | None => None                                  (* expect("crate::generate should have set the bin_name") *)
  | Some bin_name =>
      let parent_text := commands_function bin_name (subcommands_of p d) in
      match all_subcommands p with
      | None => None                              (* utils::all_subcommands: get_bin_name().unwrap() *)
      | Some l =>
          let all_subcommand_bins := dedup (sort bytes_cmp (map snd l)) in
          match map_opt (fun bin_name =>
                   match parser_of_d p d bin_name with
                   | None => None                 (* parser_of(p, bin_name).expect(INTERNAL_ERROR_MSG) *)
                   | Some (m, md) => Some (commands_function bin_name (subcommands_of m md))
                   end) all_subcommand_bins with
          | None => None
          | Some rest => Some (zjoin znl (parent_text :: rest))
          end
      end
  end.

(** ---- Zsh::generate ---- *)
Definition zsh_pieces (c : cmd) (d : cdesc) : option (list zpiece) :=
  match c_bin c with
  | None => None                                  (* expect("crate::generate should have set the bin_name") *)
  | Some name =>
      match get_args_of c d None, get_subcommands_of (depth c) c d, zsubcommand_details c d with
      | Some initial_args, Some subcommands, Some details =>
          Some ([Zx (lit "#compdef " ++ name ++ lf ++ lf ++
                     lit "autoload -U is-at-least" ++ lf ++ lf ++
                     lit "_" ++ name ++ lit "() {" ++ lf ++
                     lit "    typeset -A opt_args" ++ lf ++
                     lit "    typeset -a _arguments_options" ++ lf ++
                     lit "    local ret=1" ++ lf ++ lf ++
                     lit "    if is-at-least 5.2; then" ++ lf ++
                     lit "        _arguments_options=(-s -S -C)" ++ lf ++
                     lit "    else" ++ lf ++
                     lit "        _arguments_options=(-s -C)" ++ lf ++
                     lit "    fi" ++ lf ++ lf ++
                     lit "    local context curcontext=""$curcontext"" state line" ++ lf ++
                     lit "    ")]
                ++ initial_args ++ subcommands
                ++ [Zx (lf ++ lit "}" ++ lf ++ lf)]
                ++ details
                ++ [Zx (lf ++ lf ++
                        lit "if [ ""$funcstack[1]"" = ""_" ++ name ++ lit """ ]; then" ++ lf ++
                        lit "    _" ++ name ++ lit " ""$@""" ++ lf ++
                        lit "else" ++ lf ++
                        lit "    compdef _" ++ name ++ lit " " ++ name ++ lf ++
                        lit "fi" ++ lf)])
      | _, _, _ => None
      end
  end.
Definition zsh_script (c : cmd) (d : cdesc) : option bytes :=
  match zsh_pieces c d with Some ps => Some (zrender ps) | None => None end.

(** [clap_complete::aot::generate(Zsh, cmd, bin_name, buf)]: [set_bin_name], [build], the generator *)
Definition generate_zsh (c : cmd) (d : cdesc) (bin : bytes) : option bytes :=
  match build (set_bin_name c bin) with
  | Some b => zsh_script b (dbuild (set_bin_name c bin) d)
  | None => None
  end.
