(** C16/C17: facts about [Command::build] (AotTree.build) and its text side (TextTree.tbuild) that the
    PowerShell / elvish theorems need to speak about [clap_complete::aot::generate] as a whole:
    [build] never runs out of fuel (fuel = depth + 2; depth + 1 suffices); the root keeps the bin name
    [set_bin_name] gave it; [tbuild] succeeds whenever [build] does; [build]
    keeps a tree inside the class [cmd_plain plain] (every name consists of [plain] characters) when the
    generated names ("help", "version", "h", "V") and the space are [plain]. *)
From ClapModel Require Import Base.Bytes Complete.AotTree Complete.TextTree Complete.BashModel Complete.AotProofs
  Complete.BashProofs Escape.EscapeModel Escape.ShellLex Complete.PathTable Complete.PathTableLex.
From Coq Require Import String.
Open Scope N_scope.
Open Scope list_scope.

(** ---- [build] keeps the bin name [set_bin_name] gave to the root ---- *)
Lemma bin_with_sets c s g : c_bin (with_sets c s g) = c_bin c. Proof. destruct c; reflexivity. Qed.
Lemma bin_with_subs c l : c_bin (with_subs c l) = c_bin c. Proof. destruct c; reflexivity. Qed.
Lemma bin_with_args c l : c_bin (with_args c l) = c_bin c. Proof. destruct c; reflexivity. Qed.

Lemma bin_build_self c : c_bin (build_self c) = c_bin c.
Proof.
  unfold build_self, bs_globals, bs_help_version, bs_propagate, bs_settings.
  repeat (rewrite ?bin_with_subs, ?bin_with_args, ?bin_with_sets;
          match goal with |- context [if ?b then _ else _] => destruct b | _ => idtac end).
  all: rewrite ?bin_with_subs, ?bin_with_args, ?bin_with_sets; reflexivity.
Qed.

Lemma build_root_bin c bin b : build (set_bin_name c bin) = Some b -> c_bin b = Some bin.
Proof.
  unfold build. destruct (build_recursive _ _) as [c'|] eqn:E; [|discriminate].
  intros H. inversion H; subst b. unfold build_bin_names. rewrite assign_bins_bin.
  destruct (build_fuel (set_bin_name c bin)) as [|f]; [discriminate|]. cbn [build_recursive] in E.
  destruct (map_opt _ _) as [subs|]; [|discriminate]. inversion E; subst c'.
  rewrite bin_with_subs, bin_build_self. destruct c; reflexivity.
Qed.

(** ---- [tbuild] succeeds whenever [build] does (same fuel, same recursion) ---- *)
Lemma map_opt_some_in {A B} (f : A -> option B) l r a : map_opt f l = Some r -> In a l -> f a <> None.
Proof.
  revert r. induction l as [|x l IH]; intros r H Hin; [destruct Hin|].
  rewrite map_opt_cons in H. destruct (f x) as [b|] eqn:E; [|discriminate].
  destruct (map_opt f l) as [r'|] eqn:E'; [|discriminate].
  destruct Hin as [<-|Hin]; [congruence|exact (IH r' eq_refl Hin)].
Qed.

Lemma tbuild_recursive_total : forall fuel c b t,
  build_recursive fuel c = Some b -> exists tb, tbuild_recursive fuel c t = Some tb.
Proof.
  induction fuel as [|f IH]; intros c b t H; [discriminate|].
  cbn [build_recursive] in H. cbn [tbuild_recursive].
  destruct (map_opt (build_recursive f) (c_subs (build_self c))) as [subs|] eqn:E; [|discriminate].
  destruct (map_opt_total (fun p : cmd * ttree => tbuild_recursive f (fst p) (snd p))
              (zsubs (build_self c) (build_self_t c t))) as [r Hr].
  - intros x Hx. pose proof (zip_pad_in_fst _ _ _ _ Hx) as Hin.
    pose proof (map_opt_some_in _ _ _ _ E Hin) as Hs.
    destruct (build_recursive f (fst x)) as [bx|] eqn:Ex; [|congruence].
    destruct (IH (fst x) bx (snd x) Ex) as [tb Htb]. rewrite Htb. discriminate.
  - rewrite Hr. eexists. reflexivity.
Qed.

Theorem tbuild_total c b t : build c = Some b -> exists tb, tbuild c t = Some tb.
Proof.
  unfold build, tbuild. destruct (build_recursive (build_fuel c) c) as [c'|] eqn:E; [|discriminate].
  intros _. exact (tbuild_recursive_total _ c c' t E).
Qed.

(** ---- [Command::build] keeps a tree in the class [cmd_plain] ---- *)
Section BuildPlain.
  Variable plain : N -> bool.
  Hypothesis Hspace : plain 32 = true.
  Hypothesis Hhelp : plainl plain (lit "help") = true.
  Hypothesis Hhelp_arg : arg_plain plain help_arg = true.
  Hypothesis Hversion_arg : arg_plain plain version_arg = true.

  Notation cp := (cmd_plain plain).
  Notation alias_ok := (fun p : bytes * bool => plainl plain (fst p)).

  Lemma cp_iff c :
    cp c = true <->
    plainl plain (c_name c) = true /\ forallb alias_ok (c_aliases c) = true /\
    forallb (arg_plain plain) (c_args c) = true /\ opt_plain plain (c_bin c) = true /\
    (forall sc, In sc (c_subs c) -> cp sc = true).
  Proof.
    rewrite cmd_plain_unfold, !andb_true_iff. split.
    - intros ((((A & B) & C) & D) & E). repeat split; auto. intros sc Hsc.
      rewrite forallb_forall in E. exact (E sc Hsc).
    - intros (A & B & C & D & E). repeat split; auto. apply forallb_forall. exact E.
  Qed.

  Lemma cp_mk n al args subs bin h v s g h' v' s' g' :
    cp (mkCmd n al args subs bin h v s g) = true -> cp (mkCmd n al args subs bin h' v' s' g') = true.
  Proof. rewrite !cp_iff. cbn. tauto. Qed.

  Lemma cp_with_sets c s g : cp c = true -> cp (with_sets c s g) = true.
  Proof. destruct c. apply cp_mk. Qed.
  Lemma cp_with_version c v : cp c = true -> cp (with_version c v) = true.
  Proof. destruct c. apply cp_mk. Qed.
  Lemma cp_with_subs c l : cp c = true -> (forall sc, In sc l -> cp sc = true) -> cp (with_subs c l) = true.
  Proof. rewrite !cp_iff. cbn. intros (A & B & C & D & _) H. auto. Qed.
  Lemma cp_with_args c l : cp c = true -> forallb (arg_plain plain) l = true -> cp (with_args c l) = true.
  Proof. rewrite !cp_iff. cbn. intros (A & B & _ & D & E) H. auto. Qed.
  Lemma cp_args c : cp c = true -> forallb (arg_plain plain) (c_args c) = true.
  Proof. rewrite cp_iff. tauto. Qed.
  Lemma cp_subs c sc : cp c = true -> In sc (c_subs c) -> cp sc = true.
  Proof. rewrite cp_iff. intros (_ & _ & _ & _ & H). apply H. Qed.

  Lemma cp_add_arg c a : cp c = true -> arg_plain plain a = true -> cp (with_args c (c_args c ++ [a])) = true.
  Proof.
    intros Hc Ha. apply cp_with_args; [exact Hc|]. rewrite forallb_app, (cp_args c Hc). cbn. now rewrite Ha.
  Qed.

  Lemma cp_propagate_subcommand p sc : cp sc = true -> cp (propagate_subcommand p sc) = true.
  Proof.
    intros H. unfold propagate_subcommand. apply cp_with_sets.
    destruct (s_pver (c_set p) && c_version p); [apply cp_with_version|]; exact H.
  Qed.

  Lemma cp_copy : forall c, cp c = true -> cp (copy_subtree_for_help c) = true.
  Proof.
    induction c as [n al args subs bin h v s g IH] using cmd_ind'. intros H.
    rewrite cp_iff in H. cbn in H. destruct H as (Hn & _ & _ & _ & Hs).
    cbn [copy_subtree_for_help]. rewrite cp_iff. cbn. repeat split; auto.
    intros sc Hsc. apply in_map_iff in Hsc. destruct Hsc as (x & <- & Hx).
    rewrite Forall_forall in IH. apply IH; auto.
  Qed.

  Lemma cp_help_subcommand p : cp p = true -> cp (help_subcommand p) = true.
  Proof.
    intros Hp. unfold help_subcommand. apply cp_with_sets, cp_with_version, cp_propagate_subcommand.
    rewrite cp_iff. cbn. repeat split; auto.
    intros sc Hsc. apply in_app_iff in Hsc. destruct Hsc as [Hsc|[<-|[]]].
    - apply in_map_iff in Hsc. destruct Hsc as (x & <- & Hx). apply cp_copy, (cp_subs p x Hp Hx).
    - apply cp_with_sets. rewrite cp_iff. cbn. repeat split; auto; try (intros ? []).
  Qed.

  Lemma cp_bs_settings c : cp c = true -> cp (bs_settings c) = true.
  Proof. intros H. unfold bs_settings. apply cp_with_sets, H. Qed.

  Lemma cp_bs_propagate c : cp c = true -> cp (bs_propagate c) = true.
  Proof.
    intros H. unfold bs_propagate. apply cp_with_subs; [exact H|].
    intros sc Hsc. apply in_map_iff in Hsc. destruct Hsc as (x & <- & Hx).
    apply cp_propagate_subcommand, (cp_subs c x H Hx).
  Qed.

  Lemma cp_bs_help_version c : cp c = true -> cp (bs_help_version c) = true.
  Proof.
    intros H. unfold bs_help_version.
    set (c1 := if negb (is_set s_dhf c) then with_args c (c_args c ++ [help_arg]) else c).
    assert (H1 : cp c1 = true) by (unfold c1; destruct (negb (is_set s_dhf c)); [apply cp_add_arg|]; auto).
    set (c2 := if negb (is_disable_version_flag_set c1) then with_args c1 (c_args c1 ++ [version_arg]) else c1).
    assert (H2 : cp c2 = true)
      by (unfold c2; destruct (negb (is_disable_version_flag_set c1)); [apply cp_add_arg|]; auto).
    destruct (negb (is_set s_dhs c2)); [|exact H2].
    apply cp_with_subs; [exact H2|]. intros sc Hsc. apply in_app_iff in Hsc.
    destruct Hsc as [Hsc|[<-|[]]]; [exact (cp_subs c2 sc H2 Hsc)|apply cp_help_subcommand, H2].
  Qed.

  Lemma cp_bs_globals c : cp c = true -> cp (bs_globals c) = true.
  Proof.
    intros H. unfold bs_globals. apply cp_with_subs; [exact H|].
    intros sc Hsc. apply in_map_iff in Hsc. destruct Hsc as (x & <- & Hx).
    pose proof (cp_subs c x H Hx) as Hxp.
    destruct (beq (c_name x) (lit "help") && negb (is_set s_dhs c)); [exact Hxp|].
    assert (Hg : forall a, In a (filter a_global (c_args c)) -> arg_plain plain a = true).
    { intros a Ha. apply filter_In in Ha. destruct Ha as [Ha _].
      pose proof (cp_args c H) as Hargs. rewrite forallb_forall in Hargs. exact (Hargs a Ha). }
    clear Hx. revert x Hxp Hg. generalize (filter a_global (c_args c)) as gl.
    induction gl as [|a gl IH]; intros x Hxp Hg; [exact Hxp|].
    cbn [fold_left]. apply IH.
    - destruct (is_some (find_arg x (a_id a))); [exact Hxp|apply cp_add_arg; [exact Hxp|apply Hg; now left]].
    - intros a' Ha'. apply Hg. now right.
  Qed.

  Lemma cp_build_self c : cp c = true -> cp (build_self c) = true.
  Proof.
    intros H. unfold build_self. apply cp_bs_globals, cp_bs_help_version, cp_bs_propagate, cp_bs_settings, H.
  Qed.

  Lemma cp_build_recursive : forall fuel c b, build_recursive fuel c = Some b -> cp c = true -> cp b = true.
  Proof.
    induction fuel as [|f IH]; intros c b H Hc; [discriminate|].
    cbn [build_recursive] in H.
    destruct (map_opt (build_recursive f) (c_subs (build_self c))) as [subs|] eqn:E; [|discriminate].
    inversion H; subst b; clear H. pose proof (cp_build_self c Hc) as Hs.
    apply cp_with_subs; [exact Hs|].
    apply map_opt_Forall2 in E.
    assert (Hl : forall z, In z (c_subs (build_self c)) -> cp z = true) by (intros z Hz; exact (cp_subs _ z Hs Hz)).
    clear Hs. revert subs E Hl. generalize (c_subs (build_self c)) as l.
    induction l as [|x l IHl]; intros subs E Hl sc Hsc.
    - inversion E; subst. destruct Hsc.
    - inversion E as [|x' y l' r Hxy Hrest]; subst. destruct Hsc as [<-|Hsc].
      + apply (IH x y Hxy). apply Hl. now left.
      + apply (IHl r Hrest); [|exact Hsc]. intros z Hz. apply Hl. now right.
  Qed.

  Lemma cp_assign_bins : forall c inh, cp c = true -> opt_plain plain inh = true -> cp (assign_bins inh c) = true.
  Proof.
    induction c as [n al args subs bin h v s g IH] using cmd_ind'. intros inh Hc Hinh.
    rewrite cp_iff in Hc. cbn in Hc. destruct Hc as (Hn & Hal & Hargs & Hbin & Hsubs).
    cbn [assign_bins]. rewrite cp_iff. cbn [c_name c_aliases c_args c_bin c_subs].
    assert (Hb' : opt_plain plain (match bin with Some b => Some b | None => inh end) = true)
      by (destruct bin; assumption).
    repeat split; auto.
    intros sc Hsc. apply in_map_iff in Hsc. destruct Hsc as (x & <- & Hx).
    rewrite Forall_forall in IH. apply IH; [exact Hx|exact (Hsubs x Hx)|].
    cbn [opt_plain]. unfold plainl. rewrite !forallb_app.
    match goal with |- forallb plain ?sb && _ = true => assert (Hself : forallb plain sb = true) end.
    { destruct bin as [b|]; [exact Hbin|]. destruct inh as [i|]; [exact Hinh|exact Hn]. }
    rewrite Hself. pose proof (Hsubs x Hx) as Hxp. rewrite cp_iff in Hxp. destruct Hxp as (Hxn & _).
    unfold plainl in Hxn. rewrite Hxn.
    destruct (is_nil _); cbn [forallb]; [reflexivity|now rewrite Hspace].
  Qed.

  Theorem cp_build c b : build c = Some b -> cp c = true -> cp b = true.
  Proof.
    unfold build. destruct (build_recursive (build_fuel c) c) as [c'|] eqn:E; [|discriminate].
    intros H Hc. inversion H; subst b. apply cp_assign_bins; [|reflexivity].
    exact (cp_build_recursive _ c c' E Hc).
  Qed.

  Lemma cp_set_bin_name c bin : cp c = true -> plainl plain bin = true -> cp (set_bin_name c bin) = true.
  Proof. rewrite !cp_iff. destruct c; cbn. tauto. Qed.
End BuildPlain.

(** ---- [Command::build] never runs out of fuel ---- *)
Fixpoint maxd (l : list cmd) : nat := match l with [] => O | s :: t => Nat.max (depth s) (maxd t) end.

Lemma depth_unfold c : depth c = S (maxd (c_subs c)).
Proof.
  destruct c as [n al args subs bin h v s g]. reflexivity.
Qed.

Lemma maxd_in l sc : In sc l -> (depth sc <= maxd l)%nat.
Proof.
  induction l as [|x l IH]; intros H; [destruct H|]. cbn [maxd]. destruct H as [->|H]; [lia|].
  specialize (IH H). lia.
Qed.

Lemma maxd_app a b : maxd (a ++ b) = Nat.max (maxd a) (maxd b).
Proof. induction a as [|x a IH]; [reflexivity|]. cbn [app maxd]. rewrite IH. lia. Qed.

Lemma maxd_map f l : (forall x, In x l -> depth (f x) = depth x) -> maxd (map f l) = maxd l.
Proof.
  induction l as [|x l IH]; intros H; [reflexivity|]. cbn [map maxd].
  rewrite (H x (or_introl eq_refl)), IH; [reflexivity|]. intros y Hy. apply H. now right.
Qed.

Lemma depth_pos c : (1 <= depth c)%nat.
Proof. rewrite depth_unfold. lia. Qed.

Lemma subs_with_sets c s g : c_subs (with_sets c s g) = c_subs c. Proof. destruct c; reflexivity. Qed.
Lemma subs_with_args c l : c_subs (with_args c l) = c_subs c. Proof. destruct c; reflexivity. Qed.
Lemma subs_with_version c v : c_subs (with_version c v) = c_subs c. Proof. destruct c; reflexivity. Qed.
Lemma subs_with_subs c l : c_subs (with_subs c l) = l. Proof. destruct c; reflexivity. Qed.
Lemma gset_with_args c l : c_gset (with_args c l) = c_gset c. Proof. destruct c; reflexivity. Qed.
Lemma gset_with_subs c l : c_gset (with_subs c l) = c_gset c. Proof. destruct c; reflexivity. Qed.
Lemma gset_with_version c v : c_gset (with_version c v) = c_gset c. Proof. destruct c; reflexivity. Qed.
Lemma gset_with_sets c s g : c_gset (with_sets c s g) = g. Proof. destruct c; reflexivity. Qed.
Lemma set_with_args c l : c_set (with_args c l) = c_set c. Proof. destruct c; reflexivity. Qed.
Lemma set_with_subs c l : c_set (with_subs c l) = c_set c. Proof. destruct c; reflexivity. Qed.
Lemma set_with_sets c s g : c_set (with_sets c s g) = s. Proof. destruct c; reflexivity. Qed.

Lemma depth_with_sets c s g : depth (with_sets c s g) = depth c.
Proof. now rewrite !depth_unfold, subs_with_sets. Qed.
Lemma depth_with_args c l : depth (with_args c l) = depth c.
Proof. now rewrite !depth_unfold, subs_with_args. Qed.
Lemma depth_with_version c v : depth (with_version c v) = depth c.
Proof. now rewrite !depth_unfold, subs_with_version. Qed.

Lemma depth_propagate p sc : depth (propagate_subcommand p sc) = depth sc.
Proof.
  unfold propagate_subcommand. rewrite depth_with_sets.
  destruct (s_pver (c_set p) && c_version p); [apply depth_with_version|reflexivity].
Qed.

Lemma depth_copy : forall c, depth (copy_subtree_for_help c) = depth c.
Proof.
  induction c as [n al args subs bin h v s g IH] using cmd_ind'.
  cbn [copy_subtree_for_help]. rewrite !depth_unfold. cbn [c_subs]. f_equal.
  apply maxd_map. intros x Hx. rewrite Forall_forall in IH. exact (IH x Hx).
Qed.

(** the global [DisableHelpSubcommand] *)
Definition dhs_g (c : cmd) : bool := s_dhs (c_gset c).

(** the fold of [_propagate_global_args] over one subcommand *)
Definition add_globals (globals : list arg) (sc : cmd) : cmd :=
  fold_left (fun sc a => if is_some (find_arg sc (a_id a)) then sc else with_args sc (c_args sc ++ [a])) globals sc.

Lemma add_globals_inv (P : cmd -> Prop) globals :
  (forall sc l, P sc -> P (with_args sc l)) -> forall sc, P sc -> P (add_globals globals sc).
Proof.
  intros HP. unfold add_globals. induction globals as [|a gl IH]; intros sc H; [exact H|].
  cbn [fold_left]. apply IH. destruct (is_some _); [exact H|apply HP, H].
Qed.

Lemma depth_add_globals gl sc : depth (add_globals gl sc) = depth sc.
Proof.
  apply (add_globals_inv (fun x => depth x = depth sc)); [|reflexivity].
  intros x l H. now rewrite depth_with_args.
Qed.
Lemma gset_add_globals gl sc : c_gset (add_globals gl sc) = c_gset sc.
Proof.
  apply (add_globals_inv (fun x => c_gset x = c_gset sc)); [|reflexivity].
  intros x l H. now rewrite gset_with_args.
Qed.

(** the subcommands of [build_self c] *)
Lemma build_self_subs c :
  exists g : cmd -> cmd,
    (forall x, depth (g x) = depth x) /\ (forall x, c_gset (g x) = c_gset x) /\
    c_subs (build_self c) = map g (c_subs (bs_help_version (bs_propagate (bs_settings c)))).
Proof.
  unfold build_self, bs_globals. set (x := bs_help_version _). rewrite subs_with_subs.
  eexists (fun sc => if beq (c_name sc) (lit "help") && negb (is_set s_dhs x) then sc
                     else add_globals (filter a_global (c_args x)) sc).
  split; [|split; [|reflexivity]].
  - intros y. destruct (_ && _); [reflexivity|apply depth_add_globals].
  - intros y. destruct (_ && _); [reflexivity|apply gset_add_globals].
Qed.

Lemma is_set_dhs_args c l : is_set s_dhs (with_args c l) = is_set s_dhs c.
Proof. unfold is_set. now rewrite set_with_args, gset_with_args. Qed.

Lemma help_version_subs x :
  c_subs (bs_help_version x) =
  if negb (is_set s_dhs x) then c_subs x ++ [help_subcommand
        (let c1 := if negb (is_set s_dhf x) then with_args x (c_args x ++ [help_arg]) else x in
         if negb (is_disable_version_flag_set c1) then with_args c1 (c_args c1 ++ [version_arg]) else c1)]
  else c_subs x.
Proof.
  unfold bs_help_version.
  set (c1 := if negb (is_set s_dhf x) then with_args x (c_args x ++ [help_arg]) else x).
  set (c2 := if negb (is_disable_version_flag_set c1) then with_args c1 (c_args c1 ++ [version_arg]) else c1).
  assert (E1 : is_set s_dhs c1 = is_set s_dhs x) by (unfold c1; destruct (negb _); [apply is_set_dhs_args|reflexivity]).
  assert (E2 : is_set s_dhs c2 = is_set s_dhs x)
    by (unfold c2; destruct (negb (is_disable_version_flag_set c1)); [rewrite is_set_dhs_args|]; exact E1).
  assert (S2 : c_subs c2 = c_subs x).
  { unfold c2, c1. destruct (negb (is_disable_version_flag_set _)); destruct (negb (is_set s_dhf x));
      rewrite ?subs_with_args; reflexivity. }
  rewrite E2. destruct (negb (is_set s_dhs x)); [rewrite subs_with_subs, S2; reflexivity|exact S2].
Qed.

Lemma settings_dhs c : is_set s_dhs (bs_propagate (bs_settings c)) = true \/ c_subs c <> [].
Proof.
  destruct (c_subs c) as [|x l] eqn:E; [left|right; discriminate].
  unfold bs_propagate, bs_settings, is_set. rewrite set_with_subs, set_with_sets.
  unfold has_subcommands. rewrite E. cbn [is_nil negb s_dhs]. reflexivity.
Qed.

Lemma dhs_g_is_set c : dhs_g c = true -> is_set s_dhs (bs_propagate (bs_settings c)) = true.
Proof.
  intros H. unfold bs_propagate, bs_settings, is_set. rewrite gset_with_subs, gset_with_sets.
  unfold dhs_g in H. rewrite H. apply orb_true_r.
Qed.

Lemma propagate_subs c : c_subs (bs_propagate (bs_settings c)) = map (propagate_subcommand (bs_settings c)) (c_subs c).
Proof. unfold bs_propagate. rewrite subs_with_subs. unfold bs_settings. now rewrite subs_with_sets. Qed.

Lemma dhs_g_propagate p sc : dhs_g p = true -> dhs_g (propagate_subcommand p sc) = true.
Proof.
  intros H. unfold dhs_g, propagate_subcommand in *. rewrite gset_with_sets. cbn [sets_or s_dhs]. rewrite H.
  apply orb_true_r.
Qed.

Lemma dhs_g_settings c : dhs_g (bs_settings c) = dhs_g c.
Proof. unfold dhs_g, bs_settings. now rewrite gset_with_sets. Qed.

(** below a global DisableHelpSubcommand nothing is added: fuel = depth is enough *)
Lemma build_recursive_dhs : forall fuel c, dhs_g c = true -> (depth c <= fuel)%nat -> build_recursive fuel c <> None.
Proof.
  induction fuel as [|f IH]; intros c Hd Hf; [pose proof (depth_pos c); lia|].
  cbn [build_recursive].
  destruct (map_opt_total (build_recursive f) (c_subs (build_self c))) as [r Hr]; [|rewrite Hr; discriminate].
  intros a Ha. destruct (build_self_subs c) as (g & Hgd & Hgg & Hs). rewrite Hs in Ha.
  apply in_map_iff in Ha. destruct Ha as (x & <- & Hx).
  rewrite help_version_subs, (dhs_g_is_set c Hd) in Hx. cbn [negb] in Hx.
  rewrite propagate_subs in Hx. apply in_map_iff in Hx. destruct Hx as (sc & <- & Hsc).
  apply IH.
  - unfold dhs_g. rewrite Hgg. apply dhs_g_propagate. now rewrite dhs_g_settings.
  - rewrite Hgd, depth_propagate. pose proof (maxd_in _ _ Hsc). rewrite depth_unfold in Hf. lia.
Qed.

Lemma help_subcommand_dhs p : dhs_g (help_subcommand p) = true.
Proof.
  unfold help_subcommand, dhs_g. rewrite gset_with_sets. cbn [s_dhs]. rewrite gset_with_version.
  unfold propagate_subcommand. rewrite gset_with_sets. cbn [sets_or s_dhs].
  destruct (s_pver (c_set p) && c_version p); rewrite ?gset_with_version; reflexivity.
Qed.

Lemma help_subcommand_depth p : c_subs p <> [] -> depth (help_subcommand p) = depth p.
Proof.
  intros Hne. unfold help_subcommand. rewrite depth_with_sets, depth_with_version, depth_propagate.
  rewrite !depth_unfold. cbn [c_subs]. f_equal. rewrite maxd_app, (maxd_map _ _ (fun x _ => depth_copy x)).
  cbn [maxd]. rewrite depth_with_sets. cbn. destruct (c_subs p) as [|x l]; [congruence|].
  cbn [maxd]. pose proof (depth_pos x). lia.
Qed.

(** in general one more level (the generated [help] subcommand of the deepest node) *)
Lemma build_recursive_total : forall fuel c, (S (depth c) <= fuel)%nat -> build_recursive fuel c <> None.
Proof.
  induction fuel as [|f IH]; intros c Hf; [lia|].
  cbn [build_recursive].
  destruct (map_opt_total (build_recursive f) (c_subs (build_self c))) as [r Hr]; [|rewrite Hr; discriminate].
  intros a Ha. destruct (build_self_subs c) as (g & Hgd & Hgg & Hs). rewrite Hs in Ha.
  apply in_map_iff in Ha. destruct Ha as (x & <- & Hx).
  rewrite help_version_subs in Hx.
  assert (Horig : In x (c_subs (bs_propagate (bs_settings c))) -> build_recursive f (g x) <> None).
  { intros Hin. rewrite propagate_subs in Hin. apply in_map_iff in Hin. destruct Hin as (sc & <- & Hsc).
    apply IH. rewrite Hgd, depth_propagate. pose proof (maxd_in _ _ Hsc). rewrite depth_unfold in Hf. lia. }
  destruct (negb (is_set s_dhs (bs_propagate (bs_settings c)))) eqn:Eh; [|exact (Horig Hx)].
  apply in_app_iff in Hx. destruct Hx as [Hx|[<-|[]]]; [exact (Horig Hx)|].
  destruct (settings_dhs c) as [Hd|Hne]; [rewrite Hd in Eh; discriminate|].
  set (p := (if negb (is_disable_version_flag_set _) then _ else _)).
  assert (Sp : c_subs p = c_subs (bs_propagate (bs_settings c))).
  { unfold p. destruct (negb (is_disable_version_flag_set _)); destruct (negb (is_set s_dhf _));
      rewrite ?subs_with_args; reflexivity. }
  apply build_recursive_dhs.
  - unfold dhs_g. rewrite Hgg. apply help_subcommand_dhs.
  - rewrite Hgd, help_subcommand_depth.
    + rewrite depth_unfold, Sp, propagate_subs, (maxd_map _ _ (fun x _ => depth_propagate _ x)).
      rewrite depth_unfold in Hf. lia.
    + rewrite Sp, propagate_subs. destruct (c_subs c); [congruence|discriminate].
Qed.

Theorem build_total c : build c <> None.
Proof.
  unfold build. destruct (build_recursive (build_fuel c) c) eqn:E; [discriminate|].
  exfalso. apply (build_recursive_total (build_fuel c) c); [unfold build_fuel; lia|exact E].
Qed.
