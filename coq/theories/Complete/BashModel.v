(** C16: clap_complete/src/aot/shells/bash.rs.
    [all_subcommands] (the [cmd,word)] transition table), [subcommand_details],
    [option_details_for_path], [vals_for], [all_options_for_path] build a table; [render]
    writes the fixed script text around it; [bash_complete] interprets the table the way bash
    interprets the script ([for i in ${COMP_WORDS[@]}] / [case "${cmd}"] / [compgen -W]). *)
From ClapModel Require Import Base.Bytes Complete.AotTree.
From Coq Require Import String.
Open Scope N_scope.
Open Scope list_scope.

(** [str::replace(char, "__")] *)
Definition dd : bytes := [95; 95].
Definition replace_byte (c : N) (r : bytes) (s : bytes) : bytes :=
  flat_map (fun x => if x =? c then r else [x]) s.
Definition mangle : bytes -> bytes := replace_byte 45 dd.        (* replace('-', "__") *)
Definition space_to_dd : bytes -> bytes := replace_byte 32 dd.   (* replace(' ', "__") *)

(** [str::split("__")]: leftmost non-overlapping matches *)
Definition cons_head (ch : N) (l : list bytes) : list bytes :=
  match l with h :: r => (ch :: h) :: r | [] => [[ch]] end.
Fixpoint split_dd (s : bytes) : list bytes :=
  match s with
  | [] => [[]]
  | ch :: t =>
      match t with
      | c2 :: t2 => if (ch =? 95) && (c2 =? 95) then [] :: split_dd t2 else cons_head ch (split_dd t)
      | [] => [[ch]]
      end
  end.

(** [Vec<String>::sort] / [Vec<(String,String,String)>::sort] (byte-wise lexicographic), [dedup] *)
Fixpoint bytes_cmp (a b : bytes) : comparison :=
  match a, b with
  | [], [] => Eq
  | [], _ => Lt
  | _, [] => Gt
  | x :: a', y :: b' => match x ?= y with Eq => bytes_cmp a' b' | c => c end
  end.
Definition triple_cmp (x y : bytes * bytes * bytes) : comparison :=
  match bytes_cmp (fst (fst x)) (fst (fst y)) with
  | Eq => match bytes_cmp (snd (fst x)) (snd (fst y)) with Eq => bytes_cmp (snd x) (snd y) | c => c end
  | c => c
  end.
Fixpoint insert {A} (cmp : A -> A -> comparison) (x : A) (l : list A) : list A :=
  match l with
  | [] => [x]
  | y :: t => match cmp x y with Gt => y :: insert cmp x t | _ => x :: l end
  end.
Definition sort {A} (cmp : A -> A -> comparison) (l : list A) : list A := fold_right (insert cmp) [] l.
Fixpoint dedup (l : list bytes) : list bytes :=
  match l with
  | [] => []
  | x :: t => match t with y :: _ => if beq x y then dedup t else x :: dedup t | [] => [x] end
  end.

(** decimal rendering of a [u64] *)
Fixpoint dec_digits (fuel : nat) (n : N) (acc : bytes) : bytes :=
  match fuel with
  | O => acc
  | S f => let acc' := (48 + n mod 10) :: acc in
           if n / 10 =? 0 then acc' else dec_digits f (n / 10) acc'
  end.
Definition dec (n : N) : bytes := dec_digits (S (N.to_nat (N.log2 n))) n [].

(** ---- bash.rs: all_subcommands ---- *)
(** the inner [add_command]: (parent_fn_name, name | visible alias, fn_name), then the children *)
Fixpoint add_command (parent_fn : bytes) (c : cmd) : list (bytes * bytes * bytes) :=
  match c with
  | mkCmd n al _ subs _ _ _ _ _ =>
      let fn_name := parent_fn ++ dd ++ mangle n in
      ((parent_fn, n, fn_name) :: map (fun a => (parent_fn, a, fn_name)) (visible al))
        ++ flat_map (add_command fn_name) subs
  end.
Definition transitions (c : cmd) (root_fn : bytes) : list (bytes * bytes * bytes) :=
  sort triple_cmp (flat_map (add_command root_fn) (c_subs c)).

(** ---- bash.rs: vals_for ---- *)
Definition vals_for (o : arg) : bytes :=
  match possible_values o with
  | Some vals =>
      lit "$(compgen -W """ ++
      intercalate (lit " ") (map pv_name (filter (fun pv => negb (pv_hide pv)) vals)) ++
      lit """ -- ""${cur}"")"
  | None =>
      match a_get_hint o with
      | HDirPath => []
      | HOther => lit """${cur}"""
      | _ => lit "$(compgen -f ""${cur}"")"
      end
  end.

(** what an arm of [case "${prev}"] assigns to COMPREPLY, as far as it does not depend on the file system *)
Inductive vals := VWords (l : list bytes) | VCur | VNothing | VFiles.
Definition vals_kind (o : arg) : vals :=
  match possible_values o with
  | Some vs =>
      let names := map pv_name (filter (fun pv => negb (pv_hide pv)) vs) in
      (* under [IFS=$'\n'] (FilePath) the space separated list is a single word *)
      if hint_eqb (a_get_hint o) HFilePath then VWords (if is_nil names then [] else [intercalate (lit " ") names])
      else VWords names
  | None => match a_get_hint o with HDirPath => VNothing | HOther => VCur | _ => VFiles end
  end.
Record detail := mkDetail { d_key : bytes; d_lines : list bytes; d_vals : vals }.

(** one [--long)] / [-s)] arm of [case "${prev}"]: the list of its lines *)
Definition detail_lines (o : arg) (key : bytes) : list bytes :=
  let compopt := match a_get_hint o with
                 | HFilePath => Some (lit "compopt -o filenames")
                 | HDirPath => Some (lit "compopt -o plusdirs")
                 | HOther => Some (lit "compopt -o nospace")
                 | _ => None end in
  [key ++ lit ")"]
  ++ (if hint_eqb (a_get_hint o) HFilePath then
        [lit "local oldifs"; lit "if [ -n ""${IFS+x}"" ]; then"; lit "    oldifs=""$IFS"""; lit "fi";
         lit "IFS=$'\n'"; lit "COMPREPLY=(" ++ vals_for o ++ lit ")";
         lit "if [ -n ""${oldifs+x}"" ]; then"; lit "    IFS=""$oldifs"""; lit "fi"]
      else [lit "COMPREPLY=(" ++ vals_for o ++ lit ")"])
  ++ (match compopt with
      | Some copt => [lit "if [[ ""${BASH_VERSINFO[0]}"" -ge 4 ]]; then"; lit "    " ++ copt; lit "fi"]
      | None => [] end)
  ++ [lit "return 0"; lit ";;"].

Definition detail_arm (o : arg) (key : bytes) : detail := mkDetail key (detail_lines o key) (vals_kind o).

(** [option_details_for_path] for the command found at the path: the arms, in order *)
Definition option_details (p : cmd) : list detail :=
  flat_map (fun o =>
      (match get_long_and_visible_aliases o with
       | Some longs => map (fun l => detail_arm o (lit "--" ++ l)) longs | None => [] end)
      ++ (match get_short_and_visible_aliases o with
          | Some shorts => map (fun s => detail_arm o (lit "-" ++ s)) shorts | None => [] end))
    (get_opts p).

(** [all_options_for_path] for the command found at the path: the words of [opts] *)
Definition pos_tokens (pos : arg) : list bytes :=
  match possible_values pos with
  | Some vals => map pv_name vals
  | None => [display_positional pos]
  end.
Definition opts_tokens (p : cmd) : option (list bytes) :=
  match subcommands p with
  | None => None
  | Some scs =>
      Some (map (fun s => lit "-" ++ s) (shorts_and_visible_aliases p)
            ++ map (fun l => lit "--" ++ l) (longs_and_visible_aliases p)
            ++ flat_map pos_tokens (get_positionals p)
            ++ map fst scs)
  end.

(** the path argument: [path.split("__").skip(1)] then [find_subcommand_with_path] *)
Definition find_path (c : cmd) (path : bytes) : option cmd :=
  find_subcommand_with_path c (tl (split_dd path)).
Definition all_options_for_path (c : cmd) (path : bytes) : option (list bytes) :=
  match find_path c path with Some p => opts_tokens p | None => None end.
Definition option_details_for_path (c : cmd) (path : bytes) : option (list detail) :=
  match find_path c path with Some p => Some (option_details p) | None => None end.

(** ---- bash.rs: subcommand_details ---- *)
Record bcase := mkCase { k_label : bytes; k_opts : list bytes; k_level : N; k_details : list detail }.
Definition subcommand_case (c : cmd) (sc : bytes) : option bcase :=
  match all_options_for_path c sc, option_details_for_path c sc with
  | Some o, Some d => Some (mkCase (mangle sc) o (N.of_nat (List.length (split_dd sc))) d)
  | _, _ => None
  end.
Definition subcommand_paths (c : cmd) : option (list bytes) :=
  match all_subcommands c with
  | Some l => Some (dedup (sort bytes_cmp (map (fun x => space_to_dd (snd x)) l)))
  | None => None
  end.
Definition subcommand_details (c : cmd) : option (list bcase) :=
  match subcommand_paths c with
  | Some scs => map_opt (subcommand_case c) scs
  | None => None
  end.

(** ---- Bash::generate: the table ---- *)
Record table := mkTable {
  t_name : bytes;                        (* bin_name *)
  t_root : bcase;                        (* label = fn_name of the root, level 1 *)
  t_trans : list (bytes * bytes * bytes);
  t_cases : list bcase
}.
Definition bash_table (c : cmd) : option table :=
  match c_bin c with
  | None => None                          (* expect("crate::generate should have set the bin_name") *)
  | Some bin =>
      let fn_name := mangle bin in
      match all_options_for_path c bin, option_details_for_path c bin, subcommand_details c with
      | Some o, Some d, Some cases =>
          Some (mkTable bin (mkCase fn_name o 1 d) (transitions c fn_name) cases)
      | _, _, _ => None
      end
  end.

(** ---- the script text ---- *)
Definition nl : bytes := [10].
Definition render_details (d : list detail) : bytes :=
  intercalate (nl ++ lit "                ")
    ([] :: map (fun a => intercalate (nl ++ lit "                    ") (d_lines a)) d).
Definition render_trans (t : list (bytes * bytes * bytes)) : bytes :=
  intercalate (nl ++ lit "            ")
    ([] :: map (fun e => fst (fst e) ++ lit "," ++ snd (fst e) ++ lit ")" ++ nl ++
                         lit "                cmd=""" ++ snd e ++ lit """" ++ nl ++
                         lit "                ;;") t).
Definition render_case_body (k : bcase) : bytes :=
  k_label k ++ lit ")" ++ nl ++
  lit "            opts=""" ++ intercalate (lit " ") (k_opts k) ++ lit """" ++ nl ++
  lit "            if [[ ${cur} == -* || ${COMP_CWORD} -eq " ++ dec (k_level k) ++ lit " ]] ; then" ++ nl ++
  lit "                COMPREPLY=( $(compgen -W ""${opts}"" -- ""${cur}"") )" ++ nl ++
  lit "                return 0" ++ nl ++
  lit "            fi" ++ nl ++
  lit "            case ""${prev}"" in" ++ render_details (k_details k) ++ nl ++
  lit "                *)" ++ nl ++
  lit "                    COMPREPLY=()" ++ nl ++
  lit "                    ;;" ++ nl ++
  lit "            esac" ++ nl ++
  lit "            COMPREPLY=( $(compgen -W ""${opts}"" -- ""${cur}"") )" ++ nl ++
  lit "            return 0" ++ nl ++
  lit "            ;;".
Definition render_cases (l : list bcase) : bytes :=
  intercalate (nl ++ lit "        ") ([] :: map render_case_body l).
Definition render (t : table) : bytes :=
  lit "_" ++ t_name t ++ lit "() {" ++ nl ++
  lit "    local i cur prev opts cmd" ++ nl ++
  lit "    COMPREPLY=()" ++ nl ++
  lit "    cur=""${COMP_WORDS[COMP_CWORD]}""" ++ nl ++
  lit "    prev=""${COMP_WORDS[COMP_CWORD-1]}""" ++ nl ++
  lit "    cmd=""""" ++ nl ++
  lit "    opts=""""" ++ nl ++
  nl ++
  lit "    for i in ${COMP_WORDS[@]}" ++ nl ++
  lit "    do" ++ nl ++
  lit "        case ""${cmd},${i}"" in" ++ nl ++
  lit "            "",$1"")" ++ nl ++
  lit "                cmd=""" ++ k_label (t_root t) ++ lit """" ++ nl ++
  lit "                ;;" ++ render_trans (t_trans t) ++ nl ++
  lit "            *)" ++ nl ++
  lit "                ;;" ++ nl ++
  lit "        esac" ++ nl ++
  lit "    done" ++ nl ++
  nl ++
  lit "    case ""${cmd}"" in" ++ nl ++
  lit "        " ++ render_case_body (t_root t) ++ render_cases (t_cases t) ++ nl ++
  lit "    esac" ++ nl ++
  lit "}" ++ nl ++
  nl ++
  lit "if [[ ""${BASH_VERSINFO[0]}"" -eq 4 && ""${BASH_VERSINFO[1]}"" -ge 4 || ""${BASH_VERSINFO[0]}"" -gt 4 ]]; then" ++ nl ++
  lit "    complete -F _" ++ t_name t ++ lit " -o nosort -o bashdefault -o default " ++ t_name t ++ nl ++
  lit "else" ++ nl ++
  lit "    complete -F _" ++ t_name t ++ lit " -o bashdefault -o default " ++ t_name t ++ nl ++
  lit "fi" ++ nl.

(** [clap_complete::aot::generate(Bash, cmd, bin_name, buf)]; [None] = a panic
    ([unwrap] on a failed path lookup, missing bin name) or an exhausted build fuel *)
Definition generate_bash (c : cmd) (bin : bytes) : option bytes :=
  match build (set_bin_name c bin) with
  | Some b => match bash_table b with Some t => Some (render t) | None => None end
  | None => None
  end.

(** ---- what bash does with the script ---- *)
(** [case "${cmd},${i}"]: the first arm whose pattern equals the pair; patterns are literal for
    names without glob characters *)
Definition step (root_fn : bytes) (root_word : bytes) (tr : list (bytes * bytes * bytes))
           (st : bytes) (w : bytes) : bytes :=
  if is_nil st && beq w root_word then root_fn
  else match find (fun e => beq (fst (fst e)) st && beq (snd (fst e)) w) tr with
       | Some e => snd e
       | None => st
       end.
(** [case "${cmd}"]: first arm with that label (the root arm comes first) *)
Definition lookup_case (t : table) (st : bytes) : option bcase :=
  find (fun k => beq (k_label k) st) (t_root t :: t_cases t).
(** [compgen -W "${opts}" -- "${cur}"]: the words of the list that start with [cur] *)
Definition compgen_W (words : list bytes) (cur : bytes) : list bytes :=
  filter (fun w => starts_with w cur) words.
(** the whole function for [COMP_WORDS = words] (at least the command word and the word under the
    cursor, which is last), [COMP_CWORD = len - 1], called as [_fn words[0]].
    Assumes words without IFS white space or glob characters ([for i in ${COMP_WORDS[@]}] is unquoted;
    an empty word disappears).  [None]: the reply comes from [compgen -f] (file system). *)
Definition run_state (t : table) (words : list bytes) : bytes :=
  fold_left (step (k_label (t_root t)) (match words with w :: _ => w | [] => [] end) (t_trans t))
            (filter (fun w => negb (is_nil w)) words) [].
Definition bash_complete (t : table) (words : list bytes) : option (list bytes) :=
  let cur := last words [] in
  let prev := last (removelast words) [] in
  let cword := N.of_nat (List.length words) - 1 in
  match lookup_case t (run_state t words) with
  | None => Some []
  | Some k =>
      if starts_with cur (lit "-") || (cword =? k_level k) then Some (compgen_W (k_opts k) cur)
      else match find (fun a => beq (d_key a) prev) (k_details k) with
           | Some a => match d_vals a with
                       | VWords l => Some (compgen_W l cur)
                       | VCur => Some [cur]
                       | VNothing => Some []
                       | VFiles => None
                       end
           | None => Some (compgen_W (k_opts k) cur)
           end
  end.
