(** C16 (zsh): [write_positionals_of] with multi-valued positionals, [last] and value terminators, exactly.  The loop threads
    [catch_all_emitted]: the first multi-valued positional WITHOUT a value terminator of a command WITHOUT subcommands is
    written as the catch-all ['*:name:...'] and sets the flag; a multi-valued positional WITH a terminator [t] is written as
    ['*t:name:...'] ([t] through [escape_value]) and does not set it; once the flag is set every later multi-valued positional
    AND every [last] positional is skipped (the comment in zsh.rs: a second catch-all would make [_arguments] fail; the
    positional after [--] is handled by the [-S] option); with subcommands no catch-all is written and every positional keeps
    its line.  Round 4: [Arg::is_last_set] and [value_terminator] are fields of [AotTree.arg] ([a_last], [a_terminator]). *)
From ClapModel Require Import Base.Bytes Complete.AotTree Complete.BashModel Complete.FishModel Complete.ZshModel Escape.EscapeModel.
From Coq Require Import String Lia.
Open Scope N_scope.
Open Scope list_scope.

Definition multi (p : arg * adesc) : bool := 1 <? a_max_values (fst p).
Definition is_last (p : arg * adesc) : bool := a_last (fst p).
(** what is skipped once a catch-all was written *)
Definition skipped (p : arg * adesc) : bool := is_last p || multi p.
(** the positional that becomes THE catch-all (sets [catch_all_emitted]) *)
Definition catch_all (hs : bool) (p : arg * adesc) : bool :=
  multi p && negb hs && negb (is_some (a_terminator (fst p))).
(** the cardinality prefix of the line *)
Definition pos_card (hs : bool) (p : arg * adesc) : bytes :=
  if multi p && negb hs then
    match a_terminator (fst p) with
    | Some t => lit "*" ++ zsh_escape_value t ++ lit ":"
    | None => lit "*:"
    end
  else if negb (a_required (fst p)) then lit ":" else [].
(** the positionals that get a line *)
Fixpoint pos_kept (hs ce : bool) (l : list (arg * adesc)) : list (arg * adesc) :=
  match l with
  | [] => []
  | p :: t => if ce && skipped p then pos_kept hs ce t else p :: pos_kept hs (ce || catch_all hs p) t
  end.

Theorem positional_lines_exact hs : forall l ce,
  positional_lines hs ce l = map (fun p => positional_line (pos_card hs p) p) (pos_kept hs ce l).
Proof.
  induction l as [|p t IH]; intros ce; [reflexivity|].
  cbn [positional_lines pos_kept]. unfold arg_is_last, arg_terminator, skipped, is_last, catch_all. fold (multi p).
  destruct (ce && (a_last (fst p) || multi p)) eqn:E1; [apply IH|]. cbn [map]. unfold pos_card at 1.
  destruct (multi p && negb hs) eqn:E2.
  - destruct (a_terminator (fst p)) as [tm|]; cbn [is_some negb andb].
    + rewrite orb_false_r. f_equal. apply IH.
    + rewrite orb_true_r. f_equal. apply IH.
  - cbn [andb]. rewrite orb_false_r. destruct (negb (a_required (fst p))); f_equal; apply IH.
Qed.

Lemma catch_all_with_subcommands p : catch_all true p = false.
Proof. unfold catch_all. cbn [negb]. rewrite andb_false_r. reflexivity. Qed.
Lemma catch_all_skipped hs p : catch_all hs p = true -> skipped p = true.
Proof.
  unfold catch_all, skipped. intros H. apply andb_true_iff in H. destruct H as [H _]. apply andb_true_iff in H.
  destruct H as [H _]. rewrite H. apply orb_true_r.
Qed.

(** with subcommands nothing is skipped *)
Theorem pos_kept_with_subcommands : forall l, pos_kept true false l = l.
Proof.
  induction l as [|p t IH]; [reflexivity|]. cbn [pos_kept andb orb]. rewrite catch_all_with_subcommands, IH. reflexivity.
Qed.

(** after a catch-all only the single-valued positionals that are not [last] remain *)
Theorem pos_kept_after_catch_all hs : forall l, pos_kept hs true l = filter (fun q => negb (skipped q)) l.
Proof.
  induction l as [|p t IH]; [reflexivity|]. cbn [pos_kept filter andb orb]. destruct (skipped p); cbn [negb]; rewrite IH; reflexivity.
Qed.

(** the flag after a prefix: set iff it was set or the prefix contains a catch-all *)
Theorem pos_kept_app hs : forall l1 ce l2,
  pos_kept hs ce (l1 ++ l2) = pos_kept hs ce l1 ++ pos_kept hs (ce || existsb (catch_all hs) l1) l2.
Proof.
  induction l1 as [|p t IH]; intros ce l2; [cbn [app pos_kept existsb]; rewrite orb_false_r; reflexivity|].
  cbn [app pos_kept existsb]. destruct (ce && skipped p) eqn:E.
  - apply andb_true_iff in E. destruct E as [-> _]. rewrite IH. reflexivity.
  - cbn [app]. rewrite IH, orb_assoc. reflexivity.
Qed.

(** while no catch-all was written every positional has its line *)
Theorem pos_kept_no_catch_all hs : forall l, existsb (catch_all hs) l = false -> pos_kept hs false l = l.
Proof.
  induction l as [|q t IH]; intros H; [reflexivity|]. cbn [existsb] in H. apply orb_false_iff in H. destruct H as [Hq Ht].
  cbn [pos_kept andb orb]. rewrite Hq, (IH Ht). reflexivity.
Qed.

(** without subcommands: everything up to and including the FIRST catch-all, then the single-valued ones that are not [last] *)
Theorem pos_kept_first_catch_all hs : forall l1 p l2,
  existsb (catch_all hs) l1 = false -> catch_all hs p = true ->
  pos_kept hs false (l1 ++ p :: l2) = l1 ++ p :: filter (fun q => negb (skipped q)) l2.
Proof.
  intros l1 p l2 H1 Hp. rewrite pos_kept_app, (pos_kept_no_catch_all hs l1 H1), H1. cbn [orb pos_kept andb].
  rewrite Hp. cbn [orb]. rewrite pos_kept_after_catch_all. reflexivity.
Qed.

(** the [last] positional (clap's configuration check wants it behind every other positional): it has its line iff no
    catch-all was written before it -- after a catch-all it is left to [_arguments -S] *)
Theorem pos_kept_last hs l p :
  is_last p = true ->
  pos_kept hs false (l ++ [p]) = pos_kept hs false l ++ (if existsb (catch_all hs) l then [] else [p]).
Proof.
  intros Hl. rewrite pos_kept_app. cbn [orb pos_kept]. unfold skipped. rewrite Hl. cbn [orb].
  destruct (existsb (catch_all hs) l); reflexivity.
Qed.
(** its line, when it has one: a multi-valued [last] positional of a command without subcommands is itself the catch-all *)
Theorem pos_card_last_single hs p : multi p = false -> pos_card hs p = if negb (a_required (fst p)) then lit ":" else [].
Proof. intros H. unfold pos_card. rewrite H. reflexivity. Qed.

(** the block of a command: its positional segment is the lines of the kept positionals *)
Theorem write_positionals_exact c d :
  write_positionals_of c d =
  zjoin znl (map (fun p => positional_line (pos_card (has_subcommands c) p) p)
                 (pos_kept (has_subcommands c) false (filter is_pos (zipd ad0 (c_args c) (cd_args d))))).
Proof. unfold write_positionals_of. rewrite positional_lines_exact. reflexivity. Qed.

(** evaluated: [files] (1..) then [more] (1..) then [last] (single) in a command without subcommands: the lines of [files]
    (catch-all) and [last]; [more] is skipped *)
Definition zp_arg (id : bytes) (mx : N) : arg := mkArg id None None [] [] AAppend (Some (1, mx)) None None false false true.
Example pos_kept_example :
  map (fun p => a_id (fst p))
      (pos_kept false false [(zp_arg (lit "files") 5, ad0); (zp_arg (lit "more") 5, ad0); (zp_arg (lit "last") 1, ad0)])
  = [lit "files"; lit "last"] /\
  pos_card false (zp_arg (lit "files") 5, ad0) = lit "*:".
Proof. split; reflexivity. Qed.

(** evaluated, with the round-4 fields: [src] (1..3, terminator [;]) then [dst] (1..3) then [rest] ([last]): [src] is written
    ['*;:...'] ([;] is no key of [escape_value]; a blank is: ['*a\ b:']), [dst] is the catch-all ['*:'], [rest] has no line;
    after a single-valued positional [rest] has its line *)
Definition zp_arg_x (id : bytes) (mx : N) (term : option bytes) (last : bool) : arg :=
  mkArgX id None None [] [] ASet (Some (1, mx)) None None false false false [] term last [] [].
Example pos_kept_last_example :
  let l := [(zp_arg_x (lit "src") 3 (Some (lit ";")) false, ad0); (zp_arg_x (lit "dst") 3 None false, ad0);
            (zp_arg_x (lit "rest") 1 None true, ad0)] in
  map (fun p => (a_id (fst p), pos_card false p)) (pos_kept false false l)
  = [(lit "src", lit "*;:"); (lit "dst", lit "*:")] /\
  map (fun p => a_id (fst p)) (pos_kept false false [(zp_arg_x (lit "one") 1 None false, ad0); (zp_arg_x (lit "rest") 1 None true, ad0)])
  = [lit "one"; lit "rest"] /\
  pos_card false (zp_arg_x (lit "src") 3 (Some (lit "a b")) false, ad0) = lit "*a\ b:".
Proof. vm_compute. repeat split; reflexivity. Qed.

(** when at most one positional is multi-valued or [last] -- clap's own configuration check ("Only one positional argument
    with .num_args(1..) set is allowed per command, unless the second one also has .last(true) set"; replayed: the harness
    answers INVALID for two of them without [last]) leaves such a tree whenever no argument carries [last] -- NO positional
    is skipped *)
Theorem pos_kept_valid hs : forall l ce,
  (List.length (filter skipped l) <= 1)%nat -> ce = false -> pos_kept hs ce l = l.
Proof.
  induction l as [|p t IH]; intros ce H Hce; [reflexivity|]. subst ce. cbn [pos_kept andb orb]. cbn [filter] in H.
  destruct (skipped p) eqn:Em.
  - cbn [List.length] in H. f_equal.
    assert (Hn : filter skipped t = []) by (destruct (filter skipped t); [reflexivity|cbn [List.length] in H; lia]).
    assert (Hnone : forall q, In q t -> skipped q = false).
    { intros q Hq. destruct (skipped q) eqn:Eq; [|reflexivity].
      assert (Hin : In q (filter skipped t)) by (apply filter_In; split; assumption). rewrite Hn in Hin. destruct Hin. }
    clear - Hnone. generalize (catch_all hs p). induction t as [|q t IH]; intros ce; [reflexivity|].
    cbn [pos_kept]. rewrite (Hnone q (or_introl eq_refl)), andb_false_r. f_equal.
    apply IH. intros x Hx. apply Hnone. right. exact Hx.
  - assert (Hc : catch_all hs p = false).
    { destruct (catch_all hs p) eqn:E; [|reflexivity]. apply catch_all_skipped in E. congruence. }
    rewrite Hc. f_equal. apply IH; [exact H|reflexivity].
Qed.

Theorem write_positionals_valid c d :
  (List.length (filter skipped (filter is_pos (zipd ad0 (c_args c) (cd_args d)))) <= 1)%nat ->
  write_positionals_of c d =
  zjoin znl (map (fun p => positional_line (pos_card (has_subcommands c) p) p) (filter is_pos (zipd ad0 (c_args c) (cd_args d)))).
Proof. intros H. rewrite write_positionals_exact, (pos_kept_valid _ _ false H eq_refl). reflexivity. Qed.
