(** C16 (zsh): [write_positionals_of] with multi-valued positionals, exactly.  The loop threads [catch_all_emitted]: the first
    multi-valued positional of a command WITHOUT subcommands is written as the catch-all ['*:name:...'], every later
    multi-valued positional is skipped (the comment in zsh.rs: a second catch-all would make [_arguments] fail); with
    subcommands no catch-all is written and every positional keeps its line.  Round 2 proved only that single-valued
    positionals have a line ([block_positional_line]).  ([Arg::is_last_set] and [value_terminator] are the constants
    [arg_is_last] = false / [arg_terminator] = None of the model: no spec format carries them.) *)
From ClapModel Require Import Base.Bytes Complete.AotTree Complete.BashModel Complete.FishModel Complete.ZshModel.
From Coq Require Import String.
Open Scope N_scope.
Open Scope list_scope.

Definition multi (p : arg * adesc) : bool := 1 <? a_max_values (fst p).
(** the cardinality prefix of the line *)
Definition pos_card (hs : bool) (p : arg * adesc) : bytes :=
  if multi p && negb hs then lit "*:" else if negb (a_required (fst p)) then lit ":" else [].
(** the positionals that get a line *)
Fixpoint pos_kept (hs ce : bool) (l : list (arg * adesc)) : list (arg * adesc) :=
  match l with
  | [] => []
  | p :: t => if ce && multi p then pos_kept hs ce t else p :: pos_kept hs (ce || (multi p && negb hs)) t
  end.

Theorem positional_lines_exact hs : forall l ce,
  positional_lines hs ce l = map (fun p => positional_line (pos_card hs p) p) (pos_kept hs ce l).
Proof.
  induction l as [|p t IH]; intros ce; [reflexivity|].
  cbn [positional_lines pos_kept]. unfold arg_is_last, arg_terminator. cbn [orb]. fold (multi p).
  destruct (ce && multi p) eqn:E1; [apply IH|]. cbn [map]. unfold pos_card at 1.
  destruct (multi p && negb hs) eqn:E2.
  - rewrite orb_true_r. f_equal. apply IH.
  - rewrite orb_false_r. destruct (negb (a_required (fst p))); f_equal; apply IH.
Qed.

(** with subcommands nothing is skipped *)
Theorem pos_kept_with_subcommands : forall l, pos_kept true false l = l.
Proof.
  induction l as [|p t IH]; [reflexivity|]. cbn [pos_kept andb negb]. rewrite andb_false_r. cbn [orb]. rewrite IH. reflexivity.
Qed.

(** after a catch-all only the single-valued positionals remain *)
Theorem pos_kept_after_catch_all hs : forall l, pos_kept hs true l = filter (fun q => negb (multi q)) l.
Proof.
  induction l as [|p t IH]; [reflexivity|]. cbn [pos_kept filter andb orb]. destruct (multi p); cbn [negb]; rewrite IH; reflexivity.
Qed.

(** without subcommands: everything up to and including the FIRST multi-valued positional, then the single-valued ones *)
Theorem pos_kept_first_catch_all : forall l1 p l2,
  Forall (fun q => multi q = false) l1 -> multi p = true ->
  pos_kept false false (l1 ++ p :: l2) = l1 ++ p :: filter (fun q => negb (multi q)) l2.
Proof.
  induction l1 as [|q t IH]; intros p l2 H1 Hp.
  - cbn [app pos_kept andb negb]. rewrite Hp. cbn [andb orb]. rewrite pos_kept_after_catch_all. reflexivity.
  - inversion H1 as [|q' t' Hq Ht]; subst. cbn [app pos_kept andb]. rewrite Hq. cbn [andb orb]. rewrite (IH p l2 Ht Hp). reflexivity.
Qed.

Theorem pos_kept_no_multi hs : forall l ce, Forall (fun q => multi q = false) l -> pos_kept hs ce l = l.
Proof.
  induction l as [|q t IH]; intros ce H; [reflexivity|]. inversion H as [|q' t' Hq Ht]; subst.
  cbn [pos_kept]. rewrite Hq, andb_false_r. cbn [andb]. rewrite orb_false_r, (IH ce Ht). reflexivity.
Qed.

(** the block of a command: its positional segment is the lines of the kept positionals *)
Theorem write_positionals_exact c d :
  write_positionals_of c d =
  zjoin znl (map (fun p => positional_line (pos_card (has_subcommands c) p) p)
                 (pos_kept (has_subcommands c) false (filter is_pos (zipd ad0 (c_args c) (cd_args d))))).
Proof. unfold write_positionals_of. rewrite positional_lines_exact. reflexivity. Qed.

(** evaluated: [files] (1..) then [more] (1..) then [last] (single) in a command without subcommands: the lines of [files]
    (catch-all) and [last]; [more] is skipped *)
Definition zp_arg (id : bytes) (mx : N) : arg := mkArg id None None [] [] AAppend (Some (1, mx)) None None false false true.
Example pos_kept_example :
  map (fun p => a_id (fst p))
      (pos_kept false false [(zp_arg (lit "files") 5, ad0); (zp_arg (lit "more") 5, ad0); (zp_arg (lit "last") 1, ad0)])
  = [lit "files"; lit "last"] /\
  pos_card false (zp_arg (lit "files") 5, ad0) = lit "*:".
Proof. split; reflexivity. Qed.

(** clap's own configuration check ("Only one positional argument with .num_args(1..) set is allowed per command, unless the
    second one also has .last(true) set"; replayed: the harness answers INVALID for two of them) leaves at most one
    multi-valued positional in a tree whose arguments carry no [last]: then NO positional is skipped *)
From Coq Require Import Lia.
Theorem pos_kept_valid hs : forall l ce,
  (List.length (filter multi l) <= 1)%nat -> ce = false -> pos_kept hs ce l = l.
Proof.
  induction l as [|p t IH]; intros ce H Hce; [reflexivity|]. subst ce. cbn [pos_kept andb orb]. cbn [filter] in H.
  destruct (multi p) eqn:Em.
  - cbn [List.length] in H. f_equal. apply pos_kept_no_multi.
    assert (Hn : filter multi t = []) by (destruct (filter multi t); [reflexivity|cbn [List.length] in H; lia]).
    apply Forall_forall. intros q Hq. destruct (multi q) eqn:Eq; [|reflexivity].
    assert (Hin : In q (filter multi t)) by (apply filter_In; split; assumption). rewrite Hn in Hin. destruct Hin.
  - cbn [andb]. f_equal. apply IH; [exact H|reflexivity].
Qed.

Theorem write_positionals_valid c d :
  (List.length (filter multi (filter is_pos (zipd ad0 (c_args c) (cd_args d)))) <= 1)%nat ->
  write_positionals_of c d =
  zjoin znl (map (fun p => positional_line (pos_card (has_subcommands c) p) p) (filter is_pos (zipd ad0 (c_args c) (cd_args d)))).
Proof. intros H. rewrite write_positionals_exact, (pos_kept_valid _ _ false H eq_refl). reflexivity. Qed.
