(** C16 (zsh), round 4: [Command::build] keeps the class in which no [arg_conflicts] call of the zsh generator panics, so
    the theorems about [zsh_ok] trees speak about the file [generate_zsh] writes for a USER tree that declares conflicts.

    The class, per command ([conflicts_declared_ok]): an argument that declares conflicts ([conflicts_with*]) is not global,
    and every entry of its blacklist names an argument or a group of ITS command.  (A global argument with conflicts is
    copied into the subcommands, where its targets need not exist -- clap's configuration check rejects most such trees,
    and the one it accepts used to make the generator panic: finding zsh-global-conflicts-group, repaired since; on the
    BUILT tree [ZshProofs.conflicts_local] / [conflicts_ok_at] cover global arguments.)

    Why [build] keeps it: [build] only APPENDS arguments to a command -- the generated [help] / [version] arguments and the
    global arguments of the parent -- and in the class all of these have an empty blacklist; an entry that named an argument
    or a group before still does after.  The proof follows [NushellLexProofs.BuildArgs] step by step, for a predicate on
    the argument LIST of a node instead of a predicate on single arguments. *)
From ClapModel Require Import Base.Bytes Complete.AotTree Complete.AotProofs Complete.BashModel Complete.BashProofs.
From ClapModel Require Import Complete.FishModel Complete.BuildTexts Complete.ZshModel Complete.ZshProofs.
From ClapModel Require Import Complete.BuildLinked Complete.BuildSkeleton Complete.NushellLexProofs Complete.ZshBuildProofs.
From Coq Require Import String Lia.
Open Scope N_scope.
Open Scope list_scope.

(** ---- the class on one argument list ---- *)
Definition names_entry (l : list arg) (id : bytes) : bool :=
  is_some (find (fun y => beq (a_id y) id) l) || existsb (in_group id) l.
Definition declares_ok (l : list arg) (a : arg) : bool :=
  is_nil (a_blacklist a) || (negb (a_global a) && forallb (names_entry l) (a_blacklist a)).
Definition conflicts_declared_ok (l : list arg) : bool := forallb (declares_ok l) l.

Lemma find_app_some {A} (f : A -> bool) l e : is_some (find f l) = true -> is_some (find f (l ++ e)) = true.
Proof. induction l as [|x t IH]; [discriminate|]. cbn [find app]. destruct (f x); [reflexivity|exact IH]. Qed.
Lemma names_entry_app l e id : names_entry l id = true -> names_entry (l ++ e) id = true.
Proof.
  unfold names_entry. intros H. apply orb_true_iff in H. apply orb_true_iff. destruct H as [H|H].
  - left. apply find_app_some. exact H.
  - right. rewrite existsb_app, H. reflexivity.
Qed.
Lemma declares_ok_app l e a : declares_ok l a = true -> declares_ok (l ++ e) a = true.
Proof.
  unfold declares_ok. intros H. apply orb_true_iff in H. apply orb_true_iff. destruct H as [H|H]; [left; exact H|right].
  apply andb_true_iff in H. destruct H as [H1 H2]. rewrite H1. cbn [andb].
  rewrite forallb_forall in *. intros id Hid. apply names_entry_app, H2, Hid.
Qed.
Lemma cdo_nil : conflicts_declared_ok [] = true.
Proof. reflexivity. Qed.
Lemma cdo_add l e : conflicts_declared_ok l = true -> a_blacklist e = [] -> conflicts_declared_ok (l ++ [e]) = true.
Proof.
  unfold conflicts_declared_ok. intros H He. rewrite forallb_app. apply andb_true_iff. split.
  - rewrite forallb_forall in *. intros a Ha. apply declares_ok_app, H, Ha.
  - cbn [forallb]. unfold declares_ok at 1. rewrite He. reflexivity.
Qed.
Lemma cdo_global l g : conflicts_declared_ok l = true -> In g l -> a_global g = true -> a_blacklist g = [].
Proof.
  unfold conflicts_declared_ok. intros H Hin Hg. rewrite forallb_forall in H. specialize (H g Hin).
  unfold declares_ok in H. rewrite Hg in H. cbn [negb andb] in H. rewrite orb_false_r in H.
  destruct (a_blacklist g); [reflexivity|discriminate].
Qed.

(** it implies the local class of [ZshProofs] *)
Lemma cdo_local m : conflicts_declared_ok (c_args m) = true -> conflicts_local m = true.
Proof.
  unfold conflicts_declared_ok, conflicts_local. intros H. rewrite forallb_forall in H.
  apply forallb_forall. intros a Ha. apply filter_In in Ha. destruct Ha as [Ha _]. specialize (H a Ha).
  unfold declares_ok in H. apply orb_true_iff in H. destruct H as [H|H].
  - destruct (a_blacklist a); [reflexivity|discriminate].
  - apply andb_true_iff in H. destruct H as [Hg He]. rewrite forallb_forall in He. apply forallb_forall.
    intros id Hid. specialize (He id Hid). unfold entry_ok. exact He.
Qed.

(** ---- at every node of the tree; kept by [build] ---- *)
Fixpoint cdo_all (c : cmd) : bool :=
  match c with
  | mkCmd _ _ args subs _ _ _ _ _ =>
      conflicts_declared_ok args && (fix go (l : list cmd) : bool := match l with [] => true | s :: l' => cdo_all s && go l' end) subs
  end.
Lemma ca_unfold c : cdo_all c = conflicts_declared_ok (c_args c) && forallb cdo_all (c_subs c).
Proof. destruct c; reflexivity. Qed.
Lemma ca_iff c :
  cdo_all c = true <-> conflicts_declared_ok (c_args c) = true /\ (forall sc, In sc (c_subs c) -> cdo_all sc = true).
Proof.
  rewrite ca_unfold, andb_true_iff. split.
  - intros [A B]. split; [exact A|]. intros sc Hsc. rewrite forallb_forall in B. exact (B sc Hsc).
  - intros [A B]. split; [exact A|]. apply forallb_forall. exact B.
Qed.
Lemma ca_mk n al args subs bin h v s g n' al' bin' h' v' s' g' :
  cdo_all (mkCmd n al args subs bin h v s g) = true -> cdo_all (mkCmd n' al' args subs bin' h' v' s' g') = true.
Proof. rewrite !ca_iff. cbn. tauto. Qed.
Lemma ca_with_sets c s g : cdo_all c = true -> cdo_all (with_sets c s g) = true.
Proof. destruct c. apply ca_mk. Qed.
Lemma ca_with_version c v : cdo_all c = true -> cdo_all (with_version c v) = true.
Proof. destruct c. apply ca_mk. Qed.
Lemma ca_with_bin c b : cdo_all c = true -> cdo_all (with_bin c b) = true.
Proof. destruct c. apply ca_mk. Qed.
Lemma ca_with_subs c l : cdo_all c = true -> (forall sc, In sc l -> cdo_all sc = true) -> cdo_all (with_subs c l) = true.
Proof. rewrite !ca_iff. destruct c; cbn. intros (A & _) H. auto. Qed.
Lemma ca_with_args c l : cdo_all c = true -> conflicts_declared_ok l = true -> cdo_all (with_args c l) = true.
Proof. rewrite !ca_iff. destruct c; cbn. intros (_ & E) H. auto. Qed.
Lemma ca_args c : cdo_all c = true -> conflicts_declared_ok (c_args c) = true.
Proof. rewrite ca_iff. tauto. Qed.
Lemma ca_subs c sc : cdo_all c = true -> In sc (c_subs c) -> cdo_all sc = true.
Proof. rewrite ca_iff. intros (_ & H). apply H. Qed.
Lemma ca_add_arg c a : cdo_all c = true -> a_blacklist a = [] -> cdo_all (with_args c (c_args c ++ [a])) = true.
Proof. intros Hc Ha. apply ca_with_args; [exact Hc|]. apply cdo_add; [apply ca_args; exact Hc|exact Ha]. Qed.
Lemma ca_propagate_subcommand p sc : cdo_all sc = true -> cdo_all (propagate_subcommand p sc) = true.
Proof.
  intros H. unfold propagate_subcommand. apply ca_with_sets.
  destruct (s_pver (c_set p) && c_version p); [apply ca_with_version|]; exact H.
Qed.
Lemma ca_copy : forall c, cdo_all (copy_subtree_for_help c) = true.
Proof.
  induction c as [n al args subs bin h v s g IH] using cmd_ind'.
  cbn [copy_subtree_for_help]. rewrite ca_iff. cbn. split; [reflexivity|].
  intros sc Hsc. apply in_map_iff in Hsc. destruct Hsc as (x & <- & Hx).
  rewrite Forall_forall in IH. apply IH; auto.
Qed.
Lemma ca_help_subcommand p : cdo_all (help_subcommand p) = true.
Proof.
  unfold help_subcommand. apply ca_with_sets, ca_with_version, ca_propagate_subcommand.
  rewrite ca_iff. cbn. split; [reflexivity|].
  intros sc Hsc. apply in_app_iff in Hsc. destruct Hsc as [Hsc|[<-|[]]].
  - apply in_map_iff in Hsc. destruct Hsc as (x & <- & Hx). apply ca_copy.
  - reflexivity.
Qed.
Lemma ca_bs_settings c : cdo_all c = true -> cdo_all (bs_settings c) = true.
Proof. intros H. unfold bs_settings. apply ca_with_sets, H. Qed.
Lemma ca_bs_propagate c : cdo_all c = true -> cdo_all (bs_propagate c) = true.
Proof.
  intros H. unfold bs_propagate. apply ca_with_subs; [exact H|].
  intros sc Hsc. apply in_map_iff in Hsc. destruct Hsc as (x & <- & Hx).
  apply ca_propagate_subcommand, (ca_subs c x H Hx).
Qed.
Lemma ca_bs_help_version c : cdo_all c = true -> cdo_all (bs_help_version c) = true.
Proof.
  intros H. unfold bs_help_version.
  set (c1 := if negb (is_set s_dhf c) then with_args c (c_args c ++ [help_arg]) else c).
  assert (H1 : cdo_all c1 = true) by (unfold c1; destruct (negb (is_set s_dhf c)); [apply ca_add_arg|]; auto).
  set (c2 := if negb (is_disable_version_flag_set c1) then with_args c1 (c_args c1 ++ [version_arg]) else c1).
  assert (H2 : cdo_all c2 = true)
    by (unfold c2; destruct (negb (is_disable_version_flag_set c1)); [apply ca_add_arg|]; auto).
  destruct (negb (is_set s_dhs c2)); [|exact H2].
  apply ca_with_subs; [exact H2|]. intros sc Hsc. apply in_app_iff in Hsc.
  destruct Hsc as [Hsc|[<-|[]]]; [exact (ca_subs c2 sc H2 Hsc)|apply ca_help_subcommand].
Qed.
(** the global arguments of a command in the class declare no conflicts: copying them keeps the class of the subcommand *)
Lemma ca_bs_globals c : cdo_all c = true -> cdo_all (bs_globals c) = true.
Proof.
  intros H. unfold bs_globals. apply ca_with_subs; [exact H|].
  intros sc Hsc. apply in_map_iff in Hsc. destruct Hsc as (x & <- & Hx).
  pose proof (ca_subs c x H Hx) as Hxp.
  destruct (beq (c_name x) (lit "help") && negb (is_set s_dhs c)); [exact Hxp|].
  assert (Hg : forall a, In a (filter a_global (c_args c)) -> a_blacklist a = []).
  { intros a Ha. apply filter_In in Ha. destruct Ha as [Ha Hglob]. exact (cdo_global _ a (ca_args c H) Ha Hglob). }
  clear Hx. revert x Hxp Hg. generalize (filter a_global (c_args c)) as gl.
  induction gl as [|a gl IH]; intros x Hxp Hg; [exact Hxp|].
  cbn [fold_left]. apply IH.
  - destruct (is_some (find_arg x (a_id a))); [exact Hxp|apply ca_add_arg; [exact Hxp|apply Hg; now left]].
  - intros a' Ha'. apply Hg. now right.
Qed.
Lemma ca_build_self c : cdo_all c = true -> cdo_all (build_self c) = true.
Proof. intros H. unfold build_self. apply ca_bs_globals, ca_bs_help_version, ca_bs_propagate, ca_bs_settings, H. Qed.
Lemma ca_build_recursive : forall fuel c b, build_recursive fuel c = Some b -> cdo_all c = true -> cdo_all b = true.
Proof.
  induction fuel as [|f IH]; intros c b H Hc; [discriminate|].
  cbn [build_recursive] in H.
  destruct (map_opt (build_recursive f) (c_subs (build_self c))) as [subs|] eqn:E; [|discriminate].
  inversion H; subst b; clear H. pose proof (ca_build_self c Hc) as Hs.
  apply ca_with_subs; [exact Hs|].
  apply map_opt_Forall2 in E.
  assert (Hl : forall z, In z (c_subs (build_self c)) -> cdo_all z = true) by (intros z Hz; exact (ca_subs _ z Hs Hz)).
  clear Hs. revert subs E Hl. generalize (c_subs (build_self c)) as l.
  induction l as [|x l IHl]; intros subs E Hl sc Hsc.
  - inversion E; subst. destruct Hsc.
  - inversion E as [|x' y l' r Hxy Hrest]; subst. destruct Hsc as [<-|Hsc].
    + apply (IH x y Hxy). apply Hl. now left.
    + apply (IHl r Hrest); [|exact Hsc]. intros z Hz. apply Hl. now right.
Qed.
Lemma ca_assign_bins : forall c inh, cdo_all c = true -> cdo_all (assign_bins inh c) = true.
Proof.
  induction c as [n al args subs bin h v s g IH] using cmd_ind'. intros inh Hc.
  rewrite ca_iff in Hc. cbn in Hc. destruct Hc as (Hargs & Hsubs).
  cbn [assign_bins]. rewrite ca_iff. cbn [c_args c_subs]. split; [exact Hargs|].
  intros sc Hsc. apply in_map_iff in Hsc. destruct Hsc as (x & <- & Hx).
  rewrite Forall_forall in IH. apply IH; [exact Hx|exact (Hsubs x Hx)].
Qed.
Theorem ca_build c b : build c = Some b -> cdo_all c = true -> cdo_all b = true.
Proof.
  unfold build. destruct (build_recursive (build_fuel c) c) as [c'|] eqn:E; [|discriminate].
  intros H Hc. inversion H; subst b. apply ca_assign_bins.
  exact (ca_build_recursive _ c c' E Hc).
Qed.
Lemma ca_desc c n : cdo_all c = true -> desc c n -> cdo_all n = true.
Proof.
  intros H Hd. induction Hd as [c sc Hin|c sc m Hin Hd IH].
  - eapply ca_subs; eassumption.
  - apply IH. eapply ca_subs; eassumption.
Qed.
(** every node of a tree in the class is in the local class of [ZshProofs.zsh_ok_local] *)
Lemma ca_local c n : cdo_all c = true -> (n = c \/ desc c n) -> conflicts_local n = true.
Proof.
  intros H Hn. apply cdo_local, ca_args. destruct Hn as [->|Hd]; [exact H|eapply ca_desc; eassumption].
Qed.
(** a tree without any conflict declaration is in the class *)
Lemma ca_no_bl : forall c, args_all no_bl c = true -> cdo_all c = true.
Proof.
  induction c as [n al args subs bin h v s g IH] using cmd_ind'. intros H.
  rewrite aa_iff in H. cbn [c_args c_subs] in H. destruct H as [Ha Hs]. rewrite ca_iff. cbn [c_args c_subs]. split.
  - unfold conflicts_declared_ok. rewrite forallb_forall in *. intros a Hin. specialize (Ha a Hin).
    unfold declares_ok. unfold no_bl in Ha. rewrite Ha. reflexivity.
  - intros sc Hsc. rewrite Forall_forall in IH. apply IH; [exact Hsc|exact (Hs sc Hsc)].
Qed.

(** ---- [generate_zsh] on the user's tree ---- *)
(** [Command::build] takes a user tree with distinct sibling names and aliases, no blank in a subcommand name, no explicit
    bin names, no subcommand called [help] where clap generates one, and conflicts declared by non-global arguments on
    arguments or groups of their own command, into the class [zsh_ok] *)
Theorem build_zsh_ok_conflicts c bin b :
  nb c = true -> bin <> [] -> nospace c -> siblings_ok c -> help_free false c = true -> cdo_all c = true ->
  build (set_bin_name c bin) = Some b -> zsh_ok b bin.
Proof.
  intros Hnb Hne Hsp Hsib Hhf Hcd Hb. destruct (build_linked c bin b Hnb Hne Hb) as [H1 H2].
  assert (Hcb : cdo_all b = true) by (apply (ca_build _ b Hb); unfold set_bin_name; apply ca_with_bin; exact Hcd).
  apply zsh_ok_local; [exact H1|exact H2| | |].
  - apply nospace_names. apply (build_names no_blank c bin b eq_refl Hb). apply nospace_names. exact Hsp.
  - apply siblings_ok_names. exact (build_siblings_ok c bin b Hb Hsib Hhf).
  - intros n Hn. exact (ca_local b n Hcb Hn).
Qed.

(** [generate] as a whole: a script is written, and it is the script of a tree in the class *)
Theorem generate_zsh_ok_conflicts c d bin :
  nb c = true -> bin <> [] -> nospace c -> siblings_ok c -> help_free false c = true -> cdo_all c = true ->
  exists b s, build (set_bin_name c bin) = Some b /\ zsh_ok b bin /\
              generate_zsh c d bin = Some s /\ zsh_script b (dbuild (set_bin_name c bin) d) = Some s.
Proof.
  intros Hnb Hne Hsp Hsib Hhf Hcd.
  destruct (build (set_bin_name c bin)) as [b|] eqn:E; [|exfalso; exact (build_total _ E)].
  pose proof (build_zsh_ok_conflicts c bin b Hnb Hne Hsp Hsib Hhf Hcd E) as Hok.
  destruct (zsh_total b (dbuild (set_bin_name c bin) d) bin (zo_bin _ _ Hok) (zo_linked _ _ Hok)
                      (zo_conflicts_root _ _ Hok) (zo_conflicts _ _ Hok)) as [s Hs].
  exists b, s. split; [reflexivity|]. split; [exact Hok|]. split; [|exact Hs].
  rewrite (generate_zsh_is_built c d bin b E). exact Hs.
Qed.

(** non-vacuity: a user tree with a group, a conflict on the group and on an argument, a global flag and a subcommand that
    receives it *)
Definition zu_glob : arg := zc_flag (lit "verbose") (lit "verbose") [] [] true.
Definition zu_sub : cmd := mkCmd (lit "run") [] [zc_a; zc_b; zc_c] [] None false false sets0 sets0.
Definition zu_root : cmd := mkCmd (lit "p") [] [zu_glob; zc_a; zc_b; zc_c] [zu_sub] None false false sets0 sets0.
Example generate_zsh_ok_conflicts_example :
  nb zu_root = true /\ nospace zu_root /\ siblings_ok zu_root /\ help_free false zu_root = true /\ cdo_all zu_root = true /\
  args_all no_bl zu_root = false /\
  exists s, generate_zsh zu_root cd0 (lit "p") = Some s /\
    binfix (lit "'(--a --bb --a)--c[]' \") s = true /\ binfix (lit "'--verbose[]' \") s = true.
Proof.
  split; [reflexivity|]. split; [apply nospace_names, names_okb_sound; reflexivity|].
  split; [apply siblings_okb_sound; reflexivity|]. split; [reflexivity|]. split; [reflexivity|]. split; [reflexivity|].
  destruct (generate_zsh zu_root cd0 (lit "p")) as [s|] eqn:E; [|vm_compute in E; discriminate].
  exists s. split; [reflexivity|]. vm_compute in E. inversion E; subst s. vm_compute. split; reflexivity.
Qed.
