(** Property C18, round 3: the engine's shadow parse and the parser model agree along prefixes that
    contain OPTIONS, and the end-to-end acceptance theorem for whole lines.

    Part 1  the two models lex a word identically ([to_long], [to_short], [is_escape]).
    Part 2  [shadow_run]: the loop of [complete] as a fold of [shadow_step]; [start_walk] through it.
    Part 3  the engine side of C09's option-prefix items ([ParseProofs/Chain.v]: `--flag`, `--opt=v`,
            `--opt v`, `-abc`, `-ov`, `-o v`): on a level related to the parser's ([lvl_rel]) every item
            brings the shadow parse back to [ValueDone] at the same level and positional index, exactly
            where the parser's token loop is back in [ValuesDone] ([Chain.loop_prefix]).
    Part 4  lines: option prefixes separated by subcommand names ([cline]); both machines reach
            related levels, the engine in [ValueDone], the parser at the start of the token loop.
    Part 5  END TO END: every option / subcommand candidate offered at the cursor, appended to the
            line, is parsed by [parse_top] without UnknownArgument / InvalidSubcommand.
    Part 6  the [require_equals] class boundary.

    Names that exist in both models are the PARSER's when unqualified. *)
From ClapModel Require Import Base.Bytes Base.Machine Base.Utf8 Lex.OsStrExtModel Lex.OsStrExtProofs.
From ClapModel Require Import Complete.EngineModel Complete.EngineProofs.
From ClapModel Require Import Parse.Cmd Parse.Build Parse.Valid Parse.Matcher Parse.Errors Parse.Validator Parse.Parser.
From ClapModel Require Import ParseProofs.Spelling ParseProofs.Dispatch ParseProofs.ErrorSound.
From ClapModel Require Import ParseProofs.Actions ParseProofs.ActionsLoop ParseProofs.ActionsTop ParseProofs.Chain.
From ClapModel Require Import Complete.EngineAccept Complete.EngineLevel.
From ClapModel Require ParseProofs.UnparseProofs ParseProofs.RelationsComplete.
From Coq Require Import ZArith Lia List Bool.
From RecordUpdate Require Import RecordSet.
Import RecordSetNotations.
Import ListNotations.
Open Scope N_scope.

(** * Part 1: one lexer *)

Lemma eq_split (r : bytes) :
  (~ In EngineModel.EQ r) \/ exists n v, r = n ++ EngineModel.EQ :: v /\ ~ In EngineModel.EQ n.
Proof.
  induction r as [|b t IH]; [left; intros []|].
  destruct (N.eq_dec b EngineModel.EQ) as [->|Hb].
  - right. exists [], t. split; [reflexivity|intros []].
  - destruct IH as [IH|[n [v [-> Hn]]]].
    + left. intros [E|Hin]; [exact (Hb E)|exact (IH Hin)].
    + right. exists (b :: n), v. split; [reflexivity|]. intros [E|Hin]; [exact (Hb E)|exact (Hn Hin)].
Qed.

Lemma split_eq_at : forall n v, ~ In EngineModel.EQ n -> split_eq (n ++ EngineModel.EQ :: v) = (n, Some v).
Proof.
  induction n as [|b t IH]; intros v Hn; cbn [app split_eq].
  - rewrite N.eqb_refl. reflexivity.
  - assert (Hb : (b =? EngineModel.EQ) = false) by (apply N.eqb_neq; intros E; apply Hn; left; exact E).
    rewrite Hb, IH by (intros Hin; apply Hn; right; exact Hin). reflexivity.
Qed.

Lemma not_in_mem_n x l : ~ In x l -> mem_n x l = false.
Proof.
  intros H. unfold mem_n. destruct (existsb (N.eqb x) l) eqn:E; [|reflexivity].
  apply existsb_exists in E. destruct E as [y [Hy E]]. apply N.eqb_eq in E. subst y. contradiction.
Qed.

Lemma lex_to_long s : EngineModel.to_long s = to_long s.
Proof.
  unfold EngineModel.to_long, to_long.
  destruct s as [|a [|b r]]; try reflexivity.
  - unfold strip_prefix. cbn [starts_with]. destruct (a =? DASH); reflexivity.
  - destruct ((a =? EngineModel.DASH) && (b =? EngineModel.DASH)) eqn:E.
    + apply andb_true_iff in E. destruct E as [Ea Eb]. apply N.eqb_eq in Ea, Eb. subst a b.
      assert (Hs : strip_prefix (EngineModel.DASH :: EngineModel.DASH :: r) [DASH; DASH] = Some r)
        by (apply strip_prefix_spec; reflexivity).
      rewrite Hs. destruct r as [|c t]; [reflexivity|].
      destruct (eq_split (c :: t)) as [Hn|[n [v [E Hn]]]].
      * rewrite (split_eq_noeq _ Hn).
        pose proof (UnparseProofs.split_eq_none _ (not_in_mem_n _ _ Hn)) as Hso.
        unfold EQ, EngineModel.EQ in *. rewrite Hso. reflexivity.
      * rewrite E, (split_eq_at n v Hn).
        pose proof (UnparseProofs.split_eq_some n v (not_in_mem_n _ _ Hn)) as Hso.
        unfold EQ, EngineModel.EQ in *. rewrite Hso. reflexivity.
    + unfold strip_prefix. cbn [starts_with]. unfold EngineModel.DASH, DASH in *.
      destruct (a =? 45); [|reflexivity]. cbn [andb] in E. rewrite E. reflexivity.
Qed.

Lemma lex_to_short s : EngineModel.to_short s = to_short s.
Proof.
  unfold EngineModel.to_short, to_short, strip_prefix, EngineModel.DASH, DASH.
  destruct s as [|a r]; [reflexivity|]. cbn [starts_with length skipn].
  destruct (a =? 45); [|reflexivity]. cbn [andb].
  destruct r as [|b t]; [reflexivity|]. cbn [starts_with is_nil].
  replace (starts_with t []) with true by (destruct t; reflexivity).
  destruct (b =? 45); reflexivity.
Qed.

Lemma lex_is_escape s : EngineModel.is_escape s = is_escape s.
Proof.
  unfold EngineModel.is_escape, is_escape, EngineModel.DASH, DASH.
  destruct s as [|a [|b [|c t]]]; cbn [beq]; try reflexivity.
  - destruct (a =? 45); reflexivity.
  - destruct (a =? 45), (b =? 45); reflexivity.
  - destruct (a =? 45), (b =? 45); reflexivity.
Qed.

(** * Part 2: the loop of [complete] as a fold *)
Fixpoint shadow_run (toks : list bytes) (cur : cmd) (pi : N) (esc : bool) (st : pstate) (vaf : bool) : step :=
  match toks with
  | [] => SNext cur pi esc st vaf
  | t :: rest =>
      match shadow_step t cur pi esc st vaf with
      | SNext c' p' e' s' v' => shadow_run rest c' p' e' s' v'
      | other => other
      end
  end.

Lemma shadow_run_app a : forall b cur pi esc st vaf,
  shadow_run (a ++ b) cur pi esc st vaf =
  match shadow_run a cur pi esc st vaf with
  | SNext c' p' e' s' v' => shadow_run b c' p' e' s' v'
  | other => other
  end.
Proof.
  induction a as [|t a IH]; intros b cur pi esc st vaf; cbn [app shadow_run]; [reflexivity|].
  destruct (shadow_step t cur pi esc st vaf); try reflexivity. apply IH.
Qed.

Definition walk_of (w : bytes) (s : step) : walk :=
  match s with
  | SNext c p e st v => WAt w c p st e v
  | SPanic x => WPanic x
  | SFuel => WFuel
  end.

Lemma shadow_walk_run : forall pre cursor target cur pi esc st vaf w after,
  cursor + N.of_nat (length pre) + 1 = target -> target <= usize_max ->
  shadow_walk (pre ++ w :: after) cursor target cur pi esc st vaf = walk_of w (shadow_run pre cur pi esc st vaf).
Proof.
  induction pre as [|t pre IH]; intros cursor target cur pi esc st vaf w after Ht Hm; cbn [app shadow_walk shadow_run].
  - cbn [length] in Ht. unfold sat_add.
    replace (N.min (cursor + 1) usize_max) with target by lia.
    rewrite N.eqb_refl. reflexivity.
  - cbn [length] in Ht. unfold sat_add.
    replace (N.min (cursor + 1) usize_max) with (cursor + 1) by lia.
    replace (cursor + 1 =? target) with false by (symmetry; apply N.eqb_neq; lia).
    destruct (shadow_step t cur pi esc st vaf) as [x| |c' p' e' s' v']; try reflexivity.
    apply IH; lia.
Qed.

(** [complete] on `bin line.. w after..` with the cursor on [w] *)
Lemma start_walk_run b bin line w after :
  is_set s_no_binary_name b = false -> N.of_nat (length line) + 2 <= usize_max ->
  start_walk b (bin :: line ++ w :: after) (N.of_nat (S (length line))) =
  walk_of w (shadow_run line b 1 false ValueDone false).
Proof.
  intros Hnb Hlen. unfold start_walk. rewrite Hnb. change (N.to_nat 1) with 1%nat. cbn [skipn].
  apply shadow_walk_run.
  - cbn [length]. rewrite app_length. cbn [length]. unfold sat_add. lia.
  - unfold sat_add. lia.
Qed.

(** * Part 3: the engine side of an option-prefix item *)

(** a pair of levels the simulation runs on: the parser's node [pc] (validated by [assert_app]) and the
    engine's node [cur], related by [lvl_rel]; short aliases sit on options and every aliased argument
    has a long name (the classes of [same_short] / [same_long]) *)
Record elevel (pc cur : cmd) : Prop := mkEl {
  el_rel : lvl_rel pc cur;
  el_app : assert_app pc = true;
  el_sa : short_aliases_on_options pc;
  el_al : aliased_have_long pc }.

Lemma find_none_rel n : forall l l', Forall2 child_rel l l' ->
  find (fun s => aliases_to s n) l = None -> find (fun s => aliases_to s n) l' = None.
Proof.
  induction 1 as [|x y l l' Hxy F IH]; intros Hf; [reflexivity|].
  cbn [find] in *. destruct Hxy as [Hk _]. rewrite <- (aliases_to_key x y n Hk).
  destruct (aliases_to x n); [discriminate|]. apply IH. exact Hf.
Qed.

(** a token the parser does not read as a subcommand is none for the engine either *)
Lemma eng_no_sub pc cur tok b : lvl_rel pc cur -> no_sub pc tok ->
  (if b && utf8_valid tok then find_subcommand cur tok else None) = None.
Proof.
  intros [_ [_ [_ Hsubs]]] Hns. destruct b; [|reflexivity]. destruct (utf8_valid tok) eqn:Hu; [|reflexivity].
  cbn [andb]. specialize (Hns false). unfold possible_subcommand in Hns. rewrite Hu in Hns. cbn [negb] in Hns.
  rewrite andb_false_r in Hns.
  match type of Hns with match ?x with _ => _ end = _ => destruct x end; [discriminate|].
  unfold find_subcommand in *. destruct (find (fun s => aliases_to s tok) (c_subs pc)) eqn:Ef; [discriminate|].
  eapply find_none_rel; eauto.
Qed.

Lemma opt_allows_hyphen_vd arg : opt_allows_hyphen ValueDone arg = false.
Proof. destruct arg; [reflexivity|]. cbn [opt_allows_hyphen]. apply andb_false_r. Qed.

Lemma find_long_el pc cur f a : elevel pc cur -> get_long pc f = Some a ->
  find_long_visible cur f = Some a /\ exists r, a_num a = Some r /\ r_takes_values r = a_takes_value a.
Proof.
  intros [Hrel V Hsa Hal] Hg.
  assert (E : find_long_visible cur f = find_long_visible pc f).
  { unfold find_long_visible. destruct Hrel as [Ha _]. rewrite Ha. reflexivity. }
  rewrite E, (same_long pc f V Hal), Hg. split; [reflexivity|].
  assert (Hin : In a (c_args pc)).
  { apply (find_long_visible_in pc f). rewrite (same_long pc f V Hal). exact Hg. }
  destruct (a_num a) as [r|] eqn:En; [|exfalso; exact (args_ok_num pc a (assert_app_args_ok pc V) Hin En)].
  exists r. split; [reflexivity|]. unfold a_takes_value. rewrite En. reflexivity.
Qed.

Lemma find_short_el pc cur ch a : elevel pc cur -> get_short pc ch = Some a ->
  find_short_visible cur ch = Some a /\ exists r, a_num a = Some r /\ r_takes_values r = a_takes_value a.
Proof.
  intros [Hrel V Hsa Hal] Hg. destruct Hrel as [Ha _].
  rewrite <- (find_short_visible_args pc cur ch Ha), (same_short pc ch V Hsa), Hg. split; [reflexivity|].
  assert (Hin : In a (c_args pc)).
  { apply (find_short_visible_in pc ch). rewrite (same_short pc ch V Hsa). exact Hg. }
  destruct (a_num a) as [r|] eqn:En; [|exfalso; exact (args_ok_num pc a (assert_app_args_ok pc V) Hin En)].
  exists r. split; [reflexivity|]. unfold a_takes_value. rewrite En. reflexivity.
Qed.

Section EngineItems.
Variables pc cur : cmd.
Hypothesis L : elevel pc cur.
Let Hrel : lvl_rel pc cur := el_rel pc cur L.

(** `--flag` / `--opt=v` / `--opt` (alone) *)
Lemma eng_long tok f v a pi evaf :
  no_sub pc tok -> to_long tok = Some (f, true, v) -> get_long pc f = Some a ->
  shadow_step tok cur pi false ValueDone evaf =
  SNext cur pi false (if a_takes_value a && is_none v && negb (a_req_eq a) then Opt a 1 else ValueDone) true.
Proof.
  intros Hns Hl Hg. destruct (find_long_el pc cur f a L Hg) as [Hf [r [Hn Htv]]].
  unfold shadow_step. cbn [negb]. rewrite (eng_no_sub pc cur tok _ Hrel Hns).
  rewrite lex_is_escape, (to_long_not_escape _ _ Hl), opt_allows_hyphen_vd, lex_to_long, Hl.
  cbn iota beta. rewrite Hf, Hn, Htv. destruct (a_takes_value a && is_none v && negb (a_req_eq a)); reflexivity.
Qed.

(** the value token of an option that awaits its single value *)
Lemma is_value_terminator_check a v : is_value_terminator a v = check_terminator a v.
Proof. reflexivity. Qed.

Lemma eng_value v a r pi evaf :
  no_sub pc v -> is_escape v = false -> to_long v = None -> to_short v = None ->
  a_num a = Some r -> r_accepts_more r 1 = false -> check_terminator a v = false ->
  shadow_step v cur pi false (Opt a 1) evaf = SNext cur pi false ValueDone evaf.
Proof.
  intros Hns He Hl Hs Hn Hacc Ht. unfold shadow_step. cbn [negb]. rewrite (eng_no_sub pc cur v _ Hrel Hns).
  rewrite lex_is_escape, He, lex_to_long, Hl, lex_to_short, Hs.
  unfold EngineModel.parse_opt_value. rewrite is_value_terminator_check, Ht, Hn. unfold r_accepts_more in Hacc. rewrite Hacc.
  destruct (opt_allows_hyphen (Opt a 1) v); reflexivity.
Qed.

Lemma next_flag_sf r ch r' : sf_next r = Some (inl ch, r') -> next_flag r = Some (FOk ch, r').
Proof.
  unfold sf_next, next_flag. destruct r as [|b t]; [discriminate|].
  destruct (utf8_step (b :: t)) as [[c n]|]; [|discriminate]. intros H; inversion H; subst. reflexivity.
Qed.

(** `-ov` / `-o` (alone): the first letter is an option that takes a value *)
Lemma eng_short_opt tok r ch r' a pi evaf :
  no_sub pc tok -> is_escape tok = false -> to_long tok = None -> to_short tok = Some r ->
  sf_next r = Some (inl ch, r') -> get_short pc ch = Some a -> a_takes_value a = true ->
  shadow_step tok cur pi false ValueDone evaf =
  SNext cur pi false (if is_nil r' && negb (a_req_eq a) then Opt a 1 else ValueDone) true.
Proof.
  intros Hns He Hl Hs Hnx Hg Htv. destruct (find_short_el pc cur ch a L Hg) as [Hf [r0 [Hn Htv']]].
  unfold shadow_step. cbn [negb]. rewrite (eng_no_sub pc cur tok _ Hrel Hns).
  rewrite lex_is_escape, He, opt_allows_hyphen_vd, lex_to_long, Hl, lex_to_short, Hs.
  unfold parse_shortflags. cbn [parse_shortflags_loop]. rewrite (next_flag_sf _ _ _ Hnx), Hf, Hn, Htv', Htv.
  destruct r'; destruct (a_req_eq a); reflexivity.
Qed.

(** `-abc`: ASCII flags none of which takes a value *)
Lemma utf8_step_ascii ch r : ch < 128 -> utf8_step (ch :: r) = Some (ch, 1%nat).
Proof. intros H. unfold utf8_step. apply N.ltb_lt in H. rewrite H. reflexivity. Qed.

Lemma eng_cluster_loop : forall r os, cluster_flags pc r os -> forall fuel leading, (length r < fuel)%nat ->
  parse_shortflags_loop fuel cur r leading = SFOk (leading ++ r) None [].
Proof.
  induction 1 as [|ch a r os Hlt Hg Htv Hc IH]; intros fuel leading Hf; (destruct fuel as [|f]; [cbn in Hf; lia|]).
  - cbn [parse_shortflags_loop next_flag]. rewrite app_nil_r. reflexivity.
  - destruct (find_short_el pc cur ch a L Hg) as [Hfs [r0 [Hn Htv']]].
    cbn [parse_shortflags_loop]. unfold next_flag. rewrite (utf8_step_ascii ch r Hlt). cbn [skipn].
    rewrite Hfs, Hn, Htv', Htv.
    assert (Ee : utf8_encode ch = [ch]) by (unfold utf8_encode; apply N.ltb_lt in Hlt; rewrite Hlt; reflexivity).
    rewrite Ee, IH by (cbn [length] in Hf; lia). rewrite <- app_assoc. reflexivity.
Qed.

Lemma cluster_ascii : forall r os, cluster_flags pc r os -> forall b, In b r -> b < 128.
Proof. induction 1 as [|ch a r os Hlt Hg Htv Hc IH]; intros b Hb; [destruct Hb|]. destruct Hb as [<-|Hb]; auto. Qed.

Lemma cluster_decode : forall r os, cluster_flags pc r os -> forallb (has_short cur) (decode r) = true.
Proof.
  induction 1 as [|ch a r os Hlt Hg Htv Hc IH]; [reflexivity|].
  rewrite (decode_step _ _ _ (utf8_step_ascii ch r Hlt)). cbn [skipn forallb]. rewrite IH, andb_true_r.
  destruct (find_short_el pc cur ch a L Hg) as [Hfs _]. unfold has_short. rewrite Hfs. reflexivity.
Qed.

Lemma eng_cluster tok os pi evaf : no_sub pc tok -> cluster_token pc tok os ->
  shadow_step tok cur pi false ValueDone evaf = SNext cur pi false ValueDone true.
Proof.
  intros Hns [ch [r [Et [Hne [Hd Hc]]]]]. subst tok.
  assert (E45 : (ch =? 45) = false) by (apply N.eqb_neq; exact Hne).
  assert (Hesc : is_escape (45 :: ch :: r) = false).
  { unfold is_escape, DASH. cbn [beq]. rewrite E45. reflexivity. }
  assert (Hlong : to_long (45 :: ch :: r) = None).
  { unfold to_long, strip_prefix, DASH. cbn [starts_with]. rewrite E45. reflexivity. }
  assert (Hshort : to_short (45 :: ch :: r) = Some (ch :: r)).
  { unfold to_short, strip_prefix, DASH. cbn [starts_with length skipn].
    change ((45 =? 45) && true) with true. cbn iota. cbn [starts_with]. rewrite E45. reflexivity. }
  unfold shadow_step. cbn [negb]. rewrite (eng_no_sub pc cur _ _ Hrel Hns).
  rewrite lex_is_escape, Hesc, opt_allows_hyphen_vd, lex_to_long, Hlong, lex_to_short, Hshort.
  unfold parse_shortflags. rewrite (eng_cluster_loop _ _ Hc) by lia. cbn [app].
  rewrite (cluster_decode _ _ Hc), andb_true_r.
  assert (Hv : utf8_valid (45 :: ch :: r) = true).
  { apply ascii_valid. intros b [<-|Hb]; [reflexivity|]. exact (cluster_ascii _ _ Hc b Hb). }
  rewrite Hv. reflexivity.
Qed.

(** every item of C09's option-prefix class brings the shadow parse back to [ValueDone], same level, same
    positional index *)
Lemma eng_item toks F pi evaf : item pc toks F ->
  shadow_run toks cur pi false ValueDone evaf = SNext cur pi false ValueDone true.
Proof.
  intros Hi. destruct Hi.
  - (* --flag *) cbn [shadow_run]. rewrite (eng_long tok f None a pi evaf) by assumption.
    match goal with H : a_takes_value a = false |- _ => rewrite H end. reflexivity.
  - (* --opt=v *) cbn [shadow_run]. rewrite (eng_long tok f (Some v) a pi evaf) by assumption.
    cbn [is_none]. rewrite andb_false_r. reflexivity.
  - (* --opt v *) cbn [shadow_run]. rewrite (eng_long tok f None a pi evaf) by assumption.
    match goal with H : a_takes_value a = true |- _ => rewrite H end.
    match goal with H : a_req_eq a = false |- _ => rewrite H end. cbn [is_none andb negb].
    rewrite (eng_value v a r pi true) by assumption. reflexivity.
  - (* -abc *) cbn [shadow_run]. rewrite (eng_cluster tok os pi evaf) by assumption. reflexivity.
  - (* -ov *) cbn [shadow_run]. rewrite (eng_short_opt tok r ch (b :: t) a pi evaf) by assumption. reflexivity.
  - (* -o v *) cbn [shadow_run]. rewrite (eng_short_opt tok r0 ch [] a pi evaf) by assumption.
    match goal with H : a_req_eq a = false |- _ => rewrite H end. cbn [is_nil andb negb].
    rewrite (eng_value v a r pi true) by assumption. reflexivity.
Qed.

(** ... hence every option prefix does; the engine's [valid_arg_found] moves as the parser's does *)
Theorem eng_prefix pre F : prefix_ok pc pre F -> forall pi evaf,
  shadow_run pre cur pi false ValueDone evaf = SNext cur pi false ValueDone (evaf || negb (is_nil pre)).
Proof.
  induction 1 as [|toks F pre G Hi Hp IH]; intros pi evaf.
  - cbn [shadow_run is_nil negb]. rewrite orb_false_r. reflexivity.
  - rewrite shadow_run_app, (eng_item toks F pi evaf Hi), IH.
    pose proof (item_nonempty pc toks F Hi) as Hne. destruct toks as [|t0 ts]; [discriminate|].
    cbn [app is_nil negb orb]. rewrite orb_true_r. reflexivity.
Qed.
End EngineItems.

(** * Part 4: lines = option prefixes separated by subcommand names *)

(** the class of a parser level on the line: validated, short aliases on options, aliased arguments have a
    long name, arguments do not forbid subcommands ([args_conflicts_with_subcommands] off) *)
Record lvl18 (pc : cmd) : Prop := mkL18 {
  l_app : assert_app pc = true;
  l_sa : short_aliases_on_options pc;
  l_al : aliased_have_long pc;
  l_neg : is_set s_args_negate_subs pc = false }.

(** [cline pc line pcf]: [line] is `pre_0 n_1 pre_1 ... n_k pre_k` for the parser's (built) level [pc]: every
    [pre_i] an option prefix ([Chain.opt_prefix]) of the level reached, every [n_i] a name or alias of a
    subcommand of that level which is not called [help]; [pcf] is the lazily built level after [n_k] *)
Inductive cline : cmd -> list bytes -> cmd -> Prop :=
| cl_here pc pre : lvl18 pc -> opt_prefix pc pre -> cline pc pre pc
| cl_down pc pre tok sc0 pc' rest pcf :
    lvl18 pc -> opt_prefix pc pre -> utf8_valid tok = true -> find_subcommand pc tok = Some sc0 ->
    aliases_to sc0 s_help = false ->
    build_subcommand pc (c_name sc0) = Some pc' -> cline pc' rest pcf -> cline pc (pre ++ tok :: rest) pcf.

Lemma lvl18_el pc cur : lvl18 pc -> lvl_rel pc cur -> elevel pc cur.
Proof. intros [V Hsa Hal _] Hrel. constructor; assumption. Qed.

Lemma not_help_name sc0 : aliases_to sc0 s_help = false -> c_name sc0 <> s_help.
Proof.
  unfold aliases_to. intros H E. rewrite E, beq_refl in H. discriminate.
Qed.

(** STATE AGREEMENT, engine side: along a line the shadow parse ends in [ValueDone], not escaped, at a level
    related to the parser's final level *)
Theorem eng_line pc line pcf : cline pc line pcf -> forall cur pi evaf, lvl_rel pc cur ->
  exists curf pif evf, shadow_run line cur pi false ValueDone evaf = SNext curf pif false ValueDone evf /\ lvl_rel pcf curf.
Proof.
  induction 1 as [pc pre Hl [F Hp]|pc pre tok sc0 pc' rest pcf Hl [F Hp] Hu Hf Hnh Hb Hline IH]; intros cur pi evaf Hrel.
  - exists cur, pi, (evaf || negb (is_nil pre)). split; [|exact Hrel]. apply (eng_prefix pc cur (lvl18_el pc cur Hl Hrel) pre F Hp).
  - rewrite shadow_run_app, (eng_prefix pc cur (lvl18_el pc cur Hl Hrel) pre F Hp). cbn [shadow_run].
    assert (Hev : (is_set s_args_negate_subs pc && (evaf || negb (is_nil pre))) = false) by (rewrite (l_neg pc Hl); reflexivity).
    destruct (level_step_sub pc cur tok sc0 pi _ Hrel (l_app pc Hl) Hu Hf (not_help_name sc0 Hnh) Hev)
      as [es [pc'' [Hstep [Hb' [Hrel' _]]]]].
    rewrite Hb in Hb'. inversion Hb'; subst pc''. rewrite Hstep. apply IH. exact Hrel'.
Qed.

(** ** the parser side *)
Definition no_unknown (r : res ps) : Prop := forall e st, r = RErr e st -> unknown_kind (e_kind e) -> False.

Definition dispatch_lr (f : nat) (c : cmd) (lr : loop_res) : res ps :=
  match lr with
  | LDone st => ROk st
  | LSub name keep vaf st rest => after_sub f c name keep vaf st rest
  | LHelpSub names st => RErr (help_walk c names) st
  | LExternal name vals st => external_matches c name vals st
  end.

Lemma parsed_of_dispatch f c toks st0 :
  parsed_of f c toks st0 = (do lr <- parse_loop c toks (lsV 1 false) st0; dispatch_lr f c lr).
Proof. reflexivity. Qed.

(** the phases after the token loop (flush, environment, defaults, validation) never report an unknown token *)
Lemma post_no_unknown c parsed : no_unknown parsed -> no_unknown (post c parsed).
Proof.
  intros Hp e st H Hk. destruct parsed as [s|e0 s|x]; cbn [post] in H.
  - destruct (resolve_pending c s) as [s1|e1 s1'|x1] eqn:E1; cbn [rbind] in H; try discriminate.
    2:{ inversion H; subst. eapply reaction_not_unknown; [eapply resolve_pending_err; eauto|exact Hk]. }
    destruct (add_env c s1) as [s2|e2 s2'|x2] eqn:E2; cbn [rbind] in H; try discriminate.
    2:{ inversion H; subst. eapply reaction_not_unknown; [eapply add_env_err; eauto|exact Hk]. }
    destruct (add_defaults c s2) as [s3|e3 s3'|x3] eqn:E3; cbn [rbind] in H; try discriminate.
    2:{ inversion H; subst. eapply reaction_not_unknown; [eapply add_defaults_err; eauto|exact Hk]. }
    eapply validate_not_unknown; eauto.
  - assert (He : e = e0).
    { exact (post_err_same_error _ _ _ _ _ H). }
    subst e0. eapply Hp; [reflexivity|exact Hk].
  - discriminate.
Qed.

Lemma react_all_err c : forall os st e s, react_all c os st = RErr e s -> reaction_error c e.
Proof.
  induction os as [|o t IH]; intros st e s H; cbn [react_all] in H; [discriminate|].
  destruct (react c (o_ident o) (o_src o) (o_arg o) (o_raw o) (o_ti o) st) as [x|e1 s1|x1] eqn:E; cbn [rbind] in H.
  - eapply IH; eauto.
  - inversion H; subst. eapply react_err; eauto.
  - discriminate.
Qed.

Lemma item_err c toks F : item c toks F -> forall st e s, F st = RErr e s -> reaction_error c e.
Proof.
  intros Hi st e s H. destruct Hi; try (eapply react_all_err; exact H).
  all: unfold sep_fn in H; destruct (resolve_pending c st) as [st1|e1 s1|x] eqn:E; cbn [rbind] in H; try discriminate;
    inversion H; subst; eapply resolve_pending_err; eauto.
Qed.

Lemma prefix_err c pre F : prefix_ok c pre F -> forall st e s, F st = RErr e s -> reaction_error c e.
Proof.
  induction 1 as [|toks F pre G Hi Hp IH]; intros st e s H; [discriminate|].
  destruct (F st) as [st1|e1 s1|x] eqn:E; cbn [rbind] in H.
  - eapply IH; eauto.
  - inversion H; subst. eapply item_err; eauto.
  - discriminate.
Qed.

(** one level: an option prefix, then [tail] *)
Lemma gmw_level c pre F tail : prefix_ok c pre F ->
  (forall f vaf st, fs_skip st = 0 -> no_unknown (do lr <- parse_loop c tail (lsV 1 vaf) st; dispatch_lr f c lr)) ->
  forall f st0, fs_skip st0 = 0 -> no_unknown (get_matches_with f c (pre ++ tail) st0).
Proof.
  intros Hp Ht f st0 Hfs. destruct f as [|f]; [intros e st H; discriminate H|].
  rewrite gmw_unfold. apply post_no_unknown. rewrite parsed_of_dispatch.
  rewrite (loop_prefix c pre F Hp tail 1 false st0 Hfs).
  destruct (F st0) as [st'|e1 s1|x] eqn:EF; cbn [rbind].
  - apply Ht. rewrite (prefix_fs c pre F Hp _ _ EF). exact Hfs.
  - intros e st H Hk. inversion H; subst. eapply reaction_not_unknown; [eapply prefix_err; eauto|exact Hk].
  - intros e st H. discriminate H.
Qed.

Lemma gmw_nil f c st0 : no_unknown (get_matches_with f c [] st0).
Proof.
  destruct f as [|f]; [intros e st H; discriminate H|].
  rewrite gmw_unfold. apply post_no_unknown. intros e st H. discriminate H.
Qed.

(** the dispatch to a child whose own run reports no unknown token *)
Lemma after_sub_no_unknown f c n vaf st rest sc0 pc' :
  is_set s_args_negate_subs c = false -> find_subcommand c n = Some sc0 ->
  build_subcommand c (c_name sc0) = Some pc' ->
  no_unknown (get_matches_with f pc' rest ps_new) ->
  no_unknown (after_sub f c n false vaf st rest).
Proof.
  intros Hneg Hf Hb Hc e s H Hk. unfold after_sub in H. rewrite Hneg, Hf in H. cbn [andb expect rbind] in H.
  rewrite Hb in H. destruct (negb (assert_app pc')); [discriminate|].
  change (sub_init false st) with ps_new in H.
  destruct (get_matches_with f pc' rest ps_new) as [s1|e1 s1|x] eqn:Eg; try discriminate.
  destruct (is_set s_ignore_errors c); [discriminate|]. inversion H; subst. eapply Hc; [reflexivity|exact Hk].
Qed.

(** a line, then [tail] at the final level *)
Theorem parse_line pc line pcf : cline pc line pcf -> forall tail,
  (forall f vaf st, fs_skip st = 0 -> no_unknown (do lr <- parse_loop pcf tail (lsV 1 vaf) st; dispatch_lr f pcf lr)) ->
  forall f st0, fs_skip st0 = 0 -> no_unknown (get_matches_with f pc (line ++ tail) st0).
Proof.
  induction 1 as [pc pre Hl [F Hp]|pc pre tok sc0 pc' rest pcf Hl [F Hp] Hu Hf Hnh Hb Hline IH]; intros tail Ht.
  - apply (gmw_level pc pre F tail Hp Ht).
  - rewrite <- app_assoc. cbn [app]. apply (gmw_level pc pre F (tok :: rest ++ tail) Hp).
    intros f vaf st Hfs.
    assert (Hin : In sc0 (c_subs pc) /\ aliases_to sc0 tok = true) by (apply find_some in Hf; exact Hf).
    destruct Hin as [Hin Hal].
    assert (Hng : (is_set s_args_negate_subs pc && vaf) = false) by (rewrite (l_neg pc Hl); reflexivity).
    destruct (accept_sub_step pc sc0 tok (rest ++ tail) 1 vaf st (l_app pc Hl) Hin Hal Hu Hng)
      as [n' [Ha' [Hf' [_ Hloop]]]].
    unfold lsV. rewrite Hloop.
    assert (Hn' : beq n' s_help = false).
    { apply beq_neq. intros ->. rewrite Ha' in Hnh. discriminate. }
    rewrite Hn'. cbn [andb rbind dispatch_lr].
    apply (after_sub_no_unknown f pc n' vaf st (rest ++ tail) sc0 pc' (l_neg pc Hl) Hf' Hb).
    apply IH; [exact Ht|reflexivity].
Qed.

(** * Part 5: the candidate at the end of the line *)

(** no subcommand name or alias of the level starts with [-] (then no dash-word is read as a subcommand) *)
Definition subs_plain (pc : cmd) : Prop :=
  forall s n, In s (c_subs pc) -> In n (c_name s :: all_aliases s) -> hd 0 n <> DASH.

Lemma prefix_hd tok n : is_prefix tok n = true -> tok <> [] -> hd 0 n = hd 0 tok.
Proof.
  unfold is_prefix. intros H Hne. apply starts_with_spec in H. destruct H as [t ->].
  destruct tok; [contradiction|reflexivity].
Qed.

Lemma dash_no_sub pc r vaf : subs_plain pc -> possible_subcommand pc (DASH :: r) vaf = None.
Proof.
  intros Hp. unfold possible_subcommand.
  destruct (negb (utf8_valid (DASH :: r))); [reflexivity|].
  destruct (is_set s_args_negate_subs pc && vaf); [reflexivity|].
  assert (Hfm : Cmd.filter_map (fun s => if is_prefix (DASH :: r) (c_name s) then Some (c_name s)
                                     else List.find (is_prefix (DASH :: r)) (all_aliases s)) (c_subs pc) = []).
  { assert (G : forall l, (forall s, In s l -> In s (c_subs pc)) ->
               Cmd.filter_map (fun s => if is_prefix (DASH :: r) (c_name s) then Some (c_name s)
                                    else List.find (is_prefix (DASH :: r)) (all_aliases s)) l = []).
    { induction l as [|s t IH]; intros Hin; [reflexivity|]. cbn [Cmd.filter_map].
      destruct (is_prefix (DASH :: r) (c_name s)) eqn:E1.
      - exfalso. apply (Hp s (c_name s)); [apply Hin; left; reflexivity|left; reflexivity|].
        rewrite (prefix_hd _ _ E1); [reflexivity|discriminate].
      - destruct (List.find (is_prefix (DASH :: r)) (all_aliases s)) as [al|] eqn:E2.
        + exfalso. apply find_some in E2. destruct E2 as [Hal E2].
          apply (Hp s al); [apply Hin; left; reflexivity|right; exact Hal|].
          rewrite (prefix_hd _ _ E2); [reflexivity|discriminate].
        + apply IH. intros x Hx. apply Hin. right. exact Hx. }
    apply G. auto. }
  rewrite Hfm. cbn [first_unique].
  assert (Hfs : find_subcommand pc (DASH :: r) = None).
  { unfold find_subcommand. destruct (List.find (fun s => aliases_to s (DASH :: r)) (c_subs pc)) as [s|] eqn:E; [|reflexivity].
    exfalso. apply find_some in E. destruct E as [Hin Ha]. apply aliases_to_names in Ha.
    apply (Hp s (DASH :: r) Hin Ha). reflexivity. }
  rewrite Hfs. destruct (is_set s_infer_sub pc); reflexivity.
Qed.

(** the first positional of the level does not want negative numbers *)
Definition negnum_free (pc : cmd) : Prop :=
  match get_pos pc 1 with Some p => a_negnum p = false | None => True end.

Lemma typed_known_args pc cur w : c_args pc = c_args cur -> typed_known pc w -> typed_known cur w.
Proof. unfold typed_known, has_short, find_short_visible. intros Ha. rewrite Ha. auto.
Qed.

(** the tail [[candidate]] after an accepted occurrence head: the loop ends, nothing unknown *)
Lemma after_opt_nil f c a h pos : occ_head c a h ->
  no_unknown (do lr <- after_opt c [] pos h; dispatch_lr f c lr).
Proof.
  intros [Hr He] e st H Hk. destruct h as [[st1 pr]|e1 s1|n1]; cbn [after_opt] in H.
  - destruct (Hr st1 pr eq_refl) as [->|[->| ->]]; cbn [parse_loop rbind dispatch_lr] in H; try discriminate.
    destruct (resolve_pending_ignore c st1) as [s2|e2 s2|n2] eqn:Er; cbn [rbind] in H.
    + inversion H; subst. destruct Hk as [Hk|Hk]; discriminate Hk.
    + eapply resolve_pending_ignore_not_err; eauto.
    + discriminate.
  - cbn [rbind] in H. inversion H; subst. eapply reaction_not_unknown; [eapply He; reflexivity|exact Hk].
  - discriminate.
Qed.

(** what is assumed of the candidate and of the level it is offered at ([pcf] = the parser's final level):
    an option candidate - the typed cluster consists of known flags, the argument carrying the id has
    well-formed names (that it is an option, not a positional, follows: [cand_not_positional]), no subcommand
    name starts with [-], the first positional does not want negative numbers; a subcommand candidate - its spelling is UTF-8.  Value candidates (no id) are not the
    subject of the acceptance clause. *)
Definition cand_class (pcf : cmd) (w : bytes) (cd : cand) : Prop :=
  match cd_id cd with
  | Some (IdArg aid) =>
      typed_known pcf w /\ subs_plain pcf /\ negnum_free pcf /\
      forall a, In a (c_args pcf) -> a_id a = aid -> names_wf a
  | Some (IdCmd n) => utf8_valid (cd_value cd) = true
  | None => False
  end.

Lemma cand_dash tbl w cur pi l cd aid :
  complete_arg tbl w cur pi ValueDone = COk l -> In cd l -> cd_id cd = Some (IdArg aid) ->
  exists r, cd_value cd = DASH :: r.
Proof.
  intros Hc Hin Hid. pose proof (value_done_sound tbl w cur pi l Hc cd Hin) as Hs.
  unfold cand_sound in Hs. rewrite Hid in Hs. destruct Hs as [_ [a [_ [_ Hn]]]].
  destruct Hn as [[s [Hv _]]|[lead [s [Hv _]]]]; rewrite Hv; eexists; reflexivity.
Qed.

(** an option candidate stands for an OPTION of the level (the argument with its id is not a positional): a long
    spelling needs a long name or aliases (then a long name: [aliased_have_long]), a short spelling a short name or
    short aliases (on options only: [short_aliases_on_options]); ids are unique ([assert_app]) *)
Lemma cand_not_positional tbl w cur pi l cd aid pc : lvl18 pc -> c_args pc = c_args cur ->
  complete_arg tbl w cur pi ValueDone = COk l -> In cd l -> cd_id cd = Some (IdArg aid) ->
  forall a, In a (c_args pc) -> a_id a = aid -> a_is_positional a = false.
Proof.
  intros Hl Hargs Hc Hin Hid.
  assert (Hsrc : exists a0, In a0 (c_args pc) /\ a_id a0 = aid /\ a_is_positional a0 = false).
  { cbn [complete_arg] in Hc. destruct (value_done_inv _ _ _ _ _ Hc) as [posv [opts [Hpos [Ho ->]]]].
    apply finish_incl in Hin. apply in_app_or in Hin. destruct Hin as [Hin|Hin].
    { exfalso. destruct (utf8_valid w); [|destruct Hin].
      unfold complete_subcommand in Hin. rewrite dedup_adjacent_in, sort_cands_in, filter_In in Hin.
      destruct Hin as [Hin _]. destruct (subcommands_in cur cd Hin) as [sc [n [_ [_ [Hi _]]]]]. congruence. }
    apply in_app_or in Hin. destruct Hin as [Hin|Hin]; [rewrite (Hpos cd Hin) in Hid; discriminate|].
    assert (Hnn : cd_id cd <> None) by (rewrite Hid; discriminate).
    assert (Hlong : forall a0 s, In a0 (c_args pc) -> (a_long a0 = Some s \/ In s (map fst (a_aliases a0))) ->
                    a_is_positional a0 = false).
    { intros a0 s Ha0 Hs. unfold a_is_positional.
      assert (Hsome : a_long a0 <> None).
      { destruct Hs as [Hs|Hs]; [rewrite Hs; discriminate|].
        apply (l_al pc Hl a0 Ha0). intros E. rewrite E in Hs. destruct Hs. }
      destruct (a_long a0); [reflexivity|contradiction]. }
    destruct (complete_option_shape tbl w cur opts cd Ho Hin Hnn) as [[Hx|Hx]|[y [lead [Hy [Hx _]]]]].
    - destruct (longs_in cur cd Hx) as [a0 [s [Ha0 [-> Hs]]]]. rewrite <- Hargs in Ha0.
      cbn [cd_id populate_arg_candidate] in Hid. inversion Hid as [Haid].
      exists a0. split; [exact Ha0|]. split; [reflexivity|]. exact (Hlong a0 s Ha0 Hs).
    - destruct (hidden_longs_in cur cd Hx) as [a0 [s [Ha0 [-> Hs]]]]. rewrite <- Hargs in Ha0.
      cbn [cd_id hide populate_arg_candidate] in Hid. inversion Hid as [Haid].
      exists a0. split; [exact Ha0|]. split; [reflexivity|]. exact (Hlong a0 s Ha0 (or_intror Hs)).
    - destruct (shorts_in cur y Hy) as [a0 [s [Ha0 [-> Hs]]]]. rewrite <- Hargs in Ha0. subst cd.
      cbn [cd_id add_prefix populate_arg_candidate] in Hid. inversion Hid as [Haid].
      exists a0. split; [exact Ha0|]. split; [reflexivity|].
      destruct Hs as [Hs|Hs].
      + unfold a_is_positional. rewrite Hs. cbn [is_some negb]. apply andb_false_r.
      + apply (l_sa pc Hl a0 Ha0). intros E. rewrite E in Hs. destruct Hs. }
  destruct Hsrc as [a0 [Ha0 [Hid0 Hp0]]]. intros a Ha Haid.
  pose proof (RelationsComplete.assert_app_find_arg pc (l_app pc Hl) a Ha) as F1.
  pose proof (RelationsComplete.assert_app_find_arg pc (l_app pc Hl) a0 Ha0) as F2.
  rewrite Haid in F1. rewrite Hid0 in F2. rewrite F1 in F2. inversion F2; subst. exact Hp0.
Qed.

(** the final level: the candidate as the last token *)
Theorem final_tail tbl w curf pif l cd pcf : lvl18 pcf -> lvl_rel pcf curf ->
  complete_arg tbl w curf pif ValueDone = COk l -> In cd l -> cand_class pcf w cd ->
  forall f vaf st, fs_skip st = 0 ->
    no_unknown (do lr <- parse_loop pcf [cd_value cd] (lsV 1 vaf) st; dispatch_lr f pcf lr).
Proof.
  intros Hl Hrel Hc Hin Hcc f vaf st Hfs.
  pose proof (lvl_rel_same_level pcf curf Hrel) as Hsl.
  unfold cand_class in Hcc. destruct (cd_id cd) as [[aid|n]|] eqn:Hid; [| |contradiction].
  - destruct Hcc as [Htk [Hsp [Hnn Hwf]]].
    destruct (option_candidate_step tbl w curf pif l cd aid pcf (l_app pcf Hl) (l_sa pcf Hl) Hsl Hc Hin Hid
                (typed_known_args pcf curf w (proj1 Hsl) Htk)) as [a [Ha [Haid H]]].
    pose proof (Hwf a Ha Haid) as Hn.
    pose proof (cand_not_positional tbl w curf pif l cd aid pcf Hl (proj1 Hsl) Hc Hin Hid a Ha Haid) as Hp.
    destruct (cand_dash tbl w curf pif l cd aid Hc Hin Hid) as [r Er].
    assert (Hq : quiet_state pcf (cd_value cd) 1 vaf st).
    { split; [rewrite Er; apply dash_no_sub; exact Hsp|]. split; [exact Hfs|].
      unfold negnum_free in Hnn. destruct (get_pos pcf 1); [rewrite Hnn|]; reflexivity. }
    destruct (H Hp Hn 1 vaf st Hq) as [h [Hocc Heq]]. unfold lsV. rewrite (Heq []).
    apply (after_opt_nil f pcf a h 1 Hocc).
  - destruct (subcommand_candidate_accepted tbl w curf pif l cd n pcf (l_app pcf Hl) Hsl Hc Hin Hid)
      as [sc [Hsc [Hn [Hal Hacc]]]].
    assert (Hng : (is_set s_args_negate_subs pcf && vaf) = false) by (rewrite (l_neg pcf Hl); reflexivity).
    destruct (Hacc Hcc [] 1 vaf st Hng) as [n' [Ha' [Hf' [_ Hloop]]]].
    unfold lsV. rewrite Hloop.
    destruct (beq n' s_help && negb (is_set s_disable_help_sub pcf)); cbn [rbind dispatch_lr].
    + intros e s H Hk. inversion H; subst. cbn in Hk. destruct Hk as [Hk|Hk]; discriminate Hk.
    + intros e s H Hk. unfold after_sub in H. rewrite Hng, Hf' in H. cbn [expect rbind] in H.
      destruct (build_subcommand pcf (c_name sc)) as [pc'|]; [|discriminate].
      destruct (negb (assert_app pc')); [discriminate|].
      destruct (get_matches_with f pc' [] (sub_init false st)) as [s1|e1 s1|x] eqn:Eg; try discriminate.
      destruct (is_set s_ignore_errors pcf); [discriminate|]. inversion H; subst.
      exact (gmw_nil _ _ _ _ _ Eg Hk).
Qed.

(** ** the root: [build_self] keeps [NoBinaryName]; the parser's root and the engine's are related *)
Lemma nbn_settings x : is_set s_no_binary_name (bs_settings x) = is_set s_no_binary_name x.
Proof.
  destruct x as [n al sf lf sfa lfa ar gr su cs gs v lv ev bn dn ab lab]. destruct cs, gs.
  destruct ev, su, s_args_negate_subs, s_args_negate_subs0, s_no_binary_name, s_no_binary_name0; reflexivity.
Qed.

Lemma build_self_nbn c : is_set s_no_binary_name (build_self c) = is_set s_no_binary_name c.
Proof.
  unfold build_self. destruct (s_built (c_set c)); [reflexivity|].
  rewrite <- (nbn_settings c). generalize (bs_settings c). intros x.
  assert (H1 : forall y, is_set s_no_binary_name (bs_mark y) = is_set s_no_binary_name y)
    by (intros y; destruct y as [n al sf lf sfa lfa ar gr su cs gs v lv ev bn dn ab lab]; destruct cs; reflexivity).
  assert (H2 : forall y, is_set s_no_binary_name (bs_deprecated y) = is_set s_no_binary_name y) by (intros y; destruct y; reflexivity).
  assert (H3 : forall y, is_set s_no_binary_name (bs_args y) = is_set s_no_binary_name y) by (intros y; destruct y; reflexivity).
  assert (H4 : forall y, is_set s_no_binary_name (bs_globals y) = is_set s_no_binary_name y) by (intros y; destruct y; reflexivity).
  assert (H5 : forall y, is_set s_no_binary_name (bs_help_version y) = is_set s_no_binary_name y).
  { intros y. rewrite hv_steps. unfold hv3, hv2, hv1.
    repeat match goal with |- context [if ?b then _ else _] => destruct b end; destruct y; reflexivity. }
  assert (H6 : forall y, is_set s_no_binary_name (bs_propagate y) = is_set s_no_binary_name y) by (intros y; destruct y; reflexivity).
  rewrite H1, H2, H3, H4, H5, H6. reflexivity.
Qed.

Lemma with_bin_cases c0 bin : with_bin c0 bin = c0 \/ with_bin c0 bin = setnm (Some bin) (c_display_name c0) c0.
Proof.
  unfold with_bin. destruct (c_bin_name c0); [left; reflexivity|].
  destruct (utf8_valid bin && negb (is_nil bin)); [right; destruct c0; reflexivity|left; reflexivity].
Qed.

Lemma root_rel f c0 bin b : tree_all unb c0 -> build_full f c0 = BOk b -> lvl_rel (build_self (with_bin c0 bin)) b.
Proof.
  intros Hu Hb. pose proof (level_root f c0 b Hu Hb) as H.
  destruct (with_bin_cases c0 bin) as [-> | ->]; [exact H|].
  rewrite nm_build_self. apply lvl_rel_setnm. exact H.
Qed.

(** the engine's state at the cursor of a whole line: [ValueDone], before `--`, at a level related to the parser's *)
Theorem shadow_line c0 bin line w after pcf f b :
  tree_all unb c0 -> is_set s_no_binary_name c0 = false -> N.of_nat (length line) + 2 <= usize_max ->
  build_full f c0 = BOk b -> cline (build_self (with_bin c0 bin)) line pcf ->
  exists curf pif evf, start_walk b (bin :: line ++ w :: after) (N.of_nat (S (length line))) = WAt w curf pif ValueDone false evf
                   /\ lvl_rel pcf curf.
Proof.
  intros Hu Hnb Hlen Hb Hline.
  pose proof (root_rel _ c0 bin b Hu Hb) as Hrel.
  assert (Hnb' : is_set s_no_binary_name b = false).
  { rewrite <- (lvl_rel_is_set _ _ s_no_binary_name Hrel), build_self_nbn.
    destruct (with_bin_cases c0 bin) as [-> | ->]; [exact Hnb|]. destruct c0; exact Hnb. }
  rewrite (start_walk_run b bin line w after Hnb' Hlen).
  destruct (eng_line _ line pcf Hline b 1 false Hrel) as [curf [pif [evf [Hrun Hrelf]]]].
  exists curf, pif, evf. rewrite Hrun. split; [reflexivity|exact Hrelf].
Qed.

(** * END TO END *)
Theorem candidate_accepted_line tbl c0 bin line w after l cd pcf e :
  tree_all unb c0 -> is_set s_no_binary_name c0 = false ->
  N.of_nat (length line) + 2 <= usize_max ->
  cline (build_self (with_bin c0 bin)) line pcf ->
  complete_model tbl c0 (bin :: line ++ w :: after) (N.of_nat (S (length line))) = COk l ->
  In cd l -> cand_class pcf w cd ->
  parse_top c0 (bin :: line ++ [cd_value cd]) = OErr e -> ~ unknown_kind (e_kind e).
Proof.
  intros Hu Hnb Hlen Hline Hm Hin Hcc Hp Hk.
  destruct (model_ok_inv tbl c0 _ _ l Hm) as [b [w' [cur [pi [st [esc [vaf [Hb [Hw [_ Hc]]]]]]]]]].
  pose proof (root_rel _ c0 bin b Hu Hb) as Hrel.
  assert (Hnb' : is_set s_no_binary_name b = false).
  { rewrite <- (lvl_rel_is_set _ _ s_no_binary_name Hrel), build_self_nbn.
    destruct (with_bin_cases c0 bin) as [-> | ->]; [exact Hnb|]. destruct c0; exact Hnb. }
  rewrite (start_walk_run b bin line w after Hnb' Hlen) in Hw.
  destruct (eng_line _ line pcf Hline b 1 false Hrel) as [curf [pif [evf [Hrun Hrelf]]]].
  rewrite Hrun in Hw. cbn [walk_of] in Hw. inversion Hw; subst w' cur pi st esc vaf. clear Hw.
  assert (Hlf : lvl18 pcf).
  { clear - Hline. induction Hline; assumption. }
  assert (Hcut : sub_cut curf evf = curf).
  { unfold sub_cut. rewrite <- (lvl_rel_is_set pcf curf s_args_negate_subs Hrelf), (l_neg pcf Hlf). reflexivity. }
  rewrite Hcut in Hc.
  rewrite (parse_top_unfold c0 bin _ Hnb) in Hp. unfold do_parse in Hp.
  destruct (negb (valid (with_bin c0 bin))); [discriminate|].
  match type of Hp with match ?g with _ => _ end = _ => destruct g as [s1|e1 s1|x] eqn:Eg end.
  - discriminate.
  - assert (e1 = e).
    { destruct (is_set s_ignore_errors (build_self (with_bin c0 bin)) && use_stderr (e_kind e1)); [discriminate|].
      inversion Hp; reflexivity. }
    subst e1.
    refine (parse_line _ line pcf Hline [cd_value cd] _ _ ps_new eq_refl e s1 Eg Hk).
    apply (final_tail tbl w curf pif l cd pcf Hlf Hrelf Hc Hin Hcc).
  - destruct x; discriminate.
Qed.

(** * STATE AGREEMENT, stated for both machines *)

(** after an option prefix: the engine is back in [ValueDone] (same level, same positional index, not escaped)
    and the parser's token loop is back in [ValuesDone] (same positional counter, `--` not seen) *)
Theorem state_agreement_prefix pc cur pre F : elevel pc cur -> prefix_ok pc pre F ->
  (forall pi vaf, shadow_run pre cur pi false ValueDone vaf = SNext cur pi false ValueDone (vaf || negb (is_nil pre))) /\
  (forall rest pos vaf st, fs_skip st = 0 ->
     parse_loop pc (pre ++ rest) (lsV pos vaf) st =
     (do st' <- F st; parse_loop pc rest (lsV pos (vaf || negb (is_nil pre))) st')).
Proof.
  intros L Hp. split; [apply (eng_prefix pc cur L pre F Hp)|apply (loop_prefix pc pre F Hp)].
Qed.

(** the token that opens an option: `--opt` / `-o` of an option that takes a value, without [require_equals] *)
Inductive open_tok (c : cmd) : bytes -> arg -> ident -> Prop :=
| ot_long tok f a : no_sub c tok -> to_long tok = Some (f, true, None) -> get_long c f = Some a ->
    a_takes_value a = true -> a_req_eq a = false -> open_tok c tok a ILong
| ot_short tok r ch a : no_sub c tok -> is_escape tok = false -> to_long tok = None -> to_short tok = Some r ->
    sf_next r = Some (inl ch, []) -> get_short c ch = Some a -> a_takes_value a = true -> a_req_eq a = false ->
    no_hyphen c -> open_tok c tok a IShort.

(** ... then the engine stands in [Opt a 1] exactly when the parser stands in [PSOpt (a_id a)] - the SAME argument -
    with an empty pending occurrence *)
Theorem state_agreement_open pc cur pre F tok a idn : elevel pc cur -> prefix_ok pc pre F -> open_tok pc tok a idn ->
  (forall pi vaf, shadow_run (pre ++ [tok]) cur pi false ValueDone vaf = SNext cur pi false (Opt a 1) true) /\
  (forall rest pos vaf st, fs_skip st = 0 ->
     parse_loop pc (pre ++ tok :: rest) (lsV pos vaf) st =
     (do st' <- F st; do st1 <- resolve_pending pc st';
      parse_loop pc rest (mkL (PSOpt (a_id a)) pos true false)
        (st1 <| mt := (mt st1) <| mt_pending := Some (mkPending (a_id a) (Some idn) [] None) |> |>))).
Proof.
  intros L Hp Ho. split.
  - intros pi vaf. rewrite shadow_run_app, (eng_prefix pc cur L pre F Hp). cbn [shadow_run].
    destruct Ho as [tok f a Hns Hl Hg Htv Hre|tok r ch a Hns He Hl Hs Hn Hg Htv Hre Hnh].
    + rewrite (eng_long pc cur L tok f None a pi _ Hns Hl Hg), Htv, Hre. reflexivity.
    + rewrite (eng_short_opt pc cur L tok r ch [] a pi _ Hns He Hl Hs Hn Hg Htv), Hre. reflexivity.
  - intros rest pos vaf st Hfs. rewrite (loop_prefix pc pre F Hp (tok :: rest) pos vaf st Hfs).
    destruct (F st) as [st'|e1 s1|x] eqn:EF; cbn [rbind]; try reflexivity.
    assert (Hfs' : fs_skip st' = 0) by (rewrite (prefix_fs pc pre F Hp _ _ EF); exact Hfs).
    destruct Ho as [tok f a Hns Hl Hg Htv Hre|tok r ch a Hns He Hl Hs Hn Hg Htv Hre Hnh].
    + apply (loop_long_open pc tok f a rest pos _ st' Hns Hl Hg Htv Hre).
    + apply (loop_short_open pc tok r ch a rest pos _ st' Hns He Hl Hs Hn Hg Htv Hre Hnh Hfs').
Qed.

(** * The classes are decidable *)
Definition lvl18_b (pc : cmd) : bool :=
  assert_app pc
  && forallb (fun a => is_nil (a_short_aliases a) || negb (a_is_positional a)) (c_args pc)
  && forallb (fun a => is_nil (a_aliases a) || is_some (a_long a)) (c_args pc)
  && negb (is_set s_args_negate_subs pc).

Lemma lvl18_b_ok pc : lvl18_b pc = true -> lvl18 pc.
Proof.
  unfold lvl18_b. intros H. apply andb_true_iff in H. destruct H as [H H4]. apply andb_true_iff in H. destruct H as [H H3].
  apply andb_true_iff in H. destruct H as [H1 H2]. constructor.
  - exact H1.
  - intros a Ha Hne. pose proof (forall_args_dec _ _ H2 a Ha) as Hb. cbv beta in Hb.
    destruct (a_short_aliases a); [tauto|]. cbn [is_nil orb] in Hb. apply negb_true_iff in Hb. exact Hb.
  - intros a Ha Hne. pose proof (forall_args_dec _ _ H3 a Ha) as Hb. cbv beta in Hb.
    destruct (a_aliases a); [tauto|]. destruct (a_long a); [discriminate|discriminate Hb].
  - apply negb_true_iff in H4. exact H4.
Qed.

Definition subs_plain_b (pc : cmd) : bool :=
  forallb (fun s => forallb (fun n => negb (hd 0 n =? DASH)) (c_name s :: all_aliases s)) (c_subs pc).

Lemma subs_plain_b_ok pc : subs_plain_b pc = true -> subs_plain pc.
Proof.
  unfold subs_plain_b, subs_plain. intros H s n Hs Hn. rewrite forallb_forall in H. specialize (H s Hs).
  rewrite forallb_forall in H. specialize (H n Hn). apply negb_true_iff in H. apply N.eqb_neq. exact H.
Qed.

Definition cand_class_b (pcf : cmd) (w : bytes) (cd : cand) : bool :=
  match cd_id cd with
  | Some (IdArg aid) =>
      match EngineModel.to_short w with Some lead => forallb (has_short pcf) (decode lead) | None => true end
      && subs_plain_b pcf
      && match get_pos pcf 1 with Some p => negb (a_negnum p) | None => true end
      && forallb (fun a => negb (beq (a_id a) aid) || names_wf_b a) (c_args pcf)
  | Some (IdCmd n) => utf8_valid (cd_value cd)
  | None => false
  end.

Lemma cand_class_b_ok pcf w cd : cand_class_b pcf w cd = true -> cand_class pcf w cd.
Proof.
  unfold cand_class_b, cand_class. destruct (cd_id cd) as [[aid|n]|]; [|auto|discriminate].
  intros H. apply andb_true_iff in H. destruct H as [H H4]. apply andb_true_iff in H. destruct H as [H H3].
  apply andb_true_iff in H. destruct H as [H1 H2]. split; [|split; [|split]].
  - unfold typed_known. destruct (EngineModel.to_short w); [exact H1|exact I].
  - apply subs_plain_b_ok. exact H2.
  - unfold negnum_free. destruct (get_pos pcf 1); [apply negb_true_iff in H3; exact H3|exact I].
  - intros a Ha Hid. pose proof (forall_args_dec _ _ H4 a Ha) as Hb. cbv beta in Hb.
    rewrite Hid, beq_refl in Hb. cbn [negb orb] in Hb. apply names_wf_b_ok; exact Hb.
Qed.

(** * Non-vacuity: a two-level line with every item shape, then an option and a subcommand candidate *)
Module LineExample.
Definition b1 (x : N) : bytes := [x].
Definition w_cfg : bytes := [99; 102; 103].
Definition w_verbose : bytes := [118; 101; 114; 98; 111; 115; 101].
Definition w_quiet : bytes := [113; 117; 105; 101; 116].
Definition w_yes : bytes := [121; 101; 115].
Definition w_out : bytes := [111; 117; 116].
Definition w_sync : bytes := [115; 121; 110; 99].
Definition w_deep : bytes := [100; 101; 101; 112].
Definition ddw (s : bytes) : bytes := 45 :: 45 :: s.
(** p(--cfg/-c <v>; --verbose/-v; --quiet/-q) -> sync|sy(--yes/-y; --out/-o <v>) -> deep *)
Definition ex18 : cmd :=
  (cmd_new (b1 112))
    <| c_args := [ (arg_new w_cfg) <| a_long := Some w_cfg |> <| a_short := Some 99 |> <| a_action := Some AAppend |>;
                   (arg_new w_verbose) <| a_long := Some w_verbose |> <| a_short := Some 118 |> <| a_action := Some ACount |>;
                   (arg_new w_quiet) <| a_long := Some w_quiet |> <| a_short := Some 113 |> <| a_action := Some ACount |> ] |>
    <| c_subs :=
      [ (cmd_new w_sync) <| c_aliases := [([115; 121], true)] |>
          <| c_args := [ (arg_new w_yes) <| a_long := Some w_yes |> <| a_short := Some 121 |> <| a_action := Some ASetTrue |>;
                         (arg_new w_out) <| a_long := Some w_out |> <| a_short := Some 111 |> <| a_action := Some AAppend |> ] |>
          <| c_subs := [ cmd_new w_deep ] |> ] |>.
(** `--verbose --cfg=a -vq --cfg b -cx -c y sy -y --out o1` *)
Definition pre0 : list bytes :=
  [ddw w_verbose; ddw (w_cfg ++ [61; 97]); [45; 118; 113]; ddw w_cfg; b1 98; [45; 99; 120]; [45; 99]; b1 121].
Definition pre1 : list bytes := [[45; 121]; ddw w_out; [111; 49]].
Definition ex_line : list bytes := pre0 ++ [115; 121] :: pre1.
Definition root : cmd := build_self (with_bin ex18 (b1 112)).
Definition pcf : cmd := match build_subcommand root w_sync with Some x => x | None => cmd_new [] end.

Ltac solve_nosub := let v := fresh "v" in intros v; destruct v; vm_compute; reflexivity.
Ltac vmr := vm_compute; reflexivity.

Lemma pre0_ok : opt_prefix root pre0.
Proof.
  eexists. eapply (po_cons _ [ddw w_verbose]). { eapply it_flag; [solve_nosub|vmr|vmr|vmr]. }
  eapply (po_cons _ [ddw (w_cfg ++ [61; 97])]). { eapply it_eq; [solve_nosub|vmr|vmr|vmr]. }
  eapply (po_cons _ [[45; 118; 113]]).
  { eapply it_cluster; [solve_nosub|]. exists 118, [113]. split; [reflexivity|]. split; [discriminate|]. split; [reflexivity|].
    eapply cf_cons; [reflexivity|vmr|vmr|]. eapply cf_cons; [reflexivity|vmr|vmr|apply cf_nil]. }
  eapply (po_cons _ [ddw w_cfg; b1 98]).
  { eapply it_sep; [solve_nosub|vmr|vmr|vmr|vmr|vmr|vmr|vmr|solve_nosub|vmr|vmr|vmr|vmr]. }
  eapply (po_cons _ [[45; 99; 120]]).
  { eapply (it_short_att _ _ [99; 120] 99 120 []); [solve_nosub|vmr|vmr|vmr|vmr|discriminate|vmr|vmr|vmr|].
    intros pos. unfold no_hyphen_pos. replace (get_pos root pos) with (@None arg); [exact I|].
    symmetry. apply pos_free_get_pos. vmr. }
  eapply (po_cons _ [[45; 99]; b1 121] _ []); [|apply po_nil].
  eapply (it_short_sep _ _ [99] 99); [solve_nosub|vmr|vmr|vmr|vmr|vmr|vmr|vmr| |vmr|vmr|vmr|solve_nosub|vmr|vmr|vmr|vmr].
  intros pos. unfold no_hyphen_pos. replace (get_pos root pos) with (@None arg); [exact I|].
  symmetry. apply pos_free_get_pos. vmr.
Qed.

Lemma pre1_ok : opt_prefix pcf pre1.
Proof.
  eexists. eapply (po_cons _ [[45; 121]]).
  { eapply it_cluster; [solve_nosub|]. exists 121, []. split; [reflexivity|]. split; [discriminate|]. split; [reflexivity|].
    eapply cf_cons; [reflexivity|vmr|vmr|apply cf_nil]. }
  eapply (po_cons _ [ddw w_out; [111; 49]] _ []); [|apply po_nil].
  eapply it_sep; [solve_nosub|vmr|vmr|vmr|vmr|vmr|vmr|vmr|solve_nosub|vmr|vmr|vmr|vmr].
Qed.

Lemma ex_cline : cline root ex_line pcf.
Proof.
  unfold ex_line. eapply (cl_down root pre0 [115; 121] _ pcf pre1 pcf).
  - apply lvl18_b_ok. vmr.
  - exact pre0_ok.
  - vmr.
  - vmr.
  - vmr.
  - vmr.
  - apply cl_here; [apply lvl18_b_ok; vmr|exact pre1_ok].
Qed.

(** `p <line> --o<TAB>` offers `--out`; `p <line> d<TAB>` offers `deep`: both in the class *)
Example ex_line_hyps :
  unb_tree 5 ex18 = true /\ is_set s_no_binary_name ex18 = false /\
  N.of_nat (length ex_line) + 2 <= usize_max /\ cline root ex_line pcf /\
  (match complete_model [] ex18 (b1 112 :: ex_line ++ [[45; 45; 111]]) (N.of_nat (S (length ex_line))) with
   | COk l => existsb (fun cd => beq (cd_value cd) (ddw w_out) && cand_class_b pcf [45; 45; 111] cd) l
   | _ => false end = true) /\
  (match complete_model [] ex18 (b1 112 :: ex_line ++ [[100]]) (N.of_nat (S (length ex_line))) with
   | COk l => existsb (fun cd => beq (cd_value cd) w_deep && cand_class_b pcf [100] cd) l
   | _ => false end = true).
Proof.
  split; [vmr|]. split; [vmr|]. split; [vm_compute; discriminate|]. split; [exact ex_cline|]. split; vmr.
Qed.

(** the completed lines, parsed: `... --out` lacks its value (InvalidValue, not an unknown token); `... deep` succeeds *)
Example ex_line_parses :
  (match parse_top ex18 (b1 112 :: ex_line ++ [ddw w_out]) with OErr e => Some (e_kind e) | _ => None end,
   match parse_top ex18 (b1 112 :: ex_line ++ [w_deep]) with OOk _ => true | _ => false end)
  = (Some EInvalidValue, true).
Proof. vm_compute. reflexivity. Qed.
End LineExample.

(** * Part 6: class boundaries, with witnesses (replayed on the real crate, see docs/notes/C18.md) *)

(** [require_equals] - finding C18-require-equals, BEFORE / AFTER the repair (docs/pending/engine_require_equals_fix.diff).
    `p(--pf; --opt[=<v>] Set, num_args(0..=1), require_equals, possible value `va`) -> sub(--so)`.  For the parser `--opt` without
    `=` is a COMPLETE occurrence ([Parser::parse_opt_value]: `require_equals` and no `=` - with a minimum of 0 the occurrence is
    stored without values, otherwise the line is rejected: NoEquals); the next word starts a new argument: `p --opt sub` is
    accepted at `sub`.  Before the repair the engine waited for a value behind `--opt`: `p --opt <TAB>` offered the value `va`
    (`p --opt va`: InvalidSubcommand), and behind `p --opt sub` it stood at `p` (`sub` counted as the value) and offered `--pf`
    (id arg::pf) - `p --opt sub --pf`: UnknownArgument.  After: [ValueDone] behind `--opt`, `va` is not offered; behind
    `p --opt sub` the engine is at `sub`, offers `--so`, not `--pf`.  (Same on the real crate:
    corpus/C18/accept.require-equals.cases.  The hypothesis [a_req_eq a = false] of the items `--opt v` / `-o v` and of
    [open_tok] is what keeps the separate-value forms apart.) *)
Module ReqEq.
Definition w_opt : bytes := [111; 112; 116].
Definition w_va : bytes := [118; 97].
Definition w_pf : bytes := [112; 102].
Definition w_sub : bytes := [115; 117; 98].
Definition w_so : bytes := [115; 111].
Definition dd (w : bytes) : bytes := 45 :: 45 :: w.
Definition c0 : cmd :=
  (cmd_new [112])
    <| c_args := [ (arg_new w_pf) <| a_long := Some w_pf |> <| a_action := Some ASetTrue |>;
                   (arg_new w_opt) <| a_long := Some w_opt |> <| a_action := Some ASet |>
                     <| a_num := Some {| vmin := 0; vmax := 1 |} |> <| a_req_eq := true |> ] |>
    <| c_subs := [ (cmd_new w_sub) <| c_args := [ (arg_new w_so) <| a_long := Some w_so |> <| a_action := Some ASetTrue |> ] |> ] |>.
Definition tbl : pvtable := [(w_opt, [(w_va, false)])].
Definition has_cand (v : bytes) (i : option cid) (r : cres) : bool :=
  match r with COk l => existsb (fun cd => beq (cd_value cd) v && opt_cid_eqb (cd_id cd) i) l | _ => false end.
Definition stands (w : walk) : option (bytes * N) :=
  match w with
  | WAt _ cur _ ValueDone false _ => Some (c_name cur, 0)
  | WAt _ cur _ (Opt _ k) false _ => Some (c_name cur, k)
  | _ => None end.
Definition walk_at (args : list bytes) (i : N) : option (bytes * N) :=
  match build_full (build_fuel c0) c0 with BOk b => stands (start_walk b args i) | _ => None end.
Definition walk_at_before (args : list bytes) (i : N) : option (bytes * N) :=
  match build_full (build_fuel c0) c0 with BOk b => stands (start_walk_before_reqfix b args i) | _ => None end.
Definition kind_of (o : outcome) : option ekind := match o with OErr e => Some (e_kind e) | _ => None end.
Definition chain_of (o : outcome) : option (list bytes) := match o with OOk m => Some (Globals.chain m) | _ => None end.
End ReqEq.

Theorem require_equals_before_after :
  (* the parser *)
  ReqEq.chain_of (parse_top ReqEq.c0 [[112]; ReqEq.dd ReqEq.w_opt]) = Some [] /\
  ReqEq.chain_of (parse_top ReqEq.c0 [[112]; ReqEq.dd ReqEq.w_opt; ReqEq.w_sub]) = Some [ReqEq.w_sub] /\
  ReqEq.kind_of (parse_top ReqEq.c0 [[112]; ReqEq.dd ReqEq.w_opt; ReqEq.w_va]) = Some EInvalidSubcommand /\
  ReqEq.kind_of (parse_top ReqEq.c0 [[112]; ReqEq.dd ReqEq.w_opt; ReqEq.w_sub; ReqEq.dd ReqEq.w_pf]) = Some EUnknownArgument /\
  ReqEq.chain_of (parse_top ReqEq.c0 [[112]; ReqEq.dd ReqEq.w_opt; ReqEq.w_sub; ReqEq.dd ReqEq.w_so]) = Some [ReqEq.w_sub] /\
  (* before *)
  ReqEq.walk_at_before [[112]; ReqEq.dd ReqEq.w_opt; []] 2 = Some ([112], 1) /\
  ReqEq.has_cand ReqEq.w_va None (complete_model_before_reqfix ReqEq.tbl ReqEq.c0 [[112]; ReqEq.dd ReqEq.w_opt; []] 2) = true /\
  ReqEq.walk_at_before [[112]; ReqEq.dd ReqEq.w_opt; ReqEq.w_sub; [45; 45]] 3 = Some ([112], 0) /\
  ReqEq.has_cand (ReqEq.dd ReqEq.w_pf) (Some (IdArg ReqEq.w_pf))
    (complete_model_before_reqfix ReqEq.tbl ReqEq.c0 [[112]; ReqEq.dd ReqEq.w_opt; ReqEq.w_sub; [45; 45]] 3) = true /\
  (* after *)
  ReqEq.walk_at [[112]; ReqEq.dd ReqEq.w_opt; []] 2 = Some ([112], 0) /\
  ReqEq.has_cand ReqEq.w_va None (complete_model ReqEq.tbl ReqEq.c0 [[112]; ReqEq.dd ReqEq.w_opt; []] 2) = false /\
  ReqEq.has_cand ReqEq.w_sub (Some (IdCmd ReqEq.w_sub)) (complete_model ReqEq.tbl ReqEq.c0 [[112]; ReqEq.dd ReqEq.w_opt; []] 2) = true /\
  ReqEq.walk_at [[112]; ReqEq.dd ReqEq.w_opt; ReqEq.w_sub; [45; 45]] 3 = Some (ReqEq.w_sub, 0) /\
  ReqEq.has_cand (ReqEq.dd ReqEq.w_pf) (Some (IdArg ReqEq.w_pf))
    (complete_model ReqEq.tbl ReqEq.c0 [[112]; ReqEq.dd ReqEq.w_opt; ReqEq.w_sub; [45; 45]] 3) = false /\
  ReqEq.has_cand (ReqEq.dd ReqEq.w_so) (Some (IdArg ReqEq.w_so))
    (complete_model ReqEq.tbl ReqEq.c0 [[112]; ReqEq.dd ReqEq.w_opt; ReqEq.w_sub; [45; 45]] 3) = true.
Proof. vm_compute. repeat split; reflexivity. Qed.

(** completeness of option candidates needs [a_long a <> None]: a VISIBLE alias `--opt` of an option without a
    long name (a key of the parser: [get_long] resolves it) extends the word `--` but no candidate carries
    the option's id *)
Definition alias_a : arg := match c_args ex_alias_only with a :: _ => a | [] => arg_new [] end.
Definition alias_l : list cand := match complete_arg [] [45; 45] ex_alias_only 1 ValueDone with COk l => l | _ => [] end.
Theorem complete_options_alias_refuted : exists tbl w c pi l a s,
  assert_app c = true /\ complete_arg tbl w c pi ValueDone = COk l /\
  In a (c_args c) /\ a_hide a = false /\ In s (vis_aliases (a_aliases a)) /\
  ~ In EngineModel.EQ s /\ utf8_valid w = true /\ is_prefix w (EngineModel.dd ++ s) = true /\ get_long c s = Some a /\
  existsb (fun y => opt_cid_eqb (cd_id y) (Some (IdArg (a_id a)))) l = false.
Proof.
  exists [], [45; 45], ex_alias_only, 1, alias_l, alias_a, [111; 112; 116].
  split; [vm_compute; reflexivity|]. split; [vm_compute; reflexivity|].
  split; [vm_compute; left; reflexivity|]. split; [vm_compute; reflexivity|]. split; [vm_compute; left; reflexivity|].
  split; [vm_compute; intros H; repeat (destruct H as [H|H]; [discriminate H|]); exact H|].
  split; [vm_compute; reflexivity|]. split; [vm_compute; reflexivity|]. split; vm_compute; reflexivity.
Qed.

(** * Summary statements used by Properties/C18.v *)
Theorem lexers_agree s :
  EngineModel.to_long s = to_long s /\ EngineModel.to_short s = to_short s /\ EngineModel.is_escape s = is_escape s.
Proof. exact (conj (lex_to_long s) (conj (lex_to_short s) (lex_is_escape s))). Qed.

Theorem line_classes_decidable :
  (forall pc, lvl18_b pc = true -> lvl18 pc) /\ (forall pcf w cd, cand_class_b pcf w cd = true -> cand_class pcf w cd).
Proof. exact (conj lvl18_b_ok cand_class_b_ok). Qed.
