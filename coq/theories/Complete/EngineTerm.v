(** Property C18, round 5: VALUE TERMINATORS (finding C18-value-terminator and its repair).

    The engine did not know [Arg::value_terminator]: a word equal to the terminator of the pending option (or of the
    positional that is being filled) was counted as one more value, where the parser closes the occurrence, drops the
    word and - for a positional - moves the counter on.  Behind such a word the two machines could stand at different
    levels ([EngineItems.terminator_before_after]).  The repaired engine ([EngineModel.parse_opt_value],
    [EngineModel.parse_positional] take the word) does what the parser's [check_terminator] does; here:

    - [terminator_step_agreement]: the step of BOTH machines on the terminator, in the state [Opt]/[PSOpt] and in the
      states [ValueDone]/[PSValuesDone], [Pos]/[PSPos];
    - the item classes [EngineItems.item18] (`--opt v1 .. vj ;`, `-o v1 .. vj ;`) and [EngineItems.pitems18]
      (`;` alone, `v1 .. vk ;` for a positional) contain terminators, so the state-agreement theorems and the
      end-to-end theorem [EngineWide.candidate_accepted_pline] speak about lines with terminators;
    - [TermLine]: non-vacuity, a concrete line with both kinds of terminator and a descent behind them.

    Names that exist in both models are the PARSER's when unqualified. *)
From ClapModel Require Import Base.Bytes Base.Machine Base.Utf8 Lex.OsStrExtModel Lex.OsStrExtProofs.
From ClapModel Require Import Complete.EngineModel Complete.EngineProofs.
From ClapModel Require Import Parse.Cmd Parse.Build Parse.Valid Parse.Matcher Parse.Errors Parse.Validator Parse.Parser.
From ClapModel Require Import ParseProofs.Spelling ParseProofs.Dispatch ParseProofs.ErrorSound.
From ClapModel Require Import ParseProofs.Actions ParseProofs.ActionsLoop ParseProofs.ActionsTop ParseProofs.Chain ParseProofs.ChainWide.
From ClapModel Require Import Complete.EngineAccept Complete.EngineLevel Complete.EngineLine Complete.EngineOptState Complete.EngineItems Complete.EngineWide.
From Coq Require Import ZArith Lia List Bool.
From RecordUpdate Require Import RecordSet.
Import RecordSetNotations.
Import ListNotations.
Open Scope N_scope.

(** ONE STEP ON THE TERMINATOR, both machines.
    (1) an option [a] is pending with any number of values ([Opt a j] / [PSOpt (a_id a)]): both are back between
        arguments, same level, same positional index / counter, nothing is pushed;
    (2) between arguments, and (3) while the positional [a] at the counter is being filled: both move the index /
        counter on and are back between arguments; the parser flushes the pending occurrence of ANOTHER argument
        ([term_fn]), nothing is pushed. *)
Theorem terminator_step_agreement pc cur t : elevel pc cur -> plain_tok t ->
  (forall a j pi evaf rest pos vaf st,
     no_sub pc t -> find_arg pc (a_id a) = Some a -> check_terminator a t = true ->
     shadow_step t cur pi false (Opt a j) evaf = SNext cur pi false ValueDone evaf /\
     parse_loop pc (t :: rest) (mkL (PSOpt (a_id a)) pos vaf false) st = parse_loop pc rest (lsV pos vaf) st) /\
  (forall a pos evaf rest st,
     possible_subcommand pc t evaf = None -> term_at pc pos a t ->
     shadow_step t cur pos false ValueDone evaf = SNext cur (pos + 1) false ValueDone true /\
     parse_loop pc (t :: rest) (lsV pos evaf) st = (do st' <- term_fn pc a st; parse_loop pc rest (lsV (pos + 1) true) st')) /\
  (forall a pos k evaf rest st,
     (is_set s_sub_precedence pc = true -> no_sub pc t) -> term_at pc pos a t ->
     shadow_step t cur pos false (Pos pos k) evaf = SNext cur (pos + 1) false ValueDone true /\
     parse_loop pc (t :: rest) (mkL (PSPos (a_id a)) pos evaf false) st =
     (do st' <- term_fn pc a st; parse_loop pc rest (lsV (pos + 1) true) st')).
Proof.
  intros L Hpl. split; [|split].
  - intros a j pi evaf rest pos vaf st Hns Hf Hct. split.
    + exact (eng_term_step pc cur L t a pi j evaf Hns Hpl Hct).
    + destruct Hpl as [He [Hl Hs]]. exact (loop_value_term pc t rest pos vaf st a Hns He Hl Hs Hf Hct).
  - intros a pos evaf rest st Hns Ht. split.
    + destruct Ht as [_ [Hg [_ [_ Hct]]]]. exact (eng_pos_term_vd pc cur L t a pos evaf Hns Hpl Hg Hct).
    + unfold lsV at 1. apply (loop_pos_term pc PSValuesDone t a rest pos evaf st I); [|exact Hpl|exact Ht].
      rewrite orb_true_r. exact Hns.
  - intros a pos k evaf rest st Hns Ht. split.
    + destruct Ht as [_ [Hg [_ [_ Hct]]]]. exact (eng_pos_term_pos pc cur L t a pos k evaf Hns Hpl Hg Hct).
    + apply (loop_pos_term pc (PSPos (a_id a)) t a rest pos evaf st I); [|exact Hpl|exact Ht].
      rewrite orb_false_r. destruct (is_set s_sub_precedence pc) eqn:Ep; [|reflexivity]. apply (Hns eq_refl).
Qed.

(** * Non-vacuity: `p(--opt <v>{1..3} terminator ";"; <src>; <files>{1..} terminator ";") -> sub(--so)`,
      line `--opt a ; s f1 f2 ; sub` *)
Module TermLine.
Definition w_opt : bytes := [111; 112; 116].
Definition w_sub : bytes := [115; 117; 98].
Definition w_so : bytes := [115; 111].
Definition w_src : bytes := [115; 114; 99].
Definition w_files : bytes := [102; 105; 108; 101; 115].
Definition semi : bytes := [59].
Definition ddw (s : bytes) : bytes := 45 :: 45 :: s.
Definition ext : cmd :=
  (cmd_new [112])
    <| c_args := [ (arg_new w_opt) <| a_long := Some w_opt |> <| a_action := Some ASet |>
                     <| a_num := Some {| vmin := 1; vmax := 3 |} |> <| a_term := Some semi |>;
                   (arg_new w_src) <| a_action := Some ASet |>;
                   (arg_new w_files) <| a_action := Some ASet |>
                     <| a_num := Some {| vmin := 1; vmax := usize_max |} |> <| a_term := Some semi |> ] |>
    <| c_subs := [ (cmd_new w_sub) <| c_args := [ (arg_new w_so) <| a_long := Some w_so |> <| a_action := Some ASetTrue |> ] |> ] |>.
Definition root : cmd := build_self (with_bin ext [112]).
Definition pc1 : cmd := match build_subcommand root w_sub with Some x => x | None => cmd_new [] end.
Definition pre0 : list bytes := [ddw w_opt; [97]; semi] ++ [115] :: ([[102; 49]; [102; 50]] ++ [semi]).
Definition line : list bytes := pre0 ++ w_sub :: [].
Definition a_opt : arg := match find_arg root w_opt with Some a => a | None => arg_new [] end.
Definition a_files : arg := match find_arg root w_files with Some a => a | None => arg_new [] end.

(** the option item `--opt a ;` is in [item18] *)
Lemma ex_item : item18 root [ddw w_opt; [97]; semi] (sepm_fn root ILong a_opt [[97]]).
Proof.
  eapply (i18_long_term root (ddw w_opt) w_opt a_opt _ [[97]] semi);
    [solve_nosub|vmr|vmr|vmr|vmr|vmr|vmr|vm_compute; reflexivity| |solve_nosub|solve_plain|vmr].
  apply Forall_cons; [split; [solve_nosub|split; [solve_plain|vmr]]|apply Forall_nil].
Qed.

Lemma ex_term_at : term_at root 2 a_files semi.
Proof. split; [split; vmr|split; [vmr|split; [vmr|split; vmr]]]. Qed.

(** the arguments of the root level, with both kinds of terminator; the counter ends at 3 *)
Lemma ex_pitems : exists F, pitems18 root false 1 pre0 F 3.
Proof.
  eexists. unfold pre0.
  eapply (p18_opt root false 1 [ddw w_opt; [97]; semi]); [exact ex_item|].
  eapply (p18_pos root true 1 [115] _ ([[102; 49]; [102; 50]] ++ [semi])); [vmr|solve_plain|solve_takes|vmr|].
  eapply (p18_multi_term root true 2 a_files [102; 49] [[102; 50]] semi []).
  - refine (conj _ (conj _ (conj _ _))); cycle 3.
    + repeat (apply Forall_cons; [split; [solve_plain|solve_takes]|]). apply Forall_nil.
    + vmr.
    + solve_nosub.
    + intros E. vm_compute in E. discriminate E.
  - vm_compute. reflexivity.
  - intros E. vm_compute in E. discriminate E.
  - solve_plain.
  - exact ex_term_at.
  - apply p18_nil.
Qed.

Lemma ex_pline : pline root line pc1 1 false.
Proof.
  destruct ex_pitems as [F Hp]. unfold line.
  eapply (pl_down root pre0 F PSValuesDone 3 ValueDone 3 w_sub _ pc1).
  - apply lvlw_b_ok. vmr.
  - apply b18_plain. exact Hp.
  - exact I.
  - intros E. vm_compute in E. discriminate E.
  - vmr.
  - vmr.
  - vmr.
  - vmr.
  - eapply (pl_here pc1 []); [apply lvlw_b_ok; vmr|apply p18_nil].
Qed.

(** all hypotheses of [candidate_accepted_pline] for the line and the candidate `--so` of `sub` after `--`; the
    engine stands at `sub` in [ValueDone]; the completed line is accepted *)
Example ex_term_line_hyps :
  unb_tree 5 ext = true /\ is_set s_no_binary_name ext = false /\
  N.of_nat (length line) + 2 <= usize_max /\ pline root line pc1 1 false /\
  (match complete_model [] ext ([112] :: line ++ [[45; 45]]) (N.of_nat (S (length line))) with
   | COk l => existsb (fun cd => beq (cd_value cd) (ddw w_so) && cand_classw_b pc1 1 false [45; 45] cd) l
   | _ => false end = true) /\
  (match build_full (build_fuel ext) ext with
   | BOk b => match start_walk b ([112] :: line ++ [[]]) (N.of_nat (S (length line))) with
              | WAt _ cur pi ValueDone false false => beq (c_name cur) w_sub && (pi =? 1)
              | _ => false end
   | _ => false end) = true /\
  match parse_top ext ([112] :: line ++ [ddw w_so]) with OOk _ => true | _ => false end = true.
Proof.
  split; [vmr|]. split; [vmr|]. split; [vm_compute; discriminate|]. split; [exact ex_pline|].
  split; [vmr|]. split; vmr.
Qed.
End TermLine.

(** * A word that looks like an option while an option is still collecting values (PARTIALLY FILLED occurrences)

    Both machines stand in "option [a] pending" with any number of values ([Opt a k] / [PSOpt (a_id a)]); no argument
    of the level accepts hyphen values or negative numbers ([hyphen_free]).  A word lexed as an exact long key or as a
    non-empty short cluster ([dash_tok]) is handled by BOTH exactly as between arguments: the pending occurrence ends.
    Whether it had enough values is decided by the parser when it flushes it (the next [react] / [resolve_pending]:
    with fewer than the minimum the line is rejected - TooFewValues / WrongNumberOfValues, never an "unknown" error);
    the engine does not judge that. *)
Theorem pending_option_dash_agreement pc cur tok a : elevel pc cur -> hyphen_free pc ->
  find_arg pc (a_id a) = Some a -> dash_tok pc tok ->
  (forall k pi evaf, shadow_step tok cur pi false (Opt a k) evaf = shadow_step tok cur pi false ValueDone evaf) /\
  (forall rest pos vaf st, fs_skip st = 0 ->
     parse_loop pc (tok :: rest) (mkL (PSOpt (a_id a)) pos vaf false) st = parse_loop pc (tok :: rest) (lsV pos vaf) st).
Proof.
  intros L Hhf Hf Hd. destruct (hyphen_free_arg pc a Hhf Hf) as [Hh Hn]. split.
  - intros k pi evaf. destruct Hd as [Hns [He Hlex]].
    apply (eng_opt_as_vd pc cur L tok a k pi evaf Hh (hyphen_free_pos pc cur L pi Hhf) Hns He).
    destruct Hlex as [[f [v [b [Hl _]]]]|[_ [r [Hs _]]]]; [left; rewrite Hl; discriminate|right; rewrite Hs; discriminate].
  - intros rest pos vaf st Hsk.
    exact (loop_opt_dash pc tok a rest pos vaf st Hf Hh Hn (no_hyphen_of_args pc Hhf) Hsk Hd).
Qed.

(** Non-vacuity: `p(--pf/-f; --qf/-q; --opt/-o <v>{1..3} Append; --two <v>{2..3}) -> sub(--so)`; the line `--opt a --pf -o b c -q sub` is in
    [pline] (two partially filled occurrences, each followed by a flag), the engine stands at `sub`, the completed line
    parses.  With the minimum not reached (`--two a --pf`) the parser rejects the line with TooFewValues (the engine
    still walks on: its candidates are judged on accepted prefixes only). *)
Module PartialLine.
Definition w_opt : bytes := [111; 112; 116].
Definition w_two : bytes := [116; 119; 111].
Definition w_pf : bytes := [112; 102].
Definition w_qf : bytes := [113; 102].
Definition w_sub : bytes := [115; 117; 98].
Definition w_so : bytes := [115; 111].
Definition ddw (s : bytes) : bytes := 45 :: 45 :: s.
Definition ext : cmd :=
  (cmd_new [112])
    <| c_args := [ (arg_new w_pf) <| a_long := Some w_pf |> <| a_short := Some 102 |> <| a_action := Some ASetTrue |>;
                   (arg_new w_qf) <| a_long := Some w_qf |> <| a_short := Some 113 |> <| a_action := Some ASetTrue |>;
                   (arg_new w_opt) <| a_long := Some w_opt |> <| a_short := Some 111 |> <| a_action := Some AAppend |>
                     <| a_num := Some {| vmin := 1; vmax := 3 |} |>;
                   (arg_new w_two) <| a_long := Some w_two |> <| a_action := Some ASet |>
                     <| a_num := Some {| vmin := 2; vmax := 3 |} |> ] |>
    <| c_subs := [ (cmd_new w_sub) <| c_args := [ (arg_new w_so) <| a_long := Some w_so |> <| a_action := Some ASetTrue |> ] |> ] |>.
Definition root : cmd := build_self (with_bin ext [112]).
Definition pc1 : cmd := match build_subcommand root w_sub with Some x => x | None => cmd_new [] end.
Definition a_opt : arg := match find_arg root w_opt with Some a => a | None => arg_new [] end.
Definition pre0 : list bytes := ddw w_opt :: [[97]] ++ ([ddw w_pf] ++ [[45; 111]; [98]; [99]; [45; 113]]).
Definition line : list bytes := pre0 ++ w_sub :: [].

Lemma ex_hyphen_free : hyphen_free root.
Proof. vm_compute. reflexivity. Qed.

Lemma ex_flag_long : item18 root [ddw w_pf] (react_all root [long_occ (match find_arg root w_pf with Some a => a | None => arg_new [] end) []]).
Proof. apply i18_base. eapply it_flag; [solve_nosub|vmr|vmr|vmr]. Qed.

Lemma ex_flag_short : exists F, item18 root [[45; 113]] F.
Proof. eexists. apply i18_base. flag_cluster 113. Qed.

Lemma ex_pitems : exists F, pitems18 root false 1 pre0 F 1.
Proof.
  destruct ex_flag_short as [Fs Hs].
  eexists. unfold pre0.
  (* `--opt a`, partially filled, then `--pf` *)
  eapply (p18_opt root false 1 (ddw w_opt :: [[97]] ++ [ddw w_pf]) _ [[45; 111]; [98]; [99]; [45; 113]]).
  { eapply (i18_long_partial root (ddw w_opt) w_opt a_opt _ [[97]] [ddw w_pf]);
      [exact ex_hyphen_free|solve_nosub|vmr|vmr|vmr|vmr|vmr|vmr|vm_compute; reflexivity| |exact ex_flag_long].
    apply Forall_cons; [split; [solve_nosub|split; [solve_plain|vmr]]|apply Forall_nil]. }
  (* `-o b c`, partially filled, then `-f` *)
  eapply (p18_opt root true 1 ([45; 111] :: [[98]; [99]] ++ [[45; 113]]) _ []); [|apply p18_nil].
  eapply (i18_short_partial root [45; 111] [111] 111 a_opt _ [[98]; [99]] [[45; 113]]);
    [exact ex_hyphen_free|solve_nosub|vmr|vmr|vmr|vmr|vmr|vmr|vmr|apply no_hyphen_of_args; exact ex_hyphen_free|vmr|vmr
    |vm_compute; reflexivity| |exact Hs].
  repeat (apply Forall_cons; [split; [solve_nosub|split; [solve_plain|vmr]]|]). apply Forall_nil.
Qed.

Lemma ex_pline : pline root line pc1 1 false.
Proof.
  destruct ex_pitems as [F Hp]. unfold line.
  eapply (pl_down root pre0 F PSValuesDone 1 ValueDone 1 w_sub _ pc1).
  - apply lvlw_b_ok. vmr.
  - apply b18_plain. exact Hp.
  - exact I.
  - intros E. vm_compute in E. discriminate E.
  - vmr.
  - vmr.
  - vmr.
  - vmr.
  - eapply (pl_here pc1 []); [apply lvlw_b_ok; vmr|apply p18_nil].
Qed.

Definition kind_of (o : outcome) : option ekind := match o with OErr e => Some (e_kind e) | _ => None end.

Example ex_partial_line_hyps :
  unb_tree 5 ext = true /\ is_set s_no_binary_name ext = false /\
  N.of_nat (length line) + 2 <= usize_max /\ pline root line pc1 1 false /\
  (match complete_model [] ext ([112] :: line ++ [[45; 45]]) (N.of_nat (S (length line))) with
   | COk l => existsb (fun cd => beq (cd_value cd) (ddw w_so) && cand_classw_b pc1 1 false [45; 45] cd) l
   | _ => false end = true) /\
  match parse_top ext ([112] :: line ++ [ddw w_so]) with OOk _ => true | _ => false end = true /\
  (* below the minimum: rejected by the flush, not as an unknown argument *)
  kind_of (parse_top ext [[112]; ddw w_two; [97]; ddw w_pf]) = Some ETooFewValues.
Proof.
  split; [vmr|]. split; [vmr|]. split; [vm_compute; discriminate|]. split; [exact ex_pline|].
  split; [vmr|]. split; vmr.
Qed.
End PartialLine.

(** * A BOUNDED multi-valued positional with all the values it admits ([body18]'s constructor [b18_multi_max])

    `p(<files>{1..2}; subcommand_precedence_over_arg) -> sub(--so)`, line `f1 f2 sub`: behind `f2` the engine has moved on
    ([ValueDone], index 2) while the parser still collects ([PSPos files], counter 1); the subcommand name is read by both
    (the parser because the level sets the precedence), the engine stands at `sub`, the completed line parses.  WITHOUT the
    setting the parser takes `sub` for a third value and rejects the line - TooManyValues, not an "unknown" error - while
    the engine descends (its candidates behind a rejected prefix are not judged by the property). *)
Module MaxLine.
Definition w_files : bytes := [102; 105; 108; 101; 115].
Definition w_sub : bytes := [115; 117; 98].
Definition w_so : bytes := [115; 111].
Definition ddw (s : bytes) : bytes := 45 :: 45 :: s.
Definition ext0 : cmd :=
  (cmd_new [112])
    <| c_args := [ (arg_new w_files) <| a_action := Some ASet |> <| a_num := Some {| vmin := 1; vmax := 2 |} |> ] |>
    <| c_subs := [ (cmd_new w_sub) <| c_args := [ (arg_new w_so) <| a_long := Some w_so |> <| a_action := Some ASetTrue |> ] |> ] |>.
Definition ext : cmd := ext0 <| c_set := settings_none <| s_sub_precedence := true |> |>.
Definition root : cmd := build_self (with_bin ext [112]).
Definition pc1 : cmd := match build_subcommand root w_sub with Some x => x | None => cmd_new [] end.
Definition a_files : arg := match find_arg root w_files with Some a => a | None => arg_new [] end.
Definition line : list bytes := ([] ++ [102; 49] :: [[102; 50]]) ++ w_sub :: [].

Lemma ex_pline : pline root line pc1 1 false.
Proof.
  unfold line.
  eapply (pl_down root _ _ (PSPos (a_id a_files)) 1 ValueDone 2 w_sub _ pc1).
  - apply lvlw_b_ok. vmr.
  - eapply (b18_multi_max root [] _ 1 a_files [102; 49] [[102; 50]]); [apply p18_nil| |vm_compute; reflexivity].
    refine (conj _ (conj _ (conj _ _))); cycle 3.
    + repeat (apply Forall_cons; [split; [solve_plain|solve_takes]|]). apply Forall_nil.
    + vmr.
    + solve_nosub.
    + intros _. apply Forall_cons; [solve_nosub|apply Forall_nil].
  - vmr.
  - intros E. vm_compute in E. discriminate E.
  - vmr.
  - vmr.
  - vmr.
  - vmr.
  - eapply (pl_here pc1 []); [apply lvlw_b_ok; vmr|apply p18_nil].
Qed.

Definition kind_of (o : outcome) : option ekind := match o with OErr e => Some (e_kind e) | _ => None end.
Definition level_at (c : cmd) (args : list bytes) (i : N) : option (bytes * N) :=
  match build_full (build_fuel c) c with
  | BOk b => match start_walk b args i with WAt _ cur pi ValueDone false _ => Some (c_name cur, pi) | _ => None end
  | _ => None end.

Example ex_max_line_hyps :
  unb_tree 5 ext = true /\ is_set s_no_binary_name ext = false /\
  N.of_nat (length line) + 2 <= usize_max /\ pline root line pc1 1 false /\
  (match complete_model [] ext ([112] :: line ++ [[45; 45]]) (N.of_nat (S (length line))) with
   | COk l => existsb (fun cd => beq (cd_value cd) (ddw w_so) && cand_classw_b pc1 1 false [45; 45] cd) l
   | _ => false end = true) /\
  match parse_top ext ([112] :: line ++ [ddw w_so]) with OOk _ => true | _ => false end = true /\
  (* behind the last value the bounded positional admits: the engine at index 2 in [ValueDone] *)
  level_at ext [[112]; [102; 49]; [102; 50]; []] 3 = Some ([112], 2) /\
  (* without the setting: the engine descends, the parser rejects the prefix itself with TooManyValues *)
  level_at ext0 ([112] :: line ++ [[]]) 4 = Some (w_sub, 1) /\
  kind_of (parse_top ext0 ([112] :: line)) = Some ETooManyValues.
Proof.
  split; [vmr|]. split; [vmr|]. split; [vm_compute; discriminate|]. split; [exact ex_pline|].
  split; [vmr|]. split; [vmr|]. split; [vmr|]. split; vmr.
Qed.
End MaxLine.

(** * Finding C18-low-index-multiples (not repaired: known finding): the engine has no counterpart of the parser's
      "low index multiples" correction of the positional counter

    `p(--pf; <files>.. required; <dst> required) -> sub(--so)`: a multi-valued positional that is NOT the last one.  At the
    second-to-last counter the parser peeks at the next word: if that is a subcommand name (or looks like an option) the
    current word belongs to the NEXT positional.  So `p a b sub` is accepted - files = [a], dst = b, dispatch to `sub` -
    while the engine keeps filling `files` ([Pos 1 _]: `sub` is one more value), stays at `p` and offers `--pf` (id
    arg::pf) of `p`; the completed line `p a b sub --pf` is rejected: UnknownArgument.  Same on the real crate
    (corpus/C18/accept.low-index-multiples.cases). *)
Module LowIndex.
Definition w_files : bytes := [102; 105; 108; 101; 115].
Definition w_dst : bytes := [100; 115; 116].
Definition w_pf : bytes := [112; 102].
Definition w_sub : bytes := [115; 117; 98].
Definition w_so : bytes := [115; 111].
Definition ddw (s : bytes) : bytes := 45 :: 45 :: s.
Definition c0 : cmd :=
  (cmd_new [112])
    <| c_args := [ (arg_new w_pf) <| a_long := Some w_pf |> <| a_action := Some ASetTrue |>;
                   (arg_new w_files) <| a_index := Some 1 |> <| a_action := Some ASet |> <| a_required := true |>
                     <| a_num := Some {| vmin := 1; vmax := usize_max |} |>;
                   (arg_new w_dst) <| a_index := Some 2 |> <| a_action := Some ASet |> <| a_required := true |> ] |>
    <| c_subs := [ (cmd_new w_sub) <| c_args := [ (arg_new w_so) <| a_long := Some w_so |> <| a_action := Some ASetTrue |> ] |> ] |>.
Definition line : list bytes := [[97]; [98]; w_sub].
Definition has_cand (v : bytes) (i : cid) (r : cres) : bool :=
  match r with COk l => existsb (fun cd => beq (cd_value cd) v && opt_cid_eqb (cd_id cd) (Some i)) l | _ => false end.
Definition stands (c : cmd) (args : list bytes) (i : N) : option (bytes * N * N) :=
  match build_full (build_fuel c) c with
  | BOk b => match start_walk b args i with WAt _ cur pi (Pos _ k) false _ => Some (c_name cur, pi, k) | _ => None end
  | _ => None end.
Definition kind_of (o : outcome) : option ekind := match o with OErr e => Some (e_kind e) | _ => None end.
Definition chain_of (o : outcome) : option (list bytes) := match o with OOk m => Some (Globals.chain m) | _ => None end.
End LowIndex.

Theorem low_index_multiples_refuted :
  LowIndex.chain_of (parse_top LowIndex.c0 ([112] :: LowIndex.line)) = Some [LowIndex.w_sub] /\
  LowIndex.stands LowIndex.c0 ([112] :: LowIndex.line ++ [[45; 45]]) 4 = Some ([112], 1, 3) /\
  LowIndex.has_cand (LowIndex.ddw LowIndex.w_pf) (IdArg LowIndex.w_pf)
    (complete_model [] LowIndex.c0 ([112] :: LowIndex.line ++ [[45; 45]]) 4) = true /\
  LowIndex.kind_of (parse_top LowIndex.c0 ([112] :: LowIndex.line ++ [LowIndex.ddw LowIndex.w_pf])) = Some EUnknownArgument.
Proof. vm_compute. repeat split; reflexivity. Qed.

(** * Findings C18-infer-subcommands and C18-infer-long-args (not repaired: known findings): the engine knows neither
      [Command::infer_subcommands] nor [Command::infer_long_args]

    (1) `p(--pf; infer_subcommands) -> sub(--so)`: the parser reads `su` as `sub` (a unique prefix) and accepts `p su`; for
    the engine `su` is a plain word, it stays at `p` and offers `--pf`; `p su --pf` is UnknownArgument.
    (2) `p(--pf; --option <v>; infer_long_args) -> sub(--so)`: the parser reads `--opti` as `--option`, which takes `sub` as
    its value: `p --opti sub` is accepted at `p`; the engine does not recognise `--opti` (nothing is pending), descends on
    `sub` and offers `--so`; `p --opti sub --so` is UnknownArgument.  Same on the real crate
    (corpus/C18/accept.inferred-names.cases). *)
Module Infer.
Definition w_pf : bytes := [112; 102].
Definition w_sub : bytes := [115; 117; 98].
Definition w_so : bytes := [115; 111].
Definition w_option : bytes := [111; 112; 116; 105; 111; 110].
Definition ddw (s : bytes) : bytes := 45 :: 45 :: s.
Definition sub : cmd :=
  (cmd_new w_sub) <| c_args := [ (arg_new w_so) <| a_long := Some w_so |> <| a_action := Some ASetTrue |> ] |>.
Definition c1 : cmd :=
  (cmd_new [112]) <| c_set := settings_none <| s_infer_sub := true |> |>
    <| c_args := [ (arg_new w_pf) <| a_long := Some w_pf |> <| a_action := Some ASetTrue |> ] |> <| c_subs := [ sub ] |>.
Definition c2 : cmd :=
  (cmd_new [112]) <| c_set := settings_none <| s_infer_long := true |> |>
    <| c_args := [ (arg_new w_pf) <| a_long := Some w_pf |> <| a_action := Some ASetTrue |>;
                   (arg_new w_option) <| a_long := Some w_option |> <| a_action := Some ASet |> ] |> <| c_subs := [ sub ] |>.
Definition su : bytes := [115; 117].
Definition opti : bytes := ddw [111; 112; 116; 105].
Definition has_cand (v : bytes) (i : cid) (r : cres) : bool :=
  match r with COk l => existsb (fun cd => beq (cd_value cd) v && opt_cid_eqb (cd_id cd) (Some i)) l | _ => false end.
Definition level_at (c : cmd) (args : list bytes) (i : N) : option bytes :=
  match build_full (build_fuel c) c with
  | BOk b => match start_walk b args i with WAt _ cur _ ValueDone false _ => Some (c_name cur) | _ => None end
  | _ => None end.
Definition kind_of (o : outcome) : option ekind := match o with OErr e => Some (e_kind e) | _ => None end.
Definition chain_of (o : outcome) : option (list bytes) := match o with OOk m => Some (Globals.chain m) | _ => None end.
End Infer.

Theorem inferred_names_refuted :
  (* infer_subcommands *)
  Infer.chain_of (parse_top Infer.c1 [[112]; Infer.su]) = Some [Infer.w_sub] /\
  Infer.level_at Infer.c1 [[112]; Infer.su; [45; 45]] 2 = Some [112] /\
  Infer.has_cand (Infer.ddw Infer.w_pf) (IdArg Infer.w_pf) (complete_model [] Infer.c1 [[112]; Infer.su; [45; 45]] 2) = true /\
  Infer.kind_of (parse_top Infer.c1 [[112]; Infer.su; Infer.ddw Infer.w_pf]) = Some EUnknownArgument /\
  (* infer_long_args *)
  Infer.chain_of (parse_top Infer.c2 [[112]; Infer.opti; Infer.w_sub]) = Some [] /\
  Infer.level_at Infer.c2 [[112]; Infer.opti; Infer.w_sub; [45; 45]] 3 = Some Infer.w_sub /\
  Infer.has_cand (Infer.ddw Infer.w_so) (IdArg Infer.w_so) (complete_model [] Infer.c2 [[112]; Infer.opti; Infer.w_sub; [45; 45]] 3) = true /\
  Infer.kind_of (parse_top Infer.c2 [[112]; Infer.opti; Infer.w_sub; Infer.ddw Infer.w_so]) = Some EUnknownArgument.
Proof. vm_compute. repeat split; reflexivity. Qed.

(** * Finding C18-flag-subcommands (an observation since round 1; by the letter of the property a violation; not repaired)
    `p(--pf) -> sync(long_flag sync, short_flag S; --so)`: the parser accepts `p --sync` and `p -S` (dispatch to `sync`); the
    engine skips the unknown flag, stays at `p` and offers `--pf`; `p --sync --pf`, `p -S --pf` are UnknownArgument.
    Same on the real crate (corpus/C18/accept.flag-subcommands.cases). *)
Module FlagSub.
Definition w_pf : bytes := [112; 102].
Definition w_sync : bytes := [115; 121; 110; 99].
Definition w_so : bytes := [115; 111].
Definition ddw (s : bytes) : bytes := 45 :: 45 :: s.
Definition c0 : cmd :=
  (cmd_new [112])
    <| c_args := [ (arg_new w_pf) <| a_long := Some w_pf |> <| a_action := Some ASetTrue |> ] |>
    <| c_subs := [ (cmd_new w_sync) <| c_long_flag := Some w_sync |> <| c_short_flag := Some 83 |>
                     <| c_args := [ (arg_new w_so) <| a_long := Some w_so |> <| a_action := Some ASetTrue |> ] |> ] |>.
Definition has_cand (v : bytes) (i : cid) (r : cres) : bool :=
  match r with COk l => existsb (fun cd => beq (cd_value cd) v && opt_cid_eqb (cd_id cd) (Some i)) l | _ => false end.
Definition level_at (args : list bytes) (i : N) : option bytes :=
  match build_full (build_fuel c0) c0 with
  | BOk b => match start_walk b args i with WAt _ cur _ ValueDone false _ => Some (c_name cur) | _ => None end
  | _ => None end.
Definition kind_of (o : outcome) : option ekind := match o with OErr e => Some (e_kind e) | _ => None end.
Definition chain_of (o : outcome) : option (list bytes) := match o with OOk m => Some (Globals.chain m) | _ => None end.
End FlagSub.

Theorem flag_subcommands_refuted :
  FlagSub.chain_of (parse_top FlagSub.c0 [[112]; FlagSub.ddw FlagSub.w_sync]) = Some [FlagSub.w_sync] /\
  FlagSub.chain_of (parse_top FlagSub.c0 [[112]; [45; 83]]) = Some [FlagSub.w_sync] /\
  FlagSub.level_at [[112]; FlagSub.ddw FlagSub.w_sync; [45; 45]] 2 = Some [112] /\
  FlagSub.level_at [[112]; [45; 83]; [45; 45]] 2 = Some [112] /\
  FlagSub.has_cand (FlagSub.ddw FlagSub.w_pf) (IdArg FlagSub.w_pf) (complete_model [] FlagSub.c0 [[112]; FlagSub.ddw FlagSub.w_sync; [45; 45]] 2) = true /\
  FlagSub.has_cand (FlagSub.ddw FlagSub.w_pf) (IdArg FlagSub.w_pf) (complete_model [] FlagSub.c0 [[112]; [45; 83]; [45; 45]] 2) = true /\
  FlagSub.kind_of (parse_top FlagSub.c0 [[112]; FlagSub.ddw FlagSub.w_sync; FlagSub.ddw FlagSub.w_pf]) = Some EUnknownArgument /\
  FlagSub.kind_of (parse_top FlagSub.c0 [[112]; [45; 83]; FlagSub.ddw FlagSub.w_pf]) = Some EUnknownArgument.
Proof. vm_compute. repeat split; reflexivity. Qed.
