(** Property C18, round 5: lines with the ESCAPE `--` (beyond the letter of the property, whose acceptance clause
    speaks of positions "before any `--`").

    Parser: behind `--` every word is delivered to the positional at the counter ([Escape.parse_loop_trailing_step]);
    no word is looked up as a subcommand or an option.  A completed line `line -- v1 .. vk w` is therefore rejected as
    "unknown" only when some word finds no positional: [room] says that every word does, and
    [escaped_accepted] (END TO END, parser) shows that no UnknownArgument / InvalidSubcommand comes out then - for
    EVERY word [w], in particular every candidate the engine offers.
    Engine: [eng_escape] (the step on `--`: same level, same index, [is_escaped] set) and [eng_escaped_vals] (the
    values of single-valued positionals and of a multi-valued positional below its maximum move the engine's
    [pos_index] exactly as they move the parser's counter; the state is [Pos _ _]).

    Names that exist in both models are the PARSER's when unqualified. *)
From ClapModel Require Import Base.Bytes Base.Machine Base.Utf8 Lex.OsStrExtModel Lex.OsStrExtProofs.
From ClapModel Require Import Complete.EngineModel Complete.EngineProofs.
From ClapModel Require Import Parse.Cmd Parse.Build Parse.Valid Parse.Matcher Parse.Errors Parse.Validator Parse.Parser.
From ClapModel Require Import ParseProofs.Spelling ParseProofs.Dispatch ParseProofs.ErrorSound.
From ClapModel Require Import ParseProofs.Actions ParseProofs.ActionsLoop ParseProofs.ActionsTop ParseProofs.Chain ParseProofs.ChainWide.
From ClapModel Require ParseProofs.Escape.
From ClapModel Require Import Complete.EngineAccept Complete.EngineLevel Complete.EngineLine Complete.EngineOptState Complete.EngineItems Complete.EngineWide.
From Coq Require Import ZArith Lia List Bool.
From RecordUpdate Require Import RecordSet.
Import RecordSetNotations.
Import ListNotations.
Open Scope N_scope.

Definition ESC : bytes := [45; 45].

(** * Parser side *)

(** the level: no low-index multiples, no [allow_missing_positional] ([ChainWide.pos_plain]), no [last(true)] argument
    (behind `--` the counter would jump to the last positional), no external subcommands *)
Definition esc_level (c : cmd) : Prop :=
  pos_plain c /\ existsb a_last (c_args c) = false.

(** every word of [toks] finds a positional, the counter starting at [pos] (what the trailing-mode loop does: the
    terminator of the positional at the counter and a value of a single-valued positional move the counter on, a
    value of a multi-valued positional does not) *)
Fixpoint room (c : cmd) (toks : list bytes) (pos : N) : Prop :=
  match toks with
  | [] => True
  | t :: r => exists a, get_pos c pos = Some a /\
                room c r (if check_terminator a t then pos + 1 else if a_is_multiple a then pos else pos + 1)
  end.

(** the parser's state behind `--`: [ArgMatcher::start_trailing] marks the pending occurrence *)
Definition esc_state (st : ps) : ps := st <| mt := start_trailing (mt st) |>.

(** the step on `--` between arguments: [trailing_values] is set, nothing else changes *)
Lemma loop_escape c rest pos vaf st : possible_subcommand c ESC vaf = None ->
  parse_loop c (ESC :: rest) (lsV pos vaf) st =
  parse_loop c rest (mkL PSValuesDone pos vaf true) (st <| mt := start_trailing (mt st) |>).
Proof.
  intros Hns. unfold lsV. cbn [parse_loop l_trailing l_pst l_vaf l_pos].
  rewrite orb_true_r, Hns. change (is_escape ESC) with true. cbn [state_arg rbind]. reflexivity.
Qed.

(** the trailing-mode loop on words that all find a positional: it ends with [LDone], or with an error of a flush *)
Lemma trailing_room c : esc_level c -> forall toks pst pos vaf st, room c toks pos ->
  (forall e s, parse_loop c toks (mkL pst pos vaf true) st = RErr e s -> reaction_error c e) /\
  (forall lr, parse_loop c toks (mkL pst pos vaf true) st = ROk lr -> exists st', lr = LDone st').
Proof.
  intros [[Hmiss Hlow] Hlast]. induction toks as [|t r IH]; intros pst pos vaf st Hroom.
  - cbn [parse_loop]. split; [discriminate|]. intros lr H. inversion H. eauto.
  - destruct Hroom as [a [Hg Hr]].
    rewrite (Escape.parse_loop_trailing_step c t r (mkL pst pos vaf true) st eq_refl).
    unfold Escape.pos_body, Escape.pos_correct. cbn [l_pos l_vaf].
    rewrite Hlow, Hmiss, Hlast. rewrite !andb_false_r. cbn [andb orb rbind]. rewrite Hg.
    destruct (if negb match pending_arg_id (mt st) with Some i => beq i (a_id a) | None => false end
                 || negb (a_multiple_values a) then resolve_pending c st else ROk st) as [st1|e1 s1|x] eqn:RP; cbn [rbind].
    + destruct (check_terminator a t).
      * apply IH. exact Hr.
      * destruct (pending_values_push (mt st1) (a_id a) (Some IIndex) true (Some t)) as [m1|]; cbn [expect rbind].
        -- destruct (a_is_multiple a); cbn [negb]; apply IH; exact Hr.
        -- split; intros; discriminate.
    + split; [|intros; discriminate]. intros e s H. inversion H; subst.
      destruct (negb _ || negb _); [eapply resolve_pending_err; eauto|discriminate].
    + split; intros; discriminate.
Qed.

(** END TO END, parser: a line of the class [pline], then `--`, then words that all find a positional at the final
    level: the completed line is never rejected with UnknownArgument / InvalidSubcommand *)
Theorem escaped_accepted c0 bin line pcf posf vf toks e :
  is_set s_no_binary_name c0 = false ->
  pline (build_self (with_bin c0 bin)) line pcf posf vf ->
  esc_level pcf -> possible_subcommand pcf ESC vf = None -> room pcf toks posf ->
  parse_top c0 (bin :: line ++ ESC :: toks) = OErr e -> ~ unknown_kind (e_kind e).
Proof.
  intros Hnb Hline Hel Hns Hroom Hp Hk.
  rewrite (parse_top_unfold c0 bin _ Hnb) in Hp. unfold do_parse in Hp.
  destruct (negb (valid (with_bin c0 bin))); [discriminate|].
  match type of Hp with match ?g with _ => _ end = _ => destruct g as [s1|e1 s1|x] eqn:Eg end.
  - discriminate.
  - assert (e1 = e).
    { destruct (is_set s_ignore_errors (build_self (with_bin c0 bin)) && use_stderr (e_kind e1)); [discriminate|].
      inversion Hp; reflexivity. }
    subst e1.
    refine (parse_pline _ line pcf posf vf Hline (ESC :: toks) _ _ ps_new eq_refl e s1 Eg Hk).
    intros f st Hfs e' s' H Hk'.
    change (mkL PSValuesDone posf vf false) with (lsV posf vf) in H. rewrite (loop_escape pcf toks posf vf st Hns) in H.
    destruct (trailing_room pcf Hel toks PSValuesDone posf vf (st <| mt := start_trailing (mt st) |>) Hroom) as [He Hok].
    destruct (parse_loop pcf toks (mkL PSValuesDone posf vf true) (st <| mt := start_trailing (mt st) |>)) as [lr|e2 s2|x] eqn:El;
      cbn [rbind] in H.
    + destruct (Hok lr eq_refl) as [st' ->]. cbn [dispatch_lr] in H. discriminate.
    + inversion H; subst. exact (reaction_not_unknown pcf e' (He e' s' eq_refl) Hk').
    + discriminate.
  - destruct x; discriminate.
Qed.

(** * Engine side *)

(** the values behind `--`: values (or the terminator) of single-valued positionals, each moving the counter on, then
    optionally values of a multi-valued positional below the engine's [num_args] (the counter stays); no value is a
    subcommand name (the ENGINE still looks words up as subcommands behind `--` - the parser does not) *)
Inductive escvals (c : cmd) : N -> list bytes -> N -> Prop :=
| ev_nil pos : escvals c pos [] pos
| ev_single pos v a r pos' : no_sub c v -> get_pos c pos = Some a ->
    (a_is_multiple a = false \/ check_terminator a v = true) ->
    escvals c (pos + 1) r pos' -> escvals c pos (v :: r) pos'
| ev_multi pos a vs : vs <> [] -> get_pos c pos = Some a -> a_is_multiple a = true ->
    Forall (fun v => no_sub c v /\ check_terminator a v = false) vs ->
    N.of_nat (length vs) < eng_num_args a -> escvals c pos vs pos.

Lemma escvals_room c pos vals pos' : escvals c pos vals pos' -> forall tail, room c tail pos' -> room c (vals ++ tail) pos.
Proof.
  induction 1 as [pos|pos v a r pos' Hns Hg Hk Hr IH|pos a vs Hne Hg Hm Hall Hlen]; intros tail Ht.
  - exact Ht.
  - cbn [app room]. exists a. split; [exact Hg|].
    destruct Hk as [Hk|Hk]; [rewrite Hk; destruct (check_terminator a v); apply IH; exact Ht|rewrite Hk; apply IH; exact Ht].
  - clear Hne Hlen. induction Hall as [|v t [_ Hct] _ IHt]; [exact Ht|].
    cbn [app room]. exists a. split; [exact Hg|]. rewrite Hct, Hm. exact IHt.
Qed.

Section EngineEscaped.
Variables pc cur : cmd.
Hypothesis L : elevel pc cur.
Let Hrel : lvl_rel pc cur := el_rel pc cur L.

(** the step on `--`: [is_escaped] is set, nothing else changes *)
Lemma eng_escape pi evaf : possible_subcommand pc ESC evaf = None ->
  shadow_step ESC cur pi false ValueDone evaf = SNext cur pi true ValueDone evaf.
Proof.
  intros Hns. unfold shadow_step. cbn [negb]. rewrite (eng_not_sub pc cur L ESC _ evaf Hns). reflexivity.
Qed.

(** the state the escaped shadow parse is in before a value of the positional at [pi] that is new to it *)
Definition est_before (pi : N) (est : pstate) : Prop :=
  match est with ValueDone => True | Pos prev _ => prev <> pi | Opt _ _ => False end.

Lemma esc_step v pi est evaf : no_sub pc v -> est_before pi est ->
  shadow_step v cur pi true est evaf =
  match parse_positional cur pi true est v with
  | Some (st', pi') => SNext cur pi' true st' true
  | None => SPanic 673
  end.
Proof.
  intros Hns Hst. unfold shadow_step. rewrite (eng_no_sub pc cur v _ Hrel Hns). reflexivity.
Qed.

(** a value (or the terminator) of a positional that takes one value: the index moves on, state [Pos pi 1] *)
Lemma eng_esc_single v a pi est evaf : no_sub pc v -> get_pos pc pi = Some a ->
  (a_is_multiple a = false \/ check_terminator a v = true) -> est_before pi est ->
  shadow_step v cur pi true est evaf = SNext cur (pi + 1) true (Pos pi 1) true.
Proof.
  intros Hns Hg Hk Hst. rewrite (esc_step v pi est evaf Hns Hst).
  unfold parse_positional. rewrite (find_pos_el pc cur L pi), Hg, is_value_terminator_check.
  destruct (check_terminator a v) eqn:Hct.
  - destruct est as [|prev n|o k]; [reflexivity|reflexivity|contradiction].
  - destruct Hk as [Hm|Hk]; [|discriminate].
    assert (Hin : In a (c_args pc)) by (apply (UnparseProofs.get_pos_in pc pi a Hg)).
    pose proof (single_num_args pc cur L a Hin Hm) as Hn. unfold eng_num_args in Hn.
    destruct est as [|prev n|o k]; [| |contradiction]; cbn [negb andb].
    + rewrite Hn. reflexivity.
    + cbn [est_before] in Hst. apply N.eqb_neq in Hst. rewrite Hst, Hn. reflexivity.
Qed.

Lemma eng_esc_multi_first v a pi est evaf : no_sub pc v -> get_pos pc pi = Some a -> check_terminator a v = false ->
  1 < eng_num_args a -> est_before pi est ->
  shadow_step v cur pi true est evaf = SNext cur pi true (Pos pi 1) true.
Proof.
  intros Hns Hg Hct Hn Hst. rewrite (esc_step v pi est evaf Hns Hst).
  unfold parse_positional. rewrite (find_pos_el pc cur L pi), Hg, is_value_terminator_check, Hct.
  apply N.ltb_lt in Hn. unfold eng_num_args in Hn.
  destruct est as [|prev n|o k]; [| |contradiction]; cbn [negb andb].
  - rewrite Hn. reflexivity.
  - cbn [est_before] in Hst. apply N.eqb_neq in Hst. rewrite Hst, Hn. reflexivity.
Qed.

Lemma eng_esc_multi_more v a pi n evaf : no_sub pc v -> get_pos pc pi = Some a -> check_terminator a v = false ->
  n + 1 < eng_num_args a ->
  shadow_step v cur pi true (Pos pi n) evaf = SNext cur pi true (Pos pi (n + 1)) true.
Proof.
  intros Hns Hg Hct Hn. unfold shadow_step. rewrite (eng_no_sub pc cur v _ Hrel Hns).
  unfold parse_positional. rewrite (find_pos_el pc cur L pi), Hg, is_value_terminator_check, Hct, N.eqb_refl.
  apply N.ltb_lt in Hn. unfold eng_num_args in Hn. cbn [negb andb]. rewrite Hn. reflexivity.
Qed.

Lemma eng_esc_multi_run a pi : get_pos pc pi = Some a -> forall vs n evaf,
  Forall (fun v => no_sub pc v /\ check_terminator a v = false) vs -> n + N.of_nat (length vs) < eng_num_args a ->
  shadow_run vs cur pi true (Pos pi n) evaf = SNext cur pi true (Pos pi (n + N.of_nat (length vs))) (evaf || negb (is_nil vs)).
Proof.
  intros Hg. induction vs as [|v t IH]; intros n evaf Hall Hlen.
  - cbn [shadow_run length N.of_nat is_nil negb]. rewrite N.add_0_r, orb_false_r. reflexivity.
  - inversion Hall as [|v0 t0 [Hns Hct] Hall']; subst. cbn [shadow_run].
    rewrite (eng_esc_multi_more v a pi n evaf Hns Hg Hct) by (cbn [length] in Hlen; lia).
    rewrite IH; [|exact Hall'|cbn [length] in Hlen; lia].
    replace (n + 1 + N.of_nat (length t)) with (n + N.of_nat (length (v :: t))) by (cbn [length]; lia).
    cbn [is_nil negb orb]. rewrite orb_true_r. reflexivity.
Qed.

(** POS_INDEX AGREEMENT behind `--`: along [escvals] the engine's index moves from [pos] to [pos'] as the parser's
    counter does ([escvals_room]); it stays escaped, and behind at least one value it is in a state [Pos _ _] *)
Theorem eng_escaped_vals pos vals pos' : escvals pc pos vals pos' -> forall est evaf, est_before pos est ->
  exists est', shadow_run vals cur pos true est evaf = SNext cur pos' true est' (evaf || negb (is_nil vals)) /\
               (vals = [] -> est' = est) /\ (vals <> [] -> exists p n, est' = Pos p n).
Proof.
  induction 1 as [pos|pos v a r pos' Hns Hg Hk Hr IH|pos a vs Hne Hg Hm Hall Hlen]; intros est evaf Hst.
  - exists est. cbn [shadow_run is_nil negb]. rewrite orb_false_r. split; [reflexivity|]. split; [reflexivity|congruence].
  - cbn [shadow_run]. rewrite (eng_esc_single v a pos est evaf Hns Hg Hk Hst).
    destruct (IH (Pos pos 1) true) as [est' [Hrun [He Hn]]]; [cbn [est_before]; lia|].
    exists est'. rewrite Hrun. cbn [is_nil negb orb]. rewrite orb_true_r. split; [reflexivity|]. split; [discriminate|].
    intros _. destruct r as [|v' r']; [rewrite (He eq_refl); eauto|apply Hn; discriminate].
  - destruct vs as [|v t]; [contradiction|]. inversion Hall as [|v0 t0 [Hns Hct] Hall']; subst.
    cbn [shadow_run].
    rewrite (eng_esc_multi_first v a pos est evaf Hns Hg Hct) by (try exact Hst; cbn [length] in Hlen; lia).
    rewrite (eng_esc_multi_run a pos Hg t 1 true Hall') by (cbn [length] in Hlen; lia).
    eexists. cbn [is_nil negb orb]. rewrite orb_true_r. split; [reflexivity|]. split; [discriminate|eauto].
Qed.
End EngineEscaped.

(** in a state [Pos _ _] nothing at all is offered when no positional is left at the index *)
Lemma pos_state_v_none tbl w c pi idx cnt vaf : find_pos c pi = None -> complete_arg_v tbl w c pi (Pos idx cnt) vaf = COk [].
Proof. cbn [complete_arg_v]. intros ->. reflexivity. Qed.

(** * END TO END with an escape: `line -- v1 .. vk <TAB>`.  EVERY candidate [cd] the engine offers behind at least one
    escaped value stands where a positional is left (otherwise it offers nothing), so the completed line is never
    rejected as "unknown"; directly behind `--` (state [ValueDone]: the engine offers options and subcommands
    whatever the positionals are) that needs a positional at the counter - the class boundary
    ([escape_no_positional_refuted]) *)
Theorem candidate_accepted_escaped tbl c0 bin line vals w after l cd pcf posf vf pos' e :
  tree_all unb c0 -> is_set s_no_binary_name c0 = false ->
  N.of_nat (length (line ++ ESC :: vals)) + 2 <= usize_max ->
  pline (build_self (with_bin c0 bin)) line pcf posf vf ->
  esc_level pcf -> possible_subcommand pcf ESC vf = None ->
  escvals pcf posf vals pos' -> (vals = [] -> get_pos pcf posf <> None) ->
  complete_model tbl c0 (bin :: (line ++ ESC :: vals) ++ w :: after) (N.of_nat (S (length (line ++ ESC :: vals)))) = COk l ->
  In cd l ->
  parse_top c0 (bin :: line ++ ESC :: vals ++ [cd_value cd]) = OErr e -> ~ unknown_kind (e_kind e).
Proof.
  intros Hu Hnb Hlen Hline Hel Hns Hev Hnil Hm Hin Hp.
  destruct (model_ok_inv tbl c0 _ _ l Hm) as [b [w' [cur [pi [st [esc [vaf [Hb [Hw [Hc _]]]]]]]]]].
  pose proof (root_rel _ c0 bin b Hu Hb) as Hrel.
  assert (Hnb' : is_set s_no_binary_name b = false).
  { rewrite <- (lvl_rel_is_set _ _ s_no_binary_name Hrel), build_self_nbn.
    destruct (with_bin_cases c0 bin) as [-> | ->]; [exact Hnb|]. destruct c0; exact Hnb. }
  rewrite (start_walk_run b bin (line ++ ESC :: vals) w after Hnb' Hlen) in Hw.
  destruct (eng_pline _ line pcf posf vf Hline b Hrel) as [curf [Hrun Hrelf]].
  pose proof (lvlw_el pcf curf (pline_final _ _ _ _ _ Hline) Hrelf) as Lf.
  rewrite shadow_run_app, Hrun in Hw. cbn [shadow_run] in Hw.
  rewrite (eng_escape pcf curf Lf posf vf Hns) in Hw.
  destruct (eng_escaped_vals pcf curf Lf posf vals pos' Hev ValueDone vf I) as [est' [Hrun2 [He Hne]]].
  rewrite Hrun2 in Hw. cbn [walk_of] in Hw. inversion Hw; subst w' cur pi st esc vaf. clear Hw.
  (* a positional is left for the candidate *)
  assert (Hpos : exists a, get_pos pcf pos' = Some a).
  { destruct vals as [|v0 vals0].
    - inversion Hev; subst; [|match goal with H : [] <> [] |- _ => contradiction end].
      destruct (get_pos pcf pos') as [a|] eqn:Eg; [eauto|]. exfalso. exact (Hnil eq_refl eq_refl).
    - destruct (Hne ltac:(discriminate)) as [p [n ->]].
      destruct (find_pos curf pos') as [a|] eqn:Ef.
      + exists a. rewrite <- (find_pos_el pcf curf Lf pos'). exact Ef.
      + rewrite (pos_state_v_none tbl w curf pos' p n _ Ef) in Hc. inversion Hc; subst. destruct Hin. }
  destruct Hpos as [a Ha].
  apply (escaped_accepted c0 bin line pcf posf vf (vals ++ [cd_value cd]) e Hnb Hline Hel Hns); [|exact Hp].
  apply (escvals_room pcf posf vals pos' Hev). cbn [room]. exists a. split; [exact Ha|exact I].
Qed.

(** * Non-vacuity and the class boundary *)
Module EscLine.
Definition w_opt : bytes := [111; 112; 116].
Definition w_src : bytes := [115; 114; 99].
Definition w_files : bytes := [102; 105; 108; 101; 115].
Definition w_sub : bytes := [115; 117; 98].
Definition ddw (s : bytes) : bytes := 45 :: 45 :: s.
(** p(--opt <v>; <src>; <files>..) -> sub *)
Definition ext : cmd :=
  (cmd_new [112])
    <| c_args := [ (arg_new w_opt) <| a_long := Some w_opt |> <| a_action := Some ASet |>;
                   (arg_new w_src) <| a_action := Some ASet |>;
                   (arg_new w_files) <| a_action := Some ASet |> <| a_num := Some {| vmin := 1; vmax := usize_max |} |> ] |>
    <| c_subs := [ cmd_new w_sub ] |>.
(** p(--opt <v>) -> sub: no positional at all *)
Definition ext0 : cmd :=
  (cmd_new [112])
    <| c_args := [ (arg_new w_opt) <| a_long := Some w_opt |> <| a_action := Some ASet |> ] |>
    <| c_subs := [ cmd_new w_sub ] |>.
Definition root : cmd := build_self (with_bin ext [112]).
Definition a_src : arg := match find_arg root w_src with Some a => a | None => arg_new [] end.
Definition a_files : arg := match find_arg root w_files with Some a => a | None => arg_new [] end.
Definition line : list bytes := [ddw w_opt; [120]] ++ [].
Definition vals : list bytes := [[115]; [102; 49]].
Definition has_cand (v : bytes) (i : cid) (r : cres) : bool :=
  match r with COk l => existsb (fun cd => beq (cd_value cd) v && opt_cid_eqb (cd_id cd) (Some i)) l | _ => false end.
Definition kind_of (o : outcome) : option ekind := match o with OErr e => Some (e_kind e) | _ => None end.

Lemma ex_pline : pline root line root 1 true.
Proof.
  change true with (negb (is_nil line)).
  eapply pl_here; [apply lvlw_b_ok; vmr|].
  eapply (p18_opt root false 1 [ddw w_opt; [120]] _ []); [|apply p18_nil].
  apply i18_base. eapply it_sep; [solve_nosub|vmr|vmr|vmr|vmr|vmr|vmr|vmr|solve_nosub|vmr|vmr|vmr|vmr].
Qed.

Lemma ex_escvals : escvals root 1 vals 2.
Proof.
  eapply (ev_single root 1 [115] a_src [[102; 49]] 2); [solve_nosub|vmr|left; vmr|].
  eapply (ev_multi root 2 a_files [[102; 49]]); [discriminate|vmr|vmr| |vm_compute; reflexivity].
  apply Forall_cons; [split; [solve_nosub|vmr]|apply Forall_nil].
Qed.

(** `p --opt x -- s f1 -<TAB>`: all hypotheses of [candidate_accepted_escaped]; the engine offers `--opt` (the minimum
    of <files> is reached) and `p --opt x -- s f1 --opt` parses (the word is one more value of <files>).
    The class boundary: `p(--opt) -> sub` has no positional; directly behind `--` the engine still offers `--opt` and
    `sub`, and the completed lines `p -- --opt`, `p -- sub` are rejected as unknown (InvalidSubcommand resp. UnknownArgument:
    [Parser::match_arg_error]) - outside the letter of
    the property ("before any `--`"); same on the real crate (corpus/C18/accept.after-escape.cases) *)
Example ex_escaped_hyps :
  unb_tree 5 ext = true /\ is_set s_no_binary_name ext = false /\
  N.of_nat (length (line ++ ESC :: vals)) + 2 <= usize_max /\
  pline root line root 1 true /\ esc_level root /\ possible_subcommand root ESC true = None /\ escvals root 1 vals 2 /\
  has_cand (ddw w_opt) (IdArg w_opt)
    (complete_model [] ext ([112] :: (line ++ ESC :: vals) ++ [[45]]) (N.of_nat (S (length (line ++ ESC :: vals))))) = true /\
  match parse_top ext ([112] :: line ++ ESC :: vals ++ [ddw w_opt]) with OOk _ => true | _ => false end = true.
Proof.
  split; [vmr|]. split; [vmr|]. split; [vm_compute; discriminate|]. split; [exact ex_pline|].
  split; [split; [split; vmr|vmr]|]. split; [vmr|]. split; [exact ex_escvals|]. split; vmr.
Qed.
End EscLine.

Theorem escape_no_positional_refuted :
  EscLine.has_cand (EscLine.ddw EscLine.w_opt) (IdArg EscLine.w_opt) (complete_model [] EscLine.ext0 [[112]; ESC; []] 2) = true /\
  EscLine.has_cand EscLine.w_sub (IdCmd EscLine.w_sub) (complete_model [] EscLine.ext0 [[112]; ESC; []] 2) = true /\
  EscLine.kind_of (parse_top EscLine.ext0 [[112]; ESC; EscLine.ddw EscLine.w_opt]) = Some EInvalidSubcommand /\
  EscLine.kind_of (parse_top EscLine.ext0 [[112]; ESC; EscLine.w_sub]) = Some EUnknownArgument.
Proof. vm_compute. repeat split; reflexivity. Qed.

(** the two machines behind `--`, side by side: the engine's step on `--` and its run over the values (index from [pos]
    to [pos'], still escaped, state [Pos _ _] behind at least one value); the parser's step on `--` and, for every
    continuation [tail] that finds positionals from [pos'] on, its trailing-mode loop over [vals ++ tail] (every word
    finds a positional from [pos] on: it ends with [LDone] or an error of a flush) *)
Theorem escaped_agreement pc cur pos vals pos' vaf : elevel pc cur -> esc_level pc ->
  possible_subcommand pc ESC vaf = None -> escvals pc pos vals pos' ->
  (exists est', shadow_run (ESC :: vals) cur pos false ValueDone vaf = SNext cur pos' true est' (vaf || negb (is_nil vals)) /\
                (vals = [] -> est' = ValueDone) /\ (vals <> [] -> exists p n, est' = Pos p n)) /\
  (forall tail st, room pc tail pos' ->
     parse_loop pc (ESC :: vals ++ tail) (lsV pos vaf) st =
     parse_loop pc (vals ++ tail) (mkL PSValuesDone pos vaf true) (esc_state st) /\
     (forall e s, parse_loop pc (ESC :: vals ++ tail) (lsV pos vaf) st = RErr e s -> reaction_error pc e) /\
     (forall lr, parse_loop pc (ESC :: vals ++ tail) (lsV pos vaf) st = ROk lr -> exists st', lr = LDone st')).
Proof.
  intros L Hel Hns Hev. split.
  - cbn [shadow_run]. rewrite (eng_escape pc cur L pos vaf Hns).
    exact (eng_escaped_vals pc cur L pos vals pos' Hev ValueDone vaf I).
  - intros tail st Hroom. rewrite (loop_escape pc (vals ++ tail) pos vaf st Hns). split; [reflexivity|].
    exact (trailing_room pc Hel (vals ++ tail) PSValuesDone pos vaf _ (escvals_room pc pos vals pos' Hev tail Hroom)).
Qed.
