(** Completion engine (property C18): completeness for short options, and soundness /
    completeness of the value candidates of an option that awaits a value (state [Opt o cnt],
    [--opt=<word>]).  All statements are about the model of EngineModel.v, for all inputs of the
    stated class. *)
From ClapModel Require Import Base.Bytes Base.Machine Base.Utf8.
From ClapModel Require Import Parse.Cmd Parse.Build Parse.Valid Complete.EngineModel Complete.EngineProofs.
From Coq Require Import ZArith Lia Bool List.
From RecordUpdate Require Import RecordSet.
Import RecordSetNotations. Import ListNotations.
Open Scope N_scope.

(** * A. Short options in state [ValueDone] *)

(** [s] is a visible short spelling of [a]: its short name, or a visible short alias of an
    argument that has a short name ([Arg::get_short_and_visible_aliases] is [None] without one) *)
Definition short_spelling (a : arg) (s : N) : Prop :=
  a_short a = Some s \/ (a_short a <> None /\ In s (vis_aliases (a_short_aliases a))).

Lemma shorts_has c a s : In a (c_args c) -> short_spelling a s ->
  In (populate_arg_candidate (utf8_encode s) a) (shorts_and_visible_aliases c).
Proof.
  unfold short_spelling. intros Ha Hs. unfold shorts_and_visible_aliases. apply in_flat_map. exists a. split; [assumption|].
  unfold get_short_and_visible_aliases. destruct (a_short a) as [s0|] eqn:Es.
  - apply (in_map (fun s1 => populate_arg_candidate (utf8_encode s1) a)).
    destruct Hs as [Hs|[_ Hs]]; [inversion Hs; left; reflexivity|right; assumption].
  - destruct Hs as [Hs|[Hs _]]; [discriminate|tauto].
Qed.

(** the words after which a further short flag can be typed: nothing, [-], or a well-formed
    cluster [-xyz] of flags none of which takes a value *)
Definition short_cluster (c : cmd) (w lead : bytes) : Prop :=
  exists short rest, to_short w = Some short /\ utf8_valid w = true /\
    sf_is_negative_number short = false /\ parse_shortflags c short = SFOk lead None rest.

Definition short_word (c : cmd) (w : bytes) : Prop :=
  w = [] \/ w = [DASH] \/ exists lead, short_cluster c w lead.

(** what [to_short] succeeding says to the branch tests of [complete_option] *)
Lemma to_short_shape w short : to_short w = Some short ->
  is_empty w = false /\ is_stdio w = false /\ is_escape w = false /\ to_long w = None.
Proof.
  unfold to_short. destruct w as [|a r]; [discriminate|].
  destruct (a =? DASH) eqn:Ea; [|discriminate].
  destruct r as [|b t]; [discriminate|]. destruct (b =? DASH) eqn:Eb; [discriminate|]. intros _.
  split; [reflexivity|]. split; [reflexivity|]. split.
  - unfold is_escape. destruct t; [|reflexivity]. rewrite Eb. apply andb_false_r.
  - unfold to_long. rewrite Eb. rewrite andb_false_r. reflexivity.
Qed.

(** on a cluster the leading flags are the whole cluster *)
Lemma short_cluster_lead c w lead : short_cluster c w lead -> w = DASH :: lead.
Proof.
  intros [short [rest [Hts [Hv [_ Hp]]]]]. apply to_short_some in Hts. subst w. f_equal.
  unfold parse_shortflags in Hp. apply parse_shortflags_loop_all in Hp; [|apply utf8_valid_dash; assumption].
  cbn [app] in Hp. symmetry. assumption.
Qed.

(** the raw candidate [-<lead><s>] is in [complete_option]'s list *)
Lemma complete_option_has_short_cluster tbl w c a s lead :
  In a (c_args c) -> short_spelling a s -> short_cluster c w lead ->
  exists opts, complete_option tbl w c = COk opts /\
    In (add_prefix ([DASH] ++ lead) (populate_arg_candidate (utf8_encode s) a)) opts.
Proof.
  intros Ha Hs [short [rest [Hts [Hv [Hneg Hp]]]]].
  destruct (to_short_shape w short Hts) as [H0 [H1 [H2 H3]]].
  unfold complete_option. rewrite H0, H1, H2, H3, Hts, Hneg. cbn [negb]. rewrite Hp, Hv.
  eexists. split; [reflexivity|].
  apply (in_map (add_prefix ([DASH] ++ lead))). apply shorts_has; assumption.
Qed.

Lemma complete_option_has_short tbl w c a s :
  In a (c_args c) -> short_spelling a s -> short_word c w ->
  exists lead opts, complete_option tbl w c = COk opts /\
    In (add_prefix ([DASH] ++ lead) (populate_arg_candidate (utf8_encode s) a)) opts /\
    is_prefix w ([DASH] ++ lead ++ utf8_encode s) = true.
Proof.
  intros Ha Hs [->|[->|[lead Hc]]].
  - exists []. eexists. split; [reflexivity|]. split; [|apply is_prefix_nil].
    apply in_or_app. right. apply in_or_app. right.
    apply (in_map (add_prefix [DASH])). apply shorts_has; assumption.
  - exists []. eexists. split; [reflexivity|]. split; [|unfold is_prefix; apply (starts_with_app [DASH])].
    apply in_or_app. left.
    apply (in_map (add_prefix [DASH])). apply shorts_has; assumption.
  - destruct (complete_option_has_short_cluster tbl w c a s lead Ha Hs Hc) as [opts [Ho Hin]].
    exists lead, opts. split; [assumption|]. split; [assumption|].
    rewrite (short_cluster_lead c w lead Hc). unfold is_prefix.
    change ([DASH] ++ lead ++ utf8_encode s) with ((DASH :: lead) ++ utf8_encode s). apply starts_with_app.
Qed.

(** C18_complete, short options: every visible short spelling of a visible argument is
    represented (after the hidden filter and the de-duplication by id) by a visible candidate
    of that argument *)
Theorem value_done_complete_short tbl w c pi l a s :
  complete_arg_value_done tbl w c pi = COk l ->
  In a (c_args c) -> a_hide a = false -> short_spelling a s -> short_word c w ->
  exists y, In y l /\ cd_id y = Some (IdArg (a_id a)) /\ cd_hidden y = false.
Proof.
  intros H Ha Hh Hs Hw.
  destruct (value_done_inv _ _ _ _ _ H) as [posv [opts [_ [Ho ->]]]].
  destruct (complete_option_has_short tbl w c a s Ha Hs Hw) as [lead [opts' [Ho' [Hin _]]]].
  rewrite Ho in Ho'. inversion Ho'; subst opts'.
  eapply finish_repr; [apply in_finish_of_parts; exact Hin| |]; cbn; [assumption|reflexivity].
Qed.

(** ** Non-vacuity: a command with a value-taking option [--color/-c] (visible short alias [-C],
    hidden one [-k], delimiter [,], declared values red, rose and the hidden grey) and two flags *)
Definition s_color : bytes := [99; 111; 108; 111; 114].
Definition s_red : bytes := [114; 101; 100].
Definition s_rose : bytes := [114; 111; 115; 101].
Definition s_grey : bytes := [103; 114; 101; 121].
Definition a_color : arg :=
  (arg_new s_color) <| a_long := Some s_color |> <| a_short := Some 99 |>
    <| a_short_aliases := [(67, true); (107, false)] |>
    <| a_action := Some ASet |> <| a_num := Some r_single |> <| a_delim := Some 44 |>.
Definition a_verbose : arg :=
  (arg_new [118]) <| a_short := Some 118 |> <| a_action := Some ASetTrue |> <| a_num := Some r_empty |>.
Definition a_quiet : arg :=
  (arg_new [113]) <| a_short := Some 113 |> <| a_action := Some ASetTrue |> <| a_num := Some r_empty |>.
Definition pv_cmd : cmd := (cmd_new [112]) <| c_args := [a_color; a_verbose; a_quiet] |>.
Definition pv_tbl : pvtable := [(s_color, [(s_red, false); (s_rose, false); (s_grey, true)])].

(** the word [-vq]: [-vqc] and [-vqC] are offered, represented by one candidate of [color] *)
Example ex_short_cluster : short_cluster pv_cmd [45; 118; 113] [118; 113].
Proof. exists [118; 113], []. repeat split; vm_compute; reflexivity. Qed.

Example ex_complete_short_hyps :
  exists l, complete_arg_value_done pv_tbl [45; 118; 113] pv_cmd 1 = COk l /\
    In a_color (c_args pv_cmd) /\ a_hide a_color = false /\ short_spelling a_color 67 /\
    short_word pv_cmd [45; 118; 113] /\
    existsb (fun y => beq (cd_value y) [45; 118; 113; 99]) l = true.
Proof.
  eexists. split; [vm_compute; reflexivity|]. split; [left; reflexivity|]. split; [reflexivity|].
  split; [right; split; [discriminate|left; reflexivity]|].
  split; [right; right; exists [118; 113]; exact ex_short_cluster|vm_compute; reflexivity].
Qed.

(** * B. Value candidates of an option *)

(** ** [rsplit_delimiter] *)
Lemma rfind_split_inv d : forall rest seen best,
  (forall p v, best = Some (p, v) -> p ++ v = seen ++ rest /\ exists p0, p = p0 ++ d) ->
  forall p v, rfind_split d seen rest best = Some (p, v) ->
    p ++ v = seen ++ rest /\ exists p0, p = p0 ++ d.
Proof.
  induction rest as [|b t IH]; intros seen best Hb p v H; cbn [rfind_split] in H.
  - apply Hb; assumption.
  - assert (Hseen : (seen ++ [b]) ++ t = seen ++ b :: t) by (rewrite <- app_assoc; reflexivity).
    rewrite <- Hseen. eapply IH; [|exact H].
    intros p' v' Hbest. rewrite Hseen. destruct (starts_with (b :: t) d) eqn:Esw.
    + inversion Hbest; subst p' v'. split; [|exists seen; reflexivity].
      rewrite <- app_assoc. f_equal. symmetry. apply starts_with_skipn. assumption.
    + apply Hb; assumption.
Qed.

(** the split is a split of the word, at the end of an occurrence of the delimiter
    (the form [a,b,<TAB>]: the prefix ends with the delimiter) *)
Lemma rsplit_delimiter_inv w delim pre v0 : rsplit_delimiter w delim = Some (pre, v0) ->
  utf8_valid w = true /\ w = pre ++ v0 /\ exists d p0, delim = Some d /\ pre = p0 ++ utf8_encode d.
Proof.
  unfold rsplit_delimiter. destruct delim as [d|]; [|discriminate].
  destruct (utf8_valid w); [|discriminate]. intros H. split; [reflexivity|].
  destruct (rfind_split_inv (utf8_encode d) w [] None) with (2 := H) as [Hw [p0 Hp]].
  - intros p v Hn; discriminate.
  - split; [symmetry; exact Hw|]. exists d, p0. split; [reflexivity|assumption].
Qed.

Lemma rsplit_delimiter_some w d pre v0 : rsplit_delimiter w (Some d) = Some (pre, v0) ->
  w = pre ++ v0 /\ exists p0, pre = p0 ++ utf8_encode d.
Proof.
  intros H. destruct (rsplit_delimiter_inv _ _ _ _ H) as [_ [Hw [d' [p0 [Hd Hp]]]]].
  inversion Hd; subst d'. split; [assumption|]. exists p0; assumption.
Qed.

(** ** [complete_arg_value] *)
Definition value_cands (pvs : option (list (bytes * bool))) (v0 : bytes) : list cand :=
  match pvs with
  | Some l => if utf8_valid v0
              then map (fun p => mkCand (fst p) None (snd p)) (filter (fun p => is_prefix v0 (fst p)) l)
              else []
  | None => []
  end.

Lemma complete_arg_value_eq tbl w a :
  complete_arg_value tbl w a =
  match possible_values tbl a with
  | None => None
  | Some pvs => Some (match rsplit_delimiter w (a_delim a) with
                      | Some (p, v0) => map (add_prefix p) (value_cands pvs v0)
                      | None => value_cands pvs w end)
  end.
Proof.
  unfold complete_arg_value, value_cands.
  destruct (rsplit_delimiter w (a_delim a)) as [[p v0]|]; destruct (possible_values tbl a); reflexivity.
Qed.

Lemma value_cands_in pvs v0 y : In y (value_cands pvs v0) <->
  exists l v h, pvs = Some l /\ In (v, h) l /\ utf8_valid v0 = true /\ is_prefix v0 v = true /\ y = mkCand v None h.
Proof.
  split.
  - unfold value_cands. destruct pvs as [l|]; [|intros []]. destruct (utf8_valid v0) eqn:Ev; [|intros []].
    intros H. apply in_map_iff in H. destruct H as [[v h] [<- Hp]]. apply filter_In in Hp.
    destruct Hp as [Hin Hpre]. cbn [fst snd] in *. exists l, v, h.
    split; [reflexivity|]. split; [assumption|]. split; [reflexivity|]. split; [assumption|reflexivity].
  - intros [l [v [h [-> [Hin [Ev [Hp ->]]]]]]]. unfold value_cands. rewrite Ev.
    apply in_map_iff. exists (v, h). split; [reflexivity|]. apply filter_In. split; assumption.
Qed.

(** soundness: a value candidate is [pre ++ v] for a declared value [v], carrying the declared
    hidden flag, where the word is [pre ++ v0], [v0] a prefix of [v], and [pre] is empty or the
    part of the word up to and including the last delimiter *)
Theorem complete_arg_value_sound tbl w a l y :
  complete_arg_value tbl w a = Some l -> In y l ->
  cd_id y = None /\
  exists pre v0 v h pvs, w = pre ++ v0 /\ possible_values tbl a = Some (Some pvs) /\ In (v, h) pvs /\
    utf8_valid v0 = true /\ is_prefix v0 v = true /\ cd_value y = pre ++ v /\ cd_hidden y = h /\
    (pre = [] /\ rsplit_delimiter w (a_delim a) = None \/ rsplit_delimiter w (a_delim a) = Some (pre, v0)).
Proof.
  intros H Hy. split; [eapply complete_arg_value_ids; eauto|].
  rewrite complete_arg_value_eq in H. destruct (possible_values tbl a) as [pvs|] eqn:Epv; [|discriminate].
  inversion H; subst l; clear H.
  destruct (rsplit_delimiter w (a_delim a)) as [[p v0]|] eqn:Er.
  - apply in_map_iff in Hy. destruct Hy as [y0 [<- Hy0]]. apply value_cands_in in Hy0.
    destruct Hy0 as [l0 [v [h [-> [Hin [Ev [Hp ->]]]]]]].
    destruct (rsplit_delimiter_inv _ _ _ _ Er) as [_ [Hw _]].
    exists p, v0, v, h, l0. split; [assumption|]. split; [reflexivity|]. split; [assumption|].
    split; [assumption|]. split; [assumption|]. split; [reflexivity|]. split; [reflexivity|].
    right; reflexivity.
  - apply value_cands_in in Hy. destruct Hy as [l0 [v [h [-> [Hin [Ev [Hp ->]]]]]]].
    exists [], w, v, h, l0. split; [reflexivity|]. split; [reflexivity|]. split; [assumption|].
    split; [assumption|]. split; [assumption|]. split; [reflexivity|]. split; [reflexivity|].
    left; split; reflexivity.
Qed.

(** every value candidate extends the word *)
Corollary complete_arg_value_extends tbl w a l y :
  complete_arg_value tbl w a = Some l -> In y l -> is_prefix w (cd_value y) = true.
Proof.
  intros H Hy. destruct (complete_arg_value_sound _ _ _ _ _ H Hy)
    as [_ [pre [v0 [v [h [pvs [Hw [_ [_ [_ [Hp [Hv _]]]]]]]]]]]].
  unfold is_prefix in *. apply starts_with_spec in Hp. destruct Hp as [t ->].
  rewrite Hv, Hw. apply starts_with_spec. exists t. rewrite app_assoc. reflexivity.
Qed.

(** and is a declared value (behind the prefix) with its declared hidden flag *)
Corollary complete_arg_value_declared tbl w a l y :
  complete_arg_value tbl w a = Some l -> In y l ->
  exists pre v pvs, possible_values tbl a = Some (Some pvs) /\ In (v, cd_hidden y) pvs /\ cd_value y = pre ++ v.
Proof.
  intros H Hy. destruct (complete_arg_value_sound _ _ _ _ _ H Hy)
    as [_ [pre [v0 [v [h [pvs [_ [Hpv [Hin [_ [_ [Hv [Hh _]]]]]]]]]]]]].
  exists pre, v, pvs. subst h. auto.
Qed.

(** completeness: every declared value extending the part of the word behind the last delimiter
    is offered, behind the prefix *)
Theorem complete_arg_value_complete tbl w a pvs v h pre v0 :
  possible_values tbl a = Some (Some pvs) -> In (v, h) pvs ->
  utf8_valid v0 = true -> is_prefix v0 v = true ->
  (pre = [] /\ v0 = w /\ rsplit_delimiter w (a_delim a) = None
   \/ rsplit_delimiter w (a_delim a) = Some (pre, v0)) ->
  exists l, complete_arg_value tbl w a = Some l /\ In (mkCand (pre ++ v) None h) l.
Proof.
  intros Hpv Hin Ev Hp Hr. rewrite complete_arg_value_eq, Hpv. eexists. split; [reflexivity|].
  assert (Hc : In (mkCand v None h) (value_cands (Some pvs) v0)).
  { apply value_cands_in. exists pvs, v, h. auto. }
  destruct Hr as [[-> [-> Hr]]|Hr]; rewrite Hr.
  - exact Hc.
  - apply in_map_iff. exists (mkCand v None h). split; [reflexivity|exact Hc].
Qed.

Example ex_value_sound_hyps :
  complete_arg_value pv_tbl [114; 101; 100; 44; 114] a_color
  = Some [mkCand [114; 101; 100; 44; 114; 101; 100] None false;
          mkCand [114; 101; 100; 44; 114; 111; 115; 101] None false].
Proof. vm_compute. reflexivity. Qed.

(** [red,r]: prefix [red,], [rose] extends [r]; and the plain word [g] with the hidden [grey] *)
Example ex_value_complete_hyps :
  possible_values pv_tbl a_color = Some (Some [(s_red, false); (s_rose, false); (s_grey, true)]) /\
  rsplit_delimiter [114; 101; 100; 44; 114] (a_delim a_color) = Some ([114; 101; 100; 44], [114]) /\
  is_prefix [114] s_rose = true /\ utf8_valid [114] = true /\
  rsplit_delimiter [103] (a_delim a_color) = None /\ is_prefix [103] s_grey = true.
Proof. vm_compute. repeat split; reflexivity. Qed.

(** ** What [finish] keeps of candidates without id *)
Lemma dedup_ids_keeps_noid : forall l seen x, In x l -> cd_id x = None -> In x (dedup_ids seen l).
Proof.
  induction l as [|a t IH]; intros seen x Hx Hn; [destruct Hx|]. cbn [dedup_ids].
  destruct Hx as [->|Hx].
  - rewrite Hn. left; reflexivity.
  - destruct (cd_id a) as [i|]; [destruct (existsb (cid_eqb i) seen)|].
    + apply IH; assumption.
    + right. apply IH; assumption.
    + right. apply IH; assumption.
Qed.

Lemma hide_filter_keeps_visible l x : In x l -> cd_hidden x = false -> In x (hide_filter l).
Proof.
  intros Hx Hv. unfold hide_filter. destruct (existsb (fun a => negb (cd_hidden a)) l); [|assumption].
  apply filter_In. split; [assumption|rewrite Hv; reflexivity].
Qed.

Lemma finish_keeps l x : In x l -> cd_hidden x = false -> cd_id x = None -> In x (finish l).
Proof.
  intros Hx Hv Hn. unfold finish. apply dedup_ids_keeps_noid; [|assumption].
  apply hide_filter_keeps_visible; assumption.
Qed.

(** ** State [Opt o cnt] *)
Definition opt_min (o : arg) : N := match a_num o with Some r => vmin r | None => 0 end.

Lemma opt_state_inv tbl w c pi o cnt l : complete_arg tbl w c pi (Opt o cnt) = COk l ->
  exists optv more, complete_arg_value tbl w o = Some optv /\
    (if opt_min o <? cnt then complete_arg_value_done tbl w c pi else COk []) = COk more /\
    l = finish (optv ++ more).
Proof.
  cbn [complete_arg]. intros H. apply cbind_ok_inv in H. destruct H as [optv [H1 H]].
  cbv beta zeta in H. apply cbind_ok_inv in H. destruct H as [more [H2 H]]. cbv beta in H.
  inversion H; subst l; clear H.
  destruct (complete_arg_value tbl w o) as [l0|]; [|discriminate]. cbn [of_opt] in H1.
  inversion H1; subst l0; clear H1.
  exists optv, more. split; [reflexivity|]. split; [exact H2|reflexivity].
Qed.

(** completeness: every visible declared value of the option that extends the word (behind the
    last delimiter) is in the result, whatever else is offered *)
Theorem opt_state_complete tbl w c pi o cnt l pvs v pre v0 :
  complete_arg tbl w c pi (Opt o cnt) = COk l ->
  possible_values tbl o = Some (Some pvs) -> In (v, false) pvs ->
  utf8_valid v0 = true -> is_prefix v0 v = true ->
  (pre = [] /\ v0 = w /\ rsplit_delimiter w (a_delim o) = None
   \/ rsplit_delimiter w (a_delim o) = Some (pre, v0)) ->
  In (mkCand (pre ++ v) None false) l.
Proof.
  intros H Hpv Hin Ev Hp Hr.
  destruct (opt_state_inv _ _ _ _ _ _ _ H) as [optv [more [Hv [_ ->]]]].
  destruct (complete_arg_value_complete tbl w o pvs v false pre v0 Hpv Hin Ev Hp Hr) as [l' [Hv' Hin']].
  rewrite Hv in Hv'. inversion Hv'; subst l'.
  apply finish_keeps; [apply in_or_app; left; assumption|reflexivity|reflexivity].
Qed.

(** soundness: a candidate comes from the values of the option, or (only once the option has
    its minimum of values) from the state [ValueDone] *)
Theorem opt_state_sound_gen tbl w c pi o cnt l y :
  complete_arg tbl w c pi (Opt o cnt) = COk l -> In y l ->
  (exists lv, complete_arg_value tbl w o = Some lv /\ In y lv) \/
  ((opt_min o <? cnt) = true /\ exists more, complete_arg_value_done tbl w c pi = COk more /\ In y more).
Proof.
  intros H Hy. destruct (opt_state_inv _ _ _ _ _ _ _ H) as [optv [more [Hv [Hm ->]]]].
  apply finish_incl in Hy. apply in_app_or in Hy. destruct Hy as [Hy|Hy].
  - left. exists optv. split; [assumption|assumption].
  - right. destruct (opt_min o <? cnt).
    + split; [reflexivity|]. exists more. split; assumption.
    + inversion Hm; subst more. destruct Hy.
Qed.

Theorem opt_state_sound tbl w c pi o cnt l y :
  complete_arg tbl w c pi (Opt o cnt) = COk l -> (opt_min o <? cnt) = false -> In y l ->
  exists lv, complete_arg_value tbl w o = Some lv /\ In y lv.
Proof.
  intros H Hc Hy. destruct (opt_state_sound_gen _ _ _ _ _ _ _ _ H Hy) as [Hl|[Hc' _]]; [assumption|congruence].
Qed.

(** hence: while the option still needs a value, every candidate is a declared value of the
    option (behind the delimiter prefix), with its declared hidden flag, and extends the word *)
Corollary opt_state_sound_values tbl w c pi o cnt l y :
  complete_arg tbl w c pi (Opt o cnt) = COk l -> (opt_min o <? cnt) = false -> In y l ->
  cd_id y = None /\ is_prefix w (cd_value y) = true /\
  exists pre v pvs, possible_values tbl o = Some (Some pvs) /\ In (v, cd_hidden y) pvs /\ cd_value y = pre ++ v.
Proof.
  intros H Hc Hy. destruct (opt_state_sound _ _ _ _ _ _ _ _ H Hc Hy) as [lv [Hv Hin]].
  split; [eapply complete_arg_value_ids; eauto|].
  split; [eapply complete_arg_value_extends; eauto|eapply complete_arg_value_declared; eauto].
Qed.

(** [p --color red,r<TAB>] resp. [p -c red,r<TAB>]: state [Opt a_color 1] *)
Example ex_opt_state_hyps :
  complete_arg pv_tbl [114; 101; 100; 44; 114] pv_cmd 1 (Opt a_color 1)
  = COk [mkCand [114; 101; 100; 44; 114; 101; 100] None false;
         mkCand [114; 101; 100; 44; 114; 111; 115; 101] None false] /\
  (opt_min a_color <? 1) = false.
Proof. vm_compute. split; reflexivity. Qed.

(** ** [rsplit_delimiter] splits at the LAST occurrence of the delimiter *)
Lemma rfind_split_last d : forall rest seen best,
  (forall x y, seen ++ rest = x ++ d ++ y -> (length x < length seen)%nat ->
     exists p v, best = Some (p, v) /\ (length x + length d <= length p)%nat) ->
  forall x y, seen ++ rest = x ++ d ++ y -> (length x < length (seen ++ rest))%nat ->
     exists p v, rfind_split d seen rest best = Some (p, v) /\ (length x + length d <= length p)%nat.
Proof.
  induction rest as [|b t IH]; intros seen best Hb x y Hocc Hlen; cbn [rfind_split].
  - rewrite app_nil_r in *. eapply Hb; eauto.
  - assert (Hseen : (seen ++ [b]) ++ t = seen ++ b :: t) by (rewrite <- app_assoc; reflexivity).
    rewrite <- Hseen in Hocc, Hlen. apply (IH (seen ++ [b]) _) with (2 := Hocc) (3 := Hlen).
    intros x' y' Hocc' Hlen'. rewrite Hseen in Hocc'. rewrite app_length in Hlen'. cbn [length] in Hlen'.
    destruct (Nat.eq_dec (length x') (length seen)) as [He|Hne].
    + destruct (app_eq_length_inv seen x' (b :: t) (d ++ y') Hocc' (eq_sym He)) as [-> Hbt].
      assert (Esw : starts_with (b :: t) d = true) by (apply starts_with_spec; exists y'; exact Hbt).
      rewrite Esw. do 2 eexists. split; [reflexivity|]. rewrite app_length. lia.
    + destruct (Hb x' y' Hocc' ltac:(lia)) as [p [v [-> Hle]]].
      destruct (starts_with (b :: t) d).
      * do 2 eexists. split; [reflexivity|]. rewrite app_length. lia.
      * exists p, v. split; [reflexivity|assumption].
Qed.

Lemma utf8_encode_nonempty d : (1 <= length (utf8_encode d))%nat.
Proof.
  unfold utf8_encode. destruct (d <? 128); [cbn; lia|]. destruct (d <? 2048); [cbn; lia|].
  destruct (d <? 65536); cbn; lia.
Qed.

(** the part behind the split contains no further delimiter *)
Theorem rsplit_delimiter_last w d pre v0 : rsplit_delimiter w (Some d) = Some (pre, v0) ->
  forall x y, v0 <> x ++ utf8_encode d ++ y.
Proof.
  intros H x y Hv0. destruct (rsplit_delimiter_some _ _ _ _ H) as [Hw _].
  unfold rsplit_delimiter in H. destruct (utf8_valid w); [|discriminate].
  pose proof (utf8_encode_nonempty d) as Hne.
  destruct (rfind_split_last (utf8_encode d) w [] None) with (x := pre ++ x) (y := y) as [p [v [Hr Hle]]].
  - intros x' y' _ Hl. cbn in Hl. lia.
  - cbn [app]. rewrite Hw, Hv0, <- app_assoc. reflexivity.
  - cbn [app]. rewrite Hw, Hv0. rewrite !app_length. lia.
  - pose proof (eq_trans (eq_sym Hr) H) as E. inversion E; subst p v. rewrite app_length in Hle. lia.
Qed.

(** no split = no delimiter in the (well-formed) word *)
Theorem rsplit_delimiter_none w d : rsplit_delimiter w (Some d) = None -> utf8_valid w = true ->
  forall x y, w <> x ++ utf8_encode d ++ y.
Proof.
  unfold rsplit_delimiter. intros H Hv x y Hw. rewrite Hv in H.
  pose proof (utf8_encode_nonempty d) as Hne.
  destruct (rfind_split_last (utf8_encode d) w [] None) with (x := x) (y := y) as [p [v [Hr _]]].
  - intros x' y' _ Hl. cbn in Hl. lia.
  - exact Hw.
  - cbn [app]. rewrite Hw. rewrite !app_length. lia.
  - pose proof (eq_trans (eq_sym Hr) H) as E. discriminate E.
Qed.

(** ** [--flag=<word>] *)
Lemma split_eq_app : forall f v, ~ In EQ f -> split_eq (f ++ EQ :: v) = (f, Some v).
Proof.
  induction f as [|b t IH]; intros v Hn; cbn [app split_eq].
  - rewrite N.eqb_refl. reflexivity.
  - destruct (b =? EQ) eqn:E; [apply N.eqb_eq in E; subst b; exfalso; apply Hn; left; reflexivity|].
    rewrite IH; [reflexivity|]. intros Hin. apply Hn. right. assumption.
Qed.

Definition has_long (flag : bytes) (a : arg) : bool :=
  match a_long a with Some l => beq l flag | None => false end.

(** the branch taken on [--flag=v] for a well-formed, non-empty [flag] without [=] *)
Lemma complete_option_long_value tbl c flag v :
  flag <> [] -> ~ In EQ flag -> utf8_valid flag = true ->
  complete_option tbl (dd ++ flag ++ EQ :: v) c =
  match List.find (has_long flag) (c_args c) with
  | Some a => match complete_arg_value tbl v a with
              | None => CPanic 535
              | Some l => COk (map (add_prefix (dd ++ flag ++ [EQ])) l)
              end
  | None => COk []
  end.
Proof.
  intros Hne Hn Hv. destruct flag as [|b t]; [tauto|].
  unfold complete_option.
  change (is_empty (dd ++ (b :: t) ++ EQ :: v)) with false.
  change (is_stdio (dd ++ (b :: t) ++ EQ :: v)) with false.
  change (is_escape (dd ++ (b :: t) ++ EQ :: v)) with false.
  cbv iota.
  assert (El : to_long (dd ++ (b :: t) ++ EQ :: v) = Some (b :: t, utf8_valid (b :: t), Some v)).
  { unfold to_long, dd. cbn [app]. change ((DASH =? DASH) && (DASH =? DASH)) with true. cbv iota.
    change (b :: t ++ EQ :: v) with ((b :: t) ++ EQ :: v). rewrite (split_eq_app (b :: t) v Hn). reflexivity. }
  rewrite El, Hv. reflexivity.
Qed.

(** soundness: the candidates are [--flag=] followed by a value candidate of the first argument
    with that long name *)
Theorem long_value_sound tbl c flag v l y :
  flag <> [] -> ~ In EQ flag -> utf8_valid flag = true ->
  complete_option tbl (dd ++ flag ++ EQ :: v) c = COk l -> In y l ->
  exists a lv y0, List.find (has_long flag) (c_args c) = Some a /\
    complete_arg_value tbl v a = Some lv /\ In y0 lv /\ y = add_prefix (dd ++ flag ++ [EQ]) y0.
Proof.
  intros Hne Hn Hv H Hy. rewrite (complete_option_long_value tbl c flag v Hne Hn Hv) in H.
  destruct (List.find (has_long flag) (c_args c)) as [a|]; [|inversion H; subst l; destruct Hy].
  destruct (complete_arg_value tbl v a) as [lv|] eqn:Ev; [|discriminate].
  inversion H; subst l; clear H. apply in_map_iff in Hy. destruct Hy as [y0 [<- Hy0]].
  exists a, lv, y0. auto.
Qed.

(** completeness: [--flag=<pre><value>] for every declared value extending the typed one *)
Theorem long_value_complete tbl c flag w a pvs v h pre v0 :
  flag <> [] -> ~ In EQ flag -> utf8_valid flag = true ->
  List.find (has_long flag) (c_args c) = Some a ->
  possible_values tbl a = Some (Some pvs) -> In (v, h) pvs ->
  utf8_valid v0 = true -> is_prefix v0 v = true ->
  (pre = [] /\ v0 = w /\ rsplit_delimiter w (a_delim a) = None
   \/ rsplit_delimiter w (a_delim a) = Some (pre, v0)) ->
  exists l, complete_option tbl (dd ++ flag ++ EQ :: w) c = COk l /\
    In (mkCand ((dd ++ flag ++ [EQ]) ++ pre ++ v) None h) l.
Proof.
  intros Hne Hn Hv Hf Hpv Hin Ev Hp Hr.
  rewrite (complete_option_long_value tbl c flag w Hne Hn Hv), Hf.
  destruct (complete_arg_value_complete tbl w a pvs v h pre v0 Hpv Hin Ev Hp Hr) as [lv [Hlv Hc]].
  rewrite Hlv. eexists. split; [reflexivity|].
  apply in_map_iff. exists (mkCand (pre ++ v) None h). split; [reflexivity|exact Hc].
Qed.

(** lifted to the state [ValueDone]: a visible declared value survives [finish] *)
Theorem value_done_complete_long_value tbl c pi flag w l a pvs v pre v0 :
  complete_arg_value_done tbl (dd ++ flag ++ EQ :: w) c pi = COk l ->
  flag <> [] -> ~ In EQ flag -> utf8_valid flag = true ->
  List.find (has_long flag) (c_args c) = Some a ->
  possible_values tbl a = Some (Some pvs) -> In (v, false) pvs ->
  utf8_valid v0 = true -> is_prefix v0 v = true ->
  (pre = [] /\ v0 = w /\ rsplit_delimiter w (a_delim a) = None
   \/ rsplit_delimiter w (a_delim a) = Some (pre, v0)) ->
  In (mkCand ((dd ++ flag ++ [EQ]) ++ pre ++ v) None false) l.
Proof.
  intros H Hne Hn Hv Hf Hpv Hin Ev Hp Hr.
  destruct (value_done_inv _ _ _ _ _ H) as [posv [opts [_ [Ho ->]]]].
  destruct (long_value_complete tbl c flag w a pvs v false pre v0 Hne Hn Hv Hf Hpv Hin Ev Hp Hr)
    as [l' [Ho' Hc]].
  rewrite Ho in Ho'. inversion Ho'; subst l'.
  apply finish_keeps; [apply in_finish_of_parts; exact Hc|reflexivity|reflexivity].
Qed.

(** the first argument with the long name is THE argument with it when long names are unique
    (which [assert_app] demands) *)
Lemma find_has_long_unique c flag a : In a (c_args c) -> a_long a = Some flag ->
  (forall a', In a' (c_args c) -> a_long a' = Some flag -> a' = a) ->
  List.find (has_long flag) (c_args c) = Some a.
Proof.
  intros Ha Hl Hu. induction (c_args c) as [|a0 t IH]; [destruct Ha|]. cbn [List.find].
  destruct (has_long flag a0) eqn:E.
  - f_equal. apply Hu; [left; reflexivity|]. unfold has_long in E.
    destruct (a_long a0) as [l0|]; [|discriminate]. apply beq_eq in E. subst l0. reflexivity.
  - destruct Ha as [->|Ha].
    + unfold has_long in E. rewrite Hl, beq_refl in E. discriminate.
    + apply IH; [assumption|]. intros a' Ha' Hl'. apply Hu; [right; assumption|assumption].
Qed.

(** [p --color=red,r<TAB>] *)
Example ex_long_value_hyps :
  List.find (has_long s_color) (c_args pv_cmd) = Some a_color /\
  s_color <> [] /\ ~ In EQ s_color /\ utf8_valid s_color = true /\
  complete_arg_value_done pv_tbl (dd ++ s_color ++ EQ :: [114; 101; 100; 44; 114]) pv_cmd 1
  = COk [mkCand (dd ++ s_color ++ [EQ] ++ [114; 101; 100; 44; 114; 101; 100]) None false;
         mkCand (dd ++ s_color ++ [EQ] ++ [114; 101; 100; 44; 114; 111; 115; 101]) None false].
Proof.
  split; [reflexivity|]. split; [discriminate|]. split.
  - cbn. intros [H|[H|[H|[H|[H|[]]]]]]; discriminate.
  - split; vm_compute; reflexivity.
Qed.

(** ** [-<flags><o><word>] and [-<flags><o>=<word>]: a value attached to a short option *)
Definition short_value_split (short' : bytes) : bool * bytes :=
  match next_flag short' with
  | Some (FOk ch, s2) => if ch =? EQ then (true, s2) else (false, short')
  | _ => (false, short')
  end.
Definition short_value_prefix (leading : bytes) (has_equal : bool) : bytes :=
  [DASH] ++ leading ++ (if has_equal then [EQ] else []).

Lemma short_value_split_shape s he s2 : short_value_split s = (he, s2) ->
  s = (if he then [EQ] else []) ++ s2.
Proof.
  unfold short_value_split, next_flag. destruct s as [|b t]; [intros H; inversion H; reflexivity|].
  destruct (utf8_step (b :: t)) as [[ch n]|] eqn:E; [|intros H; inversion H; reflexivity].
  destruct (ch =? EQ) eqn:Ec; [|intros H; inversion H; reflexivity].
  intros H; inversion H; subst he s2; clear H. apply N.eqb_eq in Ec. subst ch.
  destruct (utf8_step_encode _ _ _ E) as [Henc _].
  pose proof (firstn_skipn n (b :: t)) as Hfs. rewrite Henc in Hfs. symmetry. exact Hfs.
Qed.

(** the scan that stops at a value-taking option has read [lead]; [rest] is what follows *)
Lemma parse_shortflags_loop_opt_split c : forall fuel short leading lead o rest,
  parse_shortflags_loop fuel c short leading = SFOk lead (Some o) rest -> lead ++ rest = leading ++ short.
Proof.
  induction fuel as [|f IH]; intros short leading lead o rest H; [discriminate|].
  cbn [parse_shortflags_loop] in H. unfold next_flag in H.
  destruct short as [|b t]; [discriminate|].
  destruct (utf8_step (b :: t)) as [[ch n]|] eqn:E; [|discriminate].
  destruct (utf8_step_encode _ _ _ E) as [Henc _].
  assert (Hkey : (leading ++ utf8_encode ch) ++ skipn n (b :: t) = leading ++ b :: t).
  { rewrite <- Henc, <- app_assoc, firstn_skipn. reflexivity. }
  destruct (find_short_visible c ch) as [o'|].
  - destruct (a_num o') as [r|]; [|discriminate].
    destruct (r_takes_values r).
    + inversion H; subst lead o' rest. exact Hkey.
    + rewrite <- Hkey. eapply IH; eauto.
  - rewrite <- Hkey. eapply IH; eauto.
Qed.

(** the word is the prefix put before the candidates followed by the typed value *)
Lemma short_value_word c w short leading o short' :
  to_short w = Some short -> parse_shortflags c short = SFOk leading (Some o) short' ->
  w = short_value_prefix leading (fst (short_value_split short')) ++ snd (short_value_split short').
Proof.
  intros Hts Hp. apply to_short_some in Hts. subst w.
  unfold parse_shortflags in Hp. apply parse_shortflags_loop_opt_split in Hp. cbn [app] in Hp.
  destruct (short_value_split short') as [he s2] eqn:Es. cbn [fst snd].
  apply short_value_split_shape in Es. unfold short_value_prefix.
  rewrite <- Hp, Es. cbn [app]. rewrite <- !app_assoc. reflexivity.
Qed.

(** the branch of [complete_option] taken on such a word *)
Lemma complete_option_short_value tbl w c short leading o short' :
  to_short w = Some short -> sf_is_negative_number short = false ->
  parse_shortflags c short = SFOk leading (Some o) short' ->
  complete_option tbl w c =
  match complete_arg_value tbl (snd (short_value_split short')) o with
  | None => CPanic 535
  | Some l => COk (map (add_prefix (short_value_prefix leading (fst (short_value_split short')))) l)
  end.
Proof.
  intros Hts Hneg Hp. destruct (to_short_shape w short Hts) as [H0 [H1 [H2 H3]]].
  unfold complete_option. rewrite H0, H1, H2, H3, Hts, Hneg. cbn [negb]. rewrite Hp.
  unfold short_value_split, short_value_prefix.
  destruct (match next_flag short' with
            | Some (FOk ch, s2) => if ch =? EQ then (true, s2) else (false, short')
            | _ => (false, short') end) as [he s2].
  cbn [fst snd]. cbv zeta.
  assert (Hval : match next_value_os s2 with Some v => v | None => [] end = s2) by (destruct s2; reflexivity).
  rewrite Hval. reflexivity.
Qed.

Theorem short_value_sound tbl w c short leading o short' l y :
  to_short w = Some short -> sf_is_negative_number short = false ->
  parse_shortflags c short = SFOk leading (Some o) short' ->
  complete_option tbl w c = COk l -> In y l ->
  exists px s2 lv y0, w = px ++ s2 /\ In o (c_args c) /\
    complete_arg_value tbl s2 o = Some lv /\ In y0 lv /\ y = add_prefix px y0.
Proof.
  intros Hts Hneg Hp H Hy.
  rewrite (complete_option_short_value tbl w c short leading o short' Hts Hneg Hp) in H.
  destruct (complete_arg_value tbl (snd (short_value_split short')) o) as [lv|] eqn:Ev; [|discriminate].
  inversion H; subst l; clear H. apply in_map_iff in Hy. destruct Hy as [y0 [<- Hy0]].
  exists (short_value_prefix leading (fst (short_value_split short'))), (snd (short_value_split short')), lv, y0.
  split; [eapply short_value_word; eauto|]. split; [|auto].
  unfold parse_shortflags in Hp. eapply parse_shortflags_loop_opt; eauto.
Qed.

Theorem short_value_complete tbl w c short leading o short' :
  to_short w = Some short -> sf_is_negative_number short = false ->
  parse_shortflags c short = SFOk leading (Some o) short' ->
  exists px s2, w = px ++ s2 /\
    forall pvs v h pre v0,
      possible_values tbl o = Some (Some pvs) -> In (v, h) pvs ->
      utf8_valid v0 = true -> is_prefix v0 v = true ->
      (pre = [] /\ v0 = s2 /\ rsplit_delimiter s2 (a_delim o) = None
       \/ rsplit_delimiter s2 (a_delim o) = Some (pre, v0)) ->
      exists l, complete_option tbl w c = COk l /\ In (mkCand (px ++ pre ++ v) None h) l.
Proof.
  intros Hts Hneg Hp.
  exists (short_value_prefix leading (fst (short_value_split short'))), (snd (short_value_split short')).
  split; [eapply short_value_word; eauto|].
  intros pvs v h pre v0 Hpv Hin Ev Hpre Hr.
  rewrite (complete_option_short_value tbl w c short leading o short' Hts Hneg Hp).
  destruct (complete_arg_value_complete tbl _ o pvs v h pre v0 Hpv Hin Ev Hpre Hr) as [lv [Hlv Hc]].
  rewrite Hlv. eexists. split; [reflexivity|].
  apply in_map_iff. exists (mkCand (pre ++ v) None h). split; [reflexivity|exact Hc].
Qed.

(** [p -vc=red,r<TAB>] *)
Example ex_short_value_hyps :
  to_short [45; 118; 99; 61; 114; 101; 100; 44; 114] = Some [118; 99; 61; 114; 101; 100; 44; 114] /\
  sf_is_negative_number [118; 99; 61; 114; 101; 100; 44; 114] = false /\
  parse_shortflags pv_cmd [118; 99; 61; 114; 101; 100; 44; 114] = SFOk [118; 99] (Some a_color) [61; 114; 101; 100; 44; 114] /\
  complete_option pv_tbl [45; 118; 99; 61; 114; 101; 100; 44; 114] pv_cmd
  = COk [mkCand [45; 118; 99; 61; 114; 101; 100; 44; 114; 101; 100] None false;
         mkCand [45; 118; 99; 61; 114; 101; 100; 44; 114; 111; 115; 101] None false].
Proof. vm_compute. repeat split; reflexivity. Qed.

(** ** Hidden values, and the state reached by the shadow parse *)
Lemma finish_keeps_or l x : In x l -> cd_id x = None ->
  In x (finish l) \/ exists y, In y (finish l) /\ cd_hidden y = false.
Proof.
  intros Hx Hn. destruct (existsb (fun a => negb (cd_hidden a)) l) eqn:E.
  - right. apply existsb_exists in E. destruct E as [z [Hz Hvz]]. apply negb_true_iff in Hvz.
    destruct (cd_id z) as [i|] eqn:Ei.
    + destruct (finish_repr l z i Hz Hvz Ei) as [y [Hy [_ Hh]]]. exists y. split; assumption.
    + exists z. split; [apply finish_keeps; assumption|assumption].
  - left. unfold finish, hide_filter. rewrite E. apply dedup_ids_keeps_noid; assumption.
Qed.

(** a declared value of any visibility is offered unless a visible candidate is
    (for a visible value [opt_state_complete] says more) *)
Theorem opt_state_complete_any tbl w c pi o cnt l pvs v h pre v0 :
  complete_arg tbl w c pi (Opt o cnt) = COk l ->
  possible_values tbl o = Some (Some pvs) -> In (v, h) pvs ->
  utf8_valid v0 = true -> is_prefix v0 v = true ->
  (pre = [] /\ v0 = w /\ rsplit_delimiter w (a_delim o) = None
   \/ rsplit_delimiter w (a_delim o) = Some (pre, v0)) ->
  In (mkCand (pre ++ v) None h) l \/ exists y, In y l /\ cd_hidden y = false.
Proof.
  intros H Hpv Hin Ev Hp Hr.
  destruct (opt_state_inv _ _ _ _ _ _ _ H) as [optv [more [Hv [_ ->]]]].
  destruct (complete_arg_value_complete tbl w o pvs v h pre v0 Hpv Hin Ev Hp Hr) as [l' [Hv' Hin']].
  rewrite Hv in Hv'. inversion Hv'; subst l'.
  apply finish_keeps_or; [apply in_or_app; left; assumption|reflexivity].
Qed.

(** [p --color g<TAB>]: only the hidden [grey] extends [g]; it is offered *)
Example ex_opt_state_hidden :
  complete_arg pv_tbl [103] pv_cmd 1 (Opt a_color 1) = COk [mkCand s_grey None true].
Proof. vm_compute. reflexivity. Qed.

(** the shadow parse of [p --color r<TAB>] and of [p -vc r<TAB>] stands in state [Opt a_color 1] *)
Example ex_walk_opt_state :
  start_walk pv_cmd [[112]; dd ++ s_color; [114]] 2 = WAt [114] pv_cmd 1 (Opt a_color 1) false true /\
  start_walk pv_cmd [[112]; [45; 118; 99]; [114]] 2 = WAt [114] pv_cmd 1 (Opt a_color 1) false true.
Proof. vm_compute. split; reflexivity. Qed.

(** an option with an optional value ([num_args(0..=1)]): in state [Opt o 1] the values of the
    option AND the candidates of state [ValueDone] are offered ([opt_state_sound_gen], right case) *)
Definition a_when : arg :=
  (arg_new [119]) <| a_long := Some [119] |> <| a_action := Some ASet |>
    <| a_num := Some {| vmin := 0; vmax := 1 |} |>.
Definition pv_cmd2 : cmd := (cmd_new [112]) <| c_args := [a_when; a_verbose] |>.
Definition pv_tbl2 : pvtable := [([119], [(s_red, false)])].
Example ex_opt_state_more :
  (opt_min a_when <? 1) = true /\
  complete_arg pv_tbl2 [] pv_cmd2 1 (Opt a_when 1)
  = COk [mkCand s_red None false;
         mkCand [45; 45; 119] (Some (IdArg [119])) false;
         mkCand [45; 118] (Some (IdArg [118])) false].
Proof. vm_compute. split; reflexivity. Qed.

(** ** A limit of the [--flag=<word>] branch (as in complete.rs: [a.get_long() == Some(flag)]):
    the lookup knows long NAMES only.  Behind a visible alias, [--alias=<TAB>] offers nothing
    although [--alias <TAB>] (state [Opt a 1], the shadow parse resolves aliases) offers the values:
    completeness of [long_value_complete] does not extend to aliases. *)
Definition s_colour : bytes := [99; 111; 108; 111; 117; 114].
Definition a_color' : arg := a_color <| a_aliases := [(s_colour, true)] |>.
Definition pv_cmd' : cmd := (cmd_new [112]) <| c_args := [a_color'] |>.
Theorem long_alias_value_refuted :
  exists tbl c a alias v,
    In a (c_args c) /\ In alias (vis_aliases (a_aliases a)) /\
    possible_values tbl a = Some (Some [(v, false)]) /\
    complete_arg_value_done tbl (dd ++ alias ++ [EQ]) c 1 = COk [] /\
    start_walk c [[112]; dd ++ alias; []] 2 = WAt [] c 1 (Opt a 1) false true /\
    complete_arg tbl [] c 1 (Opt a 1) = COk [mkCand v None false].
Proof.
  exists [(s_color, [(s_red, false)])], pv_cmd', a_color', s_colour, s_red.
  vm_compute. repeat split; try reflexivity. left; reflexivity. left; reflexivity.
Qed.

Print Assumptions value_done_complete_short.
Print Assumptions complete_arg_value_sound.
Print Assumptions complete_arg_value_complete.
Print Assumptions opt_state_complete.
Print Assumptions opt_state_sound_gen.
Print Assumptions opt_state_sound_values.
Print Assumptions rsplit_delimiter_last.
Print Assumptions rsplit_delimiter_none.
Print Assumptions long_value_sound.
Print Assumptions long_value_complete.
Print Assumptions value_done_complete_long_value.
Print Assumptions short_value_sound.
Print Assumptions short_value_complete.
Print Assumptions opt_state_complete_any.
Print Assumptions long_alias_value_refuted.
