(** Property C18, round 5: a word that looks like an option while an option is still collecting values.

    Both machines are in the state "option [a] pending" ([Opt a k] / [PSOpt (a_id a)]), [a] does not accept hyphen
    values (nor negative numbers).  A word that is lexed as a long or as a short cluster is then handled by BOTH
    exactly as between arguments ([ValueDone] / [PSValuesDone]): the pending occurrence simply ends (the parser
    flushes it in the next [react] / [resolve_pending]: TooFewValues-class errors come from there).

    - parser: [loop_opt_long] (an exact long key), [loop_opt_short] (a cluster for which [parse_short_arg] does not
      answer "maybe a hyphen value" / "no argument": [short_loop_kinds] shows it never does for a non-empty cluster);
    - engine: [eng_opt_as_vd] (no positional of the level accepts hyphen values).

    Names that exist in both models are the PARSER's when unqualified. *)
From ClapModel Require Import Base.Bytes Base.Machine Base.Utf8 Lex.OsStrExtModel Lex.OsStrExtProofs.
From ClapModel Require Import Complete.EngineModel Complete.EngineProofs.
From ClapModel Require Import Parse.Cmd Parse.Build Parse.Valid Parse.Matcher Parse.Errors Parse.Validator Parse.Parser.
From ClapModel Require Import ParseProofs.Spelling ParseProofs.Dispatch ParseProofs.ErrorSound.
From ClapModel Require Import ParseProofs.Actions ParseProofs.ActionsLoop ParseProofs.ActionsTop ParseProofs.Chain ParseProofs.ChainWide.
From ClapModel Require ParseProofs.SpellingLine ParseProofs.ActionsTokens.
From ClapModel Require Import Complete.EngineAccept Complete.EngineLevel Complete.EngineLine.
From Coq Require Import ZArith Lia List Bool.
From RecordUpdate Require Import RecordSet.
Import RecordSetNotations.
Import ListNotations.
Open Scope N_scope.

(** * Parser side *)
Section ParserOptState.
Variable c : cmd.

(** an exact long key while the option [a] is pending: the loop goes on as it does between arguments *)
Lemma loop_opt_long tok f v b a rest pos vaf st :
  find_arg c (a_id a) = Some a -> a_hyphen a = false ->
  no_sub c tok -> to_long tok = Some (f, true, v) -> get_long c f = Some b ->
  parse_loop c (tok :: rest) (mkL (PSOpt (a_id a)) pos vaf false) st = parse_loop c (tok :: rest) (lsV pos vaf) st.
Proof.
  intros Hf Hh Hns Hl Hg. unfold lsV. cbn [parse_loop l_trailing l_pst l_vaf l_pos].
  replace (if is_set s_sub_precedence c || false then possible_subcommand c tok vaf else None) with (@None bytes)
    by (destruct (is_set s_sub_precedence c); cbn [orb]; [rewrite (Hns vaf)|]; reflexivity).
  rewrite orb_true_r, (Hns vaf), (to_long_not_escape _ _ Hl), Hl.
  rewrite !parse_long_arg_unfold. cbn [state_arg rbind]. rewrite Hf. cbn [expect rbind]. rewrite Hh. cbn [negb].
  destruct (is_nil f && negb (is_some v)); [reflexivity|].
  rewrite (long_exact_wins c f b Hg).
  destruct (parse_long_found c f v pos vaf st (Some b)) as [[[s pr] w]|e s|n] eqn:E; cbn [rbind fst snd]; try reflexivity.
  pose proof (SpellingLine.long_found_not_hyphen c f v pos vaf st b s pr w E) as Hnh.
  destruct pr; try reflexivity; try (destruct (resolve_pending_ignore c s); reflexivity); congruence.
Qed.

Lemma parse_short_arg_opt r a pos vaf st :
  find_arg c (a_id a) = Some a -> a_hyphen a = false -> a_negnum a = false ->
  parse_short_arg c r (PSOpt (a_id a)) pos vaf st = parse_short_arg c r PSValuesDone pos vaf st.
Proof.
  intros Hf Hh Hn. unfold parse_short_arg. cbn [state_arg]. rewrite Hf. cbn [expect rbind]. rewrite Hh, Hn. reflexivity.
Qed.

(** a short cluster while the option [a] is pending, when [parse_short_arg] gives a definite answer *)
Lemma loop_opt_short tok r a rest pos vaf st :
  find_arg c (a_id a) = Some a -> a_hyphen a = false -> a_negnum a = false ->
  no_sub c tok -> is_escape tok = false -> to_long tok = None -> to_short tok = Some r ->
  (forall s pr w, parse_short_arg c r PSValuesDone pos vaf st = ROk (s, pr, w) -> pr <> PRMaybeHyphen /\ pr <> PRNoArg) ->
  parse_loop c (tok :: rest) (mkL (PSOpt (a_id a)) pos vaf false) st = parse_loop c (tok :: rest) (lsV pos vaf) st.
Proof.
  intros Hf Hh Hn Hns He Hl Hs Hk. unfold lsV. cbn [parse_loop l_trailing l_pst l_vaf l_pos].
  replace (if is_set s_sub_precedence c || false then possible_subcommand c tok vaf else None) with (@None bytes)
    by (destruct (is_set s_sub_precedence c); cbn [orb]; [rewrite (Hns vaf)|]; reflexivity).
  rewrite orb_true_r, (Hns vaf), He, Hl, Hs.
  rewrite (parse_short_arg_opt r a pos vaf st Hf Hh Hn).
  destruct (parse_short_arg c r PSValuesDone pos vaf st) as [[[s pr] w]|e s|n] eqn:E; cbn [rbind fst snd]; try reflexivity.
  destruct (Hk s pr w eq_refl) as [H1 H2].
  destruct pr; try reflexivity; try (destruct (resolve_pending_ignore c s); reflexivity); try congruence.
  destruct (fs_at s) as [at0|]; [|reflexivity]. destruct (checked_sub (cur_idx s) at0); reflexivity.
Qed.

Lemma sf_next_none r : sf_next r = None -> r = [].
Proof.
  unfold sf_next. destruct r as [|b t]; [reflexivity|]. destruct (utf8_step (b :: t)) as [[ch n]|]; discriminate.
Qed.

(** what [short_loop] can answer: never "maybe a hyphen value"; "no argument" only for the empty cluster *)
Lemma short_loop_kinds : forall fuel r ret vaf st s pr w,
  short_loop c fuel r ret vaf st = ROk (s, pr, w) -> ret <> PRMaybeHyphen ->
  pr <> PRMaybeHyphen /\ (pr = PRNoArg -> ret = PRNoArg /\ r = []).
Proof.
  induction fuel as [|f IH]; intros r ret vaf st s pr w H Hret; [discriminate|].
  cbn [short_loop] in H.
  destruct (sf_next r) as [[[ch|bad] r']|] eqn:En.
  - destruct (get_short c ch) as [a|] eqn:Eg.
    + destruct (negb (a_takes_value a)).
      * destruct (react c (Some IShort) SCmdLine a [] None st) as [[s1 p1]|e s1|n] eqn:R; cbn [rbind fst snd] in H; try discriminate.
        apply react_ok_pr in R. subst p1.
        destruct (IH r' PRValuesDone true s1 s pr w H) as [H1 H2]; [discriminate|].
        split; [exact H1|]. intros E. destruct (H2 E) as [E2 _]. discriminate.
      * set (val := match r' with [] => None | _ => Some r' end) in H.
        assert (Hval : forall att he, (let '(v0, h0) := match val with Some (61 :: v) => (Some v, true) | _ => (val, false) end in (v0, h0)) = (att, he) ->
                       att <> None -> r' <> []).
        { intros att he Hp Hne ->. subst val. cbn in Hp. inversion Hp; subst. contradiction. }
        destruct (match val with Some (61 :: v) => (Some v, true) | _ => (val, false) end) as [att he] eqn:Ev.
        specialize (Hval att he eq_refl).
        destruct (parse_opt_value c IShort att a he st) as [x|e s1|n] eqn:P; cbn [rbind] in H; try discriminate.
        destruct (SpellingLine.pov_kinds c IShort att a he st x P) as [[Ex Hatt]|K].
        -- rewrite Ex in H. destruct (IH r' ret true (fst x) s pr w H Hret) as [H1 H2].
           split; [exact H1|]. intros E. destruct (H2 E) as [_ E2]. exfalso. exact (Hval Hatt E2).
        -- destruct (snd x) eqn:Es; cbn in K; try contradiction; inversion H; subst; split; discriminate.
    + destruct (find_short_subcmd c ch).
      * destruct (resolve_pending c st) as [s1|e s1|n]; cbn [rbind] in H; try discriminate.
        inversion H; subst. split; discriminate.
      * inversion H; subst. split; discriminate.
  - inversion H; subst. split; discriminate.
  - inversion H; subst. split; [exact Hret|]. intros E. split; [exact E|exact (sf_next_none r En)].
Qed.

(** ... hence a non-empty cluster at a counter whose positional takes no hyphen values is always a definite answer *)
Lemma parse_short_arg_definite r pos vaf st s pr w :
  fs_skip st = 0 -> no_hyphen_pos c pos -> r <> [] ->
  parse_short_arg c r PSValuesDone pos vaf st = ROk (s, pr, w) -> pr <> PRMaybeHyphen /\ pr <> PRNoArg.
Proof.
  intros Hsk Hpos Hne H. rewrite (parse_short_arg_clean c r pos vaf st Hsk Hpos) in H.
  destruct (short_loop_kinds _ _ _ _ _ _ _ _ H) as [H1 H2]; [discriminate|].
  split; [exact H1|]. intros E. destruct (H2 E) as [_ E2]. contradiction.
Qed.

(** a word that is lexed as a long exact key or as a non-empty short cluster, while [a] is pending *)
Definition dash_tok (tok : bytes) : Prop :=
  no_sub c tok /\ is_escape tok = false /\
  ((exists f v b, to_long tok = Some (f, true, v) /\ get_long c f = Some b) \/
   (to_long tok = None /\ exists r, to_short tok = Some r /\ r <> [])).

Theorem loop_opt_dash tok a rest pos vaf st :
  find_arg c (a_id a) = Some a -> a_hyphen a = false -> a_negnum a = false -> no_hyphen c -> fs_skip st = 0 ->
  dash_tok tok ->
  parse_loop c (tok :: rest) (mkL (PSOpt (a_id a)) pos vaf false) st = parse_loop c (tok :: rest) (lsV pos vaf) st.
Proof.
  intros Hf Hh Hn Hnh Hsk [Hns [He [[f [v [b [Hl Hg]]]]|[Hl [r [Hs Hne]]]]]].
  - exact (loop_opt_long tok f v b a rest pos vaf st Hf Hh Hns Hl Hg).
  - apply (loop_opt_short tok r a rest pos vaf st Hf Hh Hn Hns He Hl Hs).
    intros s pr w H. exact (parse_short_arg_definite r pos vaf st s pr w Hsk (Hnh pos) Hne H).
Qed.
End ParserOptState.

(** * Engine side *)
Section EngineOptState.
Variables pc cur : cmd.
Hypothesis L : elevel pc cur.
Let Hrel : lvl_rel pc cur := el_rel pc cur L.

Lemma opt_allows_hyphen_off a k tok : a_hyphen a = false -> opt_allows_hyphen (Opt a k) tok = false.
Proof. intros H. destruct tok; [reflexivity|]. cbn [opt_allows_hyphen]. rewrite H. apply andb_false_r. Qed.

(** a word lexed as a long or as a short cluster, while the option [a] is pending: the step of the shadow parse is
    the step between arguments (no argument of the level accepts hyphen values: the word is never counted as a
    value of the pending option nor of a positional) *)
Theorem eng_opt_as_vd tok a k pi evaf :
  a_hyphen a = false -> pos_allows_hyphen cur pi = false -> no_sub pc tok -> is_escape tok = false ->
  (to_long tok <> None \/ to_short tok <> None) ->
  shadow_step tok cur pi false (Opt a k) evaf = shadow_step tok cur pi false ValueDone evaf.
Proof.
  intros Hh Hp Hns He Hlex. unfold shadow_step. cbn [negb].
  rewrite (eng_no_sub pc cur tok _ Hrel Hns), (eng_no_sub pc cur tok _ Hrel Hns).
  rewrite lex_is_escape, He, (opt_allows_hyphen_off a k tok Hh), opt_allows_hyphen_vd, Hp.
  rewrite lex_to_long, lex_to_short.
  destruct (to_long tok) as [[[flag u] value]|].
  - reflexivity.
  - destruct (to_short tok) as [short|]; [reflexivity|]. destruct Hlex as [H|H]; contradiction.
Qed.
End EngineOptState.
