(** C16 (elvish, PowerShell) for the tree the user wrote: the class of the lookup theorems ([siblings_ok], no [;] in a name)
    is established by [build] from the same conditions on the user's tree ([BuildSkeleton.build_siblings_ok],
    [BuildTexts.cp_build]), so the unique-block / first-match statements hold for the script [generate_<sh>] writes. *)
From ClapModel Require Import Base.Bytes Complete.AotTree Complete.TextTree Complete.BashModel Complete.AotProofs
  Complete.BashProofs Complete.PathTable Complete.PathTableLex Complete.PathTableBlocks Complete.BuildTexts
  Complete.BuildSkeleton.
From ClapModel Require Complete.ElvishModel Complete.ElvishProofs Complete.PowershellModel Complete.PowershellProofs.
From Coq Require Import String.
Open Scope N_scope.
Open Scope list_scope.

Lemma build_table_class c bin b :
  build (set_bin_name c bin) = Some b -> siblings_ok c -> help_free false c = true ->
  cmd_plain no_semi c = true -> plainl no_semi bin = true ->
  c_bin b = Some bin /\ bins_built b /\ siblings_ok b /\ cmd_plain no_semi b = true.
Proof.
  intros Hb Hs Hh Hp Hbin. split; [exact (build_root_bin c bin b Hb)|]. split; [exact (build_bins_built _ _ Hb)|].
  split; [exact (build_siblings_ok c bin b Hb Hs Hh)|].
  apply (cp_build no_semi eq_refl eq_refl eq_refl eq_refl _ b Hb). apply cp_set_bin_name; assumption.
Qed.

Theorem elvish_generate_lookup c t bin :
  bin <> [] -> siblings_ok c -> help_free false c = true -> cmd_plain no_semi c = true -> plainl no_semi bin = true ->
  exists b tb,
    build (set_bin_name c bin) = Some b /\ tbuild (set_bin_name c bin) t = Some tb /\
    ElvishModel.generate_elvish c t bin =
      Some (ElvishModel.render bin (List.concat (map (render_block ElvishProofs.el_fmt) (blocks ElvishProofs.el_fmt b tb [])))) /\
    forall ws ns n, reach b ws ns n ->
      exists tn,
        In (path_key bin ws, entries ElvishProofs.el_fmt n tn) (blocks ElvishProofs.el_fmt b tb []) /\
        (forall e, In (path_key bin ws, e) (blocks ElvishProofs.el_fmt b tb []) -> e = entries ElvishProofs.el_fmt n tn) /\
        lookup_block (blocks ElvishProofs.el_fmt b tb []) (path_key bin ws) =
          Some (path_key bin ws, entries ElvishProofs.el_fmt n tn).
Proof.
  intros Hne Hs Hh Hp Hbin.
  destruct (build (set_bin_name c bin)) as [b|] eqn:Hb; [|exfalso; exact (build_total _ Hb)].
  destruct (tbuild_total _ b t Hb) as [tb Htb].
  destruct (build_table_class c bin b Hb Hs Hh Hp Hbin) as (H1 & H2 & H3 & H4).
  exists b, tb. split; [reflexivity|]. split; [exact Htb|]. split.
  - unfold ElvishModel.generate_elvish. rewrite Hb, Htb.
    destruct (ElvishProofs.elvish_lookup b tb bin [] [] b H1 Hne H2 H3 H4 (reach_nil b)) as (tn & G & _). exact G.
  - intros ws ns n Hr. destruct (ElvishProofs.elvish_lookup b tb bin ws ns n H1 Hne H2 H3 H4 Hr) as (tn & _ & A & B & C).
    exists tn. auto.
Qed.

Theorem powershell_generate_lookup up c t bin :
  bin <> [] -> siblings_ok c -> help_free false c = true -> cmd_plain no_semi c = true -> plainl no_semi bin = true ->
  exists b tb,
    build (set_bin_name c bin) = Some b /\ tbuild (set_bin_name c bin) t = Some tb /\
    PowershellModel.generate_powershell up c t bin =
      Some (PowershellModel.render bin
              (List.concat (map (render_block (PowershellProofs.ps_fmt up)) (blocks (PowershellProofs.ps_fmt up) b tb [])))) /\
    forall ws ns n, reach b ws ns n ->
      exists tn,
        In (path_key bin ws, entries (PowershellProofs.ps_fmt up) n tn) (blocks (PowershellProofs.ps_fmt up) b tb []) /\
        (forall e, In (path_key bin ws, e) (blocks (PowershellProofs.ps_fmt up) b tb []) ->
                   e = entries (PowershellProofs.ps_fmt up) n tn) /\
        lookup_block (blocks (PowershellProofs.ps_fmt up) b tb []) (path_key bin ws) =
          Some (path_key bin ws, entries (PowershellProofs.ps_fmt up) n tn).
Proof.
  intros Hne Hs Hh Hp Hbin.
  destruct (build (set_bin_name c bin)) as [b|] eqn:Hb; [|exfalso; exact (build_total _ Hb)].
  destruct (tbuild_total _ b t Hb) as [tb Htb].
  destruct (build_table_class c bin b Hb Hs Hh Hp Hbin) as (H1 & H2 & H3 & H4).
  exists b, tb. split; [reflexivity|]. split; [exact Htb|]. split.
  - unfold PowershellModel.generate_powershell. rewrite Hb, Htb.
    destruct (PowershellProofs.powershell_lookup up b tb bin [] [] b H1 Hne H2 H3 H4 (reach_nil b)) as (tn & G & _). exact G.
  - intros ws ns n Hr.
    destruct (PowershellProofs.powershell_lookup up b tb bin ws ns n H1 Hne H2 H3 H4 Hr) as (tn & _ & A & B & C).
    exists tn. auto.
Qed.

(** the hypotheses hold for a user tree with a hyphenated name, a visible and a hidden alias, two levels *)
Definition tu_root : cmd := strip_bins ex_root.
Example table_user_hyps :
  [112] <> @nil N /\ siblings_ok tu_root /\ help_free false tu_root = true /\ cmd_plain no_semi tu_root = true /\
  plainl no_semi [112] = true /\ c_subs tu_root <> [].
Proof.
  split; [discriminate|]. split; [apply siblings_okb_sound; reflexivity|]. repeat split; try reflexivity. discriminate.
Qed.
