(** The fish theorems at the level of the command tree the user wrote: [generate_fish c d bin] =
    [set_bin_name] + [Command::build] + generator.  [build] keeps names tame ([build_tame]) and
    treats the texts uniformly ([dbuild_erase_congr]: decorations with the same presence shape are
    built into decorations with the same presence shape), so whole-script structure invariance
    holds for [generate_fish] itself. *)
From ClapModel Require Import Base.Bytes Complete.AotTree Complete.AotProofs Complete.FishModel.
From ClapModel Require Import Escape.ShellLex Complete.FishProofs Complete.FishLexProofs.
From Coq Require Import String Lia.
Open Scope list_scope.

(** ---- induction over decorations (nested inductive) ---- *)
Section CdescInd.
  Variable P : cdesc -> Prop.
  Hypothesis H : forall a l args subs, Forall P subs -> P (mkCd a l args subs).
  Fixpoint cdesc_ind' (d : cdesc) : P d :=
    match d with
    | mkCd a l args subs =>
        H a l args subs
          ((fix go (l : list cdesc) : Forall P l :=
              match l with [] => Forall_nil P | x :: t => Forall_cons x (cdesc_ind' x) (go t) end) subs)
    end.
End CdescInd.

Lemma map_ext_Forall {A B} (f g : A -> B) l : Forall (fun a => f a = g a) l -> map f l = map g l.
Proof. induction 1 as [|a l Ha Hl IH]; [reflexivity|]. cbn [map]. now rewrite Ha, IH. Qed.

(** ---- erasing is idempotent and commutes with what build does ---- *)
Lemma erase_opt_idem o : erase_opt (erase_opt o) = erase_opt o.
Proof. destruct o; reflexivity. Qed.
Lemma erase_adesc_idem a : erase_adesc (erase_adesc a) = erase_adesc a.
Proof.
  destruct a as [h l p]. unfold erase_adesc. cbn [ad_help ad_long ad_pvh]. rewrite erase_opt_idem, map_map.
  f_equal. apply map_ext. intros o. apply erase_opt_idem.
Qed.
Lemma erase_desc_idem : forall d, erase_desc (erase_desc d) = erase_desc d.
Proof.
  induction d as [a l args subs IH] using cdesc_ind'. cbn [erase_desc].
  rewrite erase_opt_idem, !map_map. f_equal.
  - apply map_ext. intros x. apply erase_adesc_idem.
  - apply map_ext_Forall. exact IH.
Qed.

Lemma erase_desc_long d : cd_long (erase_desc d) = cd_long d.
Proof. destruct d; reflexivity. Qed.

Lemma map_snd_zipd_map {A B} (f : B -> B) (dflt : B) (l : list A) m : f dflt = dflt ->
  map snd (zipd dflt l (map f m)) = map f (map snd (zipd dflt l m)).
Proof. intros Hd. rewrite (zipd_map f dflt l Hd), !map_map. reflexivity. Qed.

Lemma erase_add_arg c d ad :
  erase_desc (add_arg_desc c d ad) = add_arg_desc c (erase_desc d) (erase_adesc ad).
Proof.
  unfold add_arg_desc. rewrite erase_desc_about, erase_desc_long, erase_desc_args, erase_desc_subs.
  rewrite (map_snd_zipd_map erase_adesc ad0 (c_args c) (cd_args d) eq_refl).
  cbn [erase_desc]. rewrite map_app. reflexivity.
Qed.

Lemma erase_add_sub c d sd :
  erase_desc (add_sub_desc c d sd) = add_sub_desc c (erase_desc d) (erase_desc sd).
Proof.
  unfold add_sub_desc. rewrite erase_desc_about, erase_desc_long, erase_desc_args, erase_desc_subs.
  rewrite (map_snd_zipd_map erase_desc cd0 (c_subs c) (cd_subs d) eq_refl).
  cbn [erase_desc]. rewrite map_app. reflexivity.
Qed.

Lemma erase_copy : forall d, erase_desc (copy_desc_for_help d) = copy_desc_for_help (erase_desc d).
Proof.
  induction d as [a l args subs IH] using cdesc_ind'. cbn [copy_desc_for_help erase_desc map].
  rewrite !map_map. f_equal. apply map_ext_Forall. exact IH.
Qed.

Lemma existsb_map {A B} (f : A -> B) (p : B -> bool) l : existsb p (map f l) = existsb (fun a => p (f a)) l.
Proof. induction l as [|a l IH]; [reflexivity|]. cbn [map existsb]. now rewrite IH. Qed.

Lemma existsb_ext {A} (f g : A -> bool) l : (forall a, f a = g a) -> existsb f l = existsb g l.
Proof. intros H. induction l as [|a l IH]; [reflexivity|]. cbn [existsb]. now rewrite H, IH. Qed.

Lemma lhe_erase c d : long_help_exists c (erase_desc d) = long_help_exists c d.
Proof.
  unfold long_help_exists. rewrite erase_desc_long, erase_desc_args.
  rewrite (zipd_map erase_adesc ad0 (c_args c) eq_refl), existsb_map. f_equal.
  apply existsb_ext. intros [a ad]. unfold should_long. cbn [fst snd]. unfold erase_adesc. cbn [ad_long ad_pvh].
  rewrite (zipd_map erase_opt None _ eq_refl), existsb_map. do 3 f_equal.
  apply existsb_ext. intros [v [h|]]; reflexivity.
Qed.

Lemma erase_help_sub c d :
  erase_desc (help_subcommand_desc c d) = erase_desc (help_subcommand_desc c (erase_desc d)).
Proof.
  unfold help_subcommand_desc. cbn [erase_desc]. rewrite !map_app, !map_map. do 2 f_equal.
  rewrite erase_desc_subs, (zipd_map erase_desc cd0 (c_subs c) eq_refl), map_map.
  apply map_ext. intros [sc dsc]. cbn [snd]. now rewrite !erase_copy, erase_desc_idem.
Qed.

(** congruence form: [F] respects the presence shape when [erase (F d) = erase (F (erase d))] *)
Lemma erase_dhv c d : erase_desc (d_help_version c d) = erase_desc (d_help_version c (erase_desc d)).
Proof.
  unfold d_help_version. cbv zeta. rewrite lhe_erase.
  set (lhe := long_help_exists c d).
  set (c1 := if negb (is_set s_dhf c) then with_args c (c_args c ++ [help_arg]) else c).
  set (c2 := if negb (is_disable_version_flag_set c1) then with_args c1 (c_args c1 ++ [version_arg]) else c1).
  assert (E1 : erase_desc (if negb (is_set s_dhf c) then add_arg_desc c d (help_arg_desc lhe) else d) =
               erase_desc (if negb (is_set s_dhf c) then add_arg_desc c (erase_desc d) (help_arg_desc lhe) else erase_desc d)).
  { destruct (negb (is_set s_dhf c)); [|now rewrite erase_desc_idem].
    now rewrite !erase_add_arg, erase_desc_idem. }
  set (x1 := if negb (is_set s_dhf c) then add_arg_desc c d (help_arg_desc lhe) else d) in *.
  set (y1 := if negb (is_set s_dhf c) then add_arg_desc c (erase_desc d) (help_arg_desc lhe) else erase_desc d) in *.
  assert (E2 : erase_desc (if negb (is_disable_version_flag_set c1) then add_arg_desc c1 x1 version_arg_desc else x1) =
               erase_desc (if negb (is_disable_version_flag_set c1) then add_arg_desc c1 y1 version_arg_desc else y1)).
  { destruct (negb (is_disable_version_flag_set c1)); [|exact E1]. now rewrite !erase_add_arg, E1. }
  set (x2 := if negb (is_disable_version_flag_set c1) then add_arg_desc c1 x1 version_arg_desc else x1) in *.
  set (y2 := if negb (is_disable_version_flag_set c1) then add_arg_desc c1 y1 version_arg_desc else y1) in *.
  destruct (negb (is_set s_dhs c2)); [|exact E2].
  rewrite !erase_add_sub, E2. f_equal.
  rewrite (erase_help_sub c2 x2), (erase_help_sub c2 y2), E2. reflexivity.
Qed.

Definition gstep (st : cmd * cdesc) (g : arg * adesc) : cmd * cdesc :=
  if is_some (find_arg (fst st) (a_id (fst g))) then st
  else (with_args (fst st) (c_args (fst st) ++ [fst g]), add_arg_desc (fst st) (snd st) (snd g)).

Lemma fold_gstep_erase gl : forall sc dsc,
  fold_left gstep (map (fun p : arg * adesc => (fst p, erase_adesc (snd p))) gl) (sc, erase_desc dsc) =
  (fst (fold_left gstep gl (sc, dsc)), erase_desc (snd (fold_left gstep gl (sc, dsc)))).
Proof.
  induction gl as [|g gl IH]; intros sc dsc; [reflexivity|].
  cbn [map fold_left]. unfold gstep at 2 4 6. cbn [fst snd].
  destruct (is_some (find_arg sc (a_id (fst g)))).
  - apply IH.
  - rewrite <- erase_add_arg. apply IH.
Qed.

Lemma erase_dglobals c d : erase_desc (d_globals c d) = d_globals c (erase_desc d).
Proof.
  unfold d_globals. cbv zeta. fold gstep.
  rewrite erase_desc_about, erase_desc_long, erase_desc_args, erase_desc_subs.
  cbn [erase_desc]. f_equal.
  rewrite (zipd_map erase_desc cd0 (c_subs c) eq_refl), (zipd_map erase_adesc ad0 (c_args c) eq_refl).
  rewrite (filter_map_fst a_global erase_adesc), !map_map.
  apply map_ext. intros [sc dsc]. cbn [fst snd].
  destruct (beq (c_name sc) (lit "help") && negb (is_set s_dhs c)); [reflexivity|].
  rewrite fold_gstep_erase. reflexivity.
Qed.

Lemma erase_dbuild_self c d : erase_desc (dbuild_self c d) = erase_desc (dbuild_self c (erase_desc d)).
Proof. unfold dbuild_self. cbv zeta. rewrite !erase_dglobals, erase_dhv. reflexivity. Qed.

Lemma cd_parts_of_erase d1 d2 : erase_desc d1 = erase_desc d2 ->
  erase_opt (cd_about d1) = erase_opt (cd_about d2) /\ cd_long d1 = cd_long d2 /\
  map erase_adesc (cd_args d1) = map erase_adesc (cd_args d2) /\
  map erase_desc (cd_subs d1) = map erase_desc (cd_subs d2).
Proof. destruct d1, d2. cbn [erase_desc]. intros H. inversion H. auto. Qed.

Lemma dbuild_recursive_congr : forall fuel c d1 d2,
  erase_desc d1 = erase_desc d2 -> erase_desc (dbuild_recursive fuel c d1) = erase_desc (dbuild_recursive fuel c d2).
Proof.
  induction fuel as [|f IH]; intros c d1 d2 He; [exact He|].
  cbn [dbuild_recursive]. cbv zeta.
  assert (Hs : erase_desc (dbuild_self c d1) = erase_desc (dbuild_self c d2)).
  { rewrite (erase_dbuild_self c d1), (erase_dbuild_self c d2), He. reflexivity. }
  destruct (cd_parts_of_erase _ _ Hs) as (Ha & Hl & Hargs & Hsubs).
  cbn [erase_desc]. rewrite Ha, Hl, Hargs. f_equal.
  rewrite !map_map.
  revert Hsubs. generalize (cd_subs (dbuild_self c d1)) as m1. generalize (cd_subs (dbuild_self c d2)) as m2.
  generalize (c_subs (build_self c)) as S.
  induction S as [|sc S IHS]; intros m2 m1 Hm; [reflexivity|].
  cbn [zipd map fst snd]. f_equal.
  - apply IH. destruct m1, m2; cbn [map hd] in *; try reflexivity; try discriminate. now inversion Hm.
  - apply IHS. destruct m1, m2; cbn [map tl] in *; try reflexivity; try discriminate. now inversion Hm.
Qed.

(** [Command::build] treats the texts uniformly *)
Theorem dbuild_erase_congr c d1 d2 :
  erase_desc d1 = erase_desc d2 -> erase_desc (dbuild c d1) = erase_desc (dbuild c d2).
Proof. apply dbuild_recursive_congr. Qed.

(** ---- [Command::build] keeps names tame ---- *)
Lemma tame_cmd_intro c :
  tame (c_name c) = true -> tame_fst (c_aliases c) = true -> forallb tame_arg (c_args c) = true ->
  forallb tame_cmd (c_subs c) = true -> tame_cmd c = true.
Proof. intros H1 H2 H3 H4. rewrite tame_cmd_unfold, H1, H2, H3, H4. reflexivity. Qed.

Lemma tame_with_sets c s g : tame_cmd (with_sets c s g) = tame_cmd c.
Proof. rewrite !tame_cmd_unfold. reflexivity. Qed.
Lemma tame_with_version c v : tame_cmd (with_version c v) = tame_cmd c.
Proof. rewrite !tame_cmd_unfold. reflexivity. Qed.
Lemma tame_with_bin c b : tame_cmd (with_bin c b) = tame_cmd c.
Proof. rewrite !tame_cmd_unfold. reflexivity. Qed.
Lemma tame_with_args c l : tame_cmd c = true -> forallb tame_arg l = true -> tame_cmd (with_args c l) = true.
Proof.
  intros Hc Hl. destruct (tame_cmd_parts c Hc) as (H1 & H2 & _ & H4). apply tame_cmd_intro; assumption.
Qed.
Lemma tame_with_subs c l : tame_cmd c = true -> forallb tame_cmd l = true -> tame_cmd (with_subs c l) = true.
Proof.
  intros Hc Hl. destruct (tame_cmd_parts c Hc) as (H1 & H2 & H3 & _). apply tame_cmd_intro; assumption.
Qed.

Lemma forallb_map {A B} (f : A -> B) (p : B -> bool) l : forallb p (map f l) = forallb (fun a => p (f a)) l.
Proof. induction l as [|a l IH]; [reflexivity|]. cbn [map forallb]. now rewrite IH. Qed.
Lemma forallb_true_in {A} (p : A -> bool) l : (forall a, In a l -> p a = true) -> forallb p l = true.
Proof. intros H. apply forallb_forall. exact H. Qed.

Lemma tame_propagate parent sc : tame_cmd (propagate_subcommand parent sc) = tame_cmd sc.
Proof.
  unfold propagate_subcommand. cbv zeta. rewrite tame_with_sets.
  destruct (s_pver (c_set parent) && c_version parent); [apply tame_with_version|reflexivity].
Qed.

Lemma tame_bs_settings c : tame_cmd (bs_settings c) = tame_cmd c.
Proof. unfold bs_settings. cbv zeta. apply tame_with_sets. Qed.

Lemma tame_bs_propagate c : tame_cmd c = true -> tame_cmd (bs_propagate c) = true.
Proof.
  intros Hc. unfold bs_propagate. apply tame_with_subs; [exact Hc|].
  rewrite forallb_map. destruct (tame_cmd_parts c Hc) as (_ & _ & _ & H4).
  apply forallb_true_in. intros sc Hsc. rewrite tame_propagate. apply (forallb_in _ _ _ H4 Hsc).
Qed.

Lemma tame_copy : forall c, tame_cmd c = true -> tame_cmd (copy_subtree_for_help c) = true.
Proof.
  induction c as [n al args subs bin h v s g IH] using cmd_ind'. intros Hc.
  destruct (tame_cmd_parts _ Hc) as (H1 & _ & _ & H4). cbn [c_name c_subs] in H1, H4.
  cbn [copy_subtree_for_help]. apply tame_cmd_intro; cbn [c_name c_aliases c_args c_subs]; try reflexivity; [exact H1|].
  rewrite forallb_map. apply forallb_true_in. intros sc Hsc.
  apply (proj1 (Forall_forall _ _) IH sc Hsc). apply (forallb_in _ _ _ H4 Hsc).
Qed.

Lemma tame_help_subcommand parent : tame_cmd parent = true -> tame_cmd (help_subcommand parent) = true.
Proof.
  intros Hp. destruct (tame_cmd_parts _ Hp) as (_ & _ & _ & H4).
  unfold help_subcommand. cbv zeta. rewrite tame_with_sets, tame_with_version, tame_propagate.
  apply tame_cmd_intro; cbn [c_name c_aliases c_args c_subs]; try reflexivity.
  rewrite forallb_app, forallb_map. apply andb_true_iff. split; [|reflexivity].
  apply forallb_true_in. intros sc Hsc. apply tame_copy. apply (forallb_in _ _ _ H4 Hsc).
Qed.

Lemma tame_add_arg c a : tame_cmd c = true -> tame_arg a = true -> tame_cmd (with_args c (c_args c ++ [a])) = true.
Proof.
  intros Hc Ha. apply tame_with_args; [exact Hc|]. destruct (tame_cmd_parts c Hc) as (_ & _ & H3 & _).
  rewrite forallb_app, H3. cbn [forallb]. rewrite Ha. reflexivity.
Qed.

Lemma tame_bs_help_version c : tame_cmd c = true -> tame_cmd (bs_help_version c) = true.
Proof.
  intros Hc. unfold bs_help_version. cbv zeta.
  set (c1 := if negb (is_set s_dhf c) then with_args c (c_args c ++ [help_arg]) else c).
  assert (H1 : tame_cmd c1 = true).
  { unfold c1. destruct (negb (is_set s_dhf c)); [apply tame_add_arg; [exact Hc|reflexivity]|exact Hc]. }
  set (c2 := if negb (is_disable_version_flag_set c1) then with_args c1 (c_args c1 ++ [version_arg]) else c1).
  assert (H2 : tame_cmd c2 = true).
  { unfold c2. destruct (negb (is_disable_version_flag_set c1)); [apply tame_add_arg; [exact H1|reflexivity]|exact H1]. }
  destruct (negb (is_set s_dhs c2)); [|exact H2].
  apply tame_with_subs; [exact H2|]. destruct (tame_cmd_parts c2 H2) as (_ & _ & _ & H4).
  rewrite forallb_app, H4. cbn [forallb]. rewrite (tame_help_subcommand c2 H2). reflexivity.
Qed.

Lemma tame_fold_globals gl : (forall a, In a gl -> tame_arg a = true) -> forall sc, tame_cmd sc = true ->
  tame_cmd (fold_left (fun sc a => if is_some (find_arg sc (a_id a)) then sc
                                   else with_args sc (c_args sc ++ [a])) gl sc) = true.
Proof.
  induction gl as [|a gl IH]; intros Hg sc Hsc; [exact Hsc|].
  cbn [fold_left]. apply IH; [intros x Hx; apply Hg; right; exact Hx|].
  destruct (is_some (find_arg sc (a_id a))); [exact Hsc|].
  apply tame_add_arg; [exact Hsc|apply Hg; left; reflexivity].
Qed.

Lemma tame_bs_globals c : tame_cmd c = true -> tame_cmd (bs_globals c) = true.
Proof.
  intros Hc. destruct (tame_cmd_parts c Hc) as (_ & _ & H3 & H4).
  unfold bs_globals. cbv zeta. apply tame_with_subs; [exact Hc|].
  rewrite forallb_map. apply forallb_true_in. intros sc Hsc.
  assert (Ht := forallb_in _ _ _ H4 Hsc).
  destruct (beq (c_name sc) (lit "help") && negb (is_set s_dhs c)); [exact Ht|].
  apply tame_fold_globals; [|exact Ht].
  intros a Ha. apply filter_In in Ha. destruct Ha as [Ha _]. apply (forallb_in _ _ _ H3 Ha).
Qed.

Lemma tame_build_self c : tame_cmd c = true -> tame_cmd (build_self c) = true.
Proof.
  intros Hc. unfold build_self. apply tame_bs_globals, tame_bs_help_version, tame_bs_propagate.
  rewrite tame_bs_settings. exact Hc.
Qed.

Lemma tame_build_recursive : forall fuel c b, build_recursive fuel c = Some b -> tame_cmd c = true -> tame_cmd b = true.
Proof.
  induction fuel as [|f IH]; intros c b Hb Hc; [discriminate|].
  cbn [build_recursive] in Hb.
  destruct (map_opt (build_recursive f) (c_subs (build_self c))) as [subs|] eqn:Em; [|discriminate].
  inversion Hb; subst b; clear Hb.
  assert (Hs := tame_build_self c Hc). apply tame_with_subs; [exact Hs|].
  destruct (tame_cmd_parts _ Hs) as (_ & _ & _ & H4).
  apply map_opt_Forall2 in Em. revert H4. induction Em as [|x y l r Hxy Hrest IHr]; intros H4; [reflexivity|].
  cbn [forallb] in *. apply andb_true_iff in H4. destruct H4 as [Hx Hl].
  rewrite (IH x y Hxy Hx), (IHr Hl). reflexivity.
Qed.

Lemma tame_assign_bins : forall c inh, tame_cmd (assign_bins inh c) = tame_cmd c.
Proof.
  induction c as [n al args subs bin h v s g IH] using cmd_ind'. intros inh.
  cbn [assign_bins]. rewrite !tame_cmd_unfold. cbn [c_name c_aliases c_args c_subs]. f_equal.
  rewrite forallb_map. induction IH as [|x l Hx Hl IHl]; [reflexivity|].
  cbn [forallb]. rewrite Hx, IHl. reflexivity.
Qed.

Theorem build_tame c bin b : build (set_bin_name c bin) = Some b -> tame_cmd c = true -> tame_cmd b = true.
Proof.
  unfold build. intros Hb Hc.
  destruct (build_recursive (build_fuel (set_bin_name c bin)) (set_bin_name c bin)) as [c'|] eqn:Er; [|discriminate].
  inversion Hb; subst b; clear Hb. unfold build_bin_names. rewrite tame_assign_bins.
  apply (tame_build_recursive _ _ _ Er). unfold set_bin_name. rewrite tame_with_bin. exact Hc.
Qed.

(** ---- the theorems for [generate_fish] ---- *)
Lemma build_root_bin c bin b : build (set_bin_name c bin) = Some b -> c_bin b = Some bin.
Proof.
  unfold build. intros Hb.
  destruct (build_recursive (build_fuel (set_bin_name c bin)) (set_bin_name c bin)) as [c'|] eqn:Er; [|discriminate].
  inversion Hb; subst b; clear Hb. unfold build_bin_names. rewrite assign_bins_bin.
  rewrite (build_recursive_bin _ _ _ Er). destruct c; reflexivity.
Qed.

(** whole-script structure invariance for the command tree as the user wrote it: the trees differ only in
    their description texts ([erase_desc d1 = erase_desc d2]: the same slots are present), every name is
    tame; then [generate] succeeds on both or on neither, and the two files have the same token skeleton *)
Theorem generate_fish_text_invariance c d1 d2 bin s1 :
  tame bin = true -> tame_cmd c = true -> erase_desc d1 = erase_desc d2 ->
  generate_fish c d1 bin = Some s1 ->
  exists s2, generate_fish c d2 bin = Some s2 /\
    skeleton (events fish_step FB s1) = skeleton (events fish_step FB s2) /\
    final fish_step FB s1 = final fish_step FB s2.
Proof.
  intros Ht Hc He H1. unfold generate_fish in *.
  destruct (build (set_bin_name c bin)) as [b|] eqn:Eb; [|discriminate].
  assert (Hbin := build_root_bin c bin b Eb). assert (Htb := build_tame c bin b Eb Hc).
  assert (Hd := dbuild_erase_congr (set_bin_name c bin) d1 d2 He).
  destruct (fish_text_invariance b _ _ bin Hbin Ht Htb Hd) as (t1 & t2 & E1 & E2 & Hsk & Hf).
  rewrite H1 in E1. inversion E1; subst t1. exists t2. auto.
Qed.

(** the mention theorem for [generate_fish]: the file [generate] writes is the file of the built tree *)
Theorem generate_fish_is_built c d bin b :
  build (set_bin_name c bin) = Some b ->
  c_bin b = Some bin /\ generate_fish c d bin = fish_script b (dbuild (set_bin_name c bin) d).
Proof.
  intros Eb. split; [exact (build_root_bin c bin b Eb)|]. unfold generate_fish. rewrite Eb. reflexivity.
Qed.

(** non-vacuity: the tame example tree as a user tree (no bin name yet), built with its help flags and
    help subcommand tree; adversarial against innocuous texts *)
Definition lx_user : cmd := with_bin lx_root None.
Example generate_fish_text_invariance_hyps :
  tame (lit "my-app") = true /\ tame_cmd lx_user = true /\ erase_desc lx_adv = erase_desc lx_inn /\
  exists s1 s2, generate_fish lx_user lx_adv (lit "my-app") = Some s1 /\
                generate_fish lx_user lx_inn (lit "my-app") = Some s2 /\ s1 <> s2.
Proof.
  split; [reflexivity|]. split; [reflexivity|]. split; [reflexivity|].
  destruct (generate_fish lx_user lx_adv (lit "my-app")) as [s1|] eqn:E1; [|vm_compute in E1; discriminate].
  destruct (generate_fish lx_user lx_inn (lit "my-app")) as [s2|] eqn:E2; [|vm_compute in E2; discriminate].
  exists s1, s2. split; [reflexivity|]. split; [reflexivity|].
  intros ->. rewrite <- E1 in E2. vm_compute in E2. discriminate.
Qed.
