(** C16, one statement for all six generators, on the tree the user wrote.
    [six_generators_mention_spellings]: a user tree [c] without explicit bin names on subcommands, [generate] called with the
    bin name [bin]; the built tree in the class of the bash theorems ([mangle_safe], which contains what the zsh lookup needs).
    For EVERY path [ws] of names or visible aliases of the USER's tree (at most two words: what fish supports) to a command
    [n], every option or flag [a] the user gave [n], and EVERY spelling of [a] -- its short, its long, a visible short alias,
    a visible alias -- in the class [arg_has_primary a] (an alias comes with its primary spelling; outside it: finding
    alias-without-primary): each of the six scripts exists and mentions that spelling in the place its shell looks it up
    for that path -- the SAME set of spellings in all six.  A corollary of the six coverage theorems, of
    [BuildSkeleton.reach_extends] ([build] keeps the user's paths and arguments) and of [BuildLinked.build_linked].
    [six_generators_deterministic]: all six are functions of (command, texts, bin name). *)
From ClapModel Require Import Base.Bytes Complete.AotTree Complete.TextTree Complete.BashModel Complete.AotProofs
  Complete.BashProofs Complete.BuildTexts Complete.BuildLinked Complete.BuildSkeleton.
From ClapModel Require Import Complete.FishModel Complete.FishProofs Complete.FishBuildProofs.
From ClapModel Require Import Complete.ZshModel Complete.ZshProofs Complete.ZshBuildProofs.
From ClapModel Require Complete.ZshBuildConflicts.
From ClapModel Require Complete.BashUser Complete.PathTable Complete.ElvishModel Complete.ElvishProofs Complete.PowershellModel
  Complete.PowershellProofs Complete.NushellModel Complete.NushellProofs.
From Coq Require Import String Lia.
Open Scope N_scope.
Open Scope list_scope.

Definition spelled_short (a : arg) (s : bytes) : Prop := a_short a = Some s \/ In (s, true) (a_short_aliases a).
Definition spelled_long (a : arg) (l : bytes) : Prop := a_long a = Some l \/ In (l, true) (a_aliases a).
Definition arg_has_primary (a : arg) : Prop :=
  (a_short_aliases a <> [] -> a_short a <> None) /\ (a_aliases a <> [] -> a_long a <> None).

Lemma spelled_short_listed a s : arg_has_primary a -> spelled_short a s ->
  exists s0 shorts, a_short a = Some s0 /\ (s = s0 \/ In (s, true) (a_short_aliases a)) /\
                    get_short_and_visible_aliases a = Some shorts /\ In s shorts.
Proof.
  intros [Hp _] Hs.
  assert (Hs0 : exists s0, a_short a = Some s0).
  { destruct Hs as [Hs|Hs]; [eauto|]. destruct (a_short a) as [s0|] eqn:E; [eauto|].
    exfalso. apply Hp; [intros Hn; rewrite Hn in Hs; destruct Hs|reflexivity]. }
  destruct Hs0 as [s0 E0]. destruct (proj1 (option_spellings_complete a) s0 E0) as (l & El & Hin & Hal).
  exists s0, l. split; [exact E0|]. split; [|split; [exact El|]].
  - destruct Hs as [Hs|Hs]; [left; congruence|right; exact Hs].
  - destruct Hs as [Hs|Hs]; [assert (s = s0) by congruence; subst; exact Hin|exact (Hal s Hs)].
Qed.

Lemma spelled_long_listed a l : arg_has_primary a -> spelled_long a l ->
  exists l0 longs, a_long a = Some l0 /\ (l = l0 \/ In (l, true) (a_aliases a)) /\
                   get_long_and_visible_aliases a = Some longs /\ In l longs.
Proof.
  intros [_ Hp] Hs.
  assert (Hs0 : exists l0, a_long a = Some l0).
  { destruct Hs as [Hs|Hs]; [eauto|]. destruct (a_long a) as [l0|] eqn:E; [eauto|].
    exfalso. apply Hp; [intros Hn; rewrite Hn in Hs; destruct Hs|reflexivity]. }
  destruct Hs0 as [l0 E0]. destruct (proj2 (option_spellings_complete a) l0 E0) as (ls & El & Hin & Hal).
  exists l0, ls. split; [exact E0|]. split; [|split; [exact El|]].
  - destruct Hs as [Hs|Hs]; [left; congruence|right; exact Hs].
  - destruct Hs as [Hs|Hs]; [assert (l = l0) by congruence; subst; exact Hin|exact (Hal l Hs)].
Qed.

(** ---- what "the script of shell X mentions the word for the path" means, shell by shell ---- *)
(** bash: the [case] arm the loop over the words [ws] ends in carries the word in its [opts] *)
Definition bash_mentions (c : cmd) (bin : bytes) (ns : list bytes) (w : bytes) : Prop :=
  exists b t k, build (set_bin_name c bin) = Some b /\ bash_table b = Some t /\ generate_bash c bin = Some (render t) /\
                lookup_case t (fn_of (mangle bin) ns) = Some k /\ In w (k_opts k).
(** elvish / PowerShell: the block keyed [bin;w1;..;wk] has the entry *)
Definition elvish_mentions (c : cmd) (t : ttree) (bin : bytes) (ws : list bytes) (entry : list N -> list N) : Prop :=
  exists script es tip, ElvishModel.generate_elvish c t bin = Some script /\
    PathTable.infix (ElvishModel.case_block (PathTable.path_key bin ws) es) script /\ PathTable.infix (entry tip) es.
Definition powershell_mentions up (c : cmd) (t : ttree) (bin : bytes) (ws : list bytes) (entry : list N -> list N) : Prop :=
  exists script es tip, PowershellModel.generate_powershell up c t bin = Some script /\
    PathTable.infix (PowershellModel.case_block (PathTable.path_key bin ws) es) script /\ PathTable.infix (entry tip) es.
(** fish: a [complete] line that starts with the condition template of the path carries the word *)
Definition fish_mentions_word (c : cmd) (d : cdesc) (bin : bytes) (ws : list bytes) (word : piece) : Prop :=
  exists b n' lines basic line,
    build (set_bin_name c bin) = Some b /\ generate_fish c d bin = fish_script b (dbuild (set_bin_name c bin) d) /\
    fish_lines b (dbuild (set_bin_name c bin) d) = Some lines /\
    basic_template bin (fish_needs bin b) (fish_using bin b) ws n' = Some basic /\
    In line lines /\ hd_error line = Some (Fx basic) /\ In word line.
(** nushell: the block declared [export extern "bin n1 .. nk"] has a line of the argument that starts with the spelling *)
Definition nushell_mentions (c : cmd) (d : cdesc) (bin : bytes) (ns : list bytes) (a : arg)
           (ok : bytes -> Prop) : Prop :=
  exists s blk pre post st,
    NushellModel.generate_nushell c d bin = Some s /\ s = NushellProofs.nrender (pre ++ blk ++ post) /\
    In (NushellProofs.NFx (NushellProofs.extern_line (negb (is_nil ns)) (bin ++ join_with [32] ns))) blk /\
    ok st /\ In (NushellProofs.NFx (st ++ NushellProofs.type_suffix a (bin ++ join_with [32] ns))) blk.
(** zsh: the [_arguments] block that follows the arm label of the last word of the path (the root: the first block) has the
    spec line of the spelling -- the option form when the argument takes a value, the flag form otherwise *)
Definition zsh_mentions (c : cmd) (d : cdesc) (bin : bytes) (ws : list bytes) (a : arg)
           (line : cmd -> option cmd -> arg * adesc -> list zpiece) : Prop :=
  exists s n' nd g ad,
    generate_zsh c d bin = Some s /\
    sublist (zrender ((if is_nil ws then [] else [Zx ([40] ++ last ws [] ++ [41])] ++ znl) ++ args_block n' nd g)) s /\
    sublist (line n' g (a, ad)) (args_block n' nd g).

(** ---- shell by shell, at a node of the built tree ---- *)
Section Built.
  Variables (c : cmd) (bin : bytes) (b : cmd).
  Hypothesis Hnb : nb c = true.
  Hypothesis Hb : build (set_bin_name c bin) = Some b.
  Hypothesis Hm : mangle_safe b bin.
  Variables (ws ns : list bytes) (n' : cmd) (a : arg).
  Hypothesis Hr : reach b ws ns n'.
  Hypothesis Ha : In a (c_args n').
  Hypothesis Hpos : a_is_positional a = false.
  Hypothesis Hprim : arg_has_primary a.

  Let Hne : bin <> [] := ms_root_ne _ _ Hm.

  Lemma bash_word (w : bytes) :
    (exists s, In s (shorts_and_visible_aliases n') /\ w = [45] ++ s) \/
    (exists l, In l (longs_and_visible_aliases n') /\ w = [45; 45] ++ l) -> bash_mentions c bin ns w.
  Proof.
    intros Hw. destruct (BashUser.bash_generate_table c bin b Hnb Hb Hm) as (t & Ht & Hg & H).
    destruct (H [] ws ns n' Hr) as (_ & k & Hk & Ho & _). exists b, t, k. repeat split; try assumption.
    apply (proj2 (opts_tokens_spec n' (k_opts k) Ho w)). destruct Hw as [Hw|Hw]; [left|right; left]; exact Hw.
  Qed.

  Lemma bash_short s : spelled_short a s -> bash_mentions c bin ns ([45] ++ s).
  Proof.
    intros Hs. destruct (spelled_short_listed a s Hprim Hs) as (s0 & _ & E0 & Hs' & _).
    apply bash_word. left. exists s. split; [|reflexivity]. apply shorts_spec. exists a. repeat split; try assumption.
    exists s0. split; [exact E0|]. destruct Hs' as [->|Hs']; [left; reflexivity|right; exact Hs'].
  Qed.
  Lemma bash_long l : spelled_long a l -> bash_mentions c bin ns ([45; 45] ++ l).
  Proof.
    intros Hs. destruct (spelled_long_listed a l Hprim Hs) as (l0 & _ & E0 & Hs' & _).
    apply bash_word. right. exists l. split; [|reflexivity]. apply longs_spec. exists a. repeat split; try assumption.
    exists l0. split; [exact E0|]. destruct Hs' as [->|Hs']; [left; reflexivity|right; exact Hs'].
  Qed.

  Lemma elvish_both t :
    (forall s, spelled_short a s -> elvish_mentions c t bin ws (ElvishProofs.el_short s)) /\
    (forall l, spelled_long a l -> elvish_mentions c t bin ws (ElvishProofs.el_long l)).
  Proof.
    destruct (ElvishProofs.elvish_generate_covers c t bin Hne) as (b' & script & Hb' & Hg & H).
    rewrite Hb in Hb'. inversion Hb'; subst b'. destruct (H ws ns n' Hr) as (tn & Hblk & Hsh & Hlg & _). split.
    - intros s Hs. destruct (spelled_short_listed a s Hprim Hs) as (s0 & _ & E0 & Hs' & _).
      destruct (Hsh a s0 s Ha Hpos E0 Hs') as [tip Htip]. exists script, (PathTable.entries ElvishProofs.el_fmt n' tn), tip. repeat split; assumption.
    - intros l Hs. destruct (spelled_long_listed a l Hprim Hs) as (l0 & _ & E0 & Hs' & _).
      destruct (Hlg a l0 l Ha Hpos E0 Hs') as [tip Htip]. exists script, (PathTable.entries ElvishProofs.el_fmt n' tn), tip. repeat split; assumption.
  Qed.

  Lemma powershell_both up t :
    (forall s, spelled_short a s -> powershell_mentions up c t bin ws (PowershellProofs.ps_short up s)) /\
    (forall l, spelled_long a l -> powershell_mentions up c t bin ws (PowershellProofs.ps_long l)).
  Proof.
    destruct (PowershellProofs.powershell_generate_covers up c t bin Hne) as (b' & script & Hb' & Hg & H).
    rewrite Hb in Hb'. inversion Hb'; subst b'. destruct (H ws ns n' Hr) as (tn & Hblk & Hsh & Hlg & _). split.
    - intros s Hs. destruct (spelled_short_listed a s Hprim Hs) as (s0 & _ & E0 & Hs' & _).
      destruct (Hsh a s0 s Ha Hpos E0 Hs') as [tip Htip]. exists script, (PathTable.entries (PowershellProofs.ps_fmt up) n' tn), tip. repeat split; assumption.
    - intros l Hs. destruct (spelled_long_listed a l Hprim Hs) as (l0 & _ & E0 & Hs' & _).
      destruct (Hlg a l0 l Ha Hpos E0 Hs') as [tip Htip]. exists script, (PathTable.entries (PowershellProofs.ps_fmt up) n' tn), tip. repeat split; assumption.
  Qed.

  Lemma fish_both d : (List.length ws <= 2)%nat ->
    (forall s, spelled_short a s -> fish_mentions_word c d bin ws (short_word s)) /\
    (forall l, spelled_long a l -> fish_mentions_word c d bin ws (long_word l)).
  Proof.
    intros Hlen. destruct (generate_fish_is_built c d bin b Hb) as [Hbin Hg].
    destruct (fish_mentions b (dbuild (set_bin_name c bin) d) bin ws ns n' Hbin Hr Hlen) as (lines & basic & Hl & Hbt & Hargs & _).
    destruct (Hargs a Ha Hpos) as (line & Hin & Hhd & Hsh & Hlg & _). split.
    - intros s Hs. destruct (spelled_short_listed a s Hprim Hs) as (_ & shorts & _ & _ & E & Hi).
      exists b, n', lines, basic, line. repeat split; try assumption. exact (Hsh shorts s E Hi).
    - intros l Hs. destruct (spelled_long_listed a l Hprim Hs) as (_ & longs & _ & _ & E & Hi).
      exists b, n', lines, basic, line. repeat split; try assumption. exact (Hlg longs l E Hi).
  Qed.

  Lemma nushell_both d :
    (forall s, spelled_short a s -> nushell_mentions c d bin ns a (NushellProofs.mentions_short s)) /\
    (forall l, spelled_long a l -> nushell_mentions c d bin ns a (NushellProofs.mentions_long l)).
  Proof.
    destruct (NushellProofs.generate_nushell_covers_named c d bin Hnb Hne) as (b' & s & Hb' & Hg & H).
    rewrite Hb in Hb'. inversion Hb'; subst b'. destruct (H ws ns n' Hr) as (blk & pre & post & Es & Hext & Hargs & _).
    destruct (Hargs a Ha Hpos) as [Hsh Hlg]. split.
    - intros x Hs. destruct (spelled_short_listed a x Hprim Hs) as (_ & shorts & _ & _ & E & Hi).
      destruct (Hsh shorts x E Hi) as (st & Hst & Hin). exists s, blk, pre, post, st. auto.
    - intros x Hs. destruct (spelled_long_listed a x Hprim Hs) as (_ & longs & _ & _ & E & Hi).
      destruct (Hlg longs x E Hi) as (st & Hst & Hin). exists s, blk, pre, post, st. auto.
  Qed.
End Built.

(** ---- zsh ---- *)
Lemma dd_safe_no_blank : forall s, dd_safe s = true -> ~ In 32 s.
Proof.
  induction s as [|ch t IH]; intros H Hin; [destruct Hin|]. cbn [dd_safe] in H.
  apply andb_true_iff in H. destruct H as [H Ht]. apply andb_true_iff in H. destruct H as [H1 _].
  destruct Hin as [->|Hin]; [discriminate|exact (IH Ht Hin)].
Qed.

Lemma mangle_safe_zsh_ok c bin b :
  nb c = true -> build (set_bin_name c bin) = Some b -> mangle_safe b bin -> cres b -> zsh_ok b bin.
Proof.
  intros Hnb Hb Hm [Hc0 Hcr]. destruct (build_linked c bin b Hnb (ms_root_ne _ _ Hm) Hb) as [H1 H2].
  constructor; [exact H1|exact H2| | |exact Hc0|exact Hcr].
  - intros n Hn. apply dd_safe_no_blank. exact (ms_names _ _ Hm n Hn).
  - apply siblings_ok_names. exact (ms_siblings _ _ Hm).
Qed.

Definition zsh_short_line (a : arg) (s : bytes) (n : cmd) (g : option cmd) (p : arg * adesc) : list zpiece :=
  if a_takes_values a then opt_short_line n g p s else zflag_line n g p [45] s.
Definition zsh_long_line (a : arg) (l : bytes) (n : cmd) (g : option cmd) (p : arg * adesc) : list zpiece :=
  if a_takes_values a then opt_long_line n g p l else zflag_line n g p [45; 45] l.

Lemma reach_nil_inv c ns n : reach c [] ns n -> n = c /\ ns = [].
Proof. intros H. inversion H; subst. split; reflexivity. Qed.

Section BuiltZsh.
  Variables (c : cmd) (bin : bytes) (b : cmd).
  Hypothesis Hnb : nb c = true.
  Hypothesis Hb : build (set_bin_name c bin) = Some b.
  Hypothesis Hm : mangle_safe b bin.
  Hypothesis Hcf : cres b.

  (** the block of the path is in the file *)
  Lemma zsh_block d ws ns n' : reach b ws ns n' -> exists s nd g,
    generate_zsh c d bin = Some s /\
    sublist (zrender ((if is_nil ws then [] else [Zx ([40] ++ last ws [] ++ [41])] ++ znl) ++ args_block n' nd g)) s.
  Proof.
    intros Hr. pose proof (mangle_safe_zsh_ok c bin b Hnb Hb Hm Hcf) as Hok.
    rewrite (generate_zsh_is_built c d bin b Hb). set (db := dbuild (set_bin_name c bin) d).
    destruct ws as [|w ws'].
    - destruct (reach_nil_inv _ _ _ Hr) as [En _]. rewrite En.
      destruct (zsh_script_root b db bin Hok) as (s & Es & Hs).
      exists s, db, None. split; [exact Es|]. cbn [is_nil app]. exact Hs.
    - assert (Hne : w :: ws' <> []) by discriminate.
      destruct (reach_dreach b (w :: ws') ns n' Hr Hne db) as (nd & par & Hd).
      destruct (zsh_script_path b db bin (w :: ws') n' nd par Hok Hd) as (s & Es & Hs).
      exists s, nd, (Some par). split; [exact Es|]. cbn [is_nil]. rewrite <- app_assoc. exact Hs.
  Qed.

  Lemma node_has_bin ws ns n' : reach b ws ns n' -> c_bin n' <> None.
  Proof.
    intros Hr. destruct (reach_desc _ _ _ _ Hr) as [->|Hd].
    - rewrite (build_root_bin c bin b Hb). discriminate.
    - exact (build_bins_built _ _ Hb n' Hd).
  Qed.

  Lemma zsh_both d ws ns n' a :
    reach b ws ns n' -> In a (c_args n') -> a_is_positional a = false -> arg_has_primary a ->
    (forall s, spelled_short a s -> zsh_mentions c d bin ws a (zsh_short_line a s)) /\
    (forall l, spelled_long a l -> zsh_mentions c d bin ws a (zsh_long_line a l)).
  Proof.
    intros Hr Ha Hpos Hprim.
    destruct (zsh_block d ws ns n' Hr) as (scr & nd & g & Eg & Hblk).
    destruct (zipd_has ad0 (c_args n') a Ha (cd_args nd)) as [ad Had].
    pose proof (node_has_bin ws ns n' Hr) as Hbin.
    assert (Hopt : a_takes_values a = true -> is_opt (a, ad) = true)
      by (intros Et; unfold is_opt; cbn [fst]; rewrite Et, Hpos; reflexivity).
    assert (Hflag : a_takes_values a = false -> is_flag (a, ad) = true)
      by (intros Et; unfold is_flag; cbn [fst]; rewrite Et, Hpos; reflexivity).
    split.
    - intros s Hs. destruct (spelled_short_listed a s Hprim Hs) as (s0 & shorts & E0 & Hs' & E & Hi).
      exists scr, n', nd, g, ad. split; [exact Eg|]. split; [exact Hblk|]. unfold zsh_short_line.
      destruct (a_takes_values a) eqn:Et.
      + exact (proj1 (block_options n' nd g a ad Hbin Had (Hopt eq_refl)) shorts s E Hi).
      + apply (block_flag_lines n' nd g a ad [45] s Hbin Had (Hflag eq_refl)).
        destruct (proj1 (flag_spellings_complete a) s0 E0) as [F1 F2].
        destruct Hs' as [->|Hs']; [exact F1|exact (F2 s Hs')].
    - intros l Hs. destruct (spelled_long_listed a l Hprim Hs) as (l0 & longs & E0 & Hs' & E & Hi).
      exists scr, n', nd, g, ad. split; [exact Eg|]. split; [exact Hblk|]. unfold zsh_long_line.
      destruct (a_takes_values a) eqn:Et.
      + exact (proj2 (block_options n' nd g a ad Hbin Had (Hopt eq_refl)) longs l E Hi).
      + apply (block_flag_lines n' nd g a ad [45; 45] l Hbin Had (Hflag eq_refl)).
        destruct (proj2 (flag_spellings_complete a) l0 E0) as [F1 F2].
        destruct Hs' as [->|Hs']; [exact F1|exact (F2 l Hs')].
  Qed.
End BuiltZsh.

(** ---- all six, on the user's tree ---- *)
Record six_mention_short up (c : cmd) (t : ttree) (d : cdesc) (bin : bytes) (ws ns : list bytes) (a : arg) (s : bytes) : Prop := {
  sm_bash : bash_mentions c bin ns ([45] ++ s);
  sm_zsh : zsh_mentions c d bin ws a (zsh_short_line a s);
  sm_fish : (List.length ws <= 2)%nat -> fish_mentions_word c d bin ws (short_word s);
  sm_powershell : powershell_mentions up c t bin ws (PowershellProofs.ps_short up s);
  sm_elvish : elvish_mentions c t bin ws (ElvishProofs.el_short s);
  sm_nushell : nushell_mentions c d bin ns a (NushellProofs.mentions_short s)
}.
Record six_mention_long up (c : cmd) (t : ttree) (d : cdesc) (bin : bytes) (ws ns : list bytes) (a : arg) (l : bytes) : Prop := {
  lm_bash : bash_mentions c bin ns ([45; 45] ++ l);
  lm_zsh : zsh_mentions c d bin ws a (zsh_long_line a l);
  lm_fish : (List.length ws <= 2)%nat -> fish_mentions_word c d bin ws (long_word l);
  lm_powershell : powershell_mentions up c t bin ws (PowershellProofs.ps_long l);
  lm_elvish : elvish_mentions c t bin ws (ElvishProofs.el_long l);
  lm_nushell : nushell_mentions c d bin ns a (NushellProofs.mentions_long l)
}.

Theorem six_generators_mention_spellings up c t d bin b ws ns n a :
  nb c = true -> build (set_bin_name c bin) = Some b -> mangle_safe b bin -> cres b ->
  reach c ws ns n -> In a (c_args n) -> a_is_positional a = false -> arg_has_primary a ->
  (forall s, spelled_short a s -> six_mention_short up c t d bin ws ns a s) /\
  (forall l, spelled_long a l -> six_mention_long up c t d bin ws ns a l).
Proof.
  intros Hnb Hb Hm Hcf Hr Ha Hpos Hprim.
  destruct (reach_extends c ws ns n Hr b (generate_extends c bin b Hb)) as (n' & Hr' & Hext).
  pose proof (proj1 (extends_node n n' Hext) a Ha) as Ha'.
  pose proof (elvish_both c bin b Hb Hm ws ns n' a Hr' Ha' Hpos Hprim t) as [E1 E2].
  pose proof (powershell_both c bin b Hb Hm ws ns n' a Hr' Ha' Hpos Hprim up t) as [P1 P2].
  pose proof (nushell_both c bin b Hnb Hb Hm ws ns n' a Hr' Ha' Hpos Hprim d) as [N1 N2].
  pose proof (zsh_both c bin b Hnb Hb Hm Hcf d ws ns n' a Hr' Ha' Hpos Hprim) as [Z1 Z2].
  split.
  - intros s Hs. constructor; [exact (bash_short c bin b Hnb Hb Hm ws ns n' a Hr' Ha' Hpos Hprim s Hs)|exact (Z1 s Hs)|
      |exact (P1 s Hs)|exact (E1 s Hs)|exact (N1 s Hs)].
    intros Hlen. exact (proj1 (fish_both c bin b Hb ws ns n' a Hr' Ha' Hpos Hprim d Hlen) s Hs).
  - intros l Hs. constructor; [exact (bash_long c bin b Hnb Hb Hm ws ns n' a Hr' Ha' Hpos Hprim l Hs)|exact (Z2 l Hs)|
      |exact (P2 l Hs)|exact (E2 l Hs)|exact (N2 l Hs)].
    intros Hlen. exact (proj2 (fish_both c bin b Hb ws ns n' a Hr' Ha' Hpos Hprim d Hlen) l Hs).
Qed.

(** the conflicts of the built tree resolve when the user's tree is in the class of [ZshBuildConflicts] *)
Lemma plain_cres c bin b :
  nb c = true -> bin <> [] -> siblings_ok c -> help_free false c = true -> names_ok BashUser.bash_name c ->
  ZshBuildConflicts.cdo_all c = true -> build (set_bin_name c bin) = Some b -> cres b.
Proof.
  intros Hnb Hne Hsib Hhf Hn Hcd Hb.
  assert (Hsp : nospace c).
  { intros n Hd. apply dd_safe_no_blank. specialize (Hn n Hd). unfold BashUser.bash_name in Hn.
    apply andb_true_iff in Hn. exact (proj1 Hn). }
  pose proof (ZshBuildConflicts.build_zsh_ok_conflicts c bin b Hnb Hne Hsp Hsib Hhf Hcd Hb) as Hok.
  exact (conj (zo_conflicts_root _ _ Hok) (zo_conflicts _ _ Hok)).
Qed.

(** for hyphen-free subcommand names every hypothesis is on the user's tree ([BashUser.build_mangle_safe_plain]) *)
Theorem six_generators_mention_spellings_plain up c t d bin ws ns n a :
  nb c = true -> dd_safe bin = true -> bin <> [] -> siblings_ok c -> help_free false c = true ->
  names_ok BashUser.bash_name c -> ZshBuildConflicts.cdo_all c = true ->
  reach c ws ns n -> In a (c_args n) -> a_is_positional a = false -> arg_has_primary a ->
  (forall s, spelled_short a s -> six_mention_short up c t d bin ws ns a s) /\
  (forall l, spelled_long a l -> six_mention_long up c t d bin ws ns a l).
Proof.
  intros Hnb Hs Hne Hsib Hhf Hn Hbl Hr Ha Hpos Hprim.
  destruct (build (set_bin_name c bin)) as [b|] eqn:Hb; [|exfalso; exact (build_total _ Hb)].
  exact (six_generators_mention_spellings up c t d bin b ws ns n a Hnb Hb
           (BashUser.build_mangle_safe_plain c bin b Hb Hs Hne Hsib Hhf Hn)
           (plain_cres c bin b Hnb Hne Hsib Hhf Hn Hbl Hb) Hr Ha Hpos Hprim).
Qed.

(** determinism: all six generators are functions of (command, texts, bin name) *)
Theorem six_generators_deterministic up c1 c2 t1 t2 d1 d2 b1 b2 :
  c1 = c2 -> t1 = t2 -> d1 = d2 -> b1 = b2 ->
  generate_bash c1 b1 = generate_bash c2 b2 /\
  generate_zsh c1 d1 b1 = generate_zsh c2 d2 b2 /\
  generate_fish c1 d1 b1 = generate_fish c2 d2 b2 /\
  PowershellModel.generate_powershell up c1 t1 b1 = PowershellModel.generate_powershell up c2 t2 b2 /\
  ElvishModel.generate_elvish c1 t1 b1 = ElvishModel.generate_elvish c2 t2 b2 /\
  NushellModel.generate_nushell c1 d1 b1 = NushellModel.generate_nushell c2 d2 b2.
Proof. intros -> -> -> ->. repeat split. Qed.

(** satisfiable: the user tree of [BashUser.bash_generate_table_plain_hyps]; the path [a] (the visible alias of [add]) and its
    option -c / --color *)
Example six_generators_hyps :
  exists a, reach BashUser.bu_root [lit "a"] [lit "add"] BashUser.bu_add /\ In a (c_args BashUser.bu_add) /\
    a_is_positional a = false /\ arg_has_primary a /\ spelled_short a (lit "c") /\ spelled_long a (lit "color").
Proof.
  eexists. split.
  - eapply (reach_cons BashUser.bu_root BashUser.bu_add); [left; reflexivity|right; left; reflexivity|apply reach_nil].
  - split; [left; reflexivity|]. split; [reflexivity|]. split; [split; intros H; [discriminate|discriminate]|].
    split; left; reflexivity.
Qed.

(** the same with the six mentions spelled out *)
Theorem six_generators_mention_spellings_conj up c t d bin b ws ns n a :
  nb c = true -> build (set_bin_name c bin) = Some b -> mangle_safe b bin -> cres b ->
  reach c ws ns n -> In a (c_args n) -> a_is_positional a = false -> arg_has_primary a ->
  (forall s, spelled_short a s ->
     bash_mentions c bin ns ([45] ++ s) /\
     zsh_mentions c d bin ws a (zsh_short_line a s) /\
     ((List.length ws <= 2)%nat -> fish_mentions_word c d bin ws (short_word s)) /\
     powershell_mentions up c t bin ws (PowershellProofs.ps_short up s) /\
     elvish_mentions c t bin ws (ElvishProofs.el_short s) /\
     nushell_mentions c d bin ns a (NushellProofs.mentions_short s)) /\
  (forall l, spelled_long a l ->
     bash_mentions c bin ns ([45; 45] ++ l) /\
     zsh_mentions c d bin ws a (zsh_long_line a l) /\
     ((List.length ws <= 2)%nat -> fish_mentions_word c d bin ws (long_word l)) /\
     powershell_mentions up c t bin ws (PowershellProofs.ps_long l) /\
     elvish_mentions c t bin ws (ElvishProofs.el_long l) /\
     nushell_mentions c d bin ns a (NushellProofs.mentions_long l)).
Proof.
  intros Hnb Hb Hm Hcf Hr Ha Hpos Hprim.
  destruct (six_generators_mention_spellings up c t d bin b ws ns n a Hnb Hb Hm Hcf Hr Ha Hpos Hprim) as [H1 H2]. split.
  - intros s Hs. destruct (H1 s Hs). repeat split; assumption.
  - intros l Hs. destruct (H2 l Hs). repeat split; assumption.
Qed.

Theorem six_generators_mention_spellings_plain_conj up c t d bin ws ns n a :
  nb c = true -> dd_safe bin = true -> bin <> [] -> siblings_ok c -> help_free false c = true ->
  names_ok BashUser.bash_name c -> ZshBuildConflicts.cdo_all c = true ->
  reach c ws ns n -> In a (c_args n) -> a_is_positional a = false -> arg_has_primary a ->
  (forall s, spelled_short a s ->
     bash_mentions c bin ns ([45] ++ s) /\
     zsh_mentions c d bin ws a (zsh_short_line a s) /\
     ((List.length ws <= 2)%nat -> fish_mentions_word c d bin ws (short_word s)) /\
     powershell_mentions up c t bin ws (PowershellProofs.ps_short up s) /\
     elvish_mentions c t bin ws (ElvishProofs.el_short s) /\
     nushell_mentions c d bin ns a (NushellProofs.mentions_short s)) /\
  (forall l, spelled_long a l ->
     bash_mentions c bin ns ([45; 45] ++ l) /\
     zsh_mentions c d bin ws a (zsh_long_line a l) /\
     ((List.length ws <= 2)%nat -> fish_mentions_word c d bin ws (long_word l)) /\
     powershell_mentions up c t bin ws (PowershellProofs.ps_long l) /\
     elvish_mentions c t bin ws (ElvishProofs.el_long l) /\
     nushell_mentions c d bin ns a (NushellProofs.mentions_long l)).
Proof.
  intros Hnb Hs Hne Hsib Hhf Hn Hbl Hr Ha Hpos Hprim.
  destruct (build (set_bin_name c bin)) as [b|] eqn:Hb; [|exfalso; exact (build_total _ Hb)].
  exact (six_generators_mention_spellings_conj up c t d bin b ws ns n a Hnb Hb
           (BashUser.build_mangle_safe_plain c bin b Hb Hs Hne Hsib Hhf Hn)
           (plain_cres c bin b Hnb Hne Hsib Hhf Hn Hbl Hb) Hr Ha Hpos Hprim).
Qed.

Theorem six_mentions_meaning up c t d bin ws ns a w word entry ok line :
  (bash_mentions c bin ns w <->
     exists b tb k, build (set_bin_name c bin) = Some b /\ bash_table b = Some tb /\ generate_bash c bin = Some (render tb) /\
                    lookup_case tb (fn_of (mangle bin) ns) = Some k /\ In w (k_opts k)) /\
  (zsh_mentions c d bin ws a line <->
     exists s n' nd g ad, generate_zsh c d bin = Some s /\
       sublist (zrender ((if is_nil ws then [] else [Zx ([40] ++ last ws [] ++ [41])] ++ znl) ++ args_block n' nd g)) s /\
       sublist (line n' g (a, ad)) (args_block n' nd g)) /\
  (fish_mentions_word c d bin ws word <->
     exists b n' lines basic fline,
       build (set_bin_name c bin) = Some b /\ generate_fish c d bin = fish_script b (dbuild (set_bin_name c bin) d) /\
       fish_lines b (dbuild (set_bin_name c bin) d) = Some lines /\
       basic_template bin (fish_needs bin b) (fish_using bin b) ws n' = Some basic /\
       In fline lines /\ hd_error fline = Some (Fx basic) /\ In word fline) /\
  (powershell_mentions up c t bin ws entry <->
     exists script es tip, PowershellModel.generate_powershell up c t bin = Some script /\
       PathTable.infix (PowershellModel.case_block (PathTable.path_key bin ws) es) script /\ PathTable.infix (entry tip) es) /\
  (elvish_mentions c t bin ws entry <->
     exists script es tip, ElvishModel.generate_elvish c t bin = Some script /\
       PathTable.infix (ElvishModel.case_block (PathTable.path_key bin ws) es) script /\ PathTable.infix (entry tip) es) /\
  (nushell_mentions c d bin ns a ok <->
     exists s blk pre post st,
       NushellModel.generate_nushell c d bin = Some s /\ s = NushellProofs.nrender (pre ++ blk ++ post) /\
       In (NushellProofs.NFx (NushellProofs.extern_line (negb (is_nil ns)) (bin ++ join_with [32] ns))) blk /\
       ok st /\ In (NushellProofs.NFx (st ++ NushellProofs.type_suffix a (bin ++ join_with [32] ns))) blk).
Proof. repeat split; intros H; exact H. Qed.

(** ---- subcommand words: names and visible aliases of the subcommands of the addressed command ---- *)
(** zsh: the [_<bin>_commands] function of the addressed command is in the file and lists the word *)
Definition zsh_lists_subcommand (c : cmd) (d : cdesc) (bin : bytes) (ns : list bytes) (w : bytes) : Prop :=
  exists s nd n' about,
    generate_zsh c d bin = Some s /\ bin_or_default n' = bin ++ join_with [32] ns /\
    sublist (zrender (commands_function (bin_or_default n') (subcommands_of n' nd))) s /\
    sublist (describe_entry about w) (subcommands_of n' nd).
(** fish: a line starting with the path's condition (+ [-f] when the command has no positional) offers the word *)
Definition fish_offers_subcommand (c : cmd) (d : cdesc) (bin : bytes) (ws : list bytes) (w : bytes) : Prop :=
  exists b n' lines basic line,
    build (set_bin_name c bin) = Some b /\ generate_fish c d bin = fish_script b (dbuild (set_bin_name c bin) d) /\
    fish_lines b (dbuild (set_bin_name c bin) d) = Some lines /\
    basic_template bin (fish_needs bin b) (fish_using bin b) ws n' = Some basic /\
    In line lines /\ hd_error line = Some (Fx (sub_template basic n')) /\ In (sub_word w) line.
(** nushell declares the subcommand under its NAME path (visible aliases of subcommands are not written: finding
    nushell-subcommand-aliases): the block [export extern "bin n1 .. nk name"] exists *)
Definition nushell_declares (c : cmd) (d : cdesc) (bin : bytes) (ns : list bytes) : Prop :=
  exists s blk pre post,
    NushellModel.generate_nushell c d bin = Some s /\ s = NushellProofs.nrender (pre ++ blk ++ post) /\
    In (NushellProofs.NFx (NushellProofs.extern_line (negb (is_nil ns)) (bin ++ join_with [32] ns))) blk.

Theorem six_generators_mention_subcommands up c t d bin b ws ns n sc w :
  nb c = true -> build (set_bin_name c bin) = Some b -> mangle_safe b bin -> cres b ->
  reach c ws ns n -> In sc (c_subs n) -> In w (get_name_and_visible_aliases sc) ->
  bash_mentions c bin ns w /\
  zsh_lists_subcommand c d bin ns w /\
  ((List.length ws <= 2)%nat -> fish_offers_subcommand c d bin ws w) /\
  powershell_mentions up c t bin ws (PowershellProofs.ps_sub w) /\
  elvish_mentions c t bin ws (ElvishProofs.el_sub w) /\
  nushell_declares c d bin (ns ++ [c_name sc]).
Proof.
  intros Hnb Hb Hm Hcf Hr Hsc Hw. pose proof (ms_root_ne _ _ Hm) as Hne.
  destruct (reach_extends c ws ns n Hr b (generate_extends c bin b Hb)) as (n' & Hr' & Hext).
  destruct (proj2 (extends_node n n' Hext) sc w Hsc Hw) as (sb & Hsb & Hwb & Hsext).
  assert (Enm : c_name sb = c_name sc) by (inversion Hsext; assumption).
  destruct (build_linked c bin b Hnb Hne Hb) as [Hbin Hl].
  split; [|split; [|split; [|split; [|split]]]].
  - (* bash *)
    destruct (BashUser.bash_generate_table c bin b Hnb Hb Hm) as (tb & Ht & Hg & H).
    destruct (H [] ws ns n' Hr') as (_ & k & Hk & Ho & _). exists b, tb, k. repeat split; try assumption.
    apply (proj2 (opts_tokens_spec n' (k_opts k) Ho w)). right; right; right. exists sb. split; [exact Hsb|exact Hwb].
  - (* zsh *)
    pose proof (mangle_safe_zsh_ok c bin b Hnb Hb Hm Hcf) as Hok.
    destruct (zsh_script_commands b (dbuild (set_bin_name c bin) d) bin n' Hok (reach_desc _ _ _ _ Hr')) as (s & nd & Es & Hs).
    destruct (zipd_has cd0 (c_subs n') sb Hsb (cd_subs nd)) as [sd Hsd].
    exists s, nd, n', (cd_about sd). split; [rewrite (generate_zsh_is_built c d bin b Hb); exact Es|].
    split; [unfold bin_or_default; rewrite (reach_bin b ws ns n' Hr' bin Hbin Hl); reflexivity|]. split; [exact Hs|].
    exact (subcommands_of_entry n' nd sb sd w Hsd Hwb).
  - (* fish *)
    intros Hlen. destruct (generate_fish_is_built c d bin b Hb) as [_ Hg].
    destruct (fish_mentions b (dbuild (set_bin_name c bin) d) bin ws ns n' Hbin Hr' Hlen) as (lines & basic & Hli & Hbt & _ & Hsubs).
    destruct (Hsubs sb w Hsb Hwb) as (line & Hin & Hhd & Hword).
    exists b, n', lines, basic, line. repeat split; assumption.
  - (* PowerShell *)
    destruct (PowershellProofs.powershell_generate_covers up c t bin Hne) as (b' & script & Hb' & Hg & H).
    rewrite Hb in Hb'. inversion Hb'; subst b'. destruct (H ws ns n' Hr') as (tn & Hblk & _ & _ & Hsub).
    destruct (Hsub sb w Hsb Hwb) as [tip Htip].
    exists script, (PathTable.entries (PowershellProofs.ps_fmt up) n' tn), tip. repeat split; assumption.
  - (* elvish *)
    destruct (ElvishProofs.elvish_generate_covers c t bin Hne) as (b' & script & Hb' & Hg & H).
    rewrite Hb in Hb'. inversion Hb'; subst b'. destruct (H ws ns n' Hr') as (tn & Hblk & _ & _ & Hsub).
    destruct (Hsub sb w Hsb Hwb) as [tip Htip].
    exists script, (PathTable.entries ElvishProofs.el_fmt n' tn), tip. repeat split; assumption.
  - (* nushell *)
    destruct (NushellProofs.generate_nushell_covers_named c d bin Hnb Hne) as (b' & s & Hb' & Hg & H).
    rewrite Hb in Hb'. inversion Hb'; subst b'.
    assert (Hr2 : reach b (ws ++ [c_name sb]) (ns ++ [c_name sb]) sb).
    { clear - Hr' Hsb. induction Hr' as [x|x y w0 ws0 ns0 m Hin Hw0 Hr0 IH].
      - cbn [app]. eapply reach_cons; [exact Hsb|left; reflexivity|apply reach_nil].
      - cbn [app]. eapply reach_cons; [exact Hin|exact Hw0|apply IH; exact Hsb]. }
    destruct (H _ _ _ Hr2) as (blk & pre & post & Es & Hext' & _). rewrite Enm in Hext'.
    exists s, blk, pre, post. split; [exact Hg|]. split; [exact Es|exact Hext'].
Qed.

Theorem subcommand_mentions_meaning c d bin ws ns w :
  (zsh_lists_subcommand c d bin ns w <->
     exists s nd n' about,
       generate_zsh c d bin = Some s /\ bin_or_default n' = bin ++ join_with [32] ns /\
       sublist (zrender (commands_function (bin_or_default n') (subcommands_of n' nd))) s /\
       sublist (describe_entry about w) (subcommands_of n' nd)) /\
  (fish_offers_subcommand c d bin ws w <->
     exists b n' lines basic line,
       build (set_bin_name c bin) = Some b /\ generate_fish c d bin = fish_script b (dbuild (set_bin_name c bin) d) /\
       fish_lines b (dbuild (set_bin_name c bin) d) = Some lines /\
       basic_template bin (fish_needs bin b) (fish_using bin b) ws n' = Some basic /\
       In line lines /\ hd_error line = Some (Fx (sub_template basic n')) /\ In (sub_word w) line) /\
  (nushell_declares c d bin ns <->
     exists s blk pre post,
       NushellModel.generate_nushell c d bin = Some s /\ s = NushellProofs.nrender (pre ++ blk ++ post) /\
       In (NushellProofs.NFx (NushellProofs.extern_line (negb (is_nil ns)) (bin ++ join_with [32] ns))) blk).
Proof. repeat split; intros H; exact H. Qed.
