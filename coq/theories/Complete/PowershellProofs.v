(** C16 for the PowerShell generator model: the transcription of powershell.rs computes the table
    specification [PathTable.gi] of its format, is total on built trees, deterministic, and its
    table covers the tree at every depth -- for every [is_uppercase]. *)
From ClapModel Require Import Base.Bytes Complete.AotTree Complete.TextTree Complete.BashModel Complete.AotProofs
  Complete.BashProofs Escape.EscapeModel Escape.ShellLex Escape.EscapeProofs Complete.PathTable Complete.PathTableLex
  Complete.PathTableBlocks Complete.BuildTexts Complete.PowershellModel.
From Coq Require Import String.
Open Scope N_scope.
Open Scope list_scope.

(** the five text shapes of powershell.rs *)
Definition ps_short (up : N -> bool) (n tip : bytes) : bytes :=
  preamble ++ lit "'-" ++ n ++ lit "', '-" ++ n ++ (if char_is_uppercase up n then lit " " else []) ++
  lit "', [CompletionResultType]::ParameterName, '" ++ tip ++ lit "')".
Definition ps_long (n tip : bytes) : bytes :=
  preamble ++ lit "'--" ++ n ++ lit "', '--" ++ n ++ lit "', [CompletionResultType]::ParameterName, '" ++ tip ++ lit "')".
Definition ps_sub (n tip : bytes) : bytes :=
  preamble ++ lit "'" ++ n ++ lit "', '" ++ n ++ lit "', [CompletionResultType]::ParameterValue, '" ++ tip ++ lit "')".
Definition ps_fmt (up : N -> bool) : fmt := mkFmt escape_help (ps_short up) ps_long ps_sub case_block.

Section Up.
Variable up : N -> bool.

(** ---- the transcription computes the specification ---- *)
Lemma short_lines_eq o h :
  (o = None \/ exists s l, o = Some (s :: l)) ->
  short_lines up o h = Some (spell_entries (ps_fmt up) (ps_short up) o h).
Proof. intros [->|(s & l & ->)]; reflexivity. Qed.

Lemma long_lines_eq o h :
  (o = None \/ exists s l, o = Some (s :: l)) ->
  long_lines o h = Some (spell_entries (ps_fmt up) ps_long o h).
Proof. intros [->|(s & l & ->)]; reflexivity. Qed.

Lemma arg_lines_eq x : generate_aliases up x = Some (arg_entries (ps_fmt up) x).
Proof.
  unfold generate_aliases, arg_entries.
  rewrite (short_lines_eq _ _ (short_spellings_shape (fst x))).
  rewrite (long_lines_eq _ _ (long_spellings_shape (fst x))).
  reflexivity.
Qed.

Lemma sub_lines_eq x : sub_lines x = sub_entries (ps_fmt up) x.
Proof. reflexivity. Qed.

Lemma command_names_eq p prev : c_bin p <> None -> command_names p prev = Some (cnames p prev).
Proof.
  intros Hb. unfold command_names, cnames. destruct (is_nil prev); [|reflexivity].
  destruct (c_bin p); [reflexivity|congruence].
Qed.

Lemma generate_inner_unfold p t prev :
  generate_inner up p t prev =
  match command_names p prev with
  | None => None
  | Some names =>
      match map_opt (generate_aliases up) (get_opts_t p t), map_opt (generate_aliases up) (flags_t p t) with
      | Some lo, Some lf =>
          let completions := List.concat lo ++ List.concat lf ++ List.concat (map sub_lines (zsubs p t)) in
          match map_opt (fun x : cmd * ttree =>
                           match map_opt (fun cn => generate_inner up (fst x) (snd x) cn) names with
                           | Some a => Some (List.concat a)
                           | None => None
                           end) (zsubs p t) with
          | Some rest => Some (List.concat (map (fun cn => case_block cn completions) names) ++ List.concat rest)
          | None => None
          end
      | _, _ => None
      end
  end.
Proof.
  destruct p as [n al args subs bin h v s g]. cbn [generate_inner].
  destruct (command_names _ prev) as [names|]; [|reflexivity].
  destruct (map_opt (generate_aliases up) (get_opts_t _ t)) as [lo|]; [|reflexivity].
  destruct (map_opt (generate_aliases up) (flags_t _ t)) as [lf|]; [|reflexivity].
  cbv zeta. unfold zsubs at 2. cbn [c_subs].
  match goal with |- match ?go subs (tt_subs t) with _ => _ end = _ => set (G := go) end.
  assert (E : forall ts, G subs ts =
    match map_opt (fun x : cmd * ttree =>
                     match map_opt (fun cn => generate_inner up (fst x) (snd x) cn) names with
                     | Some a => Some (List.concat a)
                     | None => None
                     end) (zip_pad subs ts tt_none) with
    | Some rest => Some (List.concat rest)
    | None => None
    end).
  { induction subs as [|sc subs IH]; intros ts; [reflexivity|].
    unfold G; fold G. cbn [zip_pad]. rewrite map_opt_cons. cbn [fst snd]. rewrite IH.
    destruct (map_opt (fun cn => generate_inner up sc (hd tt_none ts) cn) names); [|reflexivity].
    destruct (map_opt _ (zip_pad subs (tl ts) tt_none)); reflexivity. }
  rewrite E. destruct (map_opt _ (zip_pad subs (tt_subs t) tt_none)); reflexivity.
Qed.

Theorem generate_inner_spec : forall p, all_bins p ->
  forall t prev, generate_inner up p t prev = Some (gi (ps_fmt up) p t prev).
Proof.
  induction p as [n al args subs bin h v s g IH] using cmd_ind'. intros Hb t prev.
  set (p := mkCmd n al args subs bin h v s g) in *.
  rewrite generate_inner_unfold, (gi_unfold (ps_fmt up) p t prev).
  rewrite (command_names_eq p prev) by (apply Hb; now left).
  rewrite (map_opt_fun (generate_aliases up) (arg_entries (ps_fmt up))) by (intros; apply arg_lines_eq).
  rewrite (map_opt_fun (generate_aliases up) (arg_entries (ps_fmt up))) by (intros; apply arg_lines_eq).
  cbv zeta.
  rewrite (map_opt_fun _ (fun x : cmd * ttree =>
             List.concat (map (fun cn => gi (ps_fmt up) (fst x) (snd x) cn) (cnames p prev)))).
  - reflexivity.
  - intros x Hx. assert (Hs : In (fst x) subs) by exact (zip_pad_in_fst _ _ _ _ Hx).
    rewrite Forall_forall in IH.
    rewrite (map_opt_fun _ (fun cn => gi (ps_fmt up) (fst x) (snd x) cn)); [reflexivity|].
    intros cn _. apply (IH _ Hs). exact (all_bins_sub p _ Hb Hs).
Qed.

(** ---- [PowerShell::generate] ---- *)
Theorem generate_spec c t bin : c_bin c = Some bin -> bins_built c ->
  generate up c t = Some (render bin (gi (ps_fmt up) c t [])).
Proof.
  intros Hbin Hb. unfold generate. rewrite Hbin, generate_inner_spec; [reflexivity|].
  apply all_bins_intro; [congruence|exact Hb].
Qed.

(** total on every built tree *)
Theorem generate_total c b t : build c = Some b -> c_bin b <> None -> exists s, generate up b t = Some s.
Proof.
  intros Hbuild Hbin. destruct (c_bin b) as [bin|] eqn:E; [|congruence].
  eexists. apply generate_spec; [exact E|exact (build_bins_built _ _ Hbuild)].
Qed.

(** deterministic: a function of the command and its texts *)
Theorem generate_powershell_deterministic c1 c2 t1 t2 b1 b2 :
  c1 = c2 -> t1 = t2 -> b1 = b2 -> generate_powershell up c1 t1 b1 = generate_powershell up c2 t2 b2.
Proof. intros -> -> ->. reflexivity. Qed.

(** ---- coverage, every depth ---- *)

Theorem powershell_covers c t bin ws ns n :
  c_bin c = Some bin -> bin <> [] -> bins_built c -> reach c ws ns n ->
  exists script tn,
    generate up c t = Some script /\
    infix (case_block (path_key bin ws) (entries (ps_fmt up) n tn)) script /\
    (forall a s0 s, In a (c_args n) -> a_is_positional a = false -> a_short a = Some s0 ->
       (s = s0 \/ In (s, true) (a_short_aliases a)) ->
       exists tip, infix (ps_short up s tip) (entries (ps_fmt up) n tn)) /\
    (forall a l0 l, In a (c_args n) -> a_is_positional a = false -> a_long a = Some l0 ->
       (l = l0 \/ In (l, true) (a_aliases a)) ->
       exists tip, infix (ps_long l tip) (entries (ps_fmt up) n tn)) /\
    (forall sc w, In sc (c_subs n) -> In w (get_name_and_visible_aliases sc) ->
       exists tip, infix (ps_sub w tip) (entries (ps_fmt up) n tn)).
Proof.
  intros Hbin Hne Hb Hr.
  assert (Hk : In bin (cnames c [])) by (unfold cnames; cbn [is_nil]; rewrite Hbin; now left).
  destruct (gi_reach (ps_fmt up) c ws ns n Hr t [] bin Hk Hne) as [tn Htn].
  exists (render bin (gi (ps_fmt up) c t [])), tn. split; [apply generate_spec; assumption|]. split.
  - unfold render. do 9 apply infix_app_r. apply infix_app_l. exact Htn.
  - repeat split.
    + intros a s0 s Ha Hpos Hs Hin. destruct (short_spellings a s0 s Hs Hin) as (names & Hn & Hsn).
      exact (entries_short (ps_fmt up) n tn a names s Ha Hpos Hn Hsn).
    + intros a l0 l Ha Hpos Hl Hin. destruct (long_spellings a l0 l Hl Hin) as (names & Hn & Hln).
      exact (entries_long (ps_fmt up) n tn a names l Ha Hpos Hn Hln).
    + intros sc w Hsc Hw. exact (entries_sub (ps_fmt up) n tn sc w Hsc Hw).
Qed.

End Up.

(** ---- non-vacuity and the boundaries of the class ---- *)
(** [char::is_uppercase] on ASCII (any function would do) *)
Definition ascii_upper (c : N) : bool := (65 <=? c) && (c <=? 90).

(** the script of that tree, with quotes in the texts *)
Example powershell_example_script :
  exists s, generate_powershell ascii_upper ex_tree ex_texts (lit "p") = Some s /\
    infixb (lit "'p;ab' {") s = true /\
    infixb (lit "'-t', '-t', [CompletionResultType]::ParameterName, 'say ''hi''')") s = true /\
    infixb (lit "'-h', '-h', [CompletionResultType]::ParameterName, 'Print help')") s = true /\
    infixb (lit "'ab', 'ab', [CompletionResultType]::ParameterValue, 'it''s')") s = true /\
    infixb (lit "'-u'") s = false.
Proof. eexists. split; [vm_compute; reflexivity|]. vm_compute. repeat split. Qed.

(** finding alias-without-primary is a boundary of the class *)
Lemma powershell_alias_without_primary_refuted :
  exists c t bin a s script, In a (c_args c) /\ a_is_positional a = false /\ In (s, true) (a_short_aliases a) /\
    generate_powershell ascii_upper c t bin = Some script /\ forall tip, ~ infix (ps_short ascii_upper s tip) script.
Proof.
  exists alias_only_cmd, tt_none, [112], alias_only_arg, [120]. eexists.
  split; [left; reflexivity|]. split; [reflexivity|]. split; [left; reflexivity|].
  split; [vm_compute; reflexivity|].
  intros tip H. unfold ps_short in H. rewrite 3!app_assoc in H. apply infix_prefix in H.
  apply infixb_complete in H. vm_compute in H. discriminate.
Qed.

(** finding values-not-in-powershell-elvish: possible values are never written *)
Lemma powershell_values_refuted :
  exists c t bin a v script, In a (c_args c) /\ possible_values a = Some [mkPv v false] /\
    generate_powershell ascii_upper c t bin = Some script /\ ~ infix v script.
Proof.
  exists values_cmd, tt_none, [112], values_arg, (lit "zzz"). eexists.
  split; [left; reflexivity|]. split; [reflexivity|].
  split; [vm_compute; reflexivity|].
  intros H. apply infixb_complete in H. vm_compute in H. discriminate.
Qed.

(** the hypothesis [bin <> []] *)
Lemma powershell_empty_bin_refuted :
  exists c t sc script, generate_powershell ascii_upper c t [] = Some script /\ In sc (c_subs c) /\
    forall es, ~ infix (case_block (path_key [] [c_name sc]) es) script.
Proof.
  exists (mkCmd (lit "p") [] [] [cmd_new (lit "s")] None false false sets0 sets0), tt_none, (cmd_new (lit "s")). eexists.
  split; [vm_compute; reflexivity|]. split; [left; reflexivity|].
  intros es H. unfold case_block in H. rewrite 3!app_assoc in H. apply infix_prefix in H.
  apply infixb_complete in H. vm_compute in H. discriminate.
Qed.

(** ---- C17: whole-script structure invariance under the PowerShell lexer model ---- *)
(** outside every literal and comment: between words, in a bare word, just after a closing quote *)
Definition ps_outer (st : pstate) : bool := match st with PB | PW | PSQQ => true | _ => false end.
(** characters a name may contain: everything except the single-quote characters (U+0027, U+2018..U+201B),
    the double-quote characters (U+0022, U+201C..U+201E) and the comment sign *)
Definition ps_plain (c : N) : bool := negb (ps_is_sq c || ps_is_dq c || (c =? 35)).

Lemma ps_open st : ps_outer st = true -> fst (ps_step st 39) = PSQ.
Proof. destruct st; intros H; try discriminate H; reflexivity. Qed.
Lemma ps_close : ps_outer (fst (ps_step PSQ 39)) = true.
Proof. reflexivity. Qed.
Lemma ps_plain_outer st c : ps_outer st = true -> ps_plain c = true -> ps_outer (fst (ps_step st c)) = true.
Proof.
  intros Hst Hc. unfold ps_plain in Hc. rewrite negb_true_iff, !orb_false_iff in Hc.
  destruct Hc as [[Hsq Hdq] H35].
  assert (B : forall st0, ps_outer (fst (ps_bare st0 c)) = true).
  { intros st0. unfold ps_bare. rewrite Hsq, Hdq, H35. cbn [andb].
    match goal with |- context [if ?b then _ else _] => destruct b end; reflexivity. }
  destruct st; try discriminate Hst; cbn [ps_step]; [apply B|apply B|].
  rewrite Hsq. destruct (ps_bare PW c) as [st' e] eqn:E. cbn [fst].
  pose proof (B PW) as B'. rewrite E in B'. exact B'.
Qed.
Lemma ps_plain_sq c : ps_plain c = true -> ps_step PSQ c = (PSQ, [Lit c]).
Proof.
  intros Hc. unfold ps_plain in Hc. rewrite negb_true_iff, !orb_false_iff in Hc.
  destruct Hc as [[Hsq _] _]. cbn [ps_step]. now rewrite Hsq.
Qed.

Notation ps_sim := (sim ps_step ps_outer).
Notation ps_body := (body ps_step PSQ).
Notation ps_plainl := (plainl ps_plain).

(** fixed template text: computed on the three outer states *)
Ltac ps_fixed :=
  apply sim_refl_of; let st := fresh "st" in let H := fresh "H" in
  intros st H; destruct st; try discriminate H; vm_compute; reflexivity.
Ltac norm_app := repeat (progress (rewrite <- ?app_assoc; cbn [app])).

Lemma ps_sim_plain x : ps_plainl x = true -> ps_sim x x.
Proof. apply (sim_plain ps_step ps_outer ps_plain ps_plain_outer). Qed.
Lemma ps_sim_quote x y : ps_body x -> ps_body y -> ps_sim (39 :: x ++ [39]) (39 :: y ++ [39]).
Proof. apply (sim_quote ps_step ps_outer PSQ 39 ps_open ps_close). Qed.
Lemma ps_body_plain x : ps_plainl x = true -> ps_body x.
Proof. apply (body_plain ps_step PSQ ps_plain ps_plain_sq). Qed.
Lemma ps_sim_quoted x : ps_plainl x = true -> ps_sim (39 :: x ++ [39]) (39 :: x ++ [39]).
Proof. intros H. apply ps_sim_quote; apply ps_body_plain, H. Qed.

Lemma ps_tip_body h data : ps_plainl data = true -> ps_body (escape_help h data).
Proof.
  intros Hd. destruct h as [[|c x]|]; cbn [escape_help is_nil negb].
  - apply ps_body_plain, Hd.
  - exact (body_transparent ps_step PSQ _ _ (powershell_sq_transparent (c :: x))).
  - apply ps_body_plain, Hd.
Qed.

Definition ps_name_mid : bytes := lit ", [CompletionResultType]::ParameterName, ".
Definition ps_value_mid : bytes := lit ", [CompletionResultType]::ParameterValue, ".

Section UpLex.
Variable up : N -> bool.

Lemma ps_short_sim n t1 t2 : ps_plainl n = true -> ps_body t1 -> ps_body t2 ->
  ps_sim (ps_short up n t1) (ps_short up n t2).
Proof.
  intros Hn H1 H2.
  set (sp := if char_is_uppercase up n then [32] else []).
  assert (Hsp : ps_plainl sp = true) by (unfold sp; destruct (char_is_uppercase up n); reflexivity).
  assert (E : forall tip, ps_short up n tip =
    preamble ++ (39 :: ([45] ++ n) ++ [39]) ++ [44; 32] ++ (39 :: ([45] ++ n ++ sp) ++ [39]) ++
    ps_name_mid ++ (39 :: tip ++ [39]) ++ [41]).
  { intros tip. unfold ps_short, ps_name_mid. fold sp. norm_app. reflexivity. }
  rewrite !E. apply (sim_app ps_step ps_outer); [ps_fixed|].
  apply (sim_app ps_step ps_outer); [apply ps_sim_quoted; unfold plainl; rewrite forallb_app; cbn [forallb]; exact Hn|].
  apply (sim_app ps_step ps_outer); [ps_fixed|].
  apply (sim_app ps_step ps_outer);
    [apply ps_sim_quoted; unfold plainl in *; rewrite !forallb_app, Hn, Hsp; reflexivity|].
  apply (sim_app ps_step ps_outer); [ps_fixed|].
  apply (sim_app ps_step ps_outer); [apply ps_sim_quote; assumption|ps_fixed].
Qed.

Lemma ps_long_sim n t1 t2 : ps_plainl n = true -> ps_body t1 -> ps_body t2 ->
  ps_sim (ps_long n t1) (ps_long n t2).
Proof.
  intros Hn H1 H2.
  assert (E : forall tip, ps_long n tip =
    preamble ++ (39 :: ([45; 45] ++ n) ++ [39]) ++ [44; 32] ++ (39 :: ([45; 45] ++ n) ++ [39]) ++
    ps_name_mid ++ (39 :: tip ++ [39]) ++ [41]).
  { intros tip. unfold ps_long, ps_name_mid. norm_app. reflexivity. }
  rewrite !E. apply (sim_app ps_step ps_outer); [ps_fixed|].
  apply (sim_app ps_step ps_outer); [apply ps_sim_quoted; unfold plainl; rewrite forallb_app; cbn [forallb]; exact Hn|].
  apply (sim_app ps_step ps_outer); [ps_fixed|].
  apply (sim_app ps_step ps_outer); [apply ps_sim_quoted; unfold plainl; rewrite forallb_app; cbn [forallb]; exact Hn|].
  apply (sim_app ps_step ps_outer); [ps_fixed|].
  apply (sim_app ps_step ps_outer); [apply ps_sim_quote; assumption|ps_fixed].
Qed.

Lemma ps_sub_sim n t1 t2 : ps_plainl n = true -> ps_body t1 -> ps_body t2 ->
  ps_sim (ps_sub n t1) (ps_sub n t2).
Proof.
  intros Hn H1 H2.
  assert (E : forall tip, ps_sub n tip =
    preamble ++ (39 :: n ++ [39]) ++ [44; 32] ++ (39 :: n ++ [39]) ++
    ps_value_mid ++ (39 :: tip ++ [39]) ++ [41]).
  { intros tip. unfold ps_sub, ps_value_mid. norm_app. reflexivity. }
  rewrite !E. apply (sim_app ps_step ps_outer); [ps_fixed|].
  apply (sim_app ps_step ps_outer); [apply ps_sim_quoted, Hn|].
  apply (sim_app ps_step ps_outer); [ps_fixed|].
  apply (sim_app ps_step ps_outer); [apply ps_sim_quoted, Hn|].
  apply (sim_app ps_step ps_outer); [ps_fixed|].
  apply (sim_app ps_step ps_outer); [apply ps_sim_quote; assumption|ps_fixed].
Qed.

Definition ps_block_open : bytes := nl ++ lit "        ".
Definition ps_block_mid : bytes := lit " {".
Definition ps_block_close : bytes := nl ++ lit "            break" ++ nl ++ lit "        }".

Lemma ps_block_sim k x y : ps_plainl k = true -> ps_sim x y -> ps_sim (case_block k x) (case_block k y).
Proof.
  intros Hk Hxy.
  assert (E : forall z, case_block k z = ps_block_open ++ (39 :: k ++ [39]) ++ ps_block_mid ++ z ++ ps_block_close).
  { intros z. unfold case_block, ps_block_open, ps_block_mid, ps_block_close. norm_app. reflexivity. }
  rewrite !E. apply (sim_app ps_step ps_outer); [ps_fixed|].
  apply (sim_app ps_step ps_outer); [apply ps_sim_quoted, Hk|].
  apply (sim_app ps_step ps_outer); [ps_fixed|].
  apply (sim_app ps_step ps_outer); [exact Hxy|ps_fixed].
Qed.

(** the table: ANY two assignments of description texts *)
Theorem powershell_table_sim c t1 t2 prev : cmd_plain ps_plain c = true -> ps_plainl prev = true ->
  ps_sim (gi (ps_fmt up) c t1 prev) (gi (ps_fmt up) c t2 prev).
Proof.
  intros Hc Hp.
  exact (sim_gi ps_step ps_outer PSQ ps_plain (ps_fmt up) eq_refl
           ps_tip_body ps_short_sim ps_long_sim ps_sub_sim ps_block_sim c Hc t1 t2 prev Hp).
Qed.

(** the whole script *)
Lemma ps_render_split bin z :
  render bin z = (head1 ++ (39 :: bin ++ [39]) ++ head2 ++ (39 :: bin ++ [39]) ++ head3 ++ z) ++ tail1.
Proof. unfold render. norm_app. reflexivity. Qed.

Lemma ps_render_body_sim bin x y : ps_plainl bin = true -> ps_sim x y ->
  ps_sim (head1 ++ (39 :: bin ++ [39]) ++ head2 ++ (39 :: bin ++ [39]) ++ head3 ++ x)
         (head1 ++ (39 :: bin ++ [39]) ++ head2 ++ (39 :: bin ++ [39]) ++ head3 ++ y).
Proof.
  intros Hb Hxy. apply (sim_app ps_step ps_outer); [ps_fixed|].
  apply (sim_app ps_step ps_outer); [apply ps_sim_quoted, Hb|].
  apply (sim_app ps_step ps_outer); [ps_fixed|].
  apply (sim_app ps_step ps_outer); [apply ps_sim_quoted, Hb|].
  apply (sim_app ps_step ps_outer); [ps_fixed|exact Hxy].
Qed.

Lemma ps_render_sim bin x y : ps_plainl bin = true -> ps_sim x y -> ps_sim (render bin x) (render bin y).
Proof.
  intros Hb Hxy. rewrite !ps_render_split.
  apply (sim_app ps_step ps_outer); [apply ps_render_body_sim; assumption|ps_fixed].
Qed.

Lemma ps_cmd_plain_bin c bin : cmd_plain ps_plain c = true -> c_bin c = Some bin -> ps_plainl bin = true.
Proof.
  intros Hc Hb. rewrite cmd_plain_unfold, !andb_true_iff in Hc. destruct Hc as [[_ Hbin] _].
  rewrite Hb in Hbin. exact Hbin.
Qed.

(** C17, PowerShell, whole script: for a built tree whose names contain no quote character of the
    PowerShell tokenizer and no comment sign, the scripts generated for ANY two assignments of description
    texts have the same token skeleton and end in the same lexer state *)
Theorem powershell_script_structure c t1 t2 s1 s2 :
  bins_built c -> cmd_plain ps_plain c = true ->
  generate up c t1 = Some s1 -> generate up c t2 = Some s2 ->
  skeleton (events ps_step PB s1) = skeleton (events ps_step PB s2) /\
  final ps_step PB s1 = final ps_step PB s2.
Proof.
  intros Hb Hc G1 G2.
  destruct (c_bin c) as [bin|] eqn:Ebin; [|unfold generate in G1; rewrite Ebin in G1; discriminate].
  rewrite (generate_spec up c t1 bin Ebin Hb) in G1. rewrite (generate_spec up c t2 bin Ebin Hb) in G2.
  inversion G1; inversion G2; subst s1 s2; clear G1 G2.
  pose proof (ps_cmd_plain_bin c bin Hc Ebin) as Hbin.
  destruct (ps_render_sim bin _ _ Hbin (powershell_table_sim c t1 t2 [] Hc eq_refl) PB eq_refl) as (_ & F & K).
  split; assumption.
Qed.

(** every text is literal payload: the skeleton is that of the script generated with no description
    text at all, and every literal is closed at the end of the script *)
Theorem powershell_text_is_payload c t s s0 :
  bins_built c -> cmd_plain ps_plain c = true ->
  generate up c t = Some s -> generate up c tt_none = Some s0 ->
  skeleton (events ps_step PB s) = skeleton (events ps_step PB s0) /\ final ps_step PB s = PB.
Proof.
  intros Hb Hc G G0. destruct (powershell_script_structure c t tt_none s s0 Hb Hc G G0) as [K F].
  split; [exact K|].
  destruct (c_bin c) as [bin|] eqn:Ebin; [|unfold generate in G; rewrite Ebin in G; discriminate].
  rewrite (generate_spec up c t bin Ebin Hb) in G. inversion G; subst s; clear G.
  pose proof (ps_cmd_plain_bin c bin Hc Ebin) as Hbin.
  rewrite ps_render_split, final_app.
  pose proof (proj1 (ps_render_body_sim bin _ _ Hbin (powershell_table_sim c t t [] Hc eq_refl) PB eq_refl)) as O.
  revert O.
  generalize (final ps_step PB (head1 ++ (39 :: bin ++ [39]) ++ head2 ++ (39 :: bin ++ [39]) ++ head3 ++ gi (ps_fmt up) c t [])).
  intros st O. destruct st; try discriminate O; reflexivity.
Qed.

(** the same for [clap_complete::aot::generate] as a whole *)
Theorem powershell_generate_structure c bin t1 t2 b s1 s2 :
  build (set_bin_name c bin) = Some b -> cmd_plain ps_plain b = true ->
  generate_powershell up c t1 bin = Some s1 -> generate_powershell up c t2 bin = Some s2 ->
  skeleton (events ps_step PB s1) = skeleton (events ps_step PB s2) /\
  final ps_step PB s1 = final ps_step PB s2.
Proof.
  intros Hb Hp G1 G2. unfold generate_powershell in G1, G2. rewrite Hb in G1, G2.
  destruct (tbuild (set_bin_name c bin) t1) as [tb1|]; [|discriminate].
  destruct (tbuild (set_bin_name c bin) t2) as [tb2|]; [|discriminate].
  exact (powershell_script_structure b tb1 tb2 s1 s2 (build_bins_built _ _ Hb) Hp G1 G2).
Qed.
End UpLex.

(** non-vacuity: the built example tree is in the class, and two text assignments with quotes (straight and
    curly), newlines and different emptiness both produce a script *)
Definition ex_texts2 : ttree :=
  mkTt None false [] [mkTt (Some []) false [mkAt (Some [39; 10; 8216; 8217; 39; 36; 40]) false] []].
Example powershell_structure_nonvacuous :
  exists s1 s2, build (set_bin_name ex_tree (lit "p")) = Some ex_built /\ cmd_plain ps_plain ex_built = true /\
    generate_powershell ascii_upper ex_tree ex_texts (lit "p") = Some s1 /\
    generate_powershell ascii_upper ex_tree ex_texts2 (lit "p") = Some s2 /\ s1 <> s2.
Proof.
  eexists. eexists. split; [exact ex_built_eq|]. split; [vm_compute; reflexivity|].
  split; [vm_compute; reflexivity|]. split; [vm_compute; reflexivity|]. discriminate.
Qed.

(** the class is sharp: names are written into the script unescaped; a quote in a subcommand name makes the
    key of its block an odd number of quotes, after which the about texts of ITS subcommands are read
    outside a literal and change the skeleton *)
Definition quote_tree : cmd :=
  mkCmd (lit "p") [] [] [mkCmd [120; 39] [] [] [cmd_new [121]] None false false sets0 sets0] None false false
        (mkSets true true true false) (mkSets true true true false).
Lemma powershell_quote_in_name_refuted :
  exists c bin t1 t2 s1 s2,
    generate_powershell ascii_upper c t1 bin = Some s1 /\ generate_powershell ascii_upper c t2 bin = Some s2 /\
    skeleton (events ps_step PB s1) <> skeleton (events ps_step PB s2).
Proof.
  exists quote_tree, (lit "p"),
         (mkTt None false [] [mkTt (Some [113]) false [] [mkTt (Some (lit "a b")) false [] []]]),
         (mkTt None false [] [mkTt (Some [113]) false [] [mkTt (Some (lit "ab")) false [] []]]).
  eexists. eexists. split; [vm_compute; reflexivity|]. split; [vm_compute; reflexivity|].
  vm_compute. discriminate.
Qed.

(** ---- [clap_complete::aot::generate] as a whole; the lookup ---- *)
Section UpMore.
Variable up : N -> bool.

(** total: for EVERY command tree, texts and bin name the generator writes a script ([build] never runs out of fuel) *)
Theorem powershell_generate_total c bin t : exists s, generate_powershell up c t bin = Some s.
Proof.
  destruct (build (set_bin_name c bin)) as [b|] eqn:Hb; [|exfalso; exact (build_total _ Hb)].
  unfold generate_powershell. rewrite Hb. destruct (tbuild_total _ b t Hb) as [tb ->].
  apply (generate_total up _ b tb Hb). rewrite (build_root_bin c bin b Hb). discriminate.
Qed.

(** C17 with the class on the SOURCE tree: [build] keeps a tree in the class *)
Theorem powershell_generate_structure_src c bin t1 t2 s1 s2 :
  cmd_plain ps_plain c = true -> ps_plainl bin = true ->
  generate_powershell up c t1 bin = Some s1 -> generate_powershell up c t2 bin = Some s2 ->
  skeleton (events ps_step PB s1) = skeleton (events ps_step PB s2) /\
  final ps_step PB s1 = final ps_step PB s2.
Proof.
  intros Hc Hbin G1 G2.
  destruct (build (set_bin_name c bin)) as [b|] eqn:Hb;
    [|unfold generate_powershell in G1; rewrite Hb in G1; discriminate].
  apply (powershell_generate_structure up c bin t1 t2 b s1 s2 Hb); [|exact G1|exact G2].
  apply (cp_build ps_plain eq_refl eq_refl eq_refl eq_refl _ b Hb). apply cp_set_bin_name; assumption.
Qed.

(** the block of a path is what [switch ($command)] finds *)
Theorem powershell_lookup c t bin ws ns n :
  c_bin c = Some bin -> bin <> [] -> bins_built c -> siblings_ok c -> cmd_plain no_semi c = true ->
  reach c ws ns n ->
  exists tn,
    generate up c t = Some (render bin (List.concat (map (render_block (ps_fmt up)) (blocks (ps_fmt up) c t [])))) /\
    In (path_key bin ws, entries (ps_fmt up) n tn) (blocks (ps_fmt up) c t []) /\
    (forall e, In (path_key bin ws, e) (blocks (ps_fmt up) c t []) -> e = entries (ps_fmt up) n tn) /\
    lookup_block (blocks (ps_fmt up) c t []) (path_key bin ws) = Some (path_key bin ws, entries (ps_fmt up) n tn).
Proof.
  intros Hbin Hne Hb Hs Hp Hr.
  destruct (table_lookup (ps_fmt up) c t bin ws ns n Hbin Hne Hs Hp Hr) as (tn & Hin & Hu).
  exists tn. split; [rewrite <- gi_blocks; apply generate_spec; assumption|].
  split; [exact Hin|]. split; [exact Hu|]. exact (lookup_first _ _ _ Hin Hu).
Qed.
End UpMore.

(** the hypotheses of [powershell_generate_structure_src] hold for the example tree *)
Example powershell_src_hyps : cmd_plain ps_plain ex_tree = true /\ ps_plainl [112] = true.
Proof. split; vm_compute; reflexivity. Qed.

(** coverage for [clap_complete::aot::generate] as a whole: ONE script, every path of the built tree *)
Theorem powershell_generate_covers up c t bin : bin <> [] ->
  exists b script,
    build (set_bin_name c bin) = Some b /\ generate_powershell up c t bin = Some script /\
    forall ws ns n, reach b ws ns n ->
      exists tn,
        infix (case_block (path_key bin ws) (entries (ps_fmt up) n tn)) script /\
        (forall a s0 s, In a (c_args n) -> a_is_positional a = false -> a_short a = Some s0 ->
           (s = s0 \/ In (s, true) (a_short_aliases a)) ->
           exists tip, infix (ps_short up s tip) (entries (ps_fmt up) n tn)) /\
        (forall a l0 l, In a (c_args n) -> a_is_positional a = false -> a_long a = Some l0 ->
           (l = l0 \/ In (l, true) (a_aliases a)) ->
           exists tip, infix (ps_long l tip) (entries (ps_fmt up) n tn)) /\
        (forall sc w, In sc (c_subs n) -> In w (get_name_and_visible_aliases sc) ->
           exists tip, infix (ps_sub w tip) (entries (ps_fmt up) n tn)).
Proof.
  intros Hne. destruct (build (set_bin_name c bin)) as [b|] eqn:Hb; [|exfalso; exact (build_total _ Hb)].
  destruct (tbuild_total _ b t Hb) as [tb Htb].
  pose proof (build_root_bin c bin b Hb) as Hbin. pose proof (build_bins_built _ _ Hb) as Hbb.
  exists b, (render bin (gi (ps_fmt up) b tb [])). split; [reflexivity|]. split.
  - unfold generate_powershell. rewrite Hb, Htb. apply generate_spec; assumption.
  - intros ws ns n Hr. destruct (powershell_covers up b tb bin ws ns n Hbin Hne Hbb Hr) as (script & tn & G & H).
    rewrite (generate_spec up b tb bin Hbin Hbb) in G. inversion G; subst script. exists tn. exact H.
Qed.
