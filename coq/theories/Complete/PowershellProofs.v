(** C16 for the PowerShell generator model: the transcription of powershell.rs computes the table
    specification [PathTable.gi] of its format, is total on built trees, deterministic, and its
    table covers the tree at every depth -- for every [is_uppercase]. *)
From ClapModel Require Import Base.Bytes Complete.AotTree Complete.TextTree Complete.BashModel Complete.AotProofs
  Complete.BashProofs Escape.EscapeModel Complete.PathTable Complete.PowershellModel.
From Coq Require Import String.
Open Scope N_scope.
Open Scope list_scope.

(** the five text shapes of powershell.rs *)
Definition ps_short (up : N -> bool) (n tip : bytes) : bytes :=
  preamble ++ lit "'-" ++ n ++ lit "', '-" ++ n ++ (if char_is_uppercase up n then lit " " else []) ++
  lit "', [CompletionResultType]::ParameterName, '" ++ tip ++ lit "')".
Definition ps_long (n tip : bytes) : bytes :=
  preamble ++ lit "'--" ++ n ++ lit "', '--" ++ n ++ lit "', [CompletionResultType]::ParameterName, '" ++ tip ++ lit "')".
Definition ps_sub (n tip : bytes) : bytes :=
  preamble ++ lit "'" ++ n ++ lit "', '" ++ n ++ lit "', [CompletionResultType]::ParameterValue, '" ++ tip ++ lit "')".
Definition ps_fmt (up : N -> bool) : fmt := mkFmt escape_help (ps_short up) ps_long ps_sub case_block.

Section Up.
Variable up : N -> bool.

(** ---- the transcription computes the specification ---- *)
Lemma short_lines_eq o h :
  (o = None \/ exists s l, o = Some (s :: l)) ->
  short_lines up o h = Some (spell_entries (ps_fmt up) (ps_short up) o h).
Proof. intros [->|(s & l & ->)]; reflexivity. Qed.

Lemma long_lines_eq o h :
  (o = None \/ exists s l, o = Some (s :: l)) ->
  long_lines o h = Some (spell_entries (ps_fmt up) ps_long o h).
Proof. intros [->|(s & l & ->)]; reflexivity. Qed.

Lemma arg_lines_eq x : generate_aliases up x = Some (arg_entries (ps_fmt up) x).
Proof.
  unfold generate_aliases, arg_entries.
  rewrite (short_lines_eq _ _ (short_spellings_shape (fst x))).
  rewrite (long_lines_eq _ _ (long_spellings_shape (fst x))).
  reflexivity.
Qed.

Lemma sub_lines_eq x : sub_lines x = sub_entries (ps_fmt up) x.
Proof. reflexivity. Qed.

Lemma command_names_eq p prev : c_bin p <> None -> command_names p prev = Some (cnames p prev).
Proof.
  intros Hb. unfold command_names, cnames. destruct (is_nil prev); [|reflexivity].
  destruct (c_bin p); [reflexivity|congruence].
Qed.

Lemma generate_inner_unfold p t prev :
  generate_inner up p t prev =
  match command_names p prev with
  | None => None
  | Some names =>
      match map_opt (generate_aliases up) (get_opts_t p t), map_opt (generate_aliases up) (flags_t p t) with
      | Some lo, Some lf =>
          let completions := List.concat lo ++ List.concat lf ++ List.concat (map sub_lines (zsubs p t)) in
          match map_opt (fun x : cmd * ttree =>
                           match map_opt (fun cn => generate_inner up (fst x) (snd x) cn) names with
                           | Some a => Some (List.concat a)
                           | None => None
                           end) (zsubs p t) with
          | Some rest => Some (List.concat (map (fun cn => case_block cn completions) names) ++ List.concat rest)
          | None => None
          end
      | _, _ => None
      end
  end.
Proof.
  destruct p as [n al args subs bin h v s g]. cbn [generate_inner].
  destruct (command_names _ prev) as [names|]; [|reflexivity].
  destruct (map_opt (generate_aliases up) (get_opts_t _ t)) as [lo|]; [|reflexivity].
  destruct (map_opt (generate_aliases up) (flags_t _ t)) as [lf|]; [|reflexivity].
  cbv zeta. unfold zsubs at 2. cbn [c_subs].
  match goal with |- match ?go subs (tt_subs t) with _ => _ end = _ => set (G := go) end.
  assert (E : forall ts, G subs ts =
    match map_opt (fun x : cmd * ttree =>
                     match map_opt (fun cn => generate_inner up (fst x) (snd x) cn) names with
                     | Some a => Some (List.concat a)
                     | None => None
                     end) (zip_pad subs ts tt_none) with
    | Some rest => Some (List.concat rest)
    | None => None
    end).
  { induction subs as [|sc subs IH]; intros ts; [reflexivity|].
    unfold G; fold G. cbn [zip_pad]. rewrite map_opt_cons. cbn [fst snd]. rewrite IH.
    destruct (map_opt (fun cn => generate_inner up sc (hd tt_none ts) cn) names); [|reflexivity].
    destruct (map_opt _ (zip_pad subs (tl ts) tt_none)); reflexivity. }
  rewrite E. destruct (map_opt _ (zip_pad subs (tt_subs t) tt_none)); reflexivity.
Qed.

Theorem generate_inner_spec : forall p, all_bins p ->
  forall t prev, generate_inner up p t prev = Some (gi (ps_fmt up) p t prev).
Proof.
  induction p as [n al args subs bin h v s g IH] using cmd_ind'. intros Hb t prev.
  set (p := mkCmd n al args subs bin h v s g) in *.
  rewrite generate_inner_unfold, (gi_unfold (ps_fmt up) p t prev).
  rewrite (command_names_eq p prev) by (apply Hb; now left).
  rewrite (map_opt_fun (generate_aliases up) (arg_entries (ps_fmt up))) by (intros; apply arg_lines_eq).
  rewrite (map_opt_fun (generate_aliases up) (arg_entries (ps_fmt up))) by (intros; apply arg_lines_eq).
  cbv zeta.
  rewrite (map_opt_fun _ (fun x : cmd * ttree =>
             List.concat (map (fun cn => gi (ps_fmt up) (fst x) (snd x) cn) (cnames p prev)))).
  - reflexivity.
  - intros x Hx. assert (Hs : In (fst x) subs) by exact (zip_pad_in_fst _ _ _ _ Hx).
    rewrite Forall_forall in IH.
    rewrite (map_opt_fun _ (fun cn => gi (ps_fmt up) (fst x) (snd x) cn)); [reflexivity|].
    intros cn _. apply (IH _ Hs). exact (all_bins_sub p _ Hb Hs).
Qed.

(** ---- [PowerShell::generate] ---- *)
Theorem generate_spec c t bin : c_bin c = Some bin -> bins_built c ->
  generate up c t = Some (render bin (gi (ps_fmt up) c t [])).
Proof.
  intros Hbin Hb. unfold generate. rewrite Hbin, generate_inner_spec; [reflexivity|].
  apply all_bins_intro; [congruence|exact Hb].
Qed.

(** total on every built tree *)
Theorem generate_total c b t : build c = Some b -> c_bin b <> None -> exists s, generate up b t = Some s.
Proof.
  intros Hbuild Hbin. destruct (c_bin b) as [bin|] eqn:E; [|congruence].
  eexists. apply generate_spec; [exact E|exact (build_bins_built _ _ Hbuild)].
Qed.

(** deterministic: a function of the command and its texts *)
Theorem generate_powershell_deterministic c1 c2 t1 t2 b1 b2 :
  c1 = c2 -> t1 = t2 -> b1 = b2 -> generate_powershell up c1 t1 b1 = generate_powershell up c2 t2 b2.
Proof. intros -> -> ->. reflexivity. Qed.

(** ---- coverage, every depth ---- *)

Theorem powershell_covers c t bin ws ns n :
  c_bin c = Some bin -> bin <> [] -> bins_built c -> reach c ws ns n ->
  exists script tn,
    generate up c t = Some script /\
    infix (case_block (path_key bin ws) (entries (ps_fmt up) n tn)) script /\
    (forall a s0 s, In a (c_args n) -> a_is_positional a = false -> a_short a = Some s0 ->
       (s = s0 \/ In (s, true) (a_short_aliases a)) ->
       exists tip, infix (ps_short up s tip) (entries (ps_fmt up) n tn)) /\
    (forall a l0 l, In a (c_args n) -> a_is_positional a = false -> a_long a = Some l0 ->
       (l = l0 \/ In (l, true) (a_aliases a)) ->
       exists tip, infix (ps_long l tip) (entries (ps_fmt up) n tn)) /\
    (forall sc w, In sc (c_subs n) -> In w (get_name_and_visible_aliases sc) ->
       exists tip, infix (ps_sub w tip) (entries (ps_fmt up) n tn)).
Proof.
  intros Hbin Hne Hb Hr.
  assert (Hk : In bin (cnames c [])) by (unfold cnames; cbn [is_nil]; rewrite Hbin; now left).
  destruct (gi_reach (ps_fmt up) c ws ns n Hr t [] bin Hk Hne) as [tn Htn].
  exists (render bin (gi (ps_fmt up) c t [])), tn. split; [apply generate_spec; assumption|]. split.
  - unfold render. do 9 apply infix_app_r. apply infix_app_l. exact Htn.
  - repeat split.
    + intros a s0 s Ha Hpos Hs Hin. destruct (short_spellings a s0 s Hs Hin) as (names & Hn & Hsn).
      exact (entries_short (ps_fmt up) n tn a names s Ha Hpos Hn Hsn).
    + intros a l0 l Ha Hpos Hl Hin. destruct (long_spellings a l0 l Hl Hin) as (names & Hn & Hln).
      exact (entries_long (ps_fmt up) n tn a names l Ha Hpos Hn Hln).
    + intros sc w Hsc Hw. exact (entries_sub (ps_fmt up) n tn sc w Hsc Hw).
Qed.

End Up.

(** ---- non-vacuity and the boundaries of the class ---- *)
(** [char::is_uppercase] on ASCII (any function would do) *)
Definition ascii_upper (c : N) : bool := (65 <=? c) && (c <=? 90).

(** the script of that tree, with quotes in the texts *)
Example powershell_example_script :
  exists s, generate_powershell ascii_upper ex_tree ex_texts (lit "p") = Some s /\
    infixb (lit "'p;ab' {") s = true /\
    infixb (lit "'-t', '-t', [CompletionResultType]::ParameterName, 'say ''hi''')") s = true /\
    infixb (lit "'-h', '-h', [CompletionResultType]::ParameterName, 'Print help')") s = true /\
    infixb (lit "'ab', 'ab', [CompletionResultType]::ParameterValue, 'it''s')") s = true /\
    infixb (lit "'-u'") s = false.
Proof. eexists. split; [vm_compute; reflexivity|]. vm_compute. repeat split. Qed.

(** finding alias-without-primary is a boundary of the class *)
Lemma powershell_alias_without_primary_refuted :
  exists c t bin a s script, In a (c_args c) /\ a_is_positional a = false /\ In (s, true) (a_short_aliases a) /\
    generate_powershell ascii_upper c t bin = Some script /\ forall tip, ~ infix (ps_short ascii_upper s tip) script.
Proof.
  exists alias_only_cmd, tt_none, [112], alias_only_arg, [120]. eexists.
  split; [left; reflexivity|]. split; [reflexivity|]. split; [left; reflexivity|].
  split; [vm_compute; reflexivity|].
  intros tip H. unfold ps_short in H. rewrite 3!app_assoc in H. apply infix_prefix in H.
  apply infixb_complete in H. vm_compute in H. discriminate.
Qed.

(** finding values-not-in-powershell-elvish: possible values are never written *)
Lemma powershell_values_refuted :
  exists c t bin a v script, In a (c_args c) /\ possible_values a = Some [mkPv v false] /\
    generate_powershell ascii_upper c t bin = Some script /\ ~ infix v script.
Proof.
  exists values_cmd, tt_none, [112], values_arg, (lit "zzz"). eexists.
  split; [left; reflexivity|]. split; [reflexivity|].
  split; [vm_compute; reflexivity|].
  intros H. apply infixb_complete in H. vm_compute in H. discriminate.
Qed.

(** the hypothesis [bin <> []] *)
Lemma powershell_empty_bin_refuted :
  exists c t sc script, generate_powershell ascii_upper c t [] = Some script /\ In sc (c_subs c) /\
    forall es, ~ infix (case_block (path_key [] [c_name sc]) es) script.
Proof.
  exists (mkCmd (lit "p") [] [] [cmd_new (lit "s")] None false false sets0 sets0), tt_none, (cmd_new (lit "s")). eexists.
  split; [vm_compute; reflexivity|]. split; [left; reflexivity|].
  intros es H. unfold case_block in H. rewrite 3!app_assoc in H. apply infix_prefix in H.
  apply infixb_complete in H. vm_compute in H. discriminate.
Qed.
