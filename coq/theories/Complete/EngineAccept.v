(** Property C18, round 2: the completion engine's lookups against the PARSER model.

    Part 1  "same argument": on a level that passed [assert_app] (uniqueness of longs/aliases/shorts,
            [flags_ok]) the engine's resolution of a typed flag ([find_long_visible],
            [find_short_visible]) and the parser's key map ([get_long], [get_short]) return the same
            argument.
    Part 2  acceptance: a candidate offered in state [ValueDone] ([--]long/alias, [-]short/alias,
            cluster of known flags + short, subcommand name/alias), processed as the next token by the
            parser model ([Parse/Parser.v]: [parse_long_arg], [parse_short_arg], [possible_subcommand],
            [parse_loop]) at a level with the same arguments and subcommand names, is resolved to that
            argument / subcommand: the token never produces UnknownArgument / InvalidSubcommand.

    Names that exist in both models ([to_long], [to_short], [is_escape], [DASH], ...) are the PARSER's
    when unqualified; the engine's are written [EngineModel.x]. *)
From ClapModel Require Import Base.Bytes Base.Machine Base.Utf8 Lex.OsStrExtModel Lex.OsStrExtProofs.
From ClapModel Require Import Complete.EngineModel Complete.EngineProofs.
From ClapModel Require Import Parse.Cmd Parse.Build Parse.Valid Parse.Matcher Parse.Errors Parse.Validator Parse.Parser.
From ClapModel Require Import ParseProofs.Spelling ParseProofs.Dispatch ParseProofs.ErrorSound.
From Coq Require Import ZArith Lia List Bool.
From RecordUpdate Require Import RecordSet.
Import RecordSetNotations.
Import ListNotations.
Open Scope N_scope.

(** * Part 1: the engine's flag resolution and the parser's key lookup select the same argument *)

(** the predicate of [find_short_visible] is "the character is a short name or short alias" *)
Lemma short_pred_iff a ch :
  (match get_short_and_visible_aliases a with
   | Some shorts => existsb (N.eqb ch) shorts
   | None => false end || existsb (N.eqb ch) (map fst (a_short_aliases a))) = true
  <-> In ch (short_names a).
Proof.
  unfold get_short_and_visible_aliases, short_names. split.
  - intros H. apply orb_true_iff in H. destruct H as [H|H].
    + destruct (a_short a) as [s|] eqn:Es; [|discriminate].
      apply existsb_exists in H. destruct H as [x [Hx E]]. apply N.eqb_eq in E. subst x.
      destruct Hx as [<-|Hx]; [left; reflexivity|].
      apply in_or_app. right. apply vis_aliases_in. exact Hx.
    + apply existsb_exists in H. destruct H as [x [Hx E]]. apply N.eqb_eq in E. subst x.
      apply in_or_app. right. exact Hx.
  - intros H. apply in_app_or in H. apply orb_true_iff. destruct H as [H|H].
    + left. destruct (a_short a) as [s|]; [|destruct H]. destruct H as [<-|[]].
      cbn [existsb]. rewrite N.eqb_refl. reflexivity.
    + right. apply existsb_exists. exists ch. split; [exact H|apply N.eqb_refl].
Qed.

Lemma find_short_visible_names c ch o :
  find_short_visible c ch = Some o -> In o (c_args c) /\ In ch (short_names o).
Proof.
  unfold find_short_visible. intros H. apply find_some in H. destruct H as [Hin Hp].
  split; [exact Hin|]. apply short_pred_iff. exact Hp.
Qed.

(** an argument with a short name or short alias that passed [assert_arg] ... has no index *)
Lemma assert_arg_index_positional a n : assert_arg a = true -> a_index a = Some n -> a_is_positional a = true.
Proof.
  unfold assert_arg. intros H Hi. split_andb. rewrite Hi in *. cbn [is_some] in *. split_andb. assumption.
Qed.

Lemma assert_app_arg c a : assert_app c = true -> In a (c_args c) -> assert_arg a = true.
Proof. intros V Ha. exact (assert_app_args_ok c V a Ha). Qed.

(** class: short aliases are carried by options only (a positional with a short alias has no short
    key in the parser's key map, the engine would still match it) *)
Definition short_aliases_on_options (c : cmd) : Prop :=
  forall a, In a (c_args c) -> a_short_aliases a <> [] -> a_is_positional a = false.

(** the parser's short key of a level is exactly what the engine's scan finds *)
Theorem same_short c ch : assert_app c = true ->
  short_aliases_on_options c ->
  find_short_visible c ch = get_short c ch.
Proof.
  intros V Hal.
  assert (Hidx : forall a, In a (c_args c) -> In ch (short_names a) -> a_index a = None).
  { intros a Ha Hs. destruct (a_index a) as [n|] eqn:Ei; [|reflexivity].
    pose proof (assert_arg_index_positional a n (assert_app_arg c a V Ha) Ei) as Hp.
    unfold a_is_positional in Hp. apply andb_true_iff in Hp. destruct Hp as [_ Hp].
    unfold short_names in Hs. apply in_app_or in Hs. destruct Hs as [Hs|Hs].
    - destruct (a_short a); [discriminate Hp|destruct Hs].
    - rewrite <- Ei. apply assert_arg_option_no_index; [apply (assert_app_arg c a V Ha)|].
      apply Hal; [exact Ha|]. intros E. rewrite E in Hs. destruct Hs. }
  destruct (find_short_visible c ch) as [o|] eqn:Ef.
  - destruct (find_short_visible_names c ch o Ef) as [Ho Hs]. symmetry.
    apply get_short_names; [apply assert_app_short_unique; exact V|exact Ho|apply Hidx; assumption|exact Hs].
  - destruct (get_short c ch) as [a|] eqn:Eg; [|reflexivity]. exfalso.
    unfold get_short in Eg. destruct (find _ (keymap c)) as [[k b]|] eqn:E; [|discriminate].
    apply find_some in E. destruct E as [Hin Hf]. cbn [fst] in Hf.
    destruct k as [s'|l'|n]; try discriminate. apply N.eqb_eq in Hf. subst s'.
    apply in_keymap in Hin. destruct Hin as [Hb Hk]. apply arg_keys_short_in in Hk.
    unfold find_short_visible in Ef. pose proof (find_none _ _ Ef b Hb) as Hn. cbv beta in Hn.
    apply short_pred_iff in Hk. rewrite Hk in Hn. discriminate.
Qed.

(** longs: what [find_long_visible] looks at *)
Lemma long_pred_names a flag :
  (match get_long_and_visible_aliases a with
   | Some longs => existsb (beq flag) longs
   | None => false end
   || match get_aliases a with
      | Some longs => existsb (beq flag) longs
      | None => false end) = true -> In flag (long_names a).
Proof.
  unfold get_long_and_visible_aliases, get_aliases, long_names. intros H.
  apply orb_true_iff in H. destruct H as [H|H].
  - destruct (a_long a) as [l|]; [|discriminate].
    apply existsb_exists in H. destruct H as [x [Hx E]]. apply beq_eq in E. subst x.
    destruct Hx as [<-|Hx]; [left; reflexivity|]. apply in_or_app. right. apply vis_aliases_in. exact Hx.
  - destruct (is_nil (a_aliases a)); [discriminate|].
    apply existsb_exists in H. destruct H as [x [Hx E]]. apply beq_eq in E. subst x.
    apply in_or_app. right. apply hid_aliases_in. exact Hx.
Qed.

Lemma in_vis_or_hid {A} (l : list (A * bool)) s : In s (map fst l) -> In s (vis_aliases l) \/ In s (hid_aliases l).
Proof.
  intros H. apply in_map_iff in H. destruct H as [[x v] [E Hp]]. cbn [fst] in E. subst x.
  destruct v.
  - left. unfold vis_aliases. apply in_map_iff. exists (s, true). split; [reflexivity|].
    apply filter_In. split; [exact Hp|reflexivity].
  - right. unfold hid_aliases. apply in_map_iff. exists (s, false). split; [reflexivity|].
    apply filter_In. split; [exact Hp|reflexivity].
Qed.

Lemma long_pred_of_names a flag : (a_aliases a <> [] -> a_long a <> None) -> In flag (long_names a) ->
  (match get_long_and_visible_aliases a with
   | Some longs => existsb (beq flag) longs
   | None => false end
   || match get_aliases a with
      | Some longs => existsb (beq flag) longs
      | None => false end) = true.
Proof.
  unfold get_long_and_visible_aliases, get_aliases, long_names. intros Hal H.
  apply in_app_or in H. apply orb_true_iff. destruct H as [H|H].
  - left. destruct (a_long a) as [l|]; [|destruct H]. destruct H as [<-|[]].
    cbn [existsb]. rewrite beq_refl. reflexivity.
  - assert (Hne : a_aliases a <> []) by (intros E; rewrite E in H; destruct H).
    specialize (Hal Hne). destruct (in_vis_or_hid _ _ H) as [Hv|Hh].
    + left. destruct (a_long a) as [l|]; [|tauto]. apply existsb_exists. exists flag.
      split; [right; exact Hv|apply beq_refl].
    + right. destruct (a_aliases a) as [|p t]; [tauto|]. cbn [is_nil].
      apply existsb_exists. exists flag. split; [exact Hh|apply beq_refl].
Qed.

Lemma find_long_visible_names c flag o :
  find_long_visible c flag = Some o -> In o (c_args c) /\ In flag (long_names o).
Proof.
  unfold find_long_visible. intros H. apply find_some in H. destruct H as [Hin Hp].
  split; [exact Hin|]. apply long_pred_names. exact Hp.
Qed.

(** one direction needs nothing but the validity gate: what the engine resolves, the parser resolves
    to the same argument (a positional that carries an alias has no long key in the parser) *)
Theorem same_long_found c flag o : assert_app c = true ->
  find_long_visible c flag = Some o -> a_index o = None -> get_long c flag = Some o.
Proof.
  intros V Ef Hi. destruct (find_long_visible_names c flag o Ef) as [Ho Hs].
  apply get_long_names; [apply assert_app_long_unique; exact V|exact Ho|exact Hi|exact Hs].
Qed.

(** class for the full equality: every argument that carries aliases has a long name and no index
    (clap's builder accepts [Arg::alias] without [Arg::long]; the engine then does not see the
    visible aliases - see [same_long_refuted]) *)
Definition aliased_have_long (c : cmd) : Prop :=
  forall a, In a (c_args c) -> a_aliases a <> [] -> a_long a <> None.

Theorem same_long c flag : assert_app c = true -> aliased_have_long c ->
  find_long_visible c flag = get_long c flag.
Proof.
  intros V Hal.
  assert (Hidx : forall a, In a (c_args c) -> In flag (long_names a) -> a_index a = None).
  { intros a Ha Hs. destruct (a_index a) as [n|] eqn:Ei; [|reflexivity].
    pose proof (assert_arg_index_positional a n (assert_app_arg c a V Ha) Ei) as Hp.
    unfold a_is_positional in Hp. apply andb_true_iff in Hp. destruct Hp as [Hp _].
    unfold long_names in Hs. apply in_app_or in Hs. destruct Hs as [Hs|Hs].
    - destruct (a_long a); [discriminate Hp|destruct Hs].
    - exfalso. assert (Hne : a_aliases a <> []) by (intros E; rewrite E in Hs; destruct Hs).
      specialize (Hal a Ha Hne). destruct (a_long a); [discriminate Hp|tauto]. }
  destruct (find_long_visible c flag) as [o|] eqn:Ef.
  - destruct (find_long_visible_names c flag o Ef) as [Ho Hs]. symmetry.
    apply same_long_found; [exact V|exact Ef|apply Hidx; assumption].
  - destruct (get_long c flag) as [a|] eqn:Eg; [|reflexivity]. exfalso.
    unfold get_long in Eg. destruct (find _ (keymap c)) as [[k b]|] eqn:E; [|discriminate].
    apply find_some in E. destruct E as [Hin Hf]. cbn [fst] in Hf.
    destruct k as [s'|l'|n]; try discriminate. apply beq_eq in Hf. subst l'.
    apply in_keymap in Hin. destruct Hin as [Hb Hk]. apply arg_keys_long_in in Hk.
    unfold find_long_visible in Ef. pose proof (find_none _ _ Ef b Hb) as Hn. cbv beta in Hn.
    rewrite (long_pred_of_names b flag (Hal b Hb) Hk) in Hn. discriminate.
Qed.

(** the full equality fails outside the class: an option without a long name but with a VISIBLE alias
    is a key of the parser, the engine's scan does not see it (it would see a hidden alias) *)
Definition ex_alias_only : cmd :=
  build_self_x ((cmd_new [112])
    <| c_args := [ (arg_new [111]) <| a_short := Some 111 |> <| a_aliases := [([111; 112; 116], true)] |>
                                   <| a_action := Some ASet |> ] |>).
Theorem same_long_refuted : exists c flag,
  assert_app c = true /\ find_long_visible c flag = None /\ get_long c flag <> None.
Proof. exists ex_alias_only, [111; 112; 116]. vm_compute. repeat split; discriminate. Qed.

(** non-vacuity of [same_long]/[same_short]: the built example command of EngineProofs *)
Definition ex_built : cmd := build_self_x EngineProofs.ex_cmd.
Lemma forall_args_dec (P : arg -> bool) l : forallb P l = true -> forall a, In a l -> P a = true.
Proof. intros H a Ha. rewrite forallb_forall in H. auto. Qed.
Example ex_same_hyps :
  assert_app ex_built = true /\ aliased_have_long ex_built /\ short_aliases_on_options ex_built /\
  find_long_visible ex_built [111; 112; 116; 118] <> None /\ find_short_visible ex_built 111 <> None.
Proof.
  split; [vm_compute; reflexivity|]. split; [|split; [|split; vm_compute; discriminate]].
  - intros a Ha Hne.
    assert (H : forallb (fun a => is_nil (a_aliases a) || is_some (a_long a)) (c_args ex_built) = true)
      by (vm_compute; reflexivity).
    pose proof (forall_args_dec _ _ H a Ha) as Hb. cbv beta in Hb.
    destruct (a_aliases a); [tauto|]. destruct (a_long a); [discriminate|discriminate Hb].
  - intros a Ha Hne.
    assert (H : forallb (fun a => is_nil (a_short_aliases a) || negb (a_is_positional a)) (c_args ex_built) = true)
      by (vm_compute; reflexivity).
    pose proof (forall_args_dec _ _ H a Ha) as Hb. cbv beta in Hb.
    destruct (a_short_aliases a); [tauto|]. cbn [is_nil orb] in Hb. apply negb_true_iff in Hb. exact Hb.
Qed.

(** * Part 2: acceptance by the parser model *)

(** ** lexing: the parser reads a candidate the way the engine spelled it *)
Lemma p_to_long_dd s : s <> [] -> ~ In EngineModel.EQ s ->
  to_long (dd ++ s) = Some (s, utf8_valid s, None).
Proof.
  intros Hne Heq. unfold to_long.
  assert (Hs : strip_prefix (dd ++ s) [DASH; DASH] = Some s) by (apply strip_prefix_spec; reflexivity).
  rewrite Hs. destruct s as [|b t]; [contradiction|].
  assert (Hn : split_once (b :: t) [EQ] = None).
  { apply split_once_none. intros i [x [y [E _]]]. apply Heq. rewrite E. apply in_or_app. right. left. reflexivity. }
  rewrite Hn. reflexivity.
Qed.

Lemma p_is_escape_dd s : s <> [] -> is_escape (dd ++ s) = false.
Proof.
  intros Hne. unfold is_escape. apply beq_neq. intros E. destruct s; [contradiction|]. discriminate E.
Qed.

(** a Unicode scalar value: what a Rust [char] is (defined by the round trip through the decoder) *)
Definition is_scalar (ch : N) : bool :=
  match utf8_step (utf8_encode ch) with
  | Some (c, n) => (c =? ch) && Nat.eqb n (length (utf8_encode ch))
  | None => false
  end.

Lemma ascii_scalar ch : ch < 128 -> is_scalar ch = true.
Proof.
  intros H. unfold is_scalar, utf8_encode. apply N.ltb_lt in H. rewrite H. cbn [utf8_step]. rewrite H.
  rewrite N.eqb_refl. reflexivity.
Qed.

Lemma encode_same ch : encode_utf8 ch = utf8_encode ch.
Proof. reflexivity. Qed.

Lemma utf8_encode_nonempty ch : utf8_encode ch <> [].
Proof. unfold utf8_encode. destruct (ch <? 128); [discriminate|]. destruct (ch <? 2048); [discriminate|].
  destruct (ch <? 65536); discriminate. Qed.

Lemma sf_next_encode ch r : is_scalar ch = true -> sf_next (utf8_encode ch ++ r) = Some (inl ch, r).
Proof.
  unfold is_scalar. intros H.
  destruct (utf8_step (utf8_encode ch)) as [[c n]|] eqn:E; [|discriminate].
  apply andb_true_iff in H. destruct H as [Hc Hn]. apply N.eqb_eq in Hc. apply Nat.eqb_eq in Hn. subst c n.
  pose proof (utf8_step_app _ r _ _ E) as E'. unfold sf_next.
  destruct (utf8_encode ch ++ r) as [|b t] eqn:Eu.
  - exfalso. apply app_eq_nil in Eu. destruct Eu as [Eu _]. exact (utf8_encode_nonempty ch Eu).
  - rewrite E'. rewrite <- Eu. rewrite skipn_app, skipn_all, Nat.sub_diag. reflexivity.
Qed.

Lemma p_to_short_dash r : r <> [] -> hd 0 r <> DASH -> to_short (DASH :: r) = Some r /\ to_long (DASH :: r) = None
  /\ is_escape (DASH :: r) = false.
Proof.
  intros Hne Hd. destruct r as [|b t]; [contradiction|]. cbn [hd] in Hd.
  assert (Eb : (b =? DASH) = false) by (apply N.eqb_neq; exact Hd).
  unfold to_short, to_long, is_escape, strip_prefix. cbn [starts_with length skipn].
  rewrite !N.eqb_refl. cbn [andb]. cbn [starts_with]. rewrite !Eb. cbn [andb is_nil].
  split; [reflexivity|]. split; [reflexivity|]. apply beq_neq. intros E. inversion E. subst. apply Hd. reflexivity.
Qed.

(** ** the results of an option occurrence without attached value *)
Lemma pov_none_results c idn a st st1 pr :
  parse_opt_value c idn None a false st = ROk (st1, pr) ->
  pr = PRValuesDone \/ pr = PROpt (a_id a) \/ pr = PREqualsNotProvided (a_id a).
Proof.
  unfold parse_opt_value. cbn [negb andb is_some]. rewrite andb_true_r. destruct (a_req_eq a).
  - destruct (a_num a) as [r|]; cbn [expect rbind]; [|discriminate].
    destruct (vmin r =? 0).
    + destruct (react c (Some idn) SCmdLine a [] None st) as [[s2 p2]|e s|n]; cbn [rbind]; try discriminate.
      intros H; inversion H; subst. left; reflexivity.
    + intros H; inversion H; subst. right; right; reflexivity.
  - destruct (resolve_pending c st) as [s1|e s|n]; cbn [rbind]; try discriminate.
    destruct (pending_values_push _ _ _ _ _); cbn [expect rbind]; [|discriminate].
    intros H; inversion H; subst. right; left; reflexivity.
Qed.

(** what the parser does with the occurrence of option/flag [a] spelled without a value *)
Definition opt_head (c : cmd) (idn : ident) (a : arg) (st : ps) : res (ps * presult) :=
  if a_takes_value a then parse_opt_value c idn None a false st
  else react c (Some idn) SCmdLine a [] None st.

(** ... and how the token loop goes on after it (the [after_flag] block of [parse_loop] restricted to the
    results [opt_head] can produce, see [opt_head_results]) *)
Definition after_opt (c : cmd) (rest : list bytes) (pos : N) (r : res (ps * presult)) : res loop_res :=
  match r with
  | ROk (st1, PRValuesDone) => parse_loop c rest (mkL PSValuesDone pos true false) st1
  | ROk (st1, PROpt i) => parse_loop c rest (mkL (PSOpt i) pos true false) st1
  | ROk (st1, PREqualsNotProvided i) => do st2 <- resolve_pending_ignore c st1; RErr (mkerr c ENoEquals i) st2
  | ROk (_, _) => RPanic 203
  | RErr e s => RErr e s
  | RPanic n => RPanic n
  end.

Lemma opt_head_results c idn a st st1 pr : opt_head c idn a st = ROk (st1, pr) ->
  pr = PRValuesDone \/ pr = PROpt (a_id a) \/ pr = PREqualsNotProvided (a_id a).
Proof.
  unfold opt_head. destruct (a_takes_value a).
  - apply pov_none_results.
  - intros H. left. eapply react_ok_result; eauto.
Qed.

Lemma opt_head_err c idn a st e st' : opt_head c idn a st = RErr e st' -> reaction_error c e.
Proof.
  unfold opt_head. destruct (a_takes_value a); [apply parse_opt_value_err|apply react_err].
Qed.

(** an UnknownArgument / InvalidSubcommand error after an accepted occurrence is the error of the
    REMAINING tokens *)
Lemma after_opt_unknown c idn a st rest pos e st' :
  after_opt c rest pos (opt_head c idn a st) = RErr e st' -> unknown_kind (e_kind e) ->
  exists ls' st1, parse_loop c rest ls' st1 = RErr e st'.
Proof.
  intros H Hk. destruct (opt_head c idn a st) as [[st1 pr]|e1 s1|n1] eqn:Eh; cbn [after_opt] in H.
  - destruct (opt_head_results _ _ _ _ _ _ Eh) as [->|[->| ->]].
    + eauto.
    + eauto.
    + exfalso. destruct (resolve_pending_ignore c st1) as [s2|e2 s2|n2] eqn:Er; cbn [rbind] in H.
      * inversion H; subst. destruct Hk as [Hk|Hk]; discriminate Hk.
      * eapply resolve_pending_ignore_not_err; eauto.
      * discriminate.
  - exfalso. inversion H; subst. eapply reaction_not_unknown; [eapply opt_head_err; eauto|exact Hk].
  - discriminate.
Qed.

(** ** long options *)

(** [parse_long_arg] resolves the long name / alias [s] of option [a] to [a] (exact key; inference is
    irrelevant: an exact key wins) and starts its occurrence *)
Theorem accept_long_arg c a s pos vaf st :
  assert_app c = true -> In a (c_args c) -> a_index a = None -> In s (long_names a) -> s <> [] ->
  parse_long_arg c s true None PSValuesDone pos vaf st =
  (do x <- opt_head c ILong a st; ROk (fst x, snd x, true)).
Proof.
  intros V Ha Hi Hs Hne. rewrite parse_long_arg_unfold. cbn [state_arg rbind negb].
  destruct s as [|b t]; [contradiction|]. cbn [is_nil andb].
  rewrite (long_exact_wins c (b :: t) a
             (get_long_names c a (b :: t) (assert_app_long_unique c V) Ha Hi Hs)).
  unfold parse_long_found, opt_head. destruct (a_takes_value a); reflexivity.
Qed.

(** the token loop, standing where a new argument may start (state [ValuesDone], before [--]), given
    the candidate [--s]: it starts the occurrence of [a] and goes on with the remaining tokens *)
Theorem accept_long_step c a s rest pos vaf st :
  assert_app c = true -> In a (c_args c) -> a_index a = None -> In s (long_names a) ->
  s <> [] -> ~ In EngineModel.EQ s -> utf8_valid s = true ->
  possible_subcommand c (dd ++ s) vaf = None ->
  parse_loop c ((dd ++ s) :: rest) (mkL PSValuesDone pos vaf false) st =
  after_opt c rest pos (opt_head c ILong a st).
Proof.
  intros V Ha Hi Hs Hne Heq Hu Hp.
  cbn [parse_loop l_trailing l_pst l_vaf l_pos].
  rewrite orb_true_r, Hp, (p_is_escape_dd s Hne), (p_to_long_dd s Hne Heq), Hu.
  rewrite (accept_long_arg c a s pos vaf st V Ha Hi Hs Hne).
  destruct (opt_head c ILong a st) as [[st1 pr]|e1 s1|n1] eqn:Eh; cbn [rbind fst snd after_opt]; try reflexivity.
  destruct (opt_head_results _ _ _ _ _ _ Eh) as [->|[->| ->]]; cbn [rbind]; try reflexivity.
  destruct (resolve_pending_ignore c st1) as [s2|e2 s2|n2]; reflexivity.
Qed.

Definition occ_head (c : cmd) (a : arg) (h : res (ps * presult)) : Prop :=
  (forall st1 pr, h = ROk (st1, pr) ->
     pr = PRValuesDone \/ pr = PROpt (a_id a) \/ pr = PREqualsNotProvided (a_id a))
  /\ (forall e s, h = RErr e s -> reaction_error c e).

Lemma opt_head_occ c idn a st : occ_head c a (opt_head c idn a st).
Proof. split; [intros st1 pr; apply opt_head_results|intros e s; apply opt_head_err]. Qed.

Lemma after_occ_unknown c a h rest pos e st' : occ_head c a h ->
  after_opt c rest pos h = RErr e st' -> unknown_kind (e_kind e) ->
  exists ls' st1, parse_loop c rest ls' st1 = RErr e st'.
Proof.
  intros [Hr He] H Hk. destruct h as [[st1 pr]|e1 s1|n1]; cbn [after_opt] in H.
  - destruct (Hr st1 pr eq_refl) as [->|[->| ->]].
    + eauto.
    + eauto.
    + exfalso. destruct (resolve_pending_ignore c st1) as [s2|e2 s2|n2] eqn:Er; cbn [rbind] in H.
      * inversion H; subst. destruct Hk as [Hk|Hk]; discriminate Hk.
      * eapply resolve_pending_ignore_not_err; eauto.
      * discriminate.
  - exfalso. inversion H; subst. eapply reaction_not_unknown; [eapply He; reflexivity|exact Hk].
  - discriminate.
Qed.

(** ** subcommand names *)
Lemma nodup_ids_app a : forall b, nodup_ids (a ++ b) = true ->
  nodup_ids a = true /\ nodup_ids b = true /\ forall x, In x a -> In x b -> False.
Proof.
  induction a as [|y t IH]; intros b H; cbn [app nodup_ids] in *.
  - split; [reflexivity|]. split; [exact H|]. intros x [].
  - apply andb_true_iff in H. destruct H as [Hy H]. destruct (IH b H) as [H1 [H2 H3]].
    apply negb_true_iff in Hy. unfold mem_id in *.
    assert (Hy' : forall z, In z (t ++ b) -> y <> z).
    { intros z Hz E. subst z. assert (existsb (beq y) (t ++ b) = true)
        by (apply existsb_exists; exists y; split; [exact Hz|apply beq_refl]). congruence. }
    split; [|split; [exact H2|]].
    + apply andb_true_iff. split; [|exact H1]. apply negb_true_iff.
      destruct (existsb (beq y) t) eqn:E; [|reflexivity]. exfalso.
      apply existsb_exists in E. destruct E as [z [Hz E]]. apply beq_eq in E. subst z.
      apply (Hy' y); [apply in_or_app; left; exact Hz|reflexivity].
    + intros x [<-|Hx] Hb; [apply (Hy' y); [apply in_or_app; right; exact Hb|reflexivity]|eauto].
Qed.

Lemma aliases_to_names s n : aliases_to s n = true <-> In n (c_name s :: all_aliases s).
Proof.
  unfold aliases_to. rewrite orb_true_iff. split.
  - intros [H|H]; [apply beq_eq in H; left; exact H|].
    apply existsb_exists in H. destruct H as [x [Hx E]]. apply beq_eq in E. subst x. right; exact Hx.
  - intros [H|H]; [left; rewrite H; apply beq_refl|]. right. apply existsb_exists. exists n. split; [exact H|apply beq_refl].
Qed.

Lemma find_sub_unique : forall l sc n,
  nodup_ids (flat_map (fun s => c_name s :: all_aliases s) l) = true ->
  In sc l -> aliases_to sc n = true -> find (fun s => aliases_to s n) l = Some sc.
Proof.
  induction l as [|x t IH]; intros sc n Hn Hin Ha; [destruct Hin|].
  cbn [flat_map] in Hn. apply nodup_ids_app in Hn. destruct Hn as [_ [Ht Hd]].
  cbn [find]. destruct (aliases_to x n) eqn:Ex.
  - destruct Hin as [->|Hin]; [reflexivity|]. exfalso.
    apply (Hd n); [apply aliases_to_names; exact Ex|].
    apply in_flat_map. exists sc. split; [exact Hin|apply aliases_to_names; exact Ha].
  - destruct Hin as [->|Hin]; [congruence|]. apply IH; assumption.
Qed.

Lemma assert_app_subs_unique c : assert_app c = true -> nodup_ids (all_subcommand_names c) = true.
Proof.
  unfold assert_app. intros H.
  repeat (apply andb_true_iff in H; let H' := fresh "P" in destruct H as [H H']). assumption.
Qed.

(** on a validated level a name or alias resolves to THE subcommand that carries it *)
Theorem find_subcommand_same c sc n : assert_app c = true -> In sc (c_subs c) -> aliases_to sc n = true ->
  find_subcommand c n = Some sc.
Proof.
  intros V Hin Ha. unfold find_subcommand. apply find_sub_unique; [|exact Hin|exact Ha].
  exact (assert_app_subs_unique c V).
Qed.

(** the subcommand candidate [n] (a name or alias of [sc]) given to the token loop where a new argument
    may start: the loop stops with the dispatch to [sc] (or the help walk, for the generated [help]);
    no error is produced at all.  Also under prefix inference ([infer_subcommands]): an exact name wins. *)
Theorem accept_sub_step c sc n rest pos vaf st :
  assert_app c = true -> In sc (c_subs c) -> aliases_to sc n = true -> utf8_valid n = true ->
  (is_set s_args_negate_subs c && vaf) = false ->
  exists n', aliases_to sc n' = true /\ find_subcommand c n' = Some sc /\
    possible_subcommand c n vaf = Some n' /\
    parse_loop c (n :: rest) (mkL PSValuesDone pos vaf false) st =
    if beq n' s_help && negb (is_set s_disable_help_sub c) then ROk (LHelpSub rest st)
    else ROk (LSub n' false vaf st rest).
Proof.
  intros V Hin Ha Hu Hng.
  pose proof (find_subcommand_same c sc n V Hin Ha) as Hf.
  destruct (sub_exact_wins c n vaf sc Hf Hu Hng) as [n' [Hp Ha']].
  exists n'. split; [exact Ha'|]. split; [apply find_subcommand_same; assumption|]. split; [exact Hp|].
  cbn [parse_loop l_trailing l_pst l_vaf l_pos]. rewrite orb_true_r, Hp.
  destruct (beq n' s_help && negb (is_set s_disable_help_sub c)); reflexivity.
Qed.

(** ** short options and clusters *)

(** the unread bytes [r] of a cluster: known flags that take no value, then the short/alias of [a] *)
Inductive cluster_ok (c : cmd) : bytes -> arg -> Prop :=
| ck_last r ch a : sf_next r = Some (inl ch, []) -> get_short c ch = Some a -> cluster_ok c r a
| ck_flag r ch r' f a : sf_next r = Some (inl ch, r') -> r' <> [] -> get_short c ch = Some f ->
    a_takes_value f = false -> cluster_ok c r' a -> cluster_ok c r a.

Lemma cluster_ok_known c r a : cluster_ok c r a -> forall fuel, sf_any_unknown c fuel r = false.
Proof.
  induction 1 as [r ch a Hn Hg|r ch r' f a Hn Hne Hg Htv Hc IH]; intros fuel; destruct fuel as [|k]; try reflexivity;
    cbn [sf_any_unknown]; rewrite Hn; unfold contains_short; rewrite Hg; cbn [is_some negb orb].
  - destruct k; [reflexivity|]. reflexivity.
  - apply IH.
Qed.

Lemma cluster_ok_nonempty c r a : cluster_ok c r a -> r <> [].
Proof. destruct 1 as [r ch a Hn _|r ch r' f a Hn _ _ _ _]; intros ->; discriminate Hn. Qed.

Lemma short_loop_cluster_res c r a : cluster_ok c r a -> forall fuel ret vaf st st1 pr vaf1, (length r < fuel)%nat ->
  short_loop c fuel r ret vaf st = ROk (st1, pr, vaf1) ->
  vaf1 = true /\ (pr = PRValuesDone \/ pr = PROpt (a_id a) \/ pr = PREqualsNotProvided (a_id a)).
Proof.
  intros Hc.
  induction Hc as [r ch a Hn Hg|r ch r' f a Hn Hne Hg Htv Hc IH]; intros fuel ret vaf st st1 pr vaf1 Hl H;
    (destruct fuel as [|k]; [lia|]).
  - destruct (a_takes_value a) eqn:Htv.
    + rewrite (short_loop_opt_alone c k r ch a ret vaf st Hn Hg Htv) in H.
      destruct (parse_opt_value c IShort None a false st) as [[s2 p2]|e s|n] eqn:Ep; cbn [rbind fst snd] in H; try discriminate.
      inversion H; subst. split; [reflexivity|]. eapply pov_none_results; eauto.
    + rewrite (short_loop_flag_step c k r ch [] a ret vaf st Hn Hg Htv) in H.
      destruct (react c (Some IShort) SCmdLine a [] None st) as [[s2 p2]|e s|n] eqn:Er; cbn [rbind fst snd] in H; try discriminate.
      apply sf_next_shrinks' in Hn. destruct k as [|k']; [cbn [length] in *; lia|].
      cbn [short_loop sf_next rbind fst snd] in H. inversion H; subst. split; [reflexivity|]. left. eapply react_ok_result; eauto.
  - rewrite (short_loop_flag_step c k r ch r' f ret vaf st Hn Hg Htv) in H.
    destruct (react c (Some IShort) SCmdLine f [] None st) as [[s2 p2]|e s|n] eqn:Er; cbn [rbind fst snd] in H; try discriminate.
    apply sf_next_shrinks' in Hn. eapply (IH k p2 true s2); [lia|exact H].
Qed.

Lemma short_loop_cluster_ok c r a : cluster_ok c r a -> forall fuel ret vaf st, (length r < fuel)%nat ->
  occ_head c a (do x <- short_loop c fuel r ret vaf st; ROk (fst (fst x), snd (fst x))).
Proof.
  intros Hc fuel ret vaf st Hl. split.
  - intros st1 pr H. destruct (short_loop c fuel r ret vaf st) as [[[s2 p2] v2]|e1 s1|n1] eqn:E; cbn [rbind fst snd] in H; try discriminate.
    inversion H; subst. eapply (short_loop_cluster_res c r a Hc); eauto.
  - intros e s H. destruct (short_loop c fuel r ret vaf st) as [x|e1 s1|n1] eqn:E; cbn [rbind] in H; try discriminate.
    inversion H; subst. eapply short_loop_err; eauto.
Qed.

Lemma ps_fs_skip_eta (st : ps) : fs_skip st = 0 -> st <| fs_skip := 0 |> = st.
Proof. destruct st; cbn. intros ->. reflexivity. Qed.

(** the token loop given a cluster [-r] of known flags ending in the short/alias of [a], where a new argument
    may start: every flag of the cluster is reacted to, then the occurrence of [a] starts *)
Theorem accept_cluster_step c a r rest pos vaf st :
  cluster_ok c r a -> hd 0 r <> DASH ->
  possible_subcommand c (DASH :: r) vaf = None -> fs_skip st = 0 ->
  (match get_pos c pos with Some p => a_negnum p | None => false end && sf_is_negative_number r) = false ->
  parse_loop c ((DASH :: r) :: rest) (mkL PSValuesDone pos vaf false) st =
  after_opt c rest pos (do x <- short_loop c (S (length r)) r PRNoArg vaf st; ROk (fst (fst x), snd (fst x))).
Proof.
  intros Hc Hd Hp Hsk Hneg.
  destruct (p_to_short_dash r (cluster_ok_nonempty c r a Hc) Hd) as [Hts [Htl Hes]].
  cbn [parse_loop l_trailing l_pst l_vaf l_pos].
  rewrite orb_true_r, Hp, Hes, Htl, Hts.
  unfold parse_short_arg. cbn [state_arg rbind]. rewrite Hneg.
  rewrite (cluster_ok_known c r a Hc), andb_false_r. rewrite Hsk.
  rewrite N.min_0_l. change (N.to_nat 0) with 0%nat. cbn [sf_advance_by expect rbind].
  rewrite (ps_fs_skip_eta st Hsk).
  destruct (short_loop c (S (length r)) r PRNoArg vaf st) as [[[s2 p2] v2]|e1 s1|n1] eqn:E;
    cbn [rbind fst snd after_opt]; try reflexivity.
  destruct (short_loop_cluster_res c r a Hc _ _ _ _ _ _ _ (Nat.lt_succ_diag_r _) E) as [-> [->|[->| ->]]];
    cbn [rbind]; try reflexivity.
  destruct (resolve_pending_ignore c s2) as [s3|e3 s3|n3]; reflexivity.
Qed.

Theorem accept_cluster_step_occ c a r rest pos vaf st :
  cluster_ok c r a -> hd 0 r <> DASH ->
  possible_subcommand c (DASH :: r) vaf = None -> fs_skip st = 0 ->
  (match get_pos c pos with Some p => a_negnum p | None => false end && sf_is_negative_number r) = false ->
  parse_loop c ((DASH :: r) :: rest) (mkL PSValuesDone pos vaf false) st =
  after_opt c rest pos (do x <- short_loop c (S (length r)) r PRNoArg vaf st; ROk (fst (fst x), snd (fst x)))
  /\ occ_head c a (do x <- short_loop c (S (length r)) r PRNoArg vaf st; ROk (fst (fst x), snd (fst x))).
Proof.
  intros Hc Hd Hp Hs Hn. split; [apply (accept_cluster_step c a); assumption|].
  apply short_loop_cluster_ok; [exact Hc|apply Nat.lt_succ_diag_r].
Qed.

(** a single short flag [-ch] *)
Lemma cluster_ok_single c a ch : is_scalar ch = true -> get_short c ch = Some a -> cluster_ok c (utf8_encode ch) a.
Proof.
  intros Hs Hg. apply (ck_last c _ ch a); [|exact Hg].
  rewrite <- (app_nil_r (utf8_encode ch)) at 1. apply sf_next_encode. exact Hs.
Qed.

(** * Part 3: what the engine offers is accepted *)

(** the parser level [pc] and the engine level [cur] are "the same level": same arguments, same
    subcommand names and aliases in the same order ([Complete/EngineLevel.v] shows that the shadow
    parse and the parser model reach such levels on the same prefix) *)
Definition sub_key (s : cmd) : bytes * list (bytes * bool) := (c_name s, c_aliases s).
Definition same_level (pc cur : cmd) : Prop :=
  c_args pc = c_args cur /\ map sub_key (c_subs pc) = map sub_key (c_subs cur).

Lemma same_level_refl c : same_level c c.
Proof. split; reflexivity. Qed.

Lemma find_short_visible_args pc cur ch : c_args pc = c_args cur -> find_short_visible pc ch = find_short_visible cur ch.
Proof. unfold find_short_visible. intros ->. reflexivity. Qed.

Lemma aliases_to_key s s' n : sub_key s = sub_key s' -> aliases_to s n = aliases_to s' n.
Proof.
  unfold sub_key, aliases_to, all_aliases. intros H.
  assert (H12 : c_name s = c_name s' /\ c_aliases s = c_aliases s') by (split; congruence).
  destruct H12 as [H1 H2]. rewrite H1, H2. reflexivity.
Qed.

Lemma in_map_key (l l' : list cmd) s : map sub_key l = map sub_key l' -> In s l' ->
  exists s', In s' l /\ sub_key s' = sub_key s.
Proof.
  revert l'. induction l as [|x t IH]; intros [|y t'] H Hin; try discriminate; [destruct Hin|].
  cbn [map] in H. assert (H12 : sub_key x = sub_key y /\ map sub_key t = map sub_key t') by (split; congruence).
  destruct H12 as [H1 H2]. destruct Hin as [E|Hin].
  - subst y. exists x. split; [left; reflexivity|exact H1].
  - destruct (IH t' H2 Hin) as [s' [Hs' Hk]]. exists s'. split; [right; exact Hs'|exact Hk].
Qed.

(** the typed cluster of the word under the cursor consists of flags the level knows (the engine offers
    [-<typed><short>] also after an unknown typed flag - the parser then rejects the unknown flag, not
    the candidate) *)
Definition typed_known (cur : cmd) (w : bytes) : Prop :=
  match EngineModel.to_short w with
  | Some lead => forallb (has_short cur) (decode lead) = true
  | None => True
  end.

Lemma skipn_app_le {A} n (l1 l2 : list A) : (n <= length l1)%nat -> skipn n (l1 ++ l2) = skipn n l1 ++ l2.
Proof. intros H. rewrite skipn_app. replace (n - length l1)%nat with 0%nat by lia. reflexivity. Qed.

Lemma engine_cluster_ok pc cur a s : assert_app pc = true -> short_aliases_on_options pc ->
  c_args pc = c_args cur -> is_scalar s = true -> get_short pc s = Some a ->
  forall fuel lead leading ld rest, utf8_valid lead = true ->
  forallb (has_short cur) (decode lead) = true ->
  parse_shortflags_loop fuel cur lead leading = SFOk ld None rest ->
  cluster_ok pc (lead ++ utf8_encode s) a.
Proof.
  intros V Hal Hargs Hsc Hg. induction fuel as [|f IH]; intros lead leading ld rest Hv Hk H; [discriminate|].
  cbn [parse_shortflags_loop] in H. unfold next_flag in H.
  destruct lead as [|b t].
  { cbn [app]. apply cluster_ok_single; assumption. }
  destruct (utf8_valid_nonempty (b :: t) Hv) as [ch [n E]]; [discriminate|]. rewrite E in H.
  pose proof (utf8_valid_skip _ _ _ Hv E) as Hv'.
  rewrite (decode_step _ _ _ E) in Hk. cbn [forallb] in Hk. apply andb_true_iff in Hk. destruct Hk as [Hch Hk].
  unfold has_short in Hch. destruct (find_short_visible cur ch) as [o|] eqn:Eo; [|discriminate].
  destruct (a_num o) as [r|] eqn:En; [|discriminate].
  destruct (r_takes_values r) eqn:Etv; [discriminate|].
  pose proof (IH _ _ _ _ Hv' Hk H) as Hc.
  pose proof (utf8_step_len _ _ _ E) as [_ Hlen].
  apply (ck_flag pc _ ch (skipn n (b :: t) ++ utf8_encode s) o a).
  - unfold sf_next. change ((b :: t) ++ utf8_encode s) with (b :: (t ++ utf8_encode s)).
    change (b :: t ++ utf8_encode s) with ((b :: t) ++ utf8_encode s).
    rewrite (utf8_step_app _ (utf8_encode s) _ _ E). rewrite (skipn_app_le n (b :: t) (utf8_encode s) Hlen).
    reflexivity.
  - intros E0. apply app_eq_nil in E0. destruct E0 as [_ E0]. exact (utf8_encode_nonempty s E0).
  - rewrite <- (same_short pc ch V Hal). rewrite (find_short_visible_args pc cur ch Hargs). exact Eo.
  - unfold a_takes_value. rewrite En. cbn [opt_default]. exact Etv.
  - exact Hc.
Qed.

(** where the option candidates of [complete_option] come from, with the typed cluster they extend *)
Lemma complete_option_shape tbl w c l x : complete_option tbl w c = COk l -> In x l -> cd_id x <> None ->
  (In x (longs_and_visible_aliases c) \/ In x (hidden_longs_aliases c))
  \/ exists y lead, In y (shorts_and_visible_aliases c) /\ x = add_prefix ([EngineModel.DASH] ++ lead) y /\
       (lead = [] \/ (EngineModel.to_short w = Some lead /\ utf8_valid lead = true /\
                      exists ld rest, parse_shortflags c lead = SFOk ld None rest)).
Proof.
  unfold complete_option.
  destruct (is_empty w) eqn:E0.
  { intros H; inversion H; subst; clear H. intros Hx _.
    apply in_app_or in Hx. destruct Hx as [Hx|Hx]; [left; left; exact Hx|].
    apply in_app_or in Hx. destruct Hx as [Hx|Hx]; [left; right; exact Hx|].
    apply in_map_iff in Hx. destruct Hx as [y [<- Hy]]. right. exists y, []. split; [exact Hy|]. split; [reflexivity|left; reflexivity]. }
  destruct (EngineModel.is_stdio w) eqn:E1.
  { intros H; inversion H; subst; clear H. intros Hx _.
    apply in_app_or in Hx. destruct Hx as [Hx|Hx].
    { apply in_map_iff in Hx. destruct Hx as [y [<- Hy]]. right. exists y, []. split; [exact Hy|]. split; [reflexivity|left; reflexivity]. }
    apply in_app_or in Hx. destruct Hx as [Hx|Hx]; [left; left; exact Hx|left; right; exact Hx]. }
  destruct (EngineModel.is_escape w) eqn:E2.
  { intros H; inversion H; subst; clear H. intros Hx _.
    apply in_app_or in Hx. destruct Hx as [Hx|Hx]; [left; left; exact Hx|left; right; exact Hx]. }
  destruct (EngineModel.to_long w) as [[[flag u] value]|] eqn:El.
  { destruct u; [|intros H; inversion H; subst; intros []].
    destruct value as [v|].
    - destruct (find _ (c_args c)) as [a|]; [|intros H; inversion H; subst; intros []].
      destruct (complete_arg_value tbl v a) as [l0|] eqn:Ev; [|discriminate].
      intros H; inversion H; subst; clear H. intros Hx Hid. exfalso. apply Hid.
      apply in_map_iff in Hx. destruct Hx as [y [<- Hy]]. cbn. eapply complete_arg_value_ids; eauto.
    - intros H; inversion H; subst; clear H. intros Hx _.
      apply in_app_or in Hx. destruct Hx as [Hx|Hx]; apply filter_In in Hx; destruct Hx as [Hx _];
        [left; left; exact Hx|left; right; exact Hx]. }
  destruct (EngineModel.to_short w) as [short|] eqn:Es; [|intros H; inversion H; subst; intros []].
  destruct (negb (EngineModel.sf_is_negative_number short)); [|intros H; inversion H; subst; intros []].
  destruct (parse_shortflags c short) as [| |leading [o|] short'] eqn:Ep; try discriminate.
  - destruct (match next_flag short' with
              | Some (FOk ch, s2) => if ch =? EngineModel.EQ then (true, s2) else (false, short')
              | _ => (false, short') end) as [he s2].
    destruct (complete_arg_value tbl _ o) as [l0|] eqn:Ev; [|discriminate].
    intros H; inversion H; subst; clear H. intros Hx Hid. exfalso. apply Hid.
    apply in_map_iff in Hx. destruct Hx as [y [<- Hy]]. cbn. eapply complete_arg_value_ids; eauto.
  - destruct (utf8_valid w) eqn:Ev; [|intros H; inversion H; subst; intros []].
    pose proof (to_short_some _ _ Es) as Ew. subst w.
    pose proof (utf8_valid_dash _ Ev) as Evs.
    pose proof Ep as Ep'. unfold parse_shortflags in Ep'. apply parse_shortflags_loop_all in Ep'; [|exact Evs].
    cbn [app] in Ep'. subst leading.
    intros H; inversion H; subst; clear H. intros Hx _. apply in_map_iff in Hx. destruct Hx as [y [<- Hy]].
    right. exists y, short. split; [exact Hy|]. split; [reflexivity|]. right.
    split; [reflexivity|]. split; [exact Evs|]. eauto.
Qed.

(** names as Rust has them: long names/aliases are non-empty UTF-8 strings without [=] (a [=] would be
    read as the value separator), short names/aliases are [char]s other than [-] *)
Definition names_wf (a : arg) : Prop :=
  (forall s, In s (long_names a) -> s <> [] /\ ~ In EngineModel.EQ s /\ utf8_valid s = true) /\
  (forall ch, In ch (short_names a) -> is_scalar ch = true /\ ch <> DASH).

(** the parser state in which the candidate is read: nothing is left over from a short flag-subcommand
    ([fs_skip]), the token is not the name of a subcommand, and a short candidate is not a negative
    number that the next positional wants ([allow_negative_numbers]) *)
Definition quiet_state (pc : cmd) (tok : bytes) (pos : N) (vaf : bool) (st : ps) : Prop :=
  possible_subcommand pc tok vaf = None /\ fs_skip st = 0 /\
  (match get_pos pc pos with Some p => a_negnum p | None => false end
   && match to_short tok with Some r => sf_is_negative_number r | None => false end) = false.

Lemma hd_encode_dash s : hd 0 (utf8_encode s) = DASH -> s = DASH.
Proof.
  unfold utf8_encode, DASH. destruct (s <? 128); cbn [hd]; [auto|].
  destruct (s <? 2048); cbn [hd]; [generalize (s / 64); intros q H; lia|].
  destruct (s <? 65536); cbn [hd]; [generalize (s / 4096)|generalize (s / 262144)]; intros q H; lia.
Qed.

Lemma e_to_short_hd w lead : EngineModel.to_short w = Some lead -> lead <> [] /\ hd 0 lead <> DASH.
Proof.
  unfold EngineModel.to_short. destruct w as [|a r]; [discriminate|].
  destruct (a =? EngineModel.DASH); [|discriminate]. destruct r as [|b t]; [discriminate|].
  destruct (b =? EngineModel.DASH) eqn:E; [discriminate|]. intros H; inversion H; subst.
  split; [discriminate|]. cbn [hd]. apply N.eqb_neq in E. exact E.
Qed.

(** every option candidate offered where a new argument may start is, for the parser model at the
    same level, the start of an occurrence of the argument whose id it carries *)
(** (the level enters through its ARGUMENTS only) *)
Theorem option_candidate_step_args tbl w cur pi l cd aid pc :
  assert_app pc = true -> short_aliases_on_options pc -> c_args pc = c_args cur ->
  complete_arg tbl w cur pi ValueDone = COk l -> In cd l -> cd_id cd = Some (IdArg aid) ->
  typed_known cur w ->
  exists a, In a (c_args pc) /\ a_id a = aid /\
    (a_is_positional a = false -> names_wf a ->
     forall pos vaf st, quiet_state pc (cd_value cd) pos vaf st ->
       exists h, occ_head pc a h /\
         forall rest, parse_loop pc (cd_value cd :: rest) (mkL PSValuesDone pos vaf false) st
                      = after_opt pc rest pos h).
Proof.
  intros V Hal Hargs Hc Hin Hid Htk.
  cbn [complete_arg] in Hc.
  destruct (value_done_inv _ _ _ _ _ Hc) as [posv [opts [Hpos [Ho ->]]]].
  apply finish_incl in Hin. apply in_app_or in Hin. destruct Hin as [Hin|Hin].
  { exfalso. destruct (utf8_valid w); [|destruct Hin].
    unfold complete_subcommand in Hin. rewrite dedup_adjacent_in, sort_cands_in, filter_In in Hin.
    destruct Hin as [Hin _]. destruct (subcommands_in cur cd Hin) as [sc [n [_ [_ [Hi _]]]]]. congruence. }
  apply in_app_or in Hin. destruct Hin as [Hin|Hin]; [rewrite (Hpos cd Hin) in Hid; discriminate|].
  assert (Hnn : cd_id cd <> None) by (rewrite Hid; discriminate).
  destruct (complete_option_shape tbl w cur opts cd Ho Hin Hnn) as [Hl|[y [lead [Hy [Hx Hlead]]]]].
  - (* long name or alias *)
    assert (Hla : exists a s, In a (c_args cur) /\ cd = mkCand (dd ++ s) (Some (IdArg (a_id a))) (cd_hidden cd)
                              /\ In s (long_names a)).
    { destruct Hl as [Hl|Hl].
      - destruct (longs_in cur cd Hl) as [a [s [Ha [-> Hs]]]]. exists a, s. split; [exact Ha|]. split; [reflexivity|].
        unfold long_names. destruct Hs as [Hs|Hs]; [rewrite Hs; left; reflexivity|apply in_or_app; right; exact Hs].
      - destruct (hidden_longs_in cur cd Hl) as [a [s [Ha [-> Hs]]]]. exists a, s. split; [exact Ha|]. split; [reflexivity|].
        unfold long_names. apply in_or_app; right; exact Hs. }
    destruct Hla as [a [s [Ha [Ecd Hs]]]]. rewrite Ecd in Hid. cbn [cd_id] in Hid. inversion Hid as [Haid].
    exists a. rewrite Hargs. split; [exact Ha|]. split; [reflexivity|].
    intros Hp [Hwl _] pos vaf st [Hq _]. rewrite Ecd in *. cbn [cd_value] in *.
    destruct (Hwl s Hs) as [Hne [Heq Hu]].
    exists (opt_head pc ILong a st). split; [apply opt_head_occ|]. intros rest.
    rewrite <- Hargs in Ha.
    apply accept_long_step; try assumption.
    apply assert_arg_option_no_index; [exact (assert_app_arg pc a V Ha)|exact Hp].
  - (* short name or alias after the typed cluster *)
    destruct (shorts_in cur y Hy) as [a [s [Ha [-> Hs]]]].
    assert (Hsn : In s (short_names a)).
    { unfold short_names. destruct Hs as [Hs|Hs]; [rewrite Hs; left; reflexivity|apply in_or_app; right; exact Hs]. }
    subst cd. cbn [cd_id add_prefix populate_arg_candidate] in Hid. inversion Hid as [Haid].
    exists a. rewrite Hargs. split; [exact Ha|]. split; [reflexivity|].
    intros Hp [_ Hws] pos vaf st [Hq [Hsk Hneg]].
    destruct (Hws s Hsn) as [Hsc Hnd].
    rewrite <- Hargs in Ha.
    pose proof (assert_arg_option_no_index a (assert_app_arg pc a V Ha) Hp) as Hi.
    pose proof (get_short_names pc a s (assert_app_short_unique pc V) Ha Hi Hsn) as Hg.
    cbn [cd_value add_prefix populate_arg_candidate] in *.
    assert (Hck : cluster_ok pc (lead ++ utf8_encode s) a /\ hd 0 (lead ++ utf8_encode s) <> DASH).
    { destruct Hlead as [->|[Hts [Hvl [ld [rest Hps]]]]].
      - cbn [app]. split; [apply cluster_ok_single; assumption|]. intros E. apply Hnd. apply hd_encode_dash. exact E.
      - split.
        + unfold parse_shortflags in Hps. unfold typed_known in Htk. rewrite Hts in Htk.
          eapply engine_cluster_ok; eauto.
        + destruct (e_to_short_hd w lead Hts) as [Hne Hh]. destruct lead; [contradiction|exact Hh]. }
    destruct Hck as [Hck Hh].
    change (([EngineModel.DASH] ++ lead) ++ utf8_encode s) with (DASH :: (lead ++ utf8_encode s)) in *.
    destruct (p_to_short_dash _ (cluster_ok_nonempty _ _ _ Hck) Hh) as [Hts' _]. rewrite Hts' in Hneg.
    exists (do x <- short_loop pc (S (length (lead ++ utf8_encode s))) (lead ++ utf8_encode s) PRNoArg vaf st;
            ROk (fst (fst x), snd (fst x))).
    split; [apply short_loop_cluster_ok; [exact Hck|apply Nat.lt_succ_diag_r]|].
    intros rest. apply (accept_cluster_step pc a); assumption.
Qed.

Theorem option_candidate_step tbl w cur pi l cd aid pc :
  assert_app pc = true -> short_aliases_on_options pc -> same_level pc cur ->
  complete_arg tbl w cur pi ValueDone = COk l -> In cd l -> cd_id cd = Some (IdArg aid) ->
  typed_known cur w ->
  exists a, In a (c_args pc) /\ a_id a = aid /\
    (a_is_positional a = false -> names_wf a ->
     forall pos vaf st, quiet_state pc (cd_value cd) pos vaf st ->
       exists h, occ_head pc a h /\
         forall rest, parse_loop pc (cd_value cd :: rest) (mkL PSValuesDone pos vaf false) st
                      = after_opt pc rest pos h).
Proof. intros V Hal [Hargs _]. exact (option_candidate_step_args tbl w cur pi l cd aid pc V Hal Hargs). Qed.

(** "accepted": an UnknownArgument / InvalidSubcommand error of the level is never caused by the candidate;
    if one is reported at all it is the error of the tokens that follow it (none, when the candidate is
    the last word) *)
Definition tok_accepted (pc : cmd) (tok : bytes) (pos : N) (vaf : bool) (st : ps) : Prop :=
  forall rest e st', parse_loop pc (tok :: rest) (mkL PSValuesDone pos vaf false) st = RErr e st' ->
    unknown_kind (e_kind e) -> exists ls' st1, parse_loop pc rest ls' st1 = RErr e st'.

Lemma tok_accepted_last pc tok pos vaf st e st' : tok_accepted pc tok pos vaf st ->
  parse_loop pc [tok] (mkL PSValuesDone pos vaf false) st = RErr e st' -> ~ unknown_kind (e_kind e).
Proof. intros H E Hk. destruct (H [] e st' E Hk) as [ls' [st1 H1]]. discriminate H1. Qed.

Theorem option_candidate_accepted tbl w cur pi l cd aid pc :
  assert_app pc = true -> short_aliases_on_options pc -> same_level pc cur ->
  complete_arg tbl w cur pi ValueDone = COk l -> In cd l -> cd_id cd = Some (IdArg aid) ->
  typed_known cur w ->
  exists a, In a (c_args pc) /\ a_id a = aid /\
    (a_is_positional a = false -> names_wf a ->
     forall pos vaf st, quiet_state pc (cd_value cd) pos vaf st -> tok_accepted pc (cd_value cd) pos vaf st).
Proof.
  intros V Hal Hsl Hc Hin Hid Htk.
  destruct (option_candidate_step tbl w cur pi l cd aid pc V Hal Hsl Hc Hin Hid Htk) as [a [Ha [Haid H]]].
  exists a. split; [exact Ha|]. split; [exact Haid|]. intros Hp Hwf pos vaf st Hq.
  destruct (H Hp Hwf pos vaf st Hq) as [h [Hocc Heq]].
  intros rest e st' E Hk. rewrite Heq in E. eapply after_occ_unknown; eauto.
Qed.

(** subcommand candidates: the token loop stops with the dispatch to the subcommand whose id the candidate
    carries - no error at all *)
Theorem subcommand_candidate_accepted tbl w cur pi l cd n pc :
  assert_app pc = true -> same_level pc cur ->
  complete_arg tbl w cur pi ValueDone = COk l -> In cd l -> cd_id cd = Some (IdCmd n) ->
  exists sc, In sc (c_subs pc) /\ c_name sc = n /\ aliases_to sc (cd_value cd) = true /\
    (utf8_valid (cd_value cd) = true -> forall rest pos vaf st, (is_set s_args_negate_subs pc && vaf) = false ->
     exists n', aliases_to sc n' = true /\ find_subcommand pc n' = Some sc /\
       possible_subcommand pc (cd_value cd) vaf = Some n' /\
       parse_loop pc (cd_value cd :: rest) (mkL PSValuesDone pos vaf false) st =
       if beq n' s_help && negb (is_set s_disable_help_sub pc) then ROk (LHelpSub rest st)
       else ROk (LSub n' false vaf st rest)).
Proof.
  intros V [Hargs Hsubs] Hc Hin Hid.
  pose proof (value_done_sound tbl w cur pi l Hc cd Hin) as Hs. unfold cand_sound in Hs. rewrite Hid in Hs.
  destruct Hs as [_ [sc [Hsc [Hn Ha]]]].
  destruct (in_map_key _ _ sc Hsubs Hsc) as [sc' [Hsc' Hk]].
  exists sc'. split; [exact Hsc'|].
  assert (Hnm : c_name sc' = c_name sc) by (unfold sub_key in Hk; congruence).
  split; [congruence|]. rewrite (aliases_to_key sc' sc _ Hk). split; [exact Ha|].
  intros Hu rest pos vaf st Hng.
  apply accept_sub_step; try assumption. rewrite (aliases_to_key sc' sc _ Hk). exact Ha.
Qed.

(** boolean form of [names_wf] (the class is decidable) *)
Definition names_wf_b (a : arg) : bool :=
  forallb (fun s => negb (is_nil s) && negb (existsb (N.eqb EngineModel.EQ) s) && utf8_valid s) (long_names a)
  && forallb (fun ch => is_scalar ch && negb (ch =? DASH)) (short_names a).

Lemma names_wf_b_ok a : names_wf_b a = true -> names_wf a.
Proof.
  unfold names_wf_b, names_wf. intros H. apply andb_true_iff in H. destruct H as [Hl Hs].
  rewrite forallb_forall in Hl, Hs. split.
  - intros s Hin. specialize (Hl s Hin). apply andb_true_iff in Hl. destruct Hl as [Hl Hu].
    apply andb_true_iff in Hl. destruct Hl as [Hn He]. split; [|split; [|exact Hu]].
    + intros ->. discriminate Hn.
    + intros Hi. apply negb_true_iff in He.
      assert (existsb (N.eqb EngineModel.EQ) s = true)
        by (apply existsb_exists; exists EngineModel.EQ; split; [exact Hi|apply N.eqb_refl]). congruence.
  - intros ch Hin. specialize (Hs ch Hin). apply andb_true_iff in Hs. destruct Hs as [Hsc Hd].
    split; [exact Hsc|]. apply negb_true_iff in Hd. apply N.eqb_neq. exact Hd.
Qed.

(** ** non-vacuity: the built example command, the words [--o], [-] and [s] *)
Definition ex_lvl : cmd :=
  match build_full (build_fuel EngineProofs.ex_cmd) EngineProofs.ex_cmd with BOk b => b | _ => cmd_new [] end.

Lemma ex_lvl_short_aliases : short_aliases_on_options ex_lvl.
Proof.
  intros a Ha Hne.
  assert (H : forallb (fun a => is_nil (a_short_aliases a) || negb (a_is_positional a)) (c_args ex_lvl) = true)
    by (vm_compute; reflexivity).
  pose proof (forall_args_dec _ _ H a Ha) as Hb. cbv beta in Hb.
  destruct (a_short_aliases a); [tauto|]. cbn [is_nil orb] in Hb. apply negb_true_iff in Hb. exact Hb.
Qed.

(** [p --o<TAB>]: the candidate [--opt] of option [opt]; [p -<TAB>]: the candidate [-o];
    [p s<TAB>]: the candidate [sub] *)
Example ex_accept_hyps :
  assert_app ex_lvl = true /\
  (match complete_arg [] [45; 45; 111] ex_lvl 1 ValueDone with
   | COk l => existsb (fun cd => beq (cd_value cd) [45; 45; 111; 112; 116]
                                 && opt_cid_eqb (cd_id cd) (Some (IdArg EngineProofs.s_opt))) l
   | _ => false end = true) /\
  (match complete_arg [] [45] ex_lvl 1 ValueDone with
   | COk l => existsb (fun cd => beq (cd_value cd) [45; 111]
                                 && opt_cid_eqb (cd_id cd) (Some (IdArg EngineProofs.s_opt))) l
   | _ => false end = true) /\
  (match complete_arg [] [115] ex_lvl 1 ValueDone with
   | COk l => existsb (fun cd => beq (cd_value cd) EngineProofs.s_sub
                                 && opt_cid_eqb (cd_id cd) (Some (IdCmd EngineProofs.s_sub))) l
   | _ => false end = true) /\
  forallb (fun a => negb (a_is_positional a) && names_wf_b a) (c_args ex_lvl) = true /\
  typed_known ex_lvl [45; 45; 111] /\ typed_known ex_lvl [45] /\
  quiet_state ex_lvl [45; 45; 111; 112; 116] 1 false ps_new /\ quiet_state ex_lvl [45; 111] 1 false ps_new.
Proof.
  split; [vm_compute; reflexivity|]. split; [vm_compute; reflexivity|]. split; [vm_compute; reflexivity|].
  split; [vm_compute; reflexivity|]. split; [vm_compute; reflexivity|].
  split; [exact I|]. split; [exact I|].
  split; (split; [vm_compute; reflexivity|split; vm_compute; reflexivity]).
Qed.

(** a cluster: [p -f<TAB>] offers [-fo] (flag [f] known, then the short of [opt]) *)
Example ex_accept_cluster_hyps :
  (match complete_arg [] [45; 102] ex_lvl 1 ValueDone with
   | COk l => existsb (fun cd => beq (cd_value cd) [45; 102; 111]
                                 && opt_cid_eqb (cd_id cd) (Some (IdArg EngineProofs.s_opt))) l
   | _ => false end = true) /\
  typed_known ex_lvl [45; 102] /\ quiet_state ex_lvl [45; 102; 111] 1 false ps_new.
Proof.
  split; [vm_compute; reflexivity|]. split; [vm_compute; reflexivity|].
  split; [vm_compute; reflexivity|split; vm_compute; reflexivity].
Qed.
