(** C16 / C17 (zsh) for the tree the user wrote: [Command::build] keeps a tree in the class [ztame_cmd] (none of the bytes
    34, 39, 92, 35 in a command name, alias, option spelling, possible value, argument id or bin name) of the whole-script
    structure theorems [C17_zsh_script_*], so they speak about the file [generate_zsh] writes for the user's tree.
    [ztame_cmd] is split into the two generic classes that already have preservation theorems: [cmd_plain tame_byte]
    (names, aliases, spellings, bin names: [BuildTexts.cp_build]) and [args_all ztame_arg] (every argument:
    [NushellLexProofs.aa_build]). *)
From ClapModel Require Import Base.Bytes Complete.AotTree Complete.AotProofs Complete.BashModel Complete.FishModel.
From ClapModel Require Import Complete.FishLexProofs Complete.ZshModel Complete.ZshProofs Complete.ZshLexProofs.
From ClapModel Require Import Complete.PathTableLex Complete.BuildTexts Complete.NushellLexProofs Complete.ZshBuildProofs.
From ClapModel Require Import Escape.ShellLex.
From Coq Require Import String.
Open Scope N_scope.
Open Scope list_scope.

Lemma ztame_arg_plain a : ztame_arg a = true -> arg_plain tame_byte a = true.
Proof.
  unfold ztame_arg, tame_arg, arg_plain. rewrite !andb_true_iff. intros [[[[[[[A B] C] D] _] _] _] _]. repeat split; assumption.
Qed.

Lemma forallb_impl {A} (p q : A -> bool) l : (forall a, In a l -> p a = true -> q a = true) -> forallb p l = true -> forallb q l = true.
Proof. rewrite !forallb_forall. intros H Hp a Ha. apply H; [exact Ha|apply Hp, Ha]. Qed.

Lemma ztame_split : forall c, ztame_cmd c = true <-> cmd_plain tame_byte c = true /\ args_all ztame_arg c = true.
Proof.
  induction c as [n al args subs bin h v s g IH] using cmd_ind'. rewrite Forall_forall in IH.
  rewrite ztame_cmd_unfold, cmd_plain_unfold, aa_unfold. cbn [c_name c_aliases c_args c_bin c_subs].
  rewrite !andb_true_iff. split.
  - intros ((((A & B) & C) & D) & E). split; [split; [split; [split; [split|]|]|]|split].
    + exact A.
    + exact B.
    + exact (forallb_impl _ _ _ (fun a _ => ztame_arg_plain a) C).
    + destruct bin; exact D.
    + apply (forallb_impl ztame_cmd); [|exact E]. intros x Hx Hz. exact (proj1 (proj1 (IH x Hx) Hz)).
    + exact C.
    + apply (forallb_impl ztame_cmd); [|exact E]. intros x Hx Hz. exact (proj2 (proj1 (IH x Hx) Hz)).
  - intros (((((A & B) & C) & D) & E) & (F & G)). split; [split; [split; [split|]|]|].
    + exact A.
    + exact B.
    + exact F.
    + destruct bin; exact D.
    + rewrite forallb_forall in E, G. apply forallb_forall. intros x Hx. apply (IH x Hx). split; [exact (E x Hx)|exact (G x Hx)].
Qed.

Theorem build_ztame c bin b :
  build (set_bin_name c bin) = Some b -> ztame_cmd c = true -> tame bin = true -> ztame_cmd b = true.
Proof.
  intros Hb Hc Hbin. apply ztame_split in Hc. destruct Hc as [Hp Ha]. apply ztame_split. split.
  - apply (cp_build tame_byte eq_refl eq_refl eq_refl eq_refl _ b Hb). apply cp_set_bin_name; assumption.
  - apply (aa_build ztame_arg eq_refl eq_refl _ b Hb). apply aa_with_bin. exact Ha.
Qed.

(** C17 for [generate_zsh] on the user's tree: any two assignments of description texts with the same presence shape give
    files with the same token skeleton and the same final lexer state *)
Theorem generate_zsh_text_invariance c d1 d2 bin s1 :
  ztame_cmd c = true -> tame bin = true -> FishLexProofs.erase_desc d1 = FishLexProofs.erase_desc d2 ->
  generate_zsh c d1 bin = Some s1 ->
  exists s2, generate_zsh c d2 bin = Some s2 /\
    skeleton (events sh_step ZB s1) = skeleton (events sh_step ZB s2) /\
    final sh_step ZB s1 = final sh_step ZB s2.
Proof.
  intros Hc Hbin He G1.
  destruct (build (set_bin_name c bin)) as [b|] eqn:Hb; [|unfold generate_zsh in G1; rewrite Hb in G1; discriminate].
  rewrite (generate_zsh_is_built c d1 bin b Hb) in G1. rewrite (generate_zsh_is_built c d2 bin b Hb).
  apply (zsh_text_invariance b (dbuild (set_bin_name c bin) d1) (dbuild (set_bin_name c bin) d2) s1 (build_ztame c bin b Hb Hc Hbin)); [|exact G1].
  apply FishBuildProofs.dbuild_erase_congr. exact He.
Qed.

Example generate_zsh_tame_example : ztame_cmd zx_user = true /\ tame (lit "p") = true.
Proof. split; reflexivity. Qed.
